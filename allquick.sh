#!/bin/sh
# development helper: every quick check, one line each; then whether the stored
# seeded patches still apply to /repo's tree.
cd /verif
for p in $(seq -w 1 20); do ./check C$p quick 2>&1 | grep -v KNOWN | tail -1 | cut -c1-160; done
n=0; bad=0
for d in seeded/*/; do
  [ -f "$d/patch.diff" ] || continue
  n=$((n+1))
  if ! (cd /repo && patch -p1 --dry-run -s -f < "/verif/$d/patch.diff" >/dev/null 2>&1); then echo "SEED-NO-LONGER-APPLIES $d"; bad=$((bad+1)); fi
done
echo "seeds: $n checked, $bad do not apply"
