#!/bin/sh
# Runs the repository's pinned test suite with the guard OFF (no -tags verif).
# Mirrors /root/.vp/BASELINE.json: go test -json over ./... of /repo.
cd /repo || exit 2
export GOFLAGS=-mod=mod GOPROXY=off
unset GOWORK
go test -mod=mod -json -vet=off -count=1 -timeout 25m ./... > /tmp/zy-baseline.$$.json 2>/dev/null
python3 - /tmp/zy-baseline.$$.json <<'PY'
import json,sys
ok=set();bad=set()
for l in open(sys.argv[1]):
    try: e=json.loads(l)
    except Exception: continue
    if e.get('Test') and e.get('Action') in('pass','fail'):
        (ok if e['Action']=='pass' else bad).add(e['Package']+'::'+e['Test'])
want=set(json.load(open('/root/.vp/BASELINE.json'))['stable_pass'])
missing=sorted(want-ok)
print("baseline: passed=%d failed=%d expected=%d missing=%d"%(len(ok),len(bad),len(want),len(missing)))
for m in missing: print("MISSING",m)
sys.exit(1 if missing or bad else 0)
PY
rc=$?
rm -f /tmp/zy-baseline.$$.json
exit $rc
