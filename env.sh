# Hermetic Go environment for the checker (go1.26.8, x/tools v0.29.0, offline).
export PATH=/opt/veriftools/go1.26.8/bin:$PATH
export GOTOOLCHAIN=local GOSUMDB=off GOPROXY=off GOFLAGS=-mod=mod
unset GOWORK
