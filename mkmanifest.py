#!/usr/bin/env python3
"""Regenerates MANIFEST.json from the claims below (one entry per property whose
rules exist and were tested both ways)."""
import json
props=[json.loads(l)['id'] for l in open('properties.jsonl')]

CLAIMS = {
 "C08": dict(
  technique="call-graph reachability (RTA over go/ssa with registered-builtin dispatch and sandbox-flag pruning) to a deny-list of outside-world sinks",
  text="Structural necessary condition, for all scripts at once: in the three sandbox configurations (bare, +StandardSetup, cmd/zygo -sandbox) no call site of a file/process/environment/exit/network/syscall sink is reachable in the modelled call graph from the script-facing entry points, the compiler's special forms, the instructions and the builtins registered in that configuration; the sandbox flag used for pruning is stored at every interpreter allocation. Sound modulo reflection and the deny-list; does not decide resource exhaustion or information flow.",
  note="Trusts go/ssa + RTA resolution of dynamic calls (function values by signature among address-taken functions in reachable code; interface invokes by live types), the deny-list of standard-library sinks in c08.go, and that std functions off the list give no script-controlled outside access. Host-side actions of the command-line driver are exempted one call site at a time in tables/C08.tsv.",
  ref="DESIGN.md §3 C08, §2.2"),
}
NA_DEFAULT="rules not built yet (build in progress; see DESIGN.md §7)"
NA = {}

checks=[]
for p in props:
    if p in CLAIMS:
        c=CLAIMS[p]
        checks.append({
          "property_id":p,
          "quick_cmd":"./check %s quick"%p,
          "thorough_cmd":"./check %s thorough"%p,
          "evidence_file":"/verif/evidence/%s.json"%p,
          "replay_cmd_template":"./check %s quick  # replay file {path} names the obligation key"%p,
          "engine":"zycheck",
          "level_claimed":{"category":"other","text":c["text"],"design_ref":c["ref"]},
          "level_note":c["note"],
          "technique":c["technique"]})
m={"version":1,
 "setup_cmd":"./setup.sh",
 "hooks":{"guard":"verif","enable":"the analyser loads /repo with -tags verif; no hook files exist and no instrumentation is needed (static analysis)","baseline_off_cmd":"./baseline.sh","source_commits":[],"add_only":True},
 "engines":[{"name":"zycheck","path":"zycheck/","serves_properties":sorted(CLAIMS),"kind_free_text":"repository-specific static analyser: go/packages + go/types + go/ssa + go/cfg, own RTA call graph, obligation ledger with tables and known findings"}],
 "checks":checks,
 "notes":"Static analysis only; every claim is a structural necessary condition of the property (level other), see DESIGN.md. Exit 0 + KNOWN-FINDING lines for recorded defects, exit 1 + VIOLATION for anything else (including undecided obligations), exit 2 CHECK-ERROR when the tree does not load.",
 "not_applicable":[{"property_id":p,"reason":NA.get(p,NA_DEFAULT)} for p in props if p not in CLAIMS]}
json.dump(m,open('MANIFEST.json','w'),indent=1)
print("claims:",sorted(CLAIMS))
