#!/usr/bin/env python3
"""Regenerates MANIFEST.json from the claims below (one entry per property whose
rules exist and were tested both ways)."""
import json
props=[json.loads(l)['id'] for l in open('properties.jsonl')]

CLAIMS = {
 "C08": dict(
  technique="call-graph reachability (RTA over go/ssa with registered-builtin dispatch and sandbox-flag pruning) to a deny-list of outside-world sinks",
  text="Structural necessary condition, for all scripts at once: in the three sandbox configurations (bare, +StandardSetup, cmd/zygo -sandbox) no call site of a file/process/environment/exit/network/syscall sink is reachable in the modelled call graph from the script-facing entry points, the compiler's special forms, the instructions and the builtins registered in that configuration; the sandbox flag used for pruning is stored at every interpreter allocation. Sound modulo reflection and the deny-list; does not decide resource exhaustion or information flow.",
  note="Trusts go/ssa + RTA resolution of dynamic calls (function values by signature among address-taken functions in reachable code; interface invokes by live types), the deny-list of standard-library sinks in c08.go, and that std functions off the list give no script-controlled outside access. Host-side actions of the command-line driver are exempted one call site at a time in tables/C08.tsv.",
  ref="DESIGN.md §3 C08, §2.2"),
 "C19": dict(
  technique="who-writes tables + SSA dominance/guard checks on the interning routine (custom go/ssa analysis)",
  text="Structural necessary conditions of consistent interning, for all creation orders: the name table, the reverse table and the counter are written only by the interning routine and the constructors; both tables are updated in the same block with swapped key/value; the number given to a new name is the counter, tested unused in the reverse table with no counter change in between; a known name yields its recorded number; a generated name is interned only on the not-found branch of a lookup of that same name; Clone/Duplicate share both tables by reference; comparison and hashing of symbols read the number only. Does not decide agreement with a model over interleavings.",
  note="Trusts go/ssa; the rules recognise the current idioms of MakeSymbol/GenSymbol (comma-ok lookups, loop with break) and fail closed on shapes they cannot read.",
  ref="DESIGN.md §3 C19"),
 "C14": dict(
  technique="who-writes tables + SSA guard/dominance analysis of the set/delete/get routines (custom go/ssa analysis)",
  text="Structural necessary conditions of the ordered-map behaviour, for all operation histories: bucket map, key-order list and key count are written only by HashSet/HashDelete/SetHashKeyOrder/CloneFrom/MakeHash; in HashSet a pair is created, the key appended and the count incremented together and only under a bucket-missing or no-match-found guard, never on the replace path, and the replace path stores into the bucket; in HashDelete bucket, count and order list change only on the key-matched path and all three do change there; set, get and delete accept a pair exactly when Compare returned nil error and 0; get returns a stored value only for the matching pair. Does not decide agreement with an ordered-map model over histories, nor the aliasing introduced by CloneFrom.",
  note="Trusts go/ssa; recognises the current loop/flag idioms and fails closed otherwise.",
  ref="DESIGN.md §3 C14"),
 "C13": dict(
  technique="residue-field reset analysis (who-writes / who-reads over go/ssa), guard and loop-back checks on the more-input idiom, lexer-state table extraction",
  text="Structural necessary conditions of history- and chunking-independence: every Lexer/Parser field that a lexing/parsing routine writes and any routine reads is re-initialised by Lexer.Reset / Parser.Reset / Parser.ResetAddNewInput (siblings agree, parser resets reset the lexer, new input is queued after the reset); lexer residue is written only by Lexer methods and queuing input touches only the stream queue; each of the six descent routines, on TokenEnd, stores ErrMoreInputNeeded, yields and peeks again; every in-literal lexer state is announced by a begin token or tested on the end-of-text path; the top-level end-of-text path flushes the pending atom and parses it; GetNextToken removes exactly one token and PeekNextToken none. Does not decide equality of pieced and whole parses on actual texts.",
  note="Trusts go/ssa. Exemptions (tables/C13.tsv): the three synthetic `hash` token prepends in ParseExpression; the recursion counter balanced by deferred decrements.",
  ref="DESIGN.md §3 C13, Appendix B"),
 "C05": dict(
  technique="error-use dataflow over go/ssa (dropped / overwritten-on-a-path / not propagated), capture-restore bracket and truncate-before-error-return path checks",
  text="Structural necessary conditions of error containment: in every function of the interpreter package each error returned by a repository function is tested, returned or passed on, is not overwritten or abandoned on any path to a success return, and the non-nil branch does not return nil; every function that captures the VM control state restores it before each possibly-non-nil error return after the capture, and every caller of CallFunction has such a bracket, is an instruction's Execute (inside Run's bracket) or is tabled; CallResolved truncates the data stack before every error return after argument preparation; LoadExpressions appends compiled code only on the success branch; Run parks pc after restoring; every ParseTokens caller resets the parser first. Does not decide equivalence with a twin interpreter after a failure, nor compile-time side effects of a failed load.",
  note="Trusts go/ssa. Accepted idioms are in the checker (callee that only signals io.EOF; GetNextToken after a checked peek); 21 keyed exemptions with reasons in tables/C05.tsv.",
  ref="DESIGN.md §3 C05"),
 "C20": dict(
  technique="map-iteration classifier over the type-checked syntax tree + call-graph effect summary (symbol counter, package variables, printing); enumeration of script-written package variables",
  text="Structural necessary condition of run-to-run determinism: every `range` over a Go map in the interpreter package and the command is order-independent by construction (keyed map writes, deletes, integer counts, idempotent flags, append followed by a sort before any other use, constant-answer predicates, no call that reaches the symbol counter / a package variable / printing), is unreachable from the entry points, or is tabled for the named categories only; package-level variables written on script-reachable paths are enumerated and frozen. Does not decide time, randomness, pointer printing or scheduling.",
  note="Trusts go/types + go/ssa + the RTA graph. Nine loops are tabled with reasons and the categories they may show; two genuine findings are recorded in known_findings.json (error text of togo with several unknown fields; process-global struct registry).",
  ref="DESIGN.md §3 C20"),
 "C07": dict(
  technique="arithmetic-shape lints over go/ssa (sign of difference, unsigned difference, NaN-test dominance), table extraction from the operator switch and the numeric type switches, barrier analysis for integer division",
  text="Structural necessary conditions of exact comparison: no three-way result from the sign of a 64-bit integer difference (unless both operands are widened from <=32 bits or lengths) or of an unsigned difference; an IsNaN test of every float operand dominates each sign-of-float-difference; CompareFunction maps each operator to the matching predicate on the three-way result and the unordered codes to false except !=; Compare routes each numeric type to its routine and the numeric type-pair matrix is symmetric; in the numeric tower an arm with one float operand converts the other with float64() and uses the float routine, integer arms stay integer; every integer / and % with a non-constant divisor is reachable only behind the builtin recover barrier (division by zero is an error). Does not decide numerical results, Pow, or wrap-around values.",
  note="Trusts go/ssa and the AST shapes of the operator switch / type switches (fail closed when not recognised). One exemption: symbol-number difference in compareSymbol.",
  ref="DESIGN.md §3 C07"),
 "C17": dict(
  technique="who-writes table + dominance / path analysis over go/ssa of the field-check, record-check, pointer-write and re-binding routines",
  text="Structural necessary conditions of type enforcement on every write: the bucket map is written only by HashSet/HashDelete/CloneFrom/MakeHash (all write routes funnel through HashSet); in HashSet the field type check dominates every mutation, its error (other than the not-a-symbol sentinel) is returned from a branch that mutates nothing; in TypeCheckField an undeclared field and a type mismatch reach an error on every path except the HasPrefix-guarded empty-slice exception; MakeHash returns the errors of the initial HashSets and of TypeCheckRecord, which checks every key; CloneFrom through a pointer is guarded by registered-type identity; typed re-binding stores only under an acceptance test and otherwise ends in an error. Does not decide that the type comparison is right for every field type, nor redefinition semantics.",
  note="Trusts go/ssa; fails closed when the routines lose the shapes read today.",
  ref="DESIGN.md §3 C17"),
 "C18": dict(
  technique="path analysis over go/ssa of the two path walkers (every path from lookup to yield/assign passes the privacy test or a package type test), shape check of the privacy predicate, who-may-call table for the unbounded scope walk",
  text="Structural necessary conditions of package privacy: in Stack.nestedPathGetSet every path from the symbol lookup to a point that yields a value, assigns a member or descends into a hash passes a checked errIfPrivate on that hop's name, or takes the is-a-package edge; the hash walker is handed the package and, when it has one, checks every member it yields or assigns the same way; errIfPrivate is an error exactly when unicode.IsUpper of the first rune of the dot-stripped name is false; Stack.LookupSymbol is called only by the walker, closures' captured scopes and FindObject. Does not decide behaviour per program, nor printing of package values.",
  note="Trusts go/ssa; fails closed when the walkers lose the shapes read today.",
  ref="DESIGN.md §3 C18"),
 "C16": dict(
  technique="sibling-agreement checks over go/ssa on the three argument-marshalling sites, shape checks of the laziness predicate, memo and environment stores in Force",
  text="Structural necessary conditions of lazy parameters: PrepareCallExprArgs, GenerateCallArgsForFunction and Apply each test IsLazyCallArg on the argument's position, build the (source / source-instruction / value) wrapper exactly on its true branch, continue the loop there, and evaluate or push every other position exactly once; Go builtins are excluded (!user guards); the laziness flags are written only in SetFormalSymbols from isLazyFormalSymbol, which tests the # sigil; IsLazyCallArg is false in a variadic tail; Force returns the memo under the forced flag and otherwise stores value and flag before every successful return, installs a clone of the captured scope stack after capturing the control state and the captured function as parent; NewSourceLazyArg captures both; SubstituteFunction cannot reach Force. Does not decide effect counts/order for concrete programs.",
  note="Trusts go/ssa (including its lowering of range loops); fails closed on other shapes.",
  ref="DESIGN.md §3 C16"),
 "C01": dict(
  technique="recover-barrier reachability over the RTA call graph + enumeration of panic sources outside the barrier (explicit panics, unchecked type assertions, compiler-unproven bounds checks from the Go prove pass, integer division), nil-result dataflow, who-may-call for process exit and blocking operations",
  text="Structural necessary conditions of crash containment, for all inputs: every dynamic call of a builtin function value is made in a frame with a deferred recover that does not re-panic (one tabled exception); on code reachable from the script-facing entry points without passing such a call, each explicit panic/panicOn, each single-result type assertion (unless dominated by a successful comma-ok test of the same value), each index/slice/make the compiler's prove pass cannot show in range, and each integer division is discharged by a keyed table row naming the invariant it rests on - any new such construct is reported; builtin-shaped functions and entry points cannot return (nil value, nil error); Stack.Get's underflow test dominates its element access, stack bookkeeping is written only by the stack primitives and TruncateToSize never grows; os.Exit/log.Fatal appear only in the exit builtin and the command driver; blocking channel operations reachable from scripts are reported (two recorded findings). Does not decide termination, nil dereference in general, or stack exhaustion by deep nesting.",
  note="Trusts go/ssa, the RTA graph, and the soundness of the Go compiler's bounds-check elimination listing (go build -gcflags=-d=ssa/check_bce, replayed from the build cache). 194 table rows (tables/C01.tsv) carry invariants established by reading; a 2M-input random smoke run during development (not part of the check) produced no escaping panic after the fixes.",
  ref="DESIGN.md §3 C01"),
 "C06": dict(
  technique="table extraction from the type-checked syntax tree (operator registrations, constructor recursion, climbing-loop condition, left-binding-power switch, lexer operator regex parsed with regexp/syntax) compared with the property's precedence table as an order relation",
  text="Structural necessary conditions of the precedence table: each operator named by the property is registered in InitInfixOps with the constructor of its class (Assignment / Infixr for right-associative, Infix, Prefix for not), classes are uniform and strictly ordered assignment < comma < or/and < comparison < additive < multiplicative < power < not < indexing = field access; the constructors parse the right operand with bp or bp-1 as their associativity requires and record bp as the operator's left binding power; Pratt.Expression stops exactly when rbp >= LeftBindingPower(next); LeftBindingPower returns the registered power for operators, the index power for arrays and dotted symbols, the comma's own power, 0 for if; every registered operator spelled with operator characters is an alternative of the lexer's operator regex or has a dedicated lexer state. Does not decide +/- sign classification, statement splitting, go-style for lowering, if/else, or value equality with the prefix form.",
  note="Trusts go/types constant evaluation and regexp/syntax. Renumbering binding powers is fine as long as the order holds.",
  ref="DESIGN.md §3 C06"),
 "C12": dict(
  technique="table extraction and agreement checks between printer and reader (escape alphabet of strconv.Quote vs the reader's escape switch, token kinds vs parser arms, numeric bases vs stripped prefixes), byte-to-rune conversion lint and float-format lint over go/ssa, end-of-text flush path check",
  text="Structural necessary conditions of print/read round trip: the string and char printers use strconv.Quote/QuoteRune and every escape those can emit has an arm in EscapeChar (the three multi-character escapes are recorded findings); lexer.go/parser.go never convert one byte of a string to a rune; SexpFloat.SexpString never returns the bare shortest fixed-point text; every token kind produced by DecodeAtom has an arm in ParseExpression (backslash is structural) and decimal/hex/octal/binary arms parse with base 10/16/8/2 from the text the lexer hands over with the two-character prefix stripped; the top-level end-of-text path flushes and parses the last atom. Does not decide float text exactness, the regex cascade, or equality of read-back values.",
  note="Trusts the documented output alphabet of strconv.Quote/QuoteRune, go/types constants and go/ssa.",
  ref="DESIGN.md §3 C12"),
 "C11": dict(
  technique="string-provenance dataflow over go/ssa on the JSON encoder (every concatenated piece is a constant, a quoted string or a recursive encoding), table agreement of reserved keys between encoders and decoders, sorted-walk / order-restoring / canonical-handle checks",
  text="Structural necessary conditions of well-formed, order-preserving encodings: every text returned by SexpToJson / jsonHashHelper / jsonArrayHelper is built only from encoder constants, jsonQuote results (encoding/json), recursive encoder results, or the printer of a number/bool; strings, symbols, keys, key-order entries and the type name are quoted; nil is null; encoders and decoders agree on the reserved keys Atype and zKeyOrder; decoders walk maps through a sorting helper and restore order from the key list when found; both codec handles are canonical; msgpack goes through SexpToJson. Non-finite floats are a recorded finding. Does not decide value equality after the round trip or number formatting.",
  note="Trusts encoding/json for string escaping and go/ssa for the provenance walk.",
  ref="DESIGN.md §3 C11"),
 "C10": dict(
  technique="exhaustiveness and agreement checks on the converters' type switches against the field types of the registered demo structs (go/types), dedup-argument dataflow over go/ssa, path check of the unknown-field branch, barrier reachability",
  text="Structural necessary conditions of lossless conversion: in SexpToGoStructs, SexpToGo, fillHashHelper and decodeGoToSexpHelper the arm for a kind without a conversion ends in an error or panic (three recorded findings where it does not); for every field type of the structs registered by RegisterDemoStructs/ImportDemoData record->Go has the arm of the carrying value type and Go->record has an arm for the Go type (five recorded findings, e.g. time.Time, pinned by the test suite); every recursive SexpToGoStructs/SexpToGo call passes the caller's dedup cache, which is read before and written after converting a record; a record field missing from the struct leads to the capitalised retry or a panic; the converters are reachable only behind the builtin recover barrier. Does not decide value equality after a trip, nor shared-object identity.",
  note="Trusts go/types for the struct field walk and go/ssa for the argument flow; demo-struct registration is read from the factory literals.",
  ref="DESIGN.md §3 C10"),
 "C09": dict(
  technique="abstract interpretation of the code generator's Go source over a domain of emission sequences (atoms, symbolic lengths, tail flag, scope counter) + template verification (tail transparency, scope accounting, tail-call shape)",
  text="Structural necessary conditions of free and invisible tail calls, for all function bodies by induction over the generator: every sub-form compiled with the tail flag possibly set (and able to emit the tail jump, per a fixpoint over the generator's call sites) is followed in its generator only by scope removal, return or a jump proven to reach the end; the tail self-call is `arguments with the flag cleared, RemoveScope x gen.scopes, PrepareCall(same arity), RemoveScope, Goto 0`, emits no call instruction and is selected only under `tail flag && callee is the function being compiled`; the generator's scope counter equals the number of open non-function scopes wherever a sub-form, break or continue is compiled, is restored at the end of every form, and compiled functions are framed AddFuncScope ... RemoveScope Return. Does not decide memory at depth 10^5 or equality with an unoptimised run.",
  note="Trusts go/types and the ES interpreter's model of the Go subset used by the emitters (it fails closed: unmodelled code is an undecided obligation). Two path-correlation exemptions in tables/C09.tsv.",
  ref="DESIGN.md §2.3, §3 C09, Appendix F"),
 "C04": dict(
  technique="abstract interpretation of the code generator (emission sequences) + operand-stack / marker / scope simulation of every template, instruction-effect extraction from each Execute over go/ssa, builtin stack-neutrality summaries, bracket checks on Run/Load/eval",
  text="Structural necessary conditions of `nothing left behind`, for all programs by induction over the generator: every emission sequence nets exactly one operand per form (zero per popped statement) on all control paths with consistent depths at joins, nests markers and stack marks properly, opens and closes scopes in pairs with the generator's counter in step; each instruction's Execute has exactly the operand effect the verifier assumes; builtin-shaped functions leave the interpreter's data stack as they found it (call machinery excepted); Run pops exactly one result, the resume pop is emitted only under !ReachedEnd(), eval truncates to its starting depth, address-stack and loop-stack pushes are paired with pops. Four recorded findings (include / source of several files, a splice as a whole template). Does not decide heap growth or depth after failed evaluations.",
  note="Trusts go/types, go/ssa and the ES model (fails closed). Effects of data-dependent instructions (Squash, Call...) are table rows with a stated reason.",
  ref="DESIGN.md §2.3, §3 C04, Appendices A and F"),
 "C02": dict(
  technique="abstract interpretation of the code generator with symbolic sequence lengths: every relative jump/branch/loop offset is checked to land on an atom boundary; operand-depth simulation; tail-position check; program-counter discipline of every Execute; dominance order of callee/arguments/call",
  text="Structural necessary conditions of the reference semantics, for all programs by induction over the generator: all Jump/Branch offsets and the loop's break/continue offsets, computed as linear forms over the unknown lengths of sub-forms, equal the distance to a boundary of the emitted sequence (break on the cleanup, continue where the body's back-jump goes, the loop test's exit behind the back-jump); each form leaves one value and statements are separated by one pop on every path; tail jumps only in tail position; every Execute sets or advances pc exactly once on success; CallExprInstr evaluates the callee, resolves it, then CallResolved marshals the arguments (one evaluation and one push each, slice order) before any function is entered; variadic packing rejects too few arguments and pushes exactly one rest value. Does not decide values, truthiness, or which of several valid boundaries a jump targets.",
  note="Trusts go/types, go/ssa and the ES model (fails closed).",
  ref="DESIGN.md §2.3, §3 C02, Appendix F"),
 "C15": dict(
  technique="abstract interpretation of the syntax-quote emitters in the code generator (emission sequences) + marker / operand-depth / tail-transparency verification of every quasi-quote template; who-writes analysis of the duplicate interpreter used for macro expansion; agreement of the lexer's quote tokens, the parser's sugar table and the generator's dispatch",
  text="Structural necessary conditions of exact substitution, for all templates by induction over the generator: every syntax-quote emitter brackets its elements with exactly one marker and one matching closer (Squash for lists, the array/hash closer for arrays and hashes), emits one value per literal element, compiles an unquoted expression as an ordinary non-tail expression netting one value, and explodes a splice inside the enclosing marker; macro expansion runs the body in Duplicate(), whose data, scope, address and loop stacks are freshly allocated (macro, symbol and builtin tables shared, the global scope installed at the bottom), and every macro application site applies the macro on that duplicate, never on the compiling interpreter; the reader maps ` ~ ~@ to syntaxQuote / unquote / unquote-splicing one-to-one and the generator dispatches on exactly those names; the lexer decides ~ versus ~@ on the next rune without consuming anything else. Two recorded findings (a splice as a whole template). Does not decide the values substituted nor evaluation order of unquoted expressions beyond slice order.",
  note="Trusts go/types, go/ssa and the ES model (fails closed).",
  ref="DESIGN.md §2.3, §3 C15, Appendix F"),
 "C03": dict(
  technique="typestate / dataflow rules over go/ssa on the scope machinery (closure snapshot, bounded look-up, scope allocation, binding, current-function switch) + who-may-call analysis over an RTA call graph for whole-stack look-ups + emission-sequence check that every scope-opening form opens its scope before its sub-forms",
  text="Structural necessary conditions of lexical scoping: CreateClosure pushes a Copy() of the compiled function on which SetClosing installed NewClosing's result, never the shared template; NewClosing clones the live scope stack (sharing scope objects: Clone reaches no scope allocator), scans from the top, leaves the loop at the first function scope and keeps elements[i:tos+1]; every look-up LexicalLookupSymbol makes on the live stack is LookupSymbolUntilFunction with constant bound 1, it runs before any captured-stack look-up and its hit is returned; whole-stack look-ups on the live stack are unreachable from evaluation (RTA); LookupSymbolUntilFunction visits Get(0),Get(1).. (= elements[tos-n]), searches a scope's own map before the boundary test, counts function scopes only and on every path after a function scope passes `count >= maximum`, whose true branch leaves the loop; AddScope/AddFuncScope push a scope allocated (with a new map) in that execution, AddFuncScope marks it IsFunction before pushing; every emission sequence of let/letseq/newScope/for/package/compiled functions opens its scope before any sub-form and binds parameters right after AddFuncScope; def binds only elements[tos] without look-up, set writes through the look-up into the scope that held the name and defines only when the look-up failed; popping a scope writes no Scope; CallFunction makes the callee the current function (caller saved with the return address) and ReturnFromFunction restores it. Tail calls re-enter through a fresh function scope (ES-G under C09). Does not decide the outcome of look-ups for particular programs.",
  note="Trusts go/types, go/ssa, the RTA graph's address-taken assumption and the ES model (fails closed).",
  ref="DESIGN.md §3 C03"),
}
ADDED = {
 "C01": " Added after seeded changes: table exemptions for indexes and assertions carry machine-checked anchors (a dominating length test of the indexed value; a checked ParserPeekNextToken(k') with k' >= k plus the peek contract; the asserted value's producer returns only that type) and hold only while those hold; the parked parser coroutine is stopped before its yield function is cleared; every print state derived from a non-nil one shares its Seen set (Show/SexpString terminate on cyclic scope graphs).",
 "C02": " Also: the generator's scope counter equals the open scopes at every sub-form (ES-S); the stack-mark unwinding instructions stop only at the mark carrying their own symbol; map applies the function to the head before mapping the tail and walks arrays upwards.",
 "C03": " Also: the emission sequence selected for let compiles every right-hand side before any binding and binds in reverse push order, letseq binds one by one; the first live look-up does not consult the compiled template's snapshot, which is consulted only after the closure's captured scopes.",
 "C04": " Also: ClearStackmark / PopUntilStackmark succeed only on the mark carrying the instruction's own symbol.",
 "C05": " Also: routines that stop the parked parser coroutine do so before installing the next parse's accumulator or input; a lazy argument is marked forced only on paths that return no error; a push on the compile-time loop stack is popped on every later return.",
 "C06": " Also: the last rune of every symbolic binary operator is in the lexer's sign-context set; all push/pop/top sites of the operand stack use the same end of the slice; only selectors of at most one token skip the infix re-parse.",
 "C07": " Also: the result of a comparison that can return the NaN code is not negated or scaled before being tested; an integer quotient becomes a language integer only under a % b == 0 on the same operands; no uint64 reaches float64 through a signed integer.",
 "C10": " Also: no append on a loop-invariant slice whose result is retained (embed paths), the target of a recursive element conversion is allocated inside the loop, and the Go value is attached to the record only after a successful fill.",
 "C11": " Also: the loop over a decoded map's entries is left only when exhausted or with an error; encoded bytes returned to the caller come from a buffer local to the call.",
 "C12": " Also: every read of the lexer's look-back ring is (cursor - k) mod N for one k; `.0` is appended only to finite whole values.",
 "C13": " Also: the parser coroutine is stopped before new input or a new accumulator is installed; every parser routine that peeks the lexer directly runs the more-input protocol itself; ParserPeekNextToken returns a nil error only with a real token.",
 "C14": " Also: stored keys are never matched with == on the key objects; the bucket written back after a delete is bucket[:i] ++ bucket[i+1:] and the bucket is dropped only when that remainder is empty; the order list itself is never stored elsewhere, returned or boxed.",
 "C15": " Also: a template object is pushed as itself only on paths where it is neither an array nor a hash; the expansion of a macro is compiled with the caller's scope count and tail flag (ES-S/ES-T at the expansion site).",
 "C16": " Also: a promise is marked forced only on paths returning no error; a function is entered in knownFunctions before its own body is compiled.",
 "C17": " Also: the value handed to the field type check is the value hashed and stored; the only tolerated mismatch is observed `[]` into a declared `[]T`; StructBuilder never registers a type without its definition.",
 "C18": " Also: the look-up that precedes the privacy test is a pure read.",
 "C19": " Also: the hand-out of a number is not reachable from the `number in use` side without re-testing.",
 "C20": " Also: the address of a package-level scalar handed to a writer (sync/atomic, setters) on a script-reachable path counts as a write.",
}
for k,v in ADDED.items():
    CLAIMS[k]["text"] = CLAIMS[k]["text"] + v
ADDED2 = {
 "C01": " Round three: interface calls outside the recover barrier resolve to every type made live anywhere (values escape the barrier); the lexer flushes its pending atom before queueing the next token; the parser's push iterator calls the consumer's yield only through a guard that remembers a false answer.",
 "C02": " The generator's constructors and Reset establish what the abstract interpreter assumes of them (ES-CTOR).",
 "C03": " The generator's scope count equals the open scopes at every sub-form (ES-S) and its constructors establish what the interpreter assumes (ES-CTOR).",
 "C04": " The parser coroutine is stopped before the next parse's state is installed; ES-CTOR.",
 "C05": " An error tested inside a loop is not carried round the loop to be overwritten by the next iteration.",
 "C06": " The look-back ring that decides sign versus operator is read at (cursor - k) mod N including the wrapped case; no interpreter symbol is stored in a package-level operator record.",
 "C07": " The float quotient of two integers is reached only after the integer modulo ran (a zero divisor has raised its error); no identity shortcut in the comparison code.",
 "C09": " The tail jump makes the arity test an ordinary call makes; a let binding or parameter named like the function ends self-call recognition; a function is registered before its body is compiled; ES-CTOR.",
 "C11": " The msgpack encoder is called only with JsonToGo's result.",
 "C12": " The raw-printing (backtick) flag is set by the reader only and no string value is copied wholesale.",
 "C13": " The final flush feeds a newline; the pending atom is flushed before the next token is queued.",
 "C14": " The constructor writes only empty initial values of map, order list and count.",
 "C15": " The interning rules of C19 hold (expansions intern into the tables they share with the caller).",
 "C16": " ES-CTOR: sub-generators share knownFunctions and Reset keeps it.",
 "C17": " A non-symbol key is an error for an instance of a declared struct; CloneFrom copies every field the type check consults; one recorded finding (element writes into slice-typed fields).",
 "C18": " The package-aware hash walker never hands the rest of a path to the package-less wrapper.",
 "C20": " Comparators that order map-derived data compare the keys themselves.",
}
for k,v in ADDED2.items():
    CLAIMS[k]["text"] = CLAIMS[k]["text"] + v
ADDED3 = {
 "C01": " After the defect hunt: a function that hands the elements of a script container to a call chain that comes back to itself consults and extends a set of visited containers first, or consumes a slice argument (C01-REC; the array, hash and field printers do, 16 other walkers are recorded findings: a container that contains itself overflows the Go stack); panic obligations are named by the origin of the panic value, not by SSA register.",
 "C02": " No Go append on the storage of one script array becomes the storage of another (C02-SHARE; three recorded findings: append, appendslice, concat).",
 "C03": " The function whose captured scopes a look-up searches comes from a routine that steps over Go builtins to the calling compiled function (C03-LEXFN); let's right-hand sides are not evaluated inside the let's own scope (C03-LETSCOPE: recorded finding).",
 "C05": " A Go builtin is called through userfun only inside a capture/restore bracket; a function that registers a user type and can fail afterwards has a deferred undo (C05-UNDO).",
 "C06": " Every rune that emits a reader-prefix token (% ^ ~ @) is in the sign-context set; ParseInfix takes a sign that follows an operand itself instead of handing it to the Inf fusion (C06-INF); the colon DecodeAtom sets aside is emitted after a non-symbol atom (C06-COLON).",
 "C09": " The jump is taken only when the name resolves to the running function (C09-SELF), PrepareCall is told exactly the length of the jump sequence, and every argument routine of CallFunction (lazy wrapping, name/type check, variadic packing) is also run before the jump.",
 "C10": " SetInt follows OverflowInt or a known int64, int64(f) follows a two-sided range test, float64(i) a round-trip test (C10-RANGE); a field is reached through its embed path in both directions (C10-EMBED).",
 "C11": " User keys are compared with the reserved names before they are written (C11-RESV); number types without an arm in the encoder print digits only; no hash is given another hash's order list or buckets (C11-SHARE).",
 "C12": " No data printer pastes the raw text of a string value into its output (C12-RAW).",
 "C13": " The look-ahead that asks for more input is taken by the expression parser only in the arm of an opening token or at depth above 0 (C13-TOPEND); a nested expression is read only by a routine that waits for a token (C13-OPERAND); every direct look-ahead inside an open construct tests for TokenEnd (C13-PEEKEND).",
 "C14": " Symbol keys are matched by number through a comparator that decides two symbols itself (C14-SYM); no hash is given another hash's order list or buckets (C14-SHARE).",
 "C15": " The operand reader of ~ ~@ ^ % drops comments (C15-OPERAND); defmac refuses every head the call generator's switch compiles itself (C15-FORMS); the prefix runes are sign contexts (C15-SIGN).",
 "C16": " The value pushed for a compiled function has passed through RValue in the caller, and so has the value a forced promise memoises (C16-DOT); laziness is asked for the parameter a label names (C16-NAMED); every routine that compiles a named function body makes the function known to the generator first, and the tail path prepares its arguments for the function being compiled (C16-REG, C16-SELFARGS).",
 "C17": " Instance type and constructor definition are not looked up by name in the package-level registry (C17-IDENT: two recorded findings).",
 "C18": " The captured scopes searched for a dot path handed to a builtin are those of the calling compiled function (C18-LEXFN).",
 "C19": " Symbol keys are matched by number (C19-KEY); Compare does not dereference symbol operands (C19-DEREF: recorded finding).",
 "C20": " No text returned to the script is formatted with %p, with %v/%#v of a script value or of a type holding nested pointers, or from runtime.Stack (C20-ADDR; five diagnostic dumps exempt by table, the stack trace in the error text of a panicking builtin is a recorded finding).",
}
ADDED4 = {
 "C01": " After round 4: the exemption of an unchecked assertion that follows a validating call holds only while that call succeeds solely on paths that found the same field path to be of the asserted type; a constant nil handed to a pointer parameter outside the barrier is followed into its uses (C01-NILARG).",
 "C04": " A routine that rewrites the arguments of a call on the data stack pops *nargs, pushes the list and stores its length, with no other adjustment (C04-ARGS).",
 "C06": " After e / E a sign is written into the pending atom only on the true side of a number-pattern match of that atom (C06-EXP).",
 "C07": " A float sign routine returns a nonzero result only under the matching strict comparison with zero (C07-SIGN).",
 "C09": " The last sub-form of begin, let, newScope, the default cond arm and the last and/or arm is compiled with the incoming tail flag (C09-LAST).",
 "C12": " A printer that marks a container as seen and forgets it does so on every exit (C12-SEEN).",
 "C13": " The lexer's pending atom is terminated only at nesting depth 0 (C13-FLUSHTOP).",
 "C16": " Every value pushed on the lazy branch of the run-time route is the source wrapper.",
 "C17": " Derived slice and pointer types are interned under a constant prefix plus the element type's RegisteredName (C17-DERIVED).",
 "C18": " The path element that passes the privacy test is the one whose name is assigned, in the same iteration (C18-HOP).",
}
for k,v in ADDED4.items():
    CLAIMS[k]["text"] = CLAIMS[k]["text"] + v
for k,v in ADDED3.items():
    CLAIMS[k]["text"] = CLAIMS[k]["text"] + v
ADDED5 = {
 "C01": " After the focused hunts: a nil reflect type, a nil registry entry and a nil result of a type factory are followed to their uses (C01-NILTYPE, C01-NILPATH, C01-REFLECT); the methods of a type whose empty prototype the registry hands to scripts do not dereference its fields unguarded (C01-PROTO); a driver loop without a condition does not go round again after its input could not be read (C01-RETRY); no process-level state that the set-up of an interpreter reads is written from the script side under a name the script chose (C01-SETUP); every call in Run that re-enters Run, and every place where the compiler compiles what a macro returned or a file contained, is behind a depth counter compared with a bound (C01-NEST); no function calls itself along the spine of a list (C01-SPINE). Not decided: that the bound fits a particular host's stack; recursion on the nesting depth of the text; indirect recursion along a list.",
 "C02": " Map over a list applies the function to the head of the pair the loop stands on and moves on by the tail (or to collected elements at an ascending index).",
}
for k,v in ADDED5.items():
    CLAIMS[k]["text"] = CLAIMS[k]["text"] + v
ADDED6 = {
 "C01": " The parser's recursion passes through one hub that compares its depth counter with a bound (C01-DEPTH).",
 "C04": " The loader starts the main function afresh when the interpreter is at rest, and a generated name is never bound (C04-GROW; one interned symbol per compilation of fn/for/package/range is a recorded finding).",
 "C05": " eval brackets its nested run with capture/restore, the capture before the frame is pushed (C05-CAP); the undo of a failed declaration hands the previous type to nothing that stores into it (C05-UNDO); callers of GenerateBegin outside the generator put the macro table back when the text does not compile (C05-MACRO; the run-time half is a recorded finding).",
 "C12": " Reader-made symbol names match the lexer's own symbol pattern (C12-SYMNAME); the words printed for nil and booleans have a literal in the reader (C12-WORD); a point after a minus sign is looked at separately when the number patterns accept -.5 (C12-SIGNFRAC). Constant patterns of the package are compiled and matched in the checker; no code of the package is run.",
 "C13": " flushAtEnd, entered in any state in which LexNextRune holds a token back (derived), lexes a terminator or asks for more input (C13-FLUSHALL); a routine that discards comments does not flush a pending line comment (C13-FLUSHCMT).",
}
for k,v in ADDED6.items():
    CLAIMS[k]["text"] = CLAIMS[k]["text"] + v
ADDED7 = {
 "C01": " The nesting counter used at a self-feeding site belongs to an interpreter the routine was handed; a pointer field that the package tests against nil somewhere is not used as another package's receiver without a test (C01-NILFIELD).",
 "C04": " After a successful count of a nesting level every way out of the routine counts it out (C04-NEST).",
 "C05": " The undo of a failed declaration also removes the early binding of the name, under completion flags only.",
 "C13": " On every path the last call before a direct GetNextToken that touches the token stream is a look-ahead (C13-GETWAIT).",
}
for k,v in ADDED7.items():
    CLAIMS[k]["text"] = CLAIMS[k]["text"] + v
NA_DEFAULT="rules not built yet (build in progress; see DESIGN.md §7)"
NA = {}

checks=[]
for p in props:
    if p in CLAIMS:
        c=CLAIMS[p]
        checks.append({
          "property_id":p,
          "quick_cmd":"./check %s quick"%p,
          "thorough_cmd":"./check %s thorough"%p,
          "evidence_file":"/verif/evidence/%s.json"%p,
          "replay_cmd_template":"./check %s quick  # replay file {path} names the obligation key"%p,
          "engine":"zycheck",
          "level_claimed":{"category":"other","text":c["text"],"design_ref":c["ref"]},
          "level_note":c["note"],
          "technique":c["technique"]})
m={"version":1,
 "setup_cmd":"./setup.sh",
 "hooks":{"guard":"verif","enable":"the analyser loads /repo with -tags verif; no hook files exist and no instrumentation is needed (static analysis)","baseline_off_cmd":"./baseline.sh","source_commits":[],"add_only":True},
 "engines":[{"name":"zycheck","path":"zycheck/","serves_properties":sorted(CLAIMS),"kind_free_text":"repository-specific static analyser: go/packages + go/types + go/ssa + go/cfg, own RTA call graph, obligation ledger with tables and known findings"}],
 "checks":checks,
 "notes":"Static analysis only; every claim is a structural necessary condition of the property (level other), see DESIGN.md. Exit 0 + KNOWN-FINDING lines for recorded defects, exit 1 + VIOLATION for anything else (including undecided obligations), exit 2 CHECK-ERROR when the tree does not load.",
 "not_applicable":[{"property_id":p,"reason":NA.get(p,NA_DEFAULT)} for p in props if p not in CLAIMS]}
json.dump(m,open('MANIFEST.json','w'),indent=1)
print("claims:",sorted(CLAIMS))
