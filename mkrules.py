#!/usr/bin/env python3
# development helper: rewrites the table of DESIGN.md section 8.2 from the evidence files of the last run.
import json
rows=[]
for i in range(1,21):
    pid='C%02d'%i
    e=json.load(open('evidence/%s.json'%pid))
    pr=e['coverage']['per_rule']
    parts=[]
    for r in sorted(pr):
        n=sum(pr[r].values())
        extra=[]
        if pr[r].get('exempt'): extra.append('%d by table'%pr[r]['exempt'])
        if pr[r].get('violation'): extra.append('%d known'%pr[r]['violation'])
        parts.append('%s %d'%(r,n)+(' ('+', '.join(extra)+')' if extra else ''))
    rows.append('| %s | %s |'%(pid,' · '.join(parts)))
tab='| id | rules (obligations today; "by table" = discharged by a table row, "known" = recorded finding) |\n|----|---------------------------|\n'+'\n'.join(rows)+'\n'
s=open('DESIGN.md').read()
i=s.index('| id | rules (obligations today')
j=s.index('The statement each check decides, and what it does not, is repeated in')
s=s[:i]+tab+'\nA quick check takes 7 to 10 s on an idle machine (loading and type-checking the\npackage and building SSA dominate).\n\n'+s[j:]
open('DESIGN.md','w').write(s)
