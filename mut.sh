#!/bin/sh
# usage: mut.sh <prop> <file> <python-expr old> <new>   (development helper)
# Applies one textual replacement to a scratch copy of /repo, checks that it
# still compiles, runs the property's rules on it, removes the copy.
prop="$1"; file="$2"; old="$3"; new="$4"
d=$(mktemp -d /tmp/zymut.XXXXXX)
rsync -a --exclude .git /repo/ "$d/"
python3 - "$d/$file" "$old" "$new" <<'PY' || { rm -rf "$d"; exit 3; }
import sys
p,old,new=sys.argv[1:4]
s=open(p).read()
if s.count(old)!=1:
    print("MUTANT-NOT-APPLICABLE: %d occurrences of old text"%s.count(old)); sys.exit(1)
open(p,'w').write(s.replace(old,new))
PY
( cd "$d" && GOFLAGS=-mod=mod GOPROXY=off go build ./zygo/ ./cmd/zygo/ ) || { echo "MUTANT-DOES-NOT-COMPILE"; rm -rf "$d"; exit 3; }
. ./env.sh
mkdir -p "$d/.verifout"
bin/zycheck -prop "$prop" -tier quick -repo "$d" -verif /verif -out "$d/.verifout" | grep -v "^    " | grep -v "^VIOLATION property" | tail -${MUT_TAIL:-6}
rm -rf "$d"
