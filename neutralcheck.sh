#!/bin/sh
# usage: neutralcheck.sh <scratch worktree> <patch.diff>      (development helper)
# Applies a behaviour-preserving change to a scratch worktree of /repo and runs
# ALL properties' rules on it: every VIOLATION / UNDECIDED line is a false alarm
# of the checker, to be corrected in the rule.
wt="$1"; patch="$2"
[ -n "$wt" ] && [ -f "$patch" ] && [ "$(cd "$wt" && pwd)" != "/verif" ] && [ "$(cd "$wt" && pwd)" != "/repo" ] || { echo "usage: neutralcheck.sh <scratch worktree> <patch.diff>"; exit 2; }
cd "$(dirname "$0")" || exit 2
. ./env.sh
git -C "$wt" checkout -q -- . || exit 2
# the scratch worktree follows /repo's committed tree
git -C "$wt" checkout -q --detach "$(git -C /repo rev-parse HEAD)" || exit 2
( cd "$wt" && patch -p1 -s -f --no-backup-if-mismatch -i "$patch" >/dev/null ) || { echo "PATCH-DOES-NOT-APPLY"; git -C "$wt" checkout -q -- .; exit 3; }
( cd "$wt" && GOFLAGS=-mod=mod GOPROXY=off go build ./zygo ./cmd/zygo ) || { echo "DOES-NOT-COMPILE"; git -C "$wt" checkout -q -- .; exit 3; }
out=$(mktemp -d /tmp/zyneutral.XXXXXX)
seq -w 1 20 | xargs -P 7 -I{} sh -c "bin/zycheck -prop C{} -tier quick -repo '$wt' -verif '$(pwd)' -out '$out/C{}' > '$out/C{}.log' 2>&1"
alarms=0
for p in $(seq -w 1 20); do
  n=$(grep -c '^VIOLATION C\|^UNDECIDED \|^CHECK-ERROR' "$out/C$p.log")
  if [ "$n" != "0" ]; then alarms=$((alarms+n)); grep '^VIOLATION C\|^UNDECIDED \|^CHECK-ERROR' "$out/C$p.log" | cut -c1-${NEUTRAL_COLS:-300}; fi
  tail -1 "$out/C$p.log" | grep -q "obligations" || { echo "NO-SUMMARY C$p: $(tail -1 $out/C$p.log | cut -c1-200)"; alarms=$((alarms+1)); }
done
echo "neutral: $(basename $(dirname $patch))/$(basename $patch) alarms=$alarms"
rm -rf "$out"
git -C "$wt" checkout -q -- .
