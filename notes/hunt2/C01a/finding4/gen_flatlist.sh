#!/bin/sh
# writes a ~8 MB script that consists of ONE flat (nesting depth 2) quoted list of 4,000,000 symbols
python3 - "$1" <<'PY'
import sys
N = 4000000
with open(sys.argv[1], 'w') as f:
    f.write('(def x (quote (' + 'a ' * N + ')))\n(println (len x))\n')
PY
