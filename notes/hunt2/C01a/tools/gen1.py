vals = [
 '1', '1.5', '"s"', "'c'", 'true', 'nil', "(quote sym)", "(quote (1 2))", "(cons 1 2)", '[]', '[1 2]', '[nil]', '["a"]', '[[1] [2]]', '[[]]',
 '(hash a: 1)', '(hash)', '[(hash a: 1)]', '(now)', '[(now)]', '(raw "abc")', '[(raw "abc")]', '(makeChan 1)', '[(makeChan)]',
 '(fn [a] a)', '[(fn [a] a)]', 'println', '[println]', 'int64', '[int64]', '(& pv)', '[(& pv)]', '(& ph)', '[(& ph)]','(& pf)','[(& pf)]', 'pk', '[pk]', '(snoopy)', '[(snoopy)]',
 'Rec', '(Rec x: 1)', '[(Rec x: 1)]', '[Rec]', '(regexpCompile "a")', '[(regexpCompile "a")]', '(dur 5)', '[(dur 5)]', '(date "2020/01/02")', '[(date "2020/01/02")]',
 '(asUint64 3)', '[(asUint64 3)]', "[(quote a)]", "(list)", "[(quote (1 2))]", "[a.b]", "[(quote $x)]", "(field a: 1)", "[(field a: 1)]", '(arrayidx [1 2] [0])', '[(arrayidx [1 2] [0])]', '(hashidx (hash a: 1) [a])',
 '(struct Q [(field a: int64)])', '[[(hash a: 1)]]', '[(& pa)]', '(& pa)', '(msgmap (quote foo) (list))', '(random)', '(sliceOf int64)', '[(sliceOf int64)]', '(ptr int64)','[(ptr int64)]',
 '(func [a:int64] [r:int64] a)', '(interface Iz [(method m [] [])])', '[(interface Iy [])]', '(str2sym "")', '[(str2sym "")]', '(quote a:)', '(str2sym "a.b")', '[(str2sym ".")]', '(quote a.b)', 'ph.a', '[ph.a]',
 '(ptr Rec)', '(& (Rec x: 2))', '(sliceOf Rec)', '[(& (Rec x: 2))]', '(makeArray 3)', '(makeArray 3 (hash))', '(& pk)', '(& int64)', '(& nil)', '[(& nil)]', '(& (now))', '[(& (now))]','(& pr)',
]
pre = '''(def pv 3)
(def ph (hash a: 1))
(def pf (fn [] 1))
(def pa [(hash a: 1)])
(def pk (package "pk" (def Z 1)))
(struct Rec [(field x: int64)])
(def pr (Rec x: 7))
(registerDemoFunctions)
'''
if __name__ == '__main__':
    out=[]
    for v1 in vals:
        out.append(pre + "(def x %s)\nx\n(str x)\n(type? x)\n(def y [x x])\n(def y [x x])\n(let [z %s] (fn [] z))\n(defn f [q] (let [w q] (fn [] w)))\n(f %s)\n((f %s))\n(def pp (& x))\n(def pp (& x))\npp\n(* pp)\n(def hh (hash k: x))\n(def hh (hash k: x))\nhh\n(def ll (list x x))\n(def ll (list x))\nll\n" % (v1,v1,v1,v1))
    for v1 in vals:
        for v2 in vals:
            out.append(pre + "(def x %s)\n(def x %s)\n(set x %s)\n(mdef x x2 (list %s %s))\n(mdef x x2 (list %s %s))\n" % (v1, v2, v1, v2, v1, v1, v2))
    open('/tmp/h2.txt','w').write("\n----\n".join(out))
