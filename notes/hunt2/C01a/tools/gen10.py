import random, sys
random.seed(int(sys.argv[1])); N=int(sys.argv[2])
parts=['{','}','/*','*/','/**/','/* a */','/* a\\nb */','// c\\n','//\\n','a:','"k"',':','`k`','1','for','lab:','x',' ','\\n','`','"','(',')','[',']',';',',','a',':=','=','range','i','++','{ }','/* {',' } */','**/','/*/','*//*']
out=[]
for n in range(N):
    k=random.randint(1,9)
    s='{'+''.join(random.choice(parts) for _ in range(k))
    if random.random()<0.6: s+='}'
    out.append(s)
sys.stdout.write("\n----\n".join(out))
