import random, sys
seed = int(sys.argv[1]) if len(sys.argv)>1 else 1
N = int(sys.argv[2]) if len(sys.argv)>2 else 5000
random.seed(seed)
special = ['and','or','cond','quote','def','mdef','fn','defn','begin','let','letseq','assert','defmac','macexpand','syntaxQuote','for','set','break','continue','newScope','package','return','_ls','infix','struct','func','method','interface','var','expectError',':','comma','raw64','infixExpand']
builtins = ['+','-','*','/','**','<','==','!=','not','cons','first','rest','second','list','array','hash','append','appendslice','concat','len','aget','aset','hget','hset','hdel','keys','hpair','slice','str','sym2str','str2sym','gensym','symnum','type?','apply','map','eval','force','substitute','makeArray','sget','field','raw','&','deref','derefSet','.','arrayidx','hashidx','asUint64','=',':=','defined?','joinsym','quotelist','flatten','->','json','unjson','msgpack','unmsgpack','msgmap','sliceOf','ptr','makeChan','now','dur','date','regexpCompile','regexpFind','typelist','fieldls','methodls','_method','togo','fromgo','_closdump','rmsym','copyraw','raw2str','split','nsplit','chomp','trim','sprintf','read','mod','sll','bitAnd','bitNot','isnan','zero?','empty?','null?','func?','macexpand','__rangeLen','__rangeKey','__rangePair','gob','json2','base64','unbase64','isbase64','flipbase64','random']
syms = ['a','b','h','arr','f','g','pk','Rec','r','x','y','p','nil','true','int64','string','h.a','r.x','pk.Z','.a','a:','x:','&','$q','#z','?w','_','i','lst','ch','fnx', 'snoopy','hash','%','~','@']
atoms = ['0','1','-1','2.5','"s"','""',"'c'",'9223372036854775807','0x10','1e400','[]','{}','()','"a.b"']
def expr(d):
    r = random.random()
    if d<=0 or r<0.35:
        return random.choice(syms+atoms+atoms) if random.random()<0.85 else random.choice(special+builtins)
    if r<0.45:
        return '[' + ' '.join(expr(d-1) for _ in range(random.randint(0,4))) + ']'
    if r<0.50:
        return "(quote %s)" % expr(d-1)
    if r<0.53:
        return "^" + expr(d-1)
    if r<0.56:
        return "~" + expr(d-1)
    if r<0.60:
        return "{" + ' '.join(expr(d-1) for _ in range(random.randint(0,4))) + "}"
    head = random.choice(special+special+builtins+syms) if random.random()<0.92 else expr(d-1)
    n = random.randint(0,4)
    return '(' + ' '.join([head]+[expr(d-1) for _ in range(n)]) + ')'
pre = '''(def a 1) (def b "s") (def h (hash a: 1 b: (hash c: 2))) (def arr [1 2 3]) (defn f [x] x) (defn g [x & y] y) (def pk (package "pk" (def Z 1) (defn Zf [] Z))) (struct Rec [(field x: int64)]) (def r (Rec x: 1)) (def p (& a)) (def lst (list 1 2 3)) (def ch (makeChan 2)) (func fnx [a:int64 b:string] [n:int64] a)
'''
out=[]
for n in range(N):
    k = random.randint(1,3)
    lines = [expr(random.randint(1,4)) for _ in range(k)]
    out.append(pre + "\n".join(lines))
sys.stdout.write("\n----\n".join(out))
