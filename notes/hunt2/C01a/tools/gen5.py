import random, sys
seed=int(sys.argv[1]); N=int(sys.argv[2])
random.seed(seed)
def body(d, inloop, infn):
    n = random.randint(1,3)
    return ' '.join(stmt(d, inloop, infn) for _ in range(n))
def stmt(d, inloop, infn):
    r = random.random()
    if d<=0:
        c = ['1','(def v (+ v 1))','v','(set v 2)','nil','[v]']
        if inloop: c += ['(break)','(continue)','(break outer:)','(continue outer:)','(break inner:)']
        if infn: c += ['(cond (> n 0) (fnn (- n 1)) 0)','(return v)','(cond (> n 0) (fnn (- n 1)) (fnn))','(g2 1)', '(cond (> n 0) (fnn (- n 1) 2) 1)']
        return random.choice(c)
    if r<0.15: return '(for [(def i%d 0) (< i%d 2) (def i%d (+ i%d 1))] %s)' % (d,d,d,d,body(d-1,True,infn))
    if r<0.22: return '(for %s [(def i%d 0) (< i%d 2) (def i%d (+ i%d 1))] %s)' % (random.choice(['outer:','inner:']),d,d,d,d,body(d-1,True,infn))
    if r<0.32: return '(let [q%d %s] %s)' % (d, stmt(d-1,inloop,infn), body(d-1,inloop,infn))
    if r<0.38: return '(letseq [q%d 1 r%d %s] %s)' % (d,d, stmt(d-1,inloop,infn), body(d-1,inloop,infn))
    if r<0.45: return '(newScope %s)' % body(d-1,inloop,infn)
    if r<0.50: return '(package "p%d" %s)' % (d, body(d-1,inloop,infn))
    if r<0.60: return '(cond %s %s %s)' % (stmt(d-1,inloop,infn), stmt(d-1,inloop,infn), stmt(d-1,inloop,infn))
    if r<0.66: return '(and %s %s)' % (stmt(d-1,inloop,infn), stmt(d-1,inloop,infn))
    if r<0.72: return '(or %s %s)' % (stmt(d-1,inloop,infn), stmt(d-1,inloop,infn))
    if r<0.78: return '(begin %s)' % body(d-1,inloop,infn)
    if r<0.84: return '((fn [] %s))' % body(d-1,inloop,False)
    if r<0.88: return '(f1 %s)' % stmt(d-1,inloop,infn)
    if r<0.92: return '{ %s }' % random.choice(['v = v + 1','for i := 0; i < 2; i++ { v = v + 1 }','for { break }','if v > 1 { break } else { continue }','lab: for i := 0; i < 2; i++ { continue lab }','for k, w := range [1 2] { v = w }'])
    if r<0.96: return '^(%s ~v ~@[v])' % stmt(d-1,inloop,infn)
    return '(defn loc%d [] %s)' % (d, body(d-1,False,False))
out=[]
for n in range(N):
    pre = '(def v 0) (defn f1 [x] x) (defn g2 [n] n)\n'
    k = random.random()
    if k<0.5:
        prog = '(defn fnn [n] %s)\n(fnn 2)\n(fnn 0)\n(def after 1)\n(let [z 1] (fn [] z))' % body(random.randint(1,4),False,True)
    else:
        prog = '%s\n(def after 1)\n(let [z 1] (fn [] z))' % body(random.randint(1,4),False,False)
    out.append(pre+prog)
sys.stdout.write("\n----\n".join(out))
