import random, sys
seed=int(sys.argv[1]); N=int(sys.argv[2])
random.seed(seed)
alpha = ['(',')','[',']','{','}','"',"'",'`','\\','#','$','?','.',':',';',',','~','@','^','%','&','*','+','-','/','<','>','=','!','|','_','a','b','0','1','9','e','x','o','i','.','//','/*','*/','\\n','\\"',' ',' ','\t','a:','0x','1e','1.','.5','ULL','-1','#!','%a','^a','~@','\x00','\xff','\xc3\xa9','\xe2\x82','nil','inf','NaN','..','...','a.b','a..b','.a.','a.','#a','?a','$a','&a']
out=[]
for n in range(N):
    k=random.randint(1,8)
    s=''.join(random.choice(alpha) for _ in range(k))
    s=s.replace('\n',' ')
    if '----' in s: continue
    out.append(s)
sys.stdout.buffer.write("\n----\n".join(out).encode('latin-1'))
