import random, sys, re, glob, os
seed=int(sys.argv[1]); N=int(sys.argv[2])
random.seed(seed)
skip = {'system.zy','owrite.zy','slurp.zy','setenv.zy','manual-leak-check.zy','coroutines.zy','timeit.zy','gob.zy','event.zy','include.zy','import.zy','package.zy'}
files=[f for f in sorted(glob.glob('/tmp/hunt2/C01a/tests/*.zy')) if os.path.basename(f) not in skip]
tokre = re.compile(r'"(?:\\.|[^"\\])*"|`[^`]*`|//[^\n]*|/\*.*?\*/|[()\[\]{}]|[^\s()\[\]{}]+|\s+', re.S)
atoms = ['0','1','-1','2.5','"s"','nil','[]','(hash)','(list)','x','a:','(fn [] 1)','println','int64','(now)','(makeChan 1)',"'c'",'[1 2]','(hash a: 1)','(& x)','(quote (1 2))','(raw "a")','h.a','.a','true','9223372036854775807','(cons 1 2)','(break)','(continue)','(return)','for','def','set','fn','let','=', ':=', '*', '.', 'struct','field','package','defmac','cond','and','mdef','var','func','method','interface','assert','expectError','string','float64','(* int64)','(ptr string)','[(hash a: 1)]','(str2sym "q")','(asUint64 1)','(dur 1)','(date "2020/01/02")']
bad = ['system','sys','exit','writef','owritef','save','bsave','greenpack','<!','send','stop','slurpf','source','import','include','req','timeit','dump','bload']
def forms(toks):
    # split into top-level forms (list of token lists)
    out=[]; cur=[]; depth=0
    for t in toks:
        if t.startswith('//') or t.startswith('/*'): continue
        if t.isspace():
            if depth>0: cur.append(' ')
            continue
        cur.append(t)
        if t in '([{': depth+=1
        elif t in ')]}': depth-=1
        if depth<=0:
            out.append(cur); cur=[]; depth=0
    if cur: out.append(cur)
    return out
def subexprs(form):
    # return list of (start,end) spans of balanced subexpressions
    spans=[]; st=[]
    for i,t in enumerate(form):
        if t in ('(','[','{'): st.append(i)
        elif t in (')',']','}'):
            if st: spans.append((st.pop(), i+1))
        elif t!=' ': spans.append((i,i+1))
    return spans
allforms={f:forms(tokre.findall(open(f).read())) for f in files}
out=[]
for n in range(N):
    f=random.choice(files)
    fs=[list(x) for x in allforms[f]]
    if not fs: continue
    for _ in range(random.randint(1,3)):
        k=random.randrange(len(fs))
        sp=subexprs(fs[k])
        if not sp: continue
        a,b=random.choice(sp)
        r=random.random()
        if r<0.40: rep=[random.choice(atoms)]
        elif r<0.55: rep=[]
        elif r<0.70: rep=fs[k][a:b]+[' ']+fs[k][a:b]
        else:
            k2=random.randrange(len(fs)); sp2=subexprs(fs[k2])
            if not sp2: continue
            c,d=random.choice(sp2); rep=fs[k2][c:d]
        fs[k]=fs[k][:a]+rep+fs[k][b:]
    lines=[]
    for fm in fs:
        fm=['list' if t in bad else t for t in fm]
        s=''.join(fm).replace('\n',' ')
        if s.strip(): lines.append(s)
    out.append('// '+os.path.basename(f)+'\n'+'\n'.join(lines))
sys.stdout.write("\n----\n".join(out))
