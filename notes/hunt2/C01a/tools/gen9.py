import random, sys
sys.path.insert(0,'/tmp')
seed=int(sys.argv[1]); N=int(sys.argv[2])
random.seed(seed)
src=open('/tmp/gen1.py').read()
ns={}
exec(src.split("if __name__")[0], ns)
vals=[v for v in ns['vals'] if 'var' not in v]
vals += ['v0','v1','v2','v3','[v0 v1]','(hash k: v0)','(list v1 v2)','(& v0)','(fn [] v1)','(f1 v2)','(cons v0 v1)','(arrayidx [v0 v1] [0])','(hashidx (hash k: v2) [k])','(quote v0)','v0.a','pr.x','pk.Z','(* (& v1))','(lz v0)','(lz (f1 v1))','(force (lz v2))','(substitute (lz v3))','(pkf)','(tf a: 1 b: v0)','(tf 1 v1)','(g2 v0 v1 v2)','(apply f1 [v0])','(map f1 [v0 v1])','(eval (quote v0))','(str v0)','(type? v1)','(== v0 v1)','(len v0)','(first v0)','(rest v1)','(aget v0 0)','(hget v0 k:)','(append v0 v1)','(concat v0 v1)','(json v0)','(msgpack v1)','(copyraw v0)','(deref v0)','(keys v0)','(not v0)','(+ v0 v1)','(slice v0 0 1)','(sget v0 0)','(joinsym v0 v1)','(sym2str v0)','(str2sym v0)','(flatten v0)','(quotelist v0)','(defined? v0)','(hpair v0 0)','(-> v0 a:)','(. v0 a)','(togo v0)','(fromgo v0)','(fieldls v0)','(methodls v0)','(_closdump v0)','(macexpand v0)','^(a ~v0 ~@v1)','^[~v0 ~@v1]']
names=['v0','v1','v2','v3']
def V(): return random.choice(vals)
def NM(): return random.choice(names)
def stmt(d=2):
    r=random.random()
    if r<0.18: return '(def %s %s)' % (NM(),V())
    if r<0.30: return '(set %s %s)' % (NM(),V())
    if r<0.36: return '(mdef %s %s (list %s %s))' % (NM(),NM(),V(),V())
    if r<0.42: return '{%s = %s}' % (NM(),V())
    if r<0.46: return '{%s, %s = %s, %s}' % (NM(),NM(),V(),V())
    if r<0.50: return '{%s.a = %s}' % (NM(),V())
    if r<0.54: return '{%s[0] = %s}' % (NM(),V())
    if r<0.58: return '(hset %s k: %s)' % (NM(),V())
    if r<0.61: return '(aset %s 0 %s)' % (NM(),V())
    if r<0.64: return '(derefSet %s %s)' % (NM(),V())
    if r<0.67: return '{*%s = %s}' % (NM(),V())
    if r<0.70: return '(rmsym (quote %s))' % NM()
    if r<0.74 and d>0: return '(let [%s %s %s %s] %s (fn [] %s))' % (NM(),V(),NM(),V(),stmt(d-1),NM())
    if r<0.78 and d>0: return '(defn fq%d [%s & %s] %s %s)\n(fq%d %s %s %s)' % (d,NM(),NM(),stmt(d-1),V(),d,V(),V(),V())
    if r<0.82 and d>0: return '((fn [%s] %s (fn [] %s)) %s)' % (NM(),stmt(d-1),NM(),V())
    if r<0.85 and d>0: return '(for [(def i 0) (< i 2) (def i (+ i 1))] %s %s)' % (stmt(d-1),stmt(d-1))
    if r<0.88 and d>0: return '(def %s (package "q" %s (def Y %s)))' % (NM(),stmt(d-1),V())
    if r<0.91: return '(var %s %s)' % (NM(),random.choice(['int64','string','Rec','(* Rec)','float64','bool','symbol','error']))
    if r<0.94: return '(struct Rec [(field x: %s)])' % random.choice(['int64','string','(* Rec)','Rec','float64','(sliceOf int64)','bool'])
    if r<0.97: return '(def %s (Rec x: %s))' % (NM(),V())
    return V()
pre = ns['pre'] + '''(defn f1 [x] x) (defn g2 [a & b] b) (defn lz [#x] #x) (defn pkf [] pk) (func tf [a:int64 b:string] [n:int64] a)
(def v0 1) (def v1 "s") (def v2 [1]) (def v3 (hash a: 1))
'''
out=[]
for n in range(N):
    k=random.randint(2,7)
    out.append(pre + '\n'.join(stmt() for _ in range(k)) + '\nv0\nv1\nv2\nv3\n(let [zz 1] (fn [] zz))')
sys.stdout.write("\n----\n".join(out))
