#!/bin/sh
cd /tmp/hunt2/C01a && HUNTV=$2 HUNTFILE=$1 GOFLAGS=-mod=mod GOPROXY=off go test -vet=off -count=1 -v -run TestHuntScratch ./zygo/ 2>&1 | grep -a -v '^=== RUN\|^--- PASS\|^PASS\|^ok '
