# stdin is a terminal (pty), stdout is a pipe/file: the situation of `zygo | tee log` or `zygo > out.txt`
import os, pty, subprocess, time, sys, fcntl, termios, struct
m, s = pty.openpty()
fcntl.ioctl(s, termios.TIOCSWINSZ, struct.pack('HHHH', 24, 80, 0, 0))
out = open('/tmp/hunt2/C01c/HUNT/spin_out.txt', 'wb')
p = subprocess.Popen(['/tmp/huntbin-C01c', '-quiet'], stdin=s, stdout=out, stderr=subprocess.STDOUT)
time.sleep(2)
alive = p.poll() is None
p.kill(); p.wait()
out.close()
data = open('/tmp/hunt2/C01c/HUNT/spin_out.txt','rb').read()
print('still running after 2s with no input typed:', alive)
print('bytes written to stdout in 2s:', len(data))
print('first lines:', data[:120])
os.remove('/tmp/hunt2/C01c/HUNT/spin_out.txt')
