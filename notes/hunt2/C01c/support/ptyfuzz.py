import os, pty, sys, time, select, random, signal, fcntl, termios, struct
BIN='/tmp/huntbin-C01c'
def run(data, wait=0.5, args=('-quiet',)):
    m, s = pty.openpty()
    fcntl.ioctl(s, termios.TIOCSWINSZ, struct.pack('HHHH', 24, 80, 0, 0))
    pid = os.fork()
    if pid == 0:
        os.setsid()
        fcntl.ioctl(s, termios.TIOCSCTTY, 0)
        os.dup2(s,0); os.dup2(s,1); os.dup2(s,2)
        os.close(m); os.close(s)
        os.environ['TERM']='xterm'
        os.execv(BIN,[BIN]+list(args))
    os.close(s)
    fd=m
    out=b''
    def drain(t):
        nonlocal out
        end=time.time()+t
        while time.time()<end:
            r,_,_=select.select([fd],[],[],0.02)
            if r:
                try:
                    d=os.read(fd,65536)
                except OSError:
                    return False
                if not d: return False
                out+=d
                if len(out)>2000000: return False
        return True
    drain(0.3)
    for chunk in data:
        try:
            os.write(fd,chunk)
        except OSError:
            break
        if not drain(0.03):
            break
    drain(wait)
    p,st=os.waitpid(pid,os.WNOHANG)
    if p==0:
        os.kill(pid,signal.SIGKILL); os.waitpid(pid,0)
        st=None
    os.close(fd)
    return st,out
if __name__=='__main__':
    st,out=run([b'(+ 1 2)\r', b'\xc3\xa9(pri\t\t\r'])
    print(st,out[-600:])
