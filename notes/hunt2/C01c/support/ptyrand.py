import random, sys, ptyfuzz
rng=random.Random(int(sys.argv[1])); N=int(sys.argv[2])
keys=[b'\t',b'\t',b'\r',b'\r',b'(',b'(',b')',b'p',b'r',b'd',b'e',b'f',b' ',b'\x7f',b'\x08',b'\x01',b'\x02',b'\x05',b'\x06',b'\x0b',b'\x0c',b'\x0e',b'\x10',b'\x12',b'\x13',b'\x14',b'\x15',b'\x17',b'\x19',b'\x1b',b'\x1b[A',b'\x1b[B',b'\x1b[C',b'\x1b[D',b'\x1b[Z',b'\x1b[3~',b'\x1b[1~',b'\x1b[4~',b'\x1bb',b'\x1bf',b'\x1bd',b'\x1b\x7f',b'\x1by',b'\xc3\xa9',b'\xf0\x9f\x98\x80',b'\xff',b'\x00',b'\xe2\x82',b'"',b'`',b'[',b'{',b'\x1b[200~',b'\x1b[201~',b'\x16',b'\x1bOA',b'\x1b[1;5C',b'\x1b[1;5D',b'\x07',b'\x0f',b'\x11',b'\x18',b'\x1d',b'\x1e',b'\x1f']
for i in range(N):
    data=[rng.choice(keys) for _ in range(rng.randrange(5,60))]
    st,out=ptyfuzz.run(data, wait=0.3)
    bad=(st is not None and st!=0) or b'panic' in out or b'goroutine ' in out or len(out)>1000000
    if bad:
        print('BAD', st, data, flush=True)
        print(out[-3000:].decode('utf-8','replace'), flush=True)
print('done')
