import random, subprocess, sys
BIN='/tmp/huntbin-C01c'
alpha = ["(", ")", "[", "]", "{", "}", "a", "a:", ":", ":=", "=", "-", "+", "1", "0x1", ".", ".a", "\\", "%", "^", "~", "~@", "@", "\"", "'", "`", "/", "*", "//", "/*", "*/", " ", " ", " ", ",", ";", "#", "?", "$", "&", "|", "!", "<", ">", "e", "Inf", "1ULL", "_", "\x00", "\xff", "é", "for", "0", "b", "h", "h.a", "arr", "s", "def", "fn", "let", "if", "else", "set", "return", "break", "continue", "range", "and", "or", "not", "++", "--", "+=", "->", "==", "**", "nil", "true", "hash", "quote", "x", "f", "(f)", "2.5", "1e3", "and", "cond", "defn", "defmac", "macexpand", "begin", "struct", "package", "import", "func", "var", "mod", "new", "chan", "<-", ".dump", ".ls", ".gls", "source", "eval", "str", "'c'", '"q"', "`r`"]
pre = ['(def h (hash a: 1 b: [1 2 3]))', '(def arr [1 2 3])', '(def s "hello")', '(defn f [] 7)', 'x = 3']
def gen(rng):
    l = 1 + rng.randrange(8)
    return ''.join(rng.choice(alpha)+rng.choice(['',' ','']) for _ in range(l))
def run(lines):
    inp = ('\n'.join(lines)+'\n').encode('utf-8','surrogateescape')
    try:
        p = subprocess.run([BIN,'-quiet','-no-liner'], input=inp, capture_output=True, timeout=20)
    except subprocess.TimeoutExpired:
        return ('timeout', b'')
    out = p.stdout+p.stderr
    if p.returncode != 0 or b'goroutine ' in out or b'panic:' in out:
        return ('crash rc=%d'%p.returncode, out)
    return None
seed = int(sys.argv[1]); nb = int(sys.argv[2])
rng = random.Random(seed)
seen = set()
for b in range(nb):
    lines = [gen(rng) for _ in range(100)]
    lines = [l.replace('\xff','\udcff') for l in lines]
    r = run(pre+lines)
    if r:
        # find single-line culprit
        found = False
        for l in lines:
            r2 = run(pre+[l])
            if r2:
                out = r2[1].decode('utf-8','replace')
                key = ''
                for ln in out.split('\n'):
                    if 'panic' in ln or 'fatal' in ln:
                        key = ln[:120]; break
                if key not in seen:
                    seen.add(key)
                    print('CRASH', r2[0], repr(l), key, flush=True)
                    # frames
                    fr=[ln for ln in out.split('\n') if '/zygo/' in ln][:4]
                    print('   ', fr, flush=True)
                found = True
        if not found:
            print('BATCHCRASH', r[0], flush=True)
            open('/tmp/hunt2/C01c/HUNT/batch_%d_%d.txt'%(seed,b),'w', errors='surrogateescape').write('\n'.join(pre+lines)+'\n')
print('done', seed)
