import itertools,sys
prelude = '''(def a [1 2 3])
(def h (hash x:1 y:(hash z:2) k:[1 2]))
(struct Dog [(field Name: string) (field Number: int64)])
(def d (Dog Name:"Rover"))
(def sn (snoopy of:"charlie"))
(def p (& a)) (def pi (& 34)) (def pd (& d)) (def ps (& "s"))
(var np (* Dog))
(var vi int64)
(var vs string)
(var vd Dog)
(def pk (package "hello" { World := "earth"; (defn Myfun [x] (concat World x)) }))
(defn lz [#x] #x)
(defn f1 [x] x)
(def cl (fn [x] (+ x 1)))
(def tm (now))
(def rw (raw "abc"))
(def ch (makeChan))
(def sel (arrayidx a [1]))
(def hsel (hashidx h (quote .x)))
(func tf [a:int64 b:string] [n:int64] (return a))
'''
vals = '''(arrayidx a [0])
(arrayidx a [5])
(arrayidx a [0 1])
(arrayidx a ["x"])
(arrayidx a [])
(arrayidx a [-1])
(arrayidx a [:])
(arrayidx a [1 :])
(arrayidx a [: 9])
(arrayidx a [h])
(arrayidx a [sel])
(hashidx h (quote .x))
(hashidx h (quote .nosuch))
(hashidx h [1])
(hashidx h [])
(hashidx h [1 2])
(hashidx h (hash))
(hashidx h (quote .y.z))
(hashidx h (quote x))
(hashidx h 1.5)
(hashidx h "x")
(hashidx h hsel)
(hashidx h f1)
(hashidx h nil)
(hashidx d (quote .Name))
(hashidx d (quote .Nosuch))
(hashidx sn (quote .of))
(hashidx (hashidx h (quote .y)) (quote .z))
(hashidx (hashidx h (quote .x)) (quote .z))
h.x
h.nosuch
h.y.z
h.x.z
a.x
d.Name
d.Nope
sn.of
pk.World
pk.nosuch
pk.Myfun
pk.World.x
.h
.h.x
p
pi
pd
ps
np
(& h.x)
(& hsel)
(& sel)
(& np)
(& pk)
(& f1)
(& nil)
pk
(lz (+ 1 2))
(lz nosuchsym)
(lz h.x)
(lz (arrayidx a [7]))
f1
cl
+
hashidx
(fn [] 1)
(fn [#x] #x)
tm
rw
ch
Dog
(Dog)
d
sn
int64
(* Dog)
([] int64)
tf
(quote x)
(quote h.x)
(quote .)
(quote $x)
(quote #x)
(quote x:)
(quote &)
(quote nosuch.thing)
(quote .nosuch.thing)
nil
(quote ())
(list 1 2)
(cons 1 2)
1
1.5
"s"
'c'
true
(asUint64 3)
sel
hsel
[]
[1 [2]]
(hash)
(makeArray 2)
(raw)
vi
vs
vd
(snoopy)
(weather)
(field X: int64)
(togo sn)
(togo d)
(gensym)
(str2sym "")
(str2sym ".")
(str2sym "a.")
(str2sym "a..b")
(str2sym "h.")
(str2sym "h..x")
(str2sym "1")
(str2sym "(")
(str2sym "pk.")
(str2sym "pk..World")
(str2sym ".pk.World")
'''.strip().split('\n')
ctxs = '''V
(def q V) q
(def q V) (q 1 2)
(def q V) (q)
(V 1 2)
(V)
((V) 1)
(V a:1)
{q = V}
(q = V)
(set q V)
(V = 1)
(set V 1)
(def q V) (q = 1)
(def q V) {q = 1} q
(def q V) (set q 1)
(def q V) {q.x = 1}
(def q V) {q[0] = 1}
(def q V) (q.x)
(def q V) (q.x 1)
(def q V) q.x
(def q V) {a[q] = 1}
(def q V) {h[q] = 1}
(def q V) {h[q]}
(def q V) {a[q]}
{a[0] = V} a
{h.x = V} h
{h.new = V} h
{d.Name = V} d
{d.Number = V} d
{sn.of = V} sn
{vi = V}
{vs = V}
{vd = V}
{np = V}
{pk.World = V}
{pk = V}
{f1 = V}
{sel = V} a
{hsel = V} h
(== V V)
(== V 1)
(== 1 V)
(< V 1)
(!= V "s")
(== [V] [V])
(== (hash k:V) (hash k:V))
(== V nil)
(== V p)
(== V tm)
(== V h)
(== V f1)
(== V rw)
(== V d)
(== V pk)
(== V 1.5)
(== V 'c')
(let [q V] q)
(let* [q V r q] r)
(f1 V)
((f1 V) 1)
(cl V)
(lz V)
(force (lz V))
(substitute (lz V))
(tf a:V b:"s")
(tf a:1 b:V)
(tf V V)
(tf V:1 b:"s")
(def q V) (defn g [] q) (g)
(def q V) (defn g [] q) ((g) 1)
(defn g [q] (fn [] q)) ((g V))
(defn g [q] (fn [] (q 1))) ((g V))
(str V)
(println V)
(printf "%v %s %d\\n" V V V)
(type? V)
(len V)
(hash k:V)
[V]
(hash V:1)
(hset h V 1) h
(hget h V)
(hget h V V)
(hdel h V)
(append a V)
(cons V V)
(first V)
(json V)
(msgpack V)
(togo V)
(gob V)
(deref V)
(* V)
(* V 2)
(+ V 1)
(& V)
(derefSet V 1)
(derefSet p V)
(derefSet pi V)
(derefSet pd V)
(derefSet ps V)
(derefSet np V)
(var q V)
(var q V) q
(var q (* V)) q
(var q ([] V)) q
(hashidx V (quote .x))
(arrayidx V [0])
(:x V)
(-> V x:)
(-> h V)
(cond V 1 2)
(and V V)
(or V V)
(not V)
(eval V)
(eval (quote V))
(macexpand V)
(apply V [1])
(apply f1 [V])
(apply f1 V)
(map V [1 2])
(map f1 V)
(struct Q [(field A: V)]) (Q A:1)
(struct Q [(field A: (* V))]) (Q)
(struct Q [(field V: int64)]) (Q)
(defn g [q] q) (g q:V)
(for [(def i 0) (< i 1) (def i (+ i 1))] V)
(range k v V (println k v))
(methodls V)
(_method V Fly: 1)
(_method sn V 1)
(fieldls V)
(keys V)
(slice V 0 1)
(concat V V)
(aget V 0)
(aget a V)
(aset a 0 V)
(sget V 0)
(str2sym V)
(sym2str V)
(joinsym V V)
(quotelist V)
(flatten V)
(copyraw V)
(raw2str V)
(defined? V)
(rmsym V)
(symnum V)
(unjson V)
(unmsgpack V)
(fromgo V)
(_closdump V)
(func g [a:V] [n:int64] (return 1)) (g a:1)
(func g [a:int64] [n:V] (return 1)) (g a:1)
(method [p: (* V)] drv [a:int64] [n:int64])
(interface Dr [(func drv [a:V] [n:int64])])
(package "x" V)
(def q (package "x" {Z := V})) q.Z
(def q (package "x" {Z := V})) (q.Z 1)
(assert V)
(expectError V V)
(source V)
(import V)
(import q V)
(defmac m [x] V) (m 1)
(defmac m [x] `(quote ~x)) (m V)
(defmac m [x] `(~x 1)) (m V)
`(1 ~V ~@V)
(syntaxQuote V)
(begin V V)
(if V V V)
(newScope V)
(return V)
(defn g [] (return V)) (g)
(defn g [x] (if (null? x) 1 (g V))) (g 1)
(infix [V])
(infix [V + 1])
(infix [V . x])
(infix [a [ V ] ])
{V + 1}
{V * V}
{V ** 2}
{V == V}
{- V}
{! V}
{V and V}
{V++}
{V += 1}
{V[0]}
{V.x}
{V; V}
{q := V}
{V := 1}
{V := V}
{V, q = 1, 2}
{q, r = V, V}
{q, r = V}
(q r = V V)
([q r] = V)
([q r] = [V V])
([V q] = [1 2])
([h.x q] = [V 2])
(mdef q r V)
(mdef q r (list V V))
'''.strip().split('\n')
out=[]
for v in vals:
    for c in ctxs:
        out.append(prelude + c.replace('V', v))
sys.stdout.write('\n=====\n'.join(out))
