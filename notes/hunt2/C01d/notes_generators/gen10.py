exec(open('/tmp/hunt2/C01d/HUNT/work/gen.py').read().split("vals =")[0])
ftypes = ['int64','string','Dog','(* Dog)','(* int64)','([] int64)','([] Dog)','([2] int64)','(* (* Dog))','snoopy','(* snoopy)','([] snoopy)','float64','bool','symbol','error','time.Time','packageScopeStack','packageScope','comment','[]','byte','complex128']
vals = ['1','"s"','nil','[]','[1]','[nil]','d','(& d)','(& (& d))','(& 1)','sn','(& sn)','1.5','true','(quote x)','tm','rw','(list 1)','f1','pk','h','a','sel','hsel','(lz 1)','Dog','int64','np','vi','vs','vd','q','(& q)','(asUint64 1)',"'c'",'ch','(snoopy)','(togo sn)','(now)','(hash)']
out=[]
for t in ftypes:
    for v in vals:
        out.append(prelude + '//PROG\n(var q %s)\n-----\n(q = %s) q\n-----\n(def q %s) q\n-----\n{q = %s} q\n-----\n(defn g [] (var w %s) (w = %s) w) (g)\n-----\n(defn g2 [q] q) (g2 %s)\n-----\n(let [q %s] (q = q) q)\n-----\n(== q %s)\n-----\n[q (str q) (type? q)]' % (t,v,v,v,t,v,v,v,v))
print('\n=====\n'.join(out))
