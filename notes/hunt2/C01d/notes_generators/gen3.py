types = ['[]','packageScope','packageScopeStack','arraySelector','hashSelector','comment','byte','uint8','int','uint16','uint32','uint64','int8','int16','int32','rune','int64','float32','float64','complex64','complex128','bool','string','time.Time','symbol','error','snoopy','hornet','weather','plane','setOfPlanes','eventdemo','persondemo','hellcat','(* int64)','(* snoopy)','([] snoopy)','([] int64)','([2] int64)','([2] snoopy)','(* (* int64))','([] ([] int64))','(* arraySelector)','([] hashSelector)','(* packageScope)', '(* symbol)', '(* error)','([] error)','([0] int64)','(* string)','(* time.Time)', '([] (* int64))']
ctxs = '''q
(def z q) 3
(def z q) z
[q]
(q 1)
(q)
(q 1 2)
(q.x)
{q.x}
{q.x = 1}
{q[0] = 1}
{q[0]}
{q = 1}
{q = "s"}
{q = nil}
{q = []}
{q = q}
(q = (& 1))
(set q 1)
(== q q)
(== q 1)
(str q)
(type? q)
(len q)
(hash k:q)
(hset (hash) q 1)
(defn f [x] x) (f q)
(func tf [a:int64] [n:int64] (return a)) (tf q)
(func tf [a:int64] [n:int64] (return a)) (tf a:q)
(func tf [a:T] [n:int64] (return 1)) (tf q)
(func tf [a:T] [n:int64] (return 1)) (tf 1)
(func tf [a:T] [n:int64] (return 1)) (tf a:nil)
(struct S [(field A: T)]) (def s (S A:q)) s
(struct S [(field A: T)]) (def s (S)) {s.A = q} s
(struct S [(field A: T)]) (def s (S)) {s.A = 1} s
(struct S [(field A: T)]) (def s (S)) {s.A = [1]} s
(struct S [(field A: T)]) (def s (S)) {s.A = (& 1)} s
(& q)
(* q)
(deref q)
(derefSet q 1)
(derefSet q q)
(derefSet (& q) 1)
(derefSet (& q) q)
(def p (& q)) (derefSet p 1) [p q]
(def p (& q)) (* p)
(json q)
(msgpack q)
(togo q)
(gob q)
(append q 1)
(append [1] q)
(first q)
(T)
(T 1)
(T q)
(T 1 2)
(T a:1)
((T) 1)
(var r T) (== r q)
(var r T) (r = q) r
(let [z q] z)
(cond q 1 2)
(for [(def i 0) (< i 1) (def i (+ i 1))] q)
(range k v q (println k v))
(methodls q)
(fieldls q)
(_method q Fly: 1)
(println q)
(printf "%v %d %s\\n" q q q)
(apply q [1])
(map q [1])
(eval q)
(source q)
(quote q)
(macexpand q)
(defined? q)
(sym2str q)
(symnum q)
(str2sym q)
(joinsym q q)
(rmsym q)
{q + 1}
{q ++}
{- q}
(concat q q)
(slice q 0 1)
(keys q)
(copyraw q)
(mdef a b q)
([a b] = q)
(a b = q q)
'''.strip().split('\n')
out=[]
for t in types:
    for c in ctxs:
        out.append('(var q %s)\n%s' % (t, c.replace('T', t)))
print('\n=====\n'.join(out))
