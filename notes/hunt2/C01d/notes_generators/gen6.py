import sys
exec(open('/tmp/hunt2/C01d/HUNT/work/gen.py').read().split("vals =")[0])
prelude += '(def lzv (lz (+ 1 2)))\n(def lst (list 1 2))\n(def sy (quote x))\n(def dsy (quote h.x))\n(def u64 (asUint64 3))\n(def ea [])\n(def eh (hash))\n(def nl nil)\n(def fl 1.5)\n(def st "s")\n(def one 1)\n(defn g [x] x)\n'
vals = 'a h d sn p pk lzv f1 tm rw sel hsel Dog sy dsy one st nl fl ea eh lst u64 ch int64 np'.split()
names=[l.split()[1] for l in open('/tmp/hunt2/C01d/HUNT/work/names.txt') if l.startswith('G') and 'SexpFunction' in l]
skip=set('exit system sys send <! stop source slurpf writef save owritef bsave bload greenpack timeit read setenv dump infix expectError import req'.split())
names=[n for n in names if n not in skip]
stages = ['r','(r 1)','(r)','{r.x = 1}','{r[0] = 1}','(g r)','[r (hash k:r)]','(def z r) z','{r = 1}', '(set r.y 2)', '(== r r)', '(str r)']
out=[]
which=sys.argv[1]
for n in names:
    argsets=[]
    if which=='01':
        argsets.append('')
        for v in vals: argsets.append(v)
    else:
        for v in vals:
            for w in vals: argsets.append(v+' '+w)
    for a in argsets:
        prog = prelude + '-----\n//PROG\n(def r (%s %s))' % (n,a)
        for s in stages:
            prog += '\n-----\n'+s
        out.append(prog)
print('\n=====\n'.join(out))
