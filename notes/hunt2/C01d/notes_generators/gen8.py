types = ['packageScope','packageScopeStack','arraySelector','hashSelector','comment','byte','uint8','int','uint64','int32','rune','int64','float64','bool','string','time.Time','symbol','error','snoopy','weather','hash','field','struct','raw','array','list','Dog','msgmap','infix','quote','def','fn','func','var','a','+','hashidx','arrayidx','&','*','[]','[]int64','[]string','(* int64)','arrayOfint64','nil','true']
stages = '''(def x 1) (x = 2) (def y "s") (y = "t") (def f 1.5) (f = 2.5) x
(T A:1)
(def t (T A:1)) {t.A = 2} t
(def t (T A:1)) {t.A = "s"} t
(def t (T A:1)) {t.A = [nil]} t
[1 2]
(var v T) v
(var w ([] T)) w
(var w (* T)) w
(var w ([] int64)) w
(var w int64) w
(var w string) {w = "s"} w
(func tf [a:T] [n:int64] (return 1)) (tf 1)
(func tg [a:int64 b:string] [n:int64] (return a)) (tg 1 "s")
(def h (hash a:1 b:[1 2])) {h.a = 3} h
(def aa [1 2 3]) {aa[0] = 5} aa
(def sel (arrayidx aa [0])) (def z sel) z
(def hs (hashidx h (quote .a))) (def z hs) z
(def p (& x)) (derefSet p 5) [p (* p) x]
(def pk (package "p" {W := 1})) pk.W
(struct Dog [(field Name: string)]) (def d (Dog Name:"r")) {d.Name = "q"} d
(struct Cat [(field Name: T)]) (def d (Cat)) {d.Name = 1} d
(field Q: int64)
(snoopy of:"x")
(togo (snoopy of:"x"))
(json (hash a:1))
(now)
(raw "abc")
(typelist)
(== 1 1)
(== "a" "a")
(str T)
(type? 1)
(type? T)
T
(T)
(T 1)
(T 1 2)
'''.strip().split('\n')
out=[]
for t in types:
    for fields in ['[(field A: int64)]','[]']:
        prog='(struct %s %s)' % (t,fields)
        prog += '\n//PROG (struct %s %s)' % (t,fields)
        for s in stages:
            prog += '\n-----\n'+s.replace('T',t)
        out.append(prog)
print('\n=====\n'.join(out))
