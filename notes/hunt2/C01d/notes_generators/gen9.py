exec(open('/tmp/hunt2/C01d/HUNT/work/gen.py').read().split("vals =")[0])
ftypes = ['int64','string','Dog','(* Dog)','(* int64)','([] int64)','([] Dog)','([] string)','([2] int64)','([] ([] int64))','(* (* Dog))','snoopy','(* snoopy)','([] snoopy)','float64','bool','symbol','error','time.Time','([] (hash))','hash','S','(* S)','([] S)','arraySelector','packageScopeStack','raw','[]']
vals = ['1','"s"','nil','[]','[1]','[nil]','[[1]]','[[]]','["s" 1]','[d]','[d 1]','[(Dog) nil]','(makeArray 1)','d','(& d)','(& (& d))','(& 1)','sn','(& sn)','[sn]','1.5','true','(quote x)','tm','rw','(list 1)','f1','pk','h','a','sel','hsel','(lz 1)','Dog','int64','(S)','(& (S))','[(S)]','np','vi','[np]','[f1]','[pk]','[(list 1)]','[(raw)]','[tm]','[(& 1)]','[[nil]]','[(hash)]','[h]']
out=[]
for t in ftypes:
    for v in vals:
        out.append(prelude + '//PROG\n(struct S [(field A: %s)])\n(def s (S))\n-----\n{s.A = %s} s\n-----\n(set s.A %s) s\n-----\n(def hs (hashidx s (quote .A))) {hs = %s} s\n-----\n{s[A:] = %s} s\n-----\n(S A:%s)\n-----\n(def z {s.A}) z\n-----\n(defn g [] (s.A = %s)) (g) s' % (t,v,v,v,v,v,v))
print('\n=====\n'.join(out))
