#!/bin/sh
cd /tmp/hunt3/H1 && HUNT_PROGS=/tmp/hunt3/H1/HUNT/scratch/$1 GOFLAGS=-mod=mod GOPROXY=off go test -v -vet=off -count=1 -run TestHuntExplore ./zygo/ 2>&1
