#!/bin/sh
# usage: seedcheck.sh <worktree> <patch.diff> <prop> [<prop>...]   (development helper)
# Applies a candidate seeded change to a scratch worktree of /repo, runs the
# given properties' rules on it (evidence goes to a scratch directory), and
# restores the worktree.
wt="$1"; patch="$2"; shift 2
cd "$(dirname "$0")" || exit 2
. ./env.sh
git -C "$wt" checkout -q -- . || exit 2
( cd "$wt" && patch -p1 -s -f --no-backup-if-mismatch -i "$patch" >/dev/null ) || { echo "PATCH-DOES-NOT-APPLY"; git -C "$wt" checkout -q -- .; find "$wt" -name "*.rej" -not -path "*/SEED/*" -delete; exit 3; }
out=$(mktemp -d /tmp/zyseed.XXXXXX)
for p in "$@"; do
  bin/zycheck -prop "$p" -tier quick -repo "$wt" -verif "$(pwd)" -out "$out" | grep -v '^    \|^KNOWN\|^VIOLATION property' | cut -c1-${SEED_COLS:-330} | tail -${SEED_TAIL:-8}
done
rm -rf "$out"
git -C "$wt" checkout -q -- .
find "$wt" -name "*.rej" -not -path "*/SEED/*" -delete
