#!/bin/sh
# usage: seedconfirm.sh <worktree> <n>     (development helper)
# Confirms a candidate seeded change delivered in <worktree>/SEED: the patch
# applies and compiles, the pinned suite passes with it, the demonstration
# fails with it and passes without it.
wt="$1"; n="$2"
[ -n "$wt" ] && [ -d "$wt/.git" -o -f "$wt/.git" ] && [ "$(cd "$wt" && pwd)" != "/verif" ] && [ "$(cd "$wt" && pwd)" != "/repo" ] || { echo "usage: seedconfirm.sh <scratch worktree> <n>"; exit 2; }
export GOFLAGS=-mod=mod GOPROXY=off; unset GOWORK
cd "$wt" || exit 2
git checkout -q -- . ; rm -f zygo/seed_demo*_test.go
demo=$(ls SEED/demo$n/*_test.go 2>/dev/null | head -1)
[ -n "$demo" ] || { echo "NO-GO-DEMO in SEED/demo$n: $(ls SEED/demo$n)"; exit 4; }
tests=$(grep -ho '^func Test[A-Za-z0-9_]*' SEED/demo$n/*_test.go | sed 's/func //' | paste -sd'|')
cp SEED/demo$n/*_test.go zygo/
echo "-- without the change:"; go test -vet=off -count=1 -run "^($tests)\$" ./zygo/ 2>&1 | tail -3
git apply SEED/patch$n.diff || { echo PATCH-DOES-NOT-APPLY; exit 3; }
go build ./zygo/ ./cmd/zygo/ || { echo DOES-NOT-COMPILE; git checkout -q -- .; exit 3; }
echo "-- with the change:"; go test -vet=off -count=1 -run "^($tests)\$" ./zygo/ 2>&1 | grep -v '^\s' | tail -4
rm -f zygo/seed_demo*_test.go $(for f in SEED/demo$n/*_test.go; do echo zygo/$(basename $f); done)
echo "-- pinned suite with the change:"
go test -json -vet=off -count=1 ./zygo/ 2>/dev/null > /tmp/seedconfirm.$$.json
python3 - /tmp/seedconfirm.$$.json <<'PY'
import json,sys
ok=set();bad=set()
for l in open(sys.argv[1]):
    try: e=json.loads(l)
    except Exception: continue
    if e.get('Test') and e.get('Action') in('pass','fail'):
        (ok if e['Action']=='pass' else bad).add(e['Package']+'::'+e['Test'])
want=set(json.load(open('/root/.vp/BASELINE.json'))['stable_pass'])
print("suite: passed=%d failed=%d missing=%d"%(len(ok),len(bad),len(want-ok)))
PY
rm -f /tmp/seedconfirm.$$.json
git checkout -q -- .
