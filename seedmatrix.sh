#!/bin/sh
# usage: seedmatrix.sh [worktree]   (development helper)
# Runs every stored seeded change through its property's rules and records the
# rules that fire in seeded/<id>/meta.json (detected_by).
cd "$(dirname "$0")" || exit 2
wt="${1:-/tmp/seed/W}"
for d in seeded/${SEED_FILTER:-}*/; do
  id=$(basename "$d")
  prop=$(python3 -c "import json,sys;print(json.load(open('$d/meta.json'))['property'])")
  out=$(SEED_TAIL=40 SEED_COLS=200 ./seedcheck.sh "$wt" "$(pwd)/$d/patch.diff" "$prop")
  rules=$(echo "$out" | grep '^VIOLATION \|^UNDECIDED ' | awk '{print $2}' | sort -u | paste -sd, )
  echo "$id $prop ${rules:-MISS}"
  python3 - "$d/meta.json" "$prop" "$rules" <<'PY'
import json,sys
p,prop,rules=sys.argv[1:4]
m=json.load(open(p))
m['detected_by']={prop:[r for r in rules.split(',') if r]}
json.dump(m,open(p,'w'),indent=1)
PY
done
