#!/usr/bin/env python3
"""usage: seedstore.py <id> <worktree> <n> <property> <title> <needs>   (development helper)
Copies a confirmed seeded change from <worktree>/SEED into /verif/seeded/<id>/."""
import sys, os, shutil, json, glob
sid, wt, n, prop, title, needs = sys.argv[1:7]
d = os.path.join(os.path.dirname(os.path.abspath(__file__)), "seeded", sid)
os.makedirs(os.path.join(d, "demo"), exist_ok=True)
shutil.copy(os.path.join(wt, "SEED", "patch%s.diff" % n), os.path.join(d, "patch.diff"))
for f in glob.glob(os.path.join(wt, "SEED", "demo%s" % n, "*")):
    shutil.copy(f, os.path.join(d, "demo"))
meta = dict(id=sid, property=prop, title=title, needs_to_manifest=needs,
            origin="written by an independent sub-agent that saw only the property text and a scratch worktree",
            confirmed=dict(how="seedconfirm.sh in a scratch worktree: patch applies and builds; pinned suite 121/121 pass with it; the demonstration test fails with it and passes without it",
                           commands=["git apply patch.diff", "go build ./zygo/ ./cmd/zygo/",
                                     "go test -json -vet=off -count=1 ./zygo/  (121 pinned tests pass)",
                                     "cp demo/*_test.go zygo/ && go test -run '<demo tests>' ./zygo/  (fails with the change, passes without)"]),
            detected_by={})
mp = os.path.join(d, "meta.json")
if os.path.exists(mp):
    old = json.load(open(mp))
    meta["detected_by"] = old.get("detected_by", {})
json.dump(meta, open(mp, "w"), indent=1)
print("stored", d)
