#!/usr/bin/env python3
"""Checker self-test for the thorough tier.

usage: selftest.py <Cxx> [--jobs N] [--evidence FILE]

For the given property it takes
  * every recorded hand mutant in selftest/mutants.jsonl (one textual
    replacement in one file), and
  * every confirmed seeded change under seeded/*/ whose meta.json names the
    property (a unified diff), and
  * every behaviour-preserving refactoring under neutral/*/ (written by
    independent sub-agents; the suite passes with each): on these the rules
    must stay quiet, a report is a SELFTEST-FALSE-ALARM,
applies each one to its own scratch copy of the repository (outside /repo and
/verif, removed afterwards), makes sure the variant still compiles, runs the
property's rules on the variant (one zycheck process per variant) and records
whether the rules report a violation, and whether the expected rule is among
the ones that fire.

A variant that no longer applies (the source it edits has changed) is
SKIPPED; a variant that compiles and is not reported is a SELFTEST-MISS.
Neither is a violation of the property on /repo: the script always exits 0.
The tallies are merged into the evidence file under coverage.selftest so that
a loss of detection power is visible.
"""
import json, os, subprocess, sys, tempfile, shutil, glob, time
from concurrent.futures import ThreadPoolExecutor

VERIF = os.path.dirname(os.path.abspath(__file__))
REPO = os.environ.get("ZY_REPO", "/repo")


def sh(cmd, cwd=None, timeout=1800):
    p = subprocess.run(cmd, cwd=cwd, shell=isinstance(cmd, str), stdout=subprocess.PIPE,
                       stderr=subprocess.STDOUT, timeout=timeout, text=True)
    return p.returncode, p.stdout


def variants(prop):
    out = []
    mf = os.path.join(VERIF, "selftest", "mutants.jsonl")
    if os.path.exists(mf):
        for line in open(mf):
            line = line.strip()
            if not line:
                continue
            try:
                d = json.loads(line)
            except Exception:
                continue
            if d.get("prop") == prop and "old" in d and "new" in d:
                out.append(dict(kind="mutant", name=d["name"], file=d["file"], old=d["old"], new=d["new"],
                                expect=d.get("expect", "")))
    for meta in sorted(glob.glob(os.path.join(VERIF, "seeded", "*", "meta.json"))):
        try:
            m = json.load(open(meta))
        except Exception:
            continue
        props = m.get("properties") or [m.get("property")]
        if prop not in props:
            continue
        d = os.path.dirname(meta)
        patch = os.path.join(d, "patch.diff")
        if os.path.exists(patch):
            exp = m.get("expected_rules", {})
            out.append(dict(kind="seeded", name=os.path.basename(d), patch=patch,
                            expect=exp.get(prop, "") if isinstance(exp, dict) else "",
                            detected_by=m.get("detected_by", {})))
    # behaviour-preserving refactorings written by independent sub-agents: none of them may be reported
    for patch in sorted(glob.glob(os.path.join(VERIF, "neutral", "*", "patch.diff"))):
        out.append(dict(kind="neutral", name=os.path.basename(os.path.dirname(patch)), patch=patch, expect=""))
    return out


def run_variant(prop, v):
    d = tempfile.mkdtemp(prefix="zyself.")
    res = dict(kind=v["kind"], name=v["name"], expect=v.get("expect", ""))
    try:
        rc, _ = sh(["rsync", "-a", "--exclude", ".git", REPO + "/", d + "/"])
        if rc != 0:
            res["status"] = "error-copy"
            return res
        if v["kind"] == "mutant":
            p = os.path.join(d, v["file"])
            try:
                s = open(p).read()
            except Exception:
                res["status"] = "skipped-not-applicable"
                return res
            if s.count(v["old"]) != 1:
                res["status"] = "skipped-not-applicable"
                return res
            open(p, "w").write(s.replace(v["old"], v["new"]))
        else:
            rc, out = sh(["patch", "-p1", "--no-backup-if-mismatch", "-s", "-f", "-i", v["patch"]], cwd=d)
            if rc != 0:
                res["status"] = "skipped-not-applicable"
                return res
        outdir = os.path.join(d, ".verifout")
        os.makedirs(outdir, exist_ok=True)
        rc, out = sh([os.path.join(VERIF, "bin", "zycheck"), "-prop", prop, "-tier", "quick",
                      "-repo", d, "-verif", VERIF, "-out", outdir])
        rules = []
        for line in out.splitlines():
            if line.startswith("VIOLATION ") and not line.startswith("VIOLATION property="):
                parts = line.split()
                if len(parts) > 1:
                    rules.append(parts[1])
            if line.startswith("UNDECIDED "):
                parts = line.split()
                if len(parts) > 1:
                    rules.append(parts[1] + "(undecided)")
        res["rules_fired"] = sorted(set(rules))
        if v["kind"] == "neutral":
            if rc == 0:
                res["status"] = "neutral-quiet"
            elif rc == 1:
                res["status"] = "FALSE-ALARM"
            else:
                rc2, _ = sh("go build ./zygo/ ./cmd/zygo/", cwd=d)
                res["status"] = "skipped-does-not-compile" if rc2 != 0 else "error-rc%d" % rc
            return res
        if rc == 1 and rules:
            exp = v.get("expect", "")
            res["status"] = "detected" if (not exp or exp in rules) else "detected-by-other-rule"
        elif rc == 0:
            res["status"] = "MISS"
        else:
            # the analyser type-checks the variant itself; tell a variant that
            # does not compile from a failure of the analyser
            rc2, _ = sh("go build ./zygo/ ./cmd/zygo/", cwd=d)
            if rc2 != 0:
                res["status"] = "skipped-does-not-compile"
            else:
                res["status"] = "error-rc%d" % rc
                res["output_tail"] = out[-400:]
        return res
    finally:
        shutil.rmtree(d, ignore_errors=True)


def main():
    args = sys.argv[1:]
    if not args:
        print(__doc__)
        return 0
    prop = args[0]
    jobs = 6
    ev = os.path.join(VERIF, "evidence", prop + ".json")
    i = 1
    while i < len(args):
        if args[i] == "--jobs":
            jobs = int(args[i + 1]); i += 2
        elif args[i] == "--evidence":
            ev = args[i + 1]; i += 2
        else:
            i += 1
    vs = variants(prop)
    t0 = time.time()
    with ThreadPoolExecutor(max_workers=jobs) as ex:
        results = list(ex.map(lambda v: run_variant(prop, v), vs))
    tally = {}
    for r in results:
        tally[r["status"]] = tally.get(r["status"], 0) + 1
        tag = "SELFTEST-MISS" if r["status"] == "MISS" else ("SELFTEST-FALSE-ALARM" if r["status"] == "FALSE-ALARM" else "selftest")
        print("%s property=%s %s %s: %s %s" % (tag, prop, r["kind"], r["name"], r["status"],
                                              ",".join(r.get("rules_fired", []))[:200]))
    summary = dict(variants=len(results), tally=tally, wall_s=round(time.time() - t0, 1),
                   rule="each variant is one recorded source change (hand mutant or confirmed seeded patch) applied to a scratch copy that still compiles; 'detected' = the property's rules exit 1 and the expected rule is among those that fire; a 'neutral' variant is a behaviour-preserving refactoring on which the rules must exit 0",
                   results=results)
    print("selftest property=%s variants=%d %s" % (prop, len(results), json.dumps(tally, sort_keys=True)))
    try:
        e = json.load(open(ev))
        e.setdefault("coverage", {})["selftest"] = summary
        e["wall_s"] = e.get("wall_s", 0) + summary["wall_s"]
        json.dump(e, open(ev, "w"), indent=1)
    except Exception as x:
        print("selftest: could not merge into evidence:", x)
    return 0


if __name__ == "__main__":
    sys.exit(main())
