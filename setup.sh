#!/bin/sh
# Build the analyser offline from files on disk only.
set -e
cd "$(dirname "$0")"
. ./env.sh
mkdir -p bin evidence/violations
cd zycheck
cp /repo/go.sum /dev/null 2>&1 || true
go build -o ../bin/zycheck .
echo "setup ok: $(../bin/zycheck -version)"
