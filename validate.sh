#!/bin/sh
# validates MANIFEST.json and every evidence file against the schemas
python3-vt - <<'PY'
import json,jsonschema,glob,sys
jsonschema.validate(json.load(open('/verif/MANIFEST.json')),json.load(open('/root/.vp/MANIFEST.schema.json')))
es=json.load(open('/root/.vp/EVIDENCE.schema.json'))
for f in sorted(glob.glob('/verif/evidence/C*.json')):
    jsonschema.validate(json.load(open(f)),es)
print('manifest + %d evidence files valid'%len(glob.glob('/verif/evidence/C*.json')))
PY
