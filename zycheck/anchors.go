package main

// Anchors: machine-checked facts a table exemption relies on.
//
// A row of tables/Cxx.tsv may carry a sixth column with one or more anchors
// separated by ';'. The exemption applies only while every anchor holds on the
// tree being analysed; otherwise the obligation stays a violation and says
// which anchor failed. Anchors turn "this index is safe because the arity was
// tested at entry" from a sentence into a dominance fact that is re-derived on
// every run, so deleting the test re-arms the rule.
//
//   lenguard            the indexed slice's length is compared in a branch
//                       that dominates the access
//   peek                the access tokens[k] is dominated by a checked call
//                       ParserPeekNextToken(k') with k' >= k on the same base
//                       value and no token is consumed in between
//   madewith            the indexed slice was made in this function with length
//                       len(Y)+c, and the index is len(Y)+c' with c' < c or is
//                       bounded by a dominating comparison with len(Y)
//   sortmethod          the access sits in a Less/Swap method of a type that
//                       also has Len: package sort supplies indices below Len()
//   nonempty            stack.elements[stack.tos]: a dominating IsEmpty() test
//                       excludes the empty stack (tos == len(elements)-1 is
//                       the who-writes invariant of C01-UFL)
//   aftercall:F         the construct is reached only after a call of F in the
//                       same function returned a nil error (F validates what
//                       the construct relies on)
//   lenmeasure:F        the widths F returns and the widths the construct's function
//                       subtracts from them are both byte lengths (the builtin len):
//                       a producer and a consumer of column widths that measured
//                       differently (runes against bytes) would make the padding negative
//   rettype:F:T         the asserted value is result 0 of F, the assertion is
//                       reached only when result 1 is true, and every return
//                       of F with result 1 == true returns a T

import (
	"fmt"
	"go/token"
	"go/types"
	"strings"

	"golang.org/x/tools/go/ssa"
)

func (c *Ctx) ssaFuncNamed(name string) *ssa.Function {
	if c.fnByName == nil {
		c.fnByName = map[string]*ssa.Function{}
		for _, f := range c.zygoFuncs() {
			for _, g := range withClosures(f) {
				c.fnByName[fnName(g)] = g
			}
		}
	}
	return c.fnByName[name]
}

// instrAt: the indexing / slicing / asserting instructions of f at source position pos.
func instrsAt(f *ssa.Function, pos token.Pos) []ssa.Instruction {
	var out []ssa.Instruction
	eachInstr(f, func(b *ssa.BasicBlock, i int, in ssa.Instruction) {
		if in.Pos() != pos {
			return
		}
		switch in.(type) {
		case *ssa.IndexAddr, *ssa.Index, *ssa.Slice, *ssa.TypeAssert, *ssa.Lookup, *ssa.Panic:
			out = append(out, in)
		}
	})
	return out
}

func (c *Ctx) anchorHolds(row *TableRow, o *Ob, pos token.Pos) (bool, string) {
	if row.Anchor == "" {
		return true, ""
	}
	if c.Prog == nil {
		return false, "anchors need the SSA program"
	}
	f := c.ssaFuncNamed(o.Fn)
	if f == nil {
		return false, "function " + o.Fn + " not found in the SSA program"
	}
	ins := instrsAt(f, pos)
	if len(ins) == 0 {
		return false, "no indexing/asserting instruction found at " + c.pos(pos)
	}
	for _, a := range strings.Split(row.Anchor, ";") {
		a = strings.TrimSpace(a)
		if a == "" {
			continue
		}
		parts := strings.Split(a, ":")
		okAny := false
		why := ""
		for _, in := range ins {
			var ok bool
			switch parts[0] {
			case "lenguard":
				ok, why = anchorLenGuard(in)
			case "madewith":
				ok, why = anchorMadeWith(in)
			case "sortmethod":
				ok, why = anchorSortMethod(in)
			case "nonempty":
				ok, why = c.anchorNonEmpty(in)
			case "aftercall":
				if len(parts) != 2 {
					return false, "malformed anchor " + a
				}
				ok, why = c.anchorAfterCall(in, parts[1])
			case "lenmeasure":
				if len(parts) != 2 {
					return false, "malformed anchor " + a
				}
				ok, why = c.anchorLenMeasure(in, parts[1])
			case "peek":
				ok, why = c.anchorPeek(in)
			case "rettype":
				if len(parts) != 3 {
					return false, "malformed anchor " + a
				}
				ok, why = c.anchorRetType(in, parts[1], parts[2])
			default:
				return false, "unknown anchor " + a
			}
			if ok {
				okAny = true
			}
		}
		if !okAny {
			return false, a + ": " + why
		}
	}
	return true, ""
}

// ---- lenguard

func baseAndIndex(in ssa.Instruction) (ssa.Value, ssa.Value) {
	switch x := in.(type) {
	case *ssa.IndexAddr:
		return x.X, x.Index
	case *ssa.Index:
		return x.X, x.Index
	case *ssa.Slice:
		if x.High != nil {
			return x.X, x.High
		}
		return x.X, x.Low
	}
	return nil, nil
}

// sameStorage: a and b denote the same slice/string variable as far as a local argument can tell.
func sameStorage(a, b ssa.Value, depth int) bool {
	if a == b {
		return true
	}
	if depth > 4 {
		return false
	}
	if sameFieldLoad(a, b) {
		return true
	}
	// loads of the same local variable / same address
	la, ok1 := a.(*ssa.UnOp)
	lb, ok2 := b.(*ssa.UnOp)
	if ok1 && ok2 && la.Op == token.MUL && lb.Op == token.MUL {
		if la.X == lb.X {
			return true
		}
		fa, okA := la.X.(*ssa.FieldAddr)
		fb, okB := lb.X.(*ssa.FieldAddr)
		if okA && okB && fa.Field == fb.Field && sameStorage(fa.X, fb.X, depth+1) {
			return true
		}
	}
	// a slice of the same thing: args[1:] has len(args)-1
	if sa, ok := a.(*ssa.Slice); ok && sameStorage(sa.X, b, depth+1) {
		return true
	}
	if sb, ok := b.(*ssa.Slice); ok && sameStorage(a, sb.X, depth+1) {
		return true
	}
	// pointer-to-array derefs, phis with one real source
	if pa, ok := a.(*ssa.Phi); ok {
		for _, e := range pa.Edges {
			if sameStorage(e, b, depth+1) {
				return true
			}
		}
	}
	if pb, ok := b.(*ssa.Phi); ok {
		for _, e := range pb.Edges {
			if sameStorage(a, e, depth+1) {
				return true
			}
		}
	}
	return false
}

// mentionsLenOf: v is computed from len(x) with x the same storage as base.
func mentionsLenOf(v, base ssa.Value, depth int, seen map[ssa.Value]bool) bool {
	if depth > 8 || seen[v] {
		return false
	}
	seen[v] = true
	switch x := v.(type) {
	case *ssa.Call:
		if bi, ok := x.Call.Value.(*ssa.Builtin); ok && (bi.Name() == "len" || bi.Name() == "cap") && len(x.Call.Args) == 1 {
			return sameStorage(x.Call.Args[0], base, 0)
		}
	case *ssa.BinOp:
		return mentionsLenOf(x.X, base, depth+1, seen) || mentionsLenOf(x.Y, base, depth+1, seen)
	case *ssa.Convert:
		return mentionsLenOf(x.X, base, depth+1, seen)
	case *ssa.Phi:
		for _, e := range x.Edges {
			if mentionsLenOf(e, base, depth+1, seen) {
				return true
			}
		}
	case *ssa.UnOp:
		if x.Op == token.MUL {
			// a local spilled to memory: look at what is stored there
			if al, ok := x.X.(*ssa.Alloc); ok {
				for _, ref := range *al.Referrers() {
					if st, ok := ref.(*ssa.Store); ok && st.Addr == ssa.Value(al) && mentionsLenOf(st.Val, base, depth+1, seen) {
						return true
					}
				}
			}
		}
	}
	return false
}

func anchorLenGuard(in ssa.Instruction) (bool, string) {
	base, _ := baseAndIndex(in)
	if base == nil {
		return false, "not an index or slice operation"
	}
	// a conditional branch that dominates the access and whose condition involves len(base)
	blk := in.Block()
	for d := blk; d != nil; d = d.Idom() {
		for p := d; p != nil; p = p.Idom() {
			cond, _, _ := condBranch(p)
			if cond == nil || p == blk {
				continue
			}
			if mentionsLenOf(cond, base, 0, map[ssa.Value]bool{}) {
				return true, ""
			}
		}
		break
	}
	// the loop condition of the enclosing loop sits in the same block as a phi-header: also accept a
	// condition in the access's own block chain that was evaluated before (switch arms share blocks)
	return false, "no dominating branch compares the length of the indexed value"
}

// ---- peek

// linearOf: v = base + k for a constant k.
func linearOf(v ssa.Value) (ssa.Value, int64) {
	var k int64
	for {
		bo, ok := v.(*ssa.BinOp)
		if !ok {
			return v, k
		}
		if cy, ok := constIntOf(bo.Y); ok && (bo.Op == token.ADD || bo.Op == token.SUB) {
			if bo.Op == token.ADD {
				k += cy
			} else {
				k -= cy
			}
			v = bo.X
			continue
		}
		return v, k
	}
}

func (c *Ctx) anchorPeek(in ssa.Instruction) (bool, string) {
	peek := c.fn("Parser.ParserPeekNextToken")
	get := c.fn("Lexer.GetNextToken")
	if peek == nil {
		return false, "Parser.ParserPeekNextToken not found"
	}
	if ok, why := c.peekContract(); !ok {
		return false, why
	}
	_, idx := baseAndIndex(in)
	if idx == nil {
		return false, "not an index operation"
	}
	ib, ik := linearOf(idx)
	f := in.Parent()
	found := false
	why := "no checked ParserPeekNextToken(k') with k' >= the index dominates the access"
	eachInstr(f, func(b *ssa.BasicBlock, i int, x ssa.Instruction) {
		call, ok := x.(*ssa.Call)
		if !ok || call.Call.StaticCallee() != peek || !dominatesInstr(call, in) {
			return
		}
		ab, ak := linearOf(call.Call.Args[1])
		sameBase := ab == ib
		if !sameBase {
			if ca, ok1 := constIntOf(ab); ok1 {
				if cb, ok2 := constIntOf(ib); ok2 {
					sameBase = true
					ak += ca
					ik2 := ik + cb
					if ak < ik2 {
						return
					}
					ak, ik = ak, ik
				}
			}
		}
		if !sameBase || ak < ik {
			return
		}
		// error checked: the access is reached only through err == nil of this call
		checked := guardedBy(in.Block(), func(cond ssa.Value) (bool, bool) {
			bo, ok := cond.(*ssa.BinOp)
			if !ok || (bo.Op != token.NEQ && bo.Op != token.EQL) || !isNilConst(bo.Y) {
				return false, false
			}
			ex, ok := bo.X.(*ssa.Extract)
			if !ok || ex.Tuple != ssa.Value(call) {
				return false, false
			}
			return true, bo.Op == token.EQL
		})
		if !checked {
			why = "the dominating ParserPeekNextToken call's error is not tested before the access"
			return
		}
		// nothing consumes a token in between
		consumed := false
		if get != nil {
			eachInstr(f, func(b2 *ssa.BasicBlock, j int, y ssa.Instruction) {
				if c2, ok := y.(*ssa.Call); ok && c2.Call.StaticCallee() == get && dominatesInstr(call, y) && dominatesInstr(y, in) {
					consumed = true
				}
			})
		}
		if consumed {
			why = "a token is consumed between the peek and the access"
			return
		}
		found = true
	})
	return found, why
}

// peekContract: ParserPeekNextToken(n) returns a nil error only with a token
// other than the end marker, and Lexer.PeekNextToken(n) returns such a token
// only as tokens[n] after its fill loop `len(tokens) <= n` has exited.
func (c *Ctx) peekContract() (bool, string) {
	if c.peekOK != 0 {
		return c.peekOK > 0, c.peekWhy
	}
	set := func(ok bool, why string) (bool, string) {
		if ok {
			c.peekOK = 1
		} else {
			c.peekOK = -1
		}
		c.peekWhy = why
		return ok, why
	}
	pp := c.fn("Parser.ParserPeekNextToken")
	lp := c.fn("Lexer.PeekNextToken")
	typ := c.field("Token", "typ")
	toks := c.field("Lexer", "tokens")
	if pp == nil || lp == nil || typ == nil || toks == nil {
		return set(false, "peek functions or Token.typ / Lexer.tokens not found")
	}
	// --- the parser's peek: a return whose error may be nil is guarded by tok.typ != TokenEnd
	var inner *ssa.Call
	for _, ci := range callsOf(pp, lp) {
		if call, ok := ci.(*ssa.Call); ok {
			inner = call
		}
	}
	if inner == nil || len(pp.Params) < 2 || inner.Call.Args[1] != ssa.Value(pp.Params[1]) {
		return set(false, "ParserPeekNextToken does not peek the lexer at its own argument")
	}
	endConst := int64(-1)
	if k, ok := c.Zygo.Types.Scope().Lookup("TokenEnd").(*types.Const); ok {
		if v, ok := constInt64(k); ok {
			endConst = v
		}
	}
	for _, r := range returnsOf(pp) {
		if len(r.Results) != 2 {
			continue
		}
		errv := r.Results[1]
		nonNil := true
		for _, leaf := range phiLeaves(errv) {
			if isNilConst(leaf) {
				nonNil = false
			}
			if ex, ok := leaf.(*ssa.Extract); ok && ex.Tuple == ssa.Value(inner) {
				// the lexer's error: nil unless the branch `err != nil` was taken
				if !guardedBy(r.Block(), func(cond ssa.Value) (bool, bool) {
					bo, ok := cond.(*ssa.BinOp)
					if !ok || bo.Op != token.NEQ || !isNilConst(bo.Y) || bo.X != ssa.Value(ex) {
						return false, false
					}
					return true, true
				}) {
					nonNil = false
				}
			}
		}
		if nonNil {
			continue
		}
		// may return a nil error: must be under tok.typ != TokenEnd
		okGuard := guardedBy(r.Block(), func(cond ssa.Value) (bool, bool) {
			bo, ok := cond.(*ssa.BinOp)
			if !ok || (bo.Op != token.NEQ && bo.Op != token.EQL) {
				return false, false
			}
			k, isK := constIntOf(bo.Y)
			if !isK || k != endConst {
				return false, false
			}
			fl, ok := bo.X.(*ssa.Field)
			if !ok || fField(fl) != typ {
				if _, ok2 := loadOfField(bo.X, typ); !ok2 {
					return false, false
				}
			}
			return true, bo.Op == token.NEQ
		})
		if !okGuard {
			return set(false, "ParserPeekNextToken can return a nil error together with the end-of-input token (at "+c.pos(r.Pos())+"): callers index the token queue past its end")
		}
	}
	// --- the lexer's peek: a token that is not the EndTk sentinel is tokens[extra] after the fill loop
	for _, r := range returnsOf(lp) {
		if len(r.Results) != 2 {
			continue
		}
		for _, leaf := range phiLeaves(r.Results[0]) {
			if ld, ok := leaf.(*ssa.UnOp); ok && ld.Op == token.MUL {
				if g, ok := ld.X.(*ssa.Global); ok && g.Name() == "EndTk" {
					continue
				}
				idxOK := false
				if ia, ok := ld.X.(*ssa.IndexAddr); ok {
					if k, isK := constIntOf(ia.Index); (isK && k == 0) || ia.Index == ssa.Value(lp.Params[1]) {
						idxOK = true // tokens[extra], or tokens[0] (extra >= 0)
					}
				}
				if ia, ok := ld.X.(*ssa.IndexAddr); ok && derivesFromField(ia.X, toks, 0) && idxOK {
					// reached only when len(tokens) <= extra is false
					if guardedBy(r.Block(), func(cond ssa.Value) (bool, bool) {
						bo, ok := cond.(*ssa.BinOp)
						if !ok {
							return false, false
						}
						if !mentionsLenOf(bo.X, ia.X, 0, map[ssa.Value]bool{}) || bo.Y != ssa.Value(lp.Params[1]) {
							return false, false
						}
						switch bo.Op {
						case token.LEQ:
							return true, false
						case token.GTR:
							return true, true
						}
						return false, false
					}) {
						continue
					}
					return set(false, "Lexer.PeekNextToken returns tokens[extra] without having established len(tokens) > extra")
				}
			}
			if _, ok := leaf.(*ssa.Const); ok {
				continue // zero Token on an error path
			}
			return set(false, fmt.Sprintf("Lexer.PeekNextToken returns a token from an unrecognised source (%s) at %s", leaf.Name(), c.pos(r.Pos())))
		}
	}
	return set(true, "")
}

// ---- rettype

func (c *Ctx) anchorRetType(in ssa.Instruction, fname, tname string) (bool, string) {
	ta, ok := in.(*ssa.TypeAssert)
	if !ok {
		return false, "not a type assertion"
	}
	g := c.fn(fname)
	if g == nil {
		return false, fname + " not found"
	}
	ex, ok := ta.X.(*ssa.Extract)
	if !ok || ex.Index != 0 {
		return false, "the asserted value is not result 0 of a call"
	}
	call, ok := ex.Tuple.(*ssa.Call)
	if !ok || call.Call.StaticCallee() != g {
		return false, "the asserted value is not result 0 of " + fname
	}
	// reached only when result 1 is true
	if !guardedBy(in.Block(), func(cond ssa.Value) (bool, bool) {
		if e2, ok := cond.(*ssa.Extract); ok && e2.Tuple == ssa.Value(call) && e2.Index == 1 {
			return true, true
		}
		return false, false
	}) {
		return false, "the assertion is not reached only through " + fname + "'s second result being true"
	}
	if typeShort(ta.AssertedType) != tname {
		return false, "asserted type is " + typeShort(ta.AssertedType)
	}
	for _, r := range returnsOf(g) {
		if len(r.Results) != 2 {
			continue
		}
		mayTrue := false
		for _, leaf := range phiLeaves(r.Results[1]) {
			if k, ok := leaf.(*ssa.Const); !ok || k.Value == nil || k.Value.String() != "false" {
				mayTrue = true
			}
		}
		if !mayTrue {
			continue
		}
		for _, leaf := range phiLeaves(r.Results[0]) {
			mi, ok := leaf.(*ssa.MakeInterface)
			if !ok || !types.Identical(mi.X.Type(), ta.AssertedType) {
				return false, fmt.Sprintf("%s can return true together with a value that is not a %s (at %s)", fname, tname, c.pos(r.Pos()))
			}
		}
	}
	return true, ""
}

// ---- madewith

// lenLinear: v = len(S) + k.
func lenLinear(v ssa.Value) (ssa.Value, int64, bool) {
	base, k := linearOf(v)
	if call, ok := base.(*ssa.Call); ok {
		if bi, ok := call.Call.Value.(*ssa.Builtin); ok && bi.Name() == "len" && len(call.Call.Args) == 1 {
			return call.Call.Args[0], k, true
		}
	}
	return nil, 0, false
}

// madeSlice: the MakeSlice that produced the slice value v in this function.
func madeSlice(v ssa.Value, depth int) *ssa.MakeSlice {
	if depth > 4 {
		return nil
	}
	switch x := v.(type) {
	case *ssa.MakeSlice:
		return x
	case *ssa.UnOp:
		if x.Op != token.MUL {
			return nil
		}
		// a local or a field of a local object: look at the stores to that address
		var found *ssa.MakeSlice
		n := 0
		addr := x.X
		visit := func(st *ssa.Store) {
			n++
			if m := madeSlice(st.Val, depth+1); m != nil {
				found = m
			}
		}
		if addr.Referrers() != nil {
			for _, r := range *addr.Referrers() {
				if st, ok := r.(*ssa.Store); ok && st.Addr == addr {
					visit(st)
				}
			}
		}
		if fa, ok := addr.(*ssa.FieldAddr); ok {
			eachInstr(x.Parent(), func(b *ssa.BasicBlock, i int, in ssa.Instruction) {
				if st, ok := in.(*ssa.Store); ok {
					if fa2, ok := st.Addr.(*ssa.FieldAddr); ok && fa2 != fa && fa2.X == fa.X && fa2.Field == fa.Field {
						visit(st)
					}
				}
			})
		}
		if n == 1 {
			return found
		}
	case *ssa.Phi:
		var found *ssa.MakeSlice
		for _, e := range x.Edges {
			if m := madeSlice(e, depth+1); m != nil {
				if found != nil && found != m {
					return nil
				}
				found = m
			}
		}
		return found
	case *ssa.Slice:
		return nil
	}
	return nil
}

func anchorMadeWith(in ssa.Instruction) (bool, string) {
	base, idx := baseAndIndex(in)
	if base == nil || idx == nil {
		return false, "not an index operation"
	}
	mk := madeSlice(base, 0)
	if mk == nil {
		return false, "the indexed slice is not made (exactly once) in this function"
	}
	src, c1, ok := lenLinear(mk.Len)
	if !ok {
		return false, "the slice is not made with a length of the form len(Y)+c"
	}
	if s2, c2, ok := lenLinear(idx); ok && sameStorage(s2, src, 0) {
		if c2 < c1 {
			return true, ""
		}
		return false, "the index len(Y)+c' is not below the made length len(Y)+c"
	}
	if c1 < 0 {
		return false, "the slice is made shorter than the collection that bounds the index"
	}
	// bounded by a dominating comparison with len(Y)
	blk := in.Block()
	for p := blk.Idom(); p != nil; p = p.Idom() {
		cond, _, _ := condBranch(p)
		if cond != nil && mentionsLenOf(cond, src, 0, map[ssa.Value]bool{}) {
			return true, ""
		}
	}
	return false, "no dominating branch compares the index with the length the slice was made with"
}

// ---- sortmethod

func anchorSortMethod(in ssa.Instruction) (bool, string) {
	f := in.Parent()
	for f.Parent() != nil {
		f = f.Parent()
	}
	recv := f.Signature.Recv()
	if recv == nil || (f.Name() != "Less" && f.Name() != "Swap") {
		return false, "not inside a Less/Swap method"
	}
	ms := types.NewMethodSet(recv.Type())
	has := map[string]bool{}
	for i := 0; i < ms.Len(); i++ {
		has[ms.At(i).Obj().Name()] = true
	}
	if !has["Len"] || !has["Less"] || !has["Swap"] {
		return false, "the receiver type does not implement sort.Interface"
	}
	base, idx := baseAndIndex(in)
	if base == nil {
		return false, "not an index operation"
	}
	// the index is one of the method's parameters, the base is the receiver
	for _, p := range f.Params[1:] {
		if idx == ssa.Value(p) {
			return true, ""
		}
	}
	return false, "the index is not one of the indices package sort passes in"
}

// ---- nonempty

func (c *Ctx) anchorNonEmpty(in ssa.Instruction) (bool, string) {
	isEmpty := c.fn("Stack.IsEmpty")
	tos := c.field("Stack", "tos")
	if isEmpty == nil || tos == nil {
		return false, "Stack.IsEmpty / Stack.tos not found"
	}
	_, idx := baseAndIndex(in)
	if idx == nil {
		return false, "not an index operation"
	}
	if _, ok := loadOfField(idx, tos); !ok {
		return false, "the index is not the stack's tos"
	}
	// a dominating `if stack.IsEmpty()` whose true branch does not reach the access
	blk := in.Block()
	for p := blk; p != nil; p = p.Idom() {
		cond, t, _ := condBranch(p)
		if cond == nil || p == blk {
			continue
		}
		core, neg := stripNot(cond)
		call, ok := core.(*ssa.Call)
		if !ok || call.Call.StaticCallee() != isEmpty {
			continue
		}
		emptySucc := t
		if neg {
			emptySucc = p.Succs[1]
		}
		if emptySucc != blk && !blockReaches(emptySucc, blk) {
			return true, ""
		}
	}
	return false, "no dominating IsEmpty() test keeps the empty stack away from this access"
}

// ---- aftercall

func (c *Ctx) anchorAfterCall(in ssa.Instruction, fname string) (bool, string) {
	g := c.fn(fname)
	if g == nil {
		return false, fname + " not found"
	}
	ei := errResultIndex(g.Signature)
	if ei < 0 {
		return false, fname + " returns no error"
	}
	f := in.Parent()
	for _, ci := range callsOf(f, g) {
		call, ok := ci.(*ssa.Call)
		if !ok || !dominatesInstr(call, in) {
			continue
		}
		checked := guardedBy(in.Block(), func(cond ssa.Value) (bool, bool) {
			bo, ok := cond.(*ssa.BinOp)
			if !ok || (bo.Op != token.NEQ && bo.Op != token.EQL) || !isNilConst(bo.Y) {
				return false, false
			}
			switch x := bo.X.(type) {
			case *ssa.Extract:
				if x.Tuple != ssa.Value(call) || x.Index != ei {
					return false, false
				}
			case *ssa.Call:
				if x != call {
					return false, false
				}
			default:
				return false, false
			}
			return true, bo.Op == token.EQL
		})
		if checked {
			// an unchecked type assertion relies on more than "F did not fail": F must have found the
			// same value to be of that type on every path on which it succeeds
			if ta, isTA := in.(*ssa.TypeAssert); isTA && !ta.CommaOk {
				if ok, why := validatesType(f, ta, g, call); !ok {
					return false, why
				}
			}
			return true, ""
		}
	}
	return false, "no call of " + fname + " with its error tested dominates the construct"
}

// accessPath: a canonical spelling of where a value is read from, relative to the parameters of its function
// (p0.Select.Val[0]); "" when it is not a chain of field reads and constant indexes from a parameter.
func accessPath(v ssa.Value, depth int) string {
	if depth > 8 {
		return ""
	}
	switch x := v.(type) {
	case *ssa.Parameter:
		for i, p := range x.Parent().Params {
			if p == x {
				return fmt.Sprintf("p%d", i)
			}
		}
	case *ssa.UnOp:
		if x.Op != token.MUL {
			return ""
		}
		switch a := x.X.(type) {
		case *ssa.FieldAddr:
			base := accessPath(a.X, depth+1)
			if base == "" || faField(a) == nil {
				return ""
			}
			return base + "." + faField(a).Name()
		case *ssa.IndexAddr:
			base := accessPath(a.X, depth+1)
			k, ok := constIntOf(a.Index)
			if base == "" || !ok {
				return ""
			}
			return fmt.Sprintf("%s[%d]", base, k)
		}
	case *ssa.FieldAddr:
		base := accessPath(x.X, depth+1)
		if base == "" || faField(x) == nil {
			return ""
		}
		return base + ".&" + faField(x).Name()
	}
	return ""
}

// validatesType: g (called by f on the same receiver) returns a nil error only on paths that passed a successful
// assertion of the value with the same access path to the asserted type.
func validatesType(f *ssa.Function, ta *ssa.TypeAssert, g *ssa.Function, call *ssa.Call) (bool, string) {
	want := accessPath(ta.X, 0)
	if want == "" || !strings.HasPrefix(want, "p0") {
		return false, "the asserted value is not a field path from the receiver; what " + fnName(g) + " validated cannot be matched to it"
	}
	if len(call.Call.Args) == 0 || len(f.Params) == 0 || call.Call.Args[0] != ssa.Value(f.Params[0]) || len(g.Params) == 0 {
		return false, fnName(g) + " is not called on the same receiver"
	}
	ei := errResultIndex(g.Signature)
	// blocks of g entered only after the same path was found to be of the asserted type
	var okBlocks []*ssa.BasicBlock
	eachInstr(g, func(b *ssa.BasicBlock, i int, in ssa.Instruction) {
		t2, ok := in.(*ssa.TypeAssert)
		if !ok || !t2.CommaOk || !types.Identical(t2.AssertedType, ta.AssertedType) || accessPath(t2.X, 0) != want {
			return
		}
		for _, r := range *t2.Referrers() {
			ex, ok := r.(*ssa.Extract)
			if !ok || ex.Index != 1 {
				continue
			}
			for _, r2 := range *ex.Referrers() {
				if iff, ok := r2.(*ssa.If); ok {
					okBlocks = append(okBlocks, iff.Block().Succs[0])
				}
			}
		}
	})
	if len(okBlocks) == 0 {
		return false, fnName(g) + " never tests " + want + " for " + typeShort(ta.AssertedType)
	}
	// cases the caller has excluded before the call: a boolean result of a helper called on the same receiver,
	// which f tests and leaves on (so it is false when the assertion runs); a success return of g that lies under
	// the true side of the same helper result is not a path that leads to the assertion
	type fact struct {
		h   *ssa.Function
		idx int
	}
	excluded := map[fact]bool{}
	helperBool := func(fn *ssa.Function, cond ssa.Value) (fact, bool) {
		ex, ok := cond.(*ssa.Extract)
		if !ok {
			return fact{}, false
		}
		hc, ok := ex.Tuple.(*ssa.Call)
		if !ok || hc.Call.StaticCallee() == nil || len(hc.Call.Args) == 0 || len(fn.Params) == 0 || hc.Call.Args[0] != ssa.Value(fn.Params[0]) {
			return fact{}, false
		}
		return fact{hc.Call.StaticCallee(), ex.Index}, true
	}
	for _, b := range f.Blocks {
		cond, t, _ := condBranch(b)
		if cond == nil || !b.Dominates(ta.Block()) {
			continue
		}
		if fc, ok := helperBool(f, cond); ok && !blockReaches(t, ta.Block()) && t != ta.Block() {
			excluded[fc] = true
		}
	}
	underExcluded := func(rb *ssa.BasicBlock) bool {
		return guardedBy(rb, func(cond ssa.Value) (bool, bool) {
			fc, ok := helperBool(g, cond)
			if !ok || !excluded[fc] {
				return false, false
			}
			return true, true
		})
	}
	for _, r := range returnsOf(g) {
		if ei >= len(r.Results) || !isNilConst(r.Results[ei]) {
			continue
		}
		if underExcluded(r.Block()) {
			continue
		}
		dominated := false
		for _, ob := range okBlocks {
			if ob.Dominates(r.Block()) && len(ob.Preds) == 1 {
				dominated = true
			}
		}
		if !dominated {
			return false, fnName(g) + " can succeed on a path that did not find " + want + " to be a " + typeShort(ta.AssertedType) + " (return at " + g.Prog.Fset.Position(r.Pos()).String() + "): the unchecked assertion that follows the call is a Go panic for such a value"
		}
	}
	return true, ""
}

// ---- lenmeasure

func isLenCall(v ssa.Value) bool {
	for d := 0; d < 3; d++ {
		switch x := v.(type) {
		case *ssa.Call:
			bi, ok := x.Call.Value.(*ssa.Builtin)
			return ok && bi.Name() == "len"
		case *ssa.BinOp:
			// len(x) + constant
			if _, ok := x.Y.(*ssa.Const); ok && (x.Op == token.ADD || x.Op == token.SUB) {
				v = x.X
				continue
			}
			return false
		default:
			return false
		}
	}
	return false
}

func (c *Ctx) anchorLenMeasure(in ssa.Instruction, fname string) (bool, string) {
	g := c.fn(fname)
	if g == nil {
		return false, fname + " not found"
	}
	// every element appended to a slice of ints in the producer is a byte length
	nApp := 0
	bad := ""
	eachInstr(g, func(b *ssa.BasicBlock, i int, x ssa.Instruction) {
		call, ok := x.(*ssa.Call)
		if !ok {
			return
		}
		bi, ok := call.Call.Value.(*ssa.Builtin)
		if !ok || bi.Name() != "append" || len(call.Call.Args) < 2 {
			return
		}
		sl, ok := call.Call.Args[1].(*ssa.Slice)
		if !ok {
			return
		}
		al, ok := sl.X.(*ssa.Alloc)
		if !ok {
			return
		}
		for _, r := range *al.Referrers() {
			ia, ok := r.(*ssa.IndexAddr)
			if !ok {
				continue
			}
			for _, r2 := range *ia.Referrers() {
				st, ok := r2.(*ssa.Store)
				if !ok {
					continue
				}
				nApp++
				if k, isConst := st.Val.(*ssa.Const); isConst && k.Value != nil {
					continue
				}
				if !isLenCall(st.Val) {
					bad = "a width appended by " + fname + " is not a byte length (len): " + st.Val.String()
				}
			}
		}
	})
	if nApp == 0 {
		return false, fname + " appends no widths"
	}
	if bad != "" {
		return false, bad
	}
	// the consumer subtracts byte lengths
	f := in.Parent()
	nSub := 0
	okSub := true
	eachInstr(f, func(b *ssa.BasicBlock, i int, x ssa.Instruction) {
		bo, ok := x.(*ssa.BinOp)
		if !ok || bo.Op != token.SUB {
			return
		}
		if ld, ok := bo.X.(*ssa.UnOp); ok {
			if _, isIdx := ld.X.(*ssa.IndexAddr); isIdx {
				nSub++
				if !isLenCall(bo.Y) {
					okSub = false
				}
			}
		}
	})
	if nSub == 0 || !okSub {
		return false, "the consumer does not subtract byte lengths from the widths"
	}
	return true, ""
}
