package main

// br.go: BR — recover-barrier analysis.
// A barrier frame is a function with a deferred closure that calls the
// builtin recover() and neither panics nor calls panicOn.  Calls made in a
// barrier frame (after the defer) are protected: a Go panic below them comes
// back as a value.  U = functions reachable from the entry roots without
// passing through a protected call.

import (
	"go/types"

	"golang.org/x/tools/go/ssa"
)

type BR struct {
	frames   map[*ssa.Function]*ssa.Defer // barrier frame -> its defer
	unprot   *RTA                         // reachability that does not follow protected calls
	full     *RTA                         // reachability that follows everything
	userSig  *types.Signature
	dynUser  []brSite // dynamic calls of ZlispUserFunction-typed values
	extraCut map[string]bool
}

type brSite struct {
	fn        *ssa.Function
	in        ssa.Instruction
	protected bool
}

func closureRecovers(f *ssa.Function) bool {
	rec, repanic := false, false
	eachInstr(f, func(b *ssa.BasicBlock, i int, in ssa.Instruction) {
		if call, ok := in.(*ssa.Call); ok {
			if bi, ok := call.Call.Value.(*ssa.Builtin); ok && bi.Name() == "recover" {
				rec = true
			}
			if callee := call.Call.StaticCallee(); callee != nil && callee.Name() == "panicOn" {
				repanic = true
			}
		}
		if _, ok := in.(*ssa.Panic); ok {
			repanic = true
		}
	})
	return rec && !repanic
}

func (c *Ctx) barrierFrames() map[*ssa.Function]*ssa.Defer {
	out := map[*ssa.Function]*ssa.Defer{}
	for _, f := range c.zygoFuncs() {
		eachInstr(f, func(b *ssa.BasicBlock, i int, in ssa.Instruction) {
			d, ok := in.(*ssa.Defer)
			if !ok {
				return
			}
			var cl *ssa.Function
			switch v := d.Call.Value.(type) {
			case *ssa.MakeClosure:
				cl, _ = v.Fn.(*ssa.Function)
			case *ssa.Function:
				cl = v
			}
			if cl != nil && closureRecovers(cl) {
				out[f] = d
			}
		})
	}
	return out
}

// isUserFunCall: dynamic call of a value whose type is the named type ZlispUserFunction.
func (c *Ctx) isUserFunCall(in ssa.Instruction) bool {
	ci, ok := in.(ssa.CallInstruction)
	if !ok {
		return false
	}
	cc := ci.Common()
	if cc.IsInvoke() || cc.StaticCallee() != nil {
		return false
	}
	if _, isB := cc.Value.(*ssa.Builtin); isB {
		return false
	}
	uf := c.named("ZlispUserFunction")
	return uf != nil && types.Identical(cc.Value.Type(), uf)
}

// newBR computes barrier frames and the unprotected reach from roots.
// cutSites: extra call sites (keyed "Fn|construct") treated as protected by table.
func (c *Ctx) newBR(roots []*ssa.Function, cut func(f *ssa.Function, in ssa.Instruction) bool) *BR {
	br := &BR{frames: c.barrierFrames()}
	protected := func(f *ssa.Function, in ssa.Instruction) bool {
		if d, ok := br.frames[f]; ok {
			// any call in the frame after the defer
			if in != ssa.Instruction(d) && (d.Block() == in.Block() && instrIndex(d) < instrIndex(in) || d.Block() != in.Block() && d.Block().Dominates(in.Block())) {
				return true
			}
		}
		return cut != nil && cut(f, in)
	}
	br.unprot = newRTA(c.Prog, nil, nil)
	br.unprot.noAddrReach = true
	br.unprot.skipSite = protected
	br.full = newRTA(c.Prog, nil, nil)
	br.full.noAddrReach = true
	for _, r := range roots {
		br.unprot.addRoot(r)
		br.full.addRoot(r)
	}
	br.full.run()
	// values made behind the barrier (a selector built by a builtin, a record, a closure) are handed
	// back to unprotected code, which calls their methods through interfaces: every type that is made
	// into an interface anywhere in the reachable program resolves interface calls outside the barrier too
	for _, T := range br.full.liveList {
		br.unprot.addLive(T, false)
	}
	br.unprot.run()
	for _, f := range c.zygoFuncs() {
		eachInstr(f, func(b *ssa.BasicBlock, i int, in ssa.Instruction) {
			if c.isUserFunCall(in) {
				br.dynUser = append(br.dynUser, brSite{f, in, protected(f, in)})
			}
		})
	}
	return br
}

func (br *BR) unprotected(f *ssa.Function) bool {
	_, ok := br.unprot.reach[f]
	return ok
}

// entryRoots: the script-facing entry points named by the properties.
func (c *Ctx) entryRoots(withCmd bool) []*ssa.Function {
	var out []*ssa.Function
	for _, n := range append([]string{"NewZlisp", "NewZlispSandbox", "Zlisp.StandardSetup", "Zlisp.ImportDemoData"}, scriptEntry...) {
		if f := c.fn(n); f != nil {
			out = append(out, f)
		}
	}
	if withCmd {
		for _, n := range []string{"ReplMain", "Repl", "runScript"} {
			if f := c.fn(n); f != nil {
				out = append(out, f)
			}
		}
	}
	return out
}
