package main

// C01 — no input can crash the host.

import (
	"fmt"
	"go/constant"
	"go/token"
	"go/types"
	"sort"
	"strings"

	"golang.org/x/tools/go/ssa"
)

func checkC01(c *Ctx) {
	c.explainf("C01 decides containment of Go panics and of process-ending or blocking operations: every call of a builtin function value is made behind the recover barrier (or tabled); outside the barrier, on code reachable from the script-facing entry points, every explicit panic, unchecked type assertion, compiler-unproven index/slice, and integer division is discharged by a local guard or by a table row naming the invariant it rests on; functions callable by scripts never return (nil value, nil error); process exit is reachable only from the command's driver; blocking channel operations reachable from scripts are reported. A function that hands the elements of a script container to a call chain that comes back to itself consults and extends a set of visited containers first (C01-REC): a container that contains itself is data a three-step program can build, and unguarded recursion over it overflows the Go stack. Nil values with a known origin (a constant nil argument, a reflect type or registry entry that can be absent, a factory that returns no value) are followed to their uses; the methods of registry prototypes guard their fields (C01-NILARG, -NILTYPE, -NILPATH, -REFLECT, -PROTO). A driver loop does not retry a read that failed (C01-RETRY); the set-up of an interpreter reads no process-level state a script wrote under a name of its choosing (C01-SETUP); recursion that the running program feeds (nested Run, macro expansion, include) is counted against a bound (C01-NEST) and no function recurses along the spine of a list (C01-SPINE). It does not decide termination in general, nil dereferences in general, stack exhaustion by deeply nested (acyclic) text, or whether the nesting bound fits the host's stack.")
	c.assumef("panics below a builtin call come back as errors through CallUserFunction's recover (checked by C01-BAR)")
	c.assumef("the compiler's prove pass is sound: an index it does not list cannot be out of range")
	br := c.newBR(c.entryRoots(true), func(f *ssa.Function, in ssa.Instruction) bool {
		if !c.isUserFunCall(in) {
			return false
		}
		row, ok := c.table["C01-BAR|"+fnName(f)+"|call userfun"]
		return ok && row.Verdict == "exempt"
	})
	c.note("functions_reachable", len(br.full.reach))
	c.note("functions_reachable_outside_barrier", len(br.unprot.reach))
	c.note("barrier_frames", len(br.frames))

	// ---- C01-BAR
	for _, s := range br.dynUser {
		if _, reach := br.full.reach[s.fn]; !reach {
			continue
		}
		if _, isFrame := br.frames[s.fn]; isFrame {
			c.ok("C01-BAR", fnName(s.fn), "call userfun", s.in.Pos(), "builtin invoked in a frame with a deferred recover that does not re-panic")
			continue
		}
		if !br.unprotected(s.fn) {
			c.ok("C01-BAR", fnName(s.fn), "call userfun", s.in.Pos(), "this call site is itself reachable only behind the barrier")
			continue
		}
		o := c.bad("C01-BAR", fnName(s.fn), "call userfun", s.in.Pos(), "a Go builtin is called outside the recover barrier on a path from the entry points: a panic in it leaves the library")
		o.Path = br.unprot.pathTo(c, s.fn)
	}
	if len(br.frames) == 0 {
		c.bad("C01-BAR", "Zlisp.CallUserFunction", "recover barrier", token.NoPos, "no function with a deferred recover() found: nothing contains panics of builtins")
	}

	inU := func(f *ssa.Function) bool { return br.unprotected(f) && fnPkgPath(f) == zygoPath }

	// ---- C01-PAN
	panicOn := c.fn("panicOn")
	for _, f := range c.zygoFuncs() {
		if !inU(f) {
			continue
		}
		if _, isFrame := br.frames[f]; isFrame {
			continue
		}
		eachInstr(f, func(b *ssa.BasicBlock, i int, in ssa.Instruction) {
			switch x := in.(type) {
			case *ssa.Panic:
				o := c.bad("C01-PAN", fnName(f), "panic("+shortStr(panicArg(x.X), 50)+")", in.Pos(), "explicit panic in code reachable outside the recover barrier")
				if o.Status == StViolation {
					o.Path = br.unprot.pathTo(c, f)
				}
			case *ssa.Call:
				if panicOn != nil && x.Call.StaticCallee() == panicOn {
					o := c.bad("C01-PAN", fnName(f), "panicOn("+calleeOfErr(x.Call.Args[0])+")", in.Pos(), "panicOn(err) in code reachable outside the recover barrier: a non-nil error becomes a Go panic out of the library")
					if o.Status == StViolation {
						o.Path = br.unprot.pathTo(c, f)
					}
				}
			}
		})
	}

	// ---- C01-STOP: stopping the parked parser coroutine resumes it; it still calls p.yield while it unwinds
	c.checkParserStopOrder("C01-STOP")
	c.checkLexerTokenOrder("C01-ORDER")
	c.checkIteratorStopsYielding("C01-ITER")

	// ---- C01-CYCLE: printing and Show terminate on cyclic scope graphs because the Seen set is threaded
	c.checkSeenThreaded()
	c.checkDataRecursion(br)
	c.checkNilArguments(br)
	c.checkNilReflectTypes(br)
	c.checkNilPaths(br)
	c.checkReflectUse(br)
	c.checkPrototypes(br)
	c.checkNilFields(br)
	c.checkReadRetry()
	c.checkSetupState()
	c.checkNesting()
	c.checkListSpine()
	c.checkParserDepth()

	// ---- C01-TA
	for _, f := range c.zygoFuncs() {
		if !inU(f) {
			continue
		}
		eachInstr(f, func(b *ssa.BasicBlock, i int, in ssa.Instruction) {
			ta, ok := in.(*ssa.TypeAssert)
			if !ok || ta.CommaOk {
				return
			}
			construct := "(" + shortStr(ta.X.Name(), 12) + ").(" + typeShort(ta.AssertedType) + ")"
			construct = "assert " + typeShort(ta.AssertedType)
			if c.assertGuarded(ta) {
				c.ok("C01-TA", fnName(f), construct, in.Pos(), "dominated by a successful comma-ok assertion / type-switch arm of the same value to the same type")
				return
			}
			o := c.bad("C01-TA", fnName(f), construct, in.Pos(), "unchecked type assertion in code reachable outside the recover barrier: a value of another type is a Go panic")
			if o.Status == StViolation {
				o.Path = br.unprot.pathTo(c, f)
			}
		})
	}

	// ---- C01-EXIT
	exitAllowed := map[string]bool{"ExitFunction": true, "Repl": true, "runScript": true, "ReplMain": true}
	for _, f := range c.zygoFuncs() {
		eachInstr(f, func(b *ssa.BasicBlock, i int, in ssa.Instruction) {
			ci, ok := in.(ssa.CallInstruction)
			if !ok {
				return
			}
			g := ci.Common().StaticCallee()
			if g == nil {
				return
			}
			pk := fnPkgPath(g)
			isExit := (pk == "os" && g.Name() == "Exit") || (pk == "log" && strings.HasPrefix(g.Name(), "Fatal")) || (pk == "runtime" && g.Name() == "Goexit") || (pk == "syscall" && g.Name() == "Exit")
			if !isExit {
				return
			}
			top := fnName(topFn(f))
			c.check(exitAllowed[top] || strings.HasPrefix(top, "ExitFunction"), "C01-EXIT", fnName(f), pk+"."+g.Name(), in.Pos(),
				"process exit only in the exit builtin and the command's driver", "the process can be ended from library code other than the exit builtin and the command driver")
		})
	}

	// ---- C01-BLK
	for _, f := range c.zygoFuncs() {
		if _, reach := br.full.reach[f]; !reach {
			continue
		}
		eachInstr(f, func(b *ssa.BasicBlock, i int, in ssa.Instruction) {
			what := ""
			switch x := in.(type) {
			case *ssa.Send:
				what = "channel send"
			case *ssa.UnOp:
				if x.Op == token.ARROW {
					what = "channel receive"
				}
			case *ssa.Select:
				if x.Blocking {
					what = "blocking select"
				}
			}
			if what == "" {
				return
			}
			o := c.bad("C01-BLK", fnName(f), what, in.Pos(), "a blocking channel operation is reachable from script-facing code: the only goroutine can park forever and the call never returns")
			if o.Status == StViolation {
				o.Path = br.full.pathTo(c, f)
			}
		})
	}

	// ---- C01-NILRET
	c.checkNilRet(br)

	// ---- C01-UFL
	c.checkUnderflow()

	// ---- C01-DIV (unprotected integer division)
	for _, f := range c.zygoFuncs() {
		if !inU(f) {
			continue
		}
		eachInstr(f, func(b *ssa.BasicBlock, i int, in ssa.Instruction) {
			bo, ok := in.(*ssa.BinOp)
			if !ok || (bo.Op != token.QUO && bo.Op != token.REM) {
				return
			}
			if _, _, isInt := intBits(bo.X.Type()); !isInt {
				return
			}
			if k, isConst := bo.Y.(*ssa.Const); isConst && k.Value != nil && k.Value.String() != "0" {
				return
			}
			// `% len(array)` with a fixed-size array, or a divisor tested non-zero
			if call, ok := bo.Y.(*ssa.Call); ok {
				if bi, ok := call.Call.Value.(*ssa.Builtin); ok && bi.Name() == "len" {
					if _, isArr := call.Call.Args[0].Type().Underlying().(*types.Array); isArr {
						return
					}
					if pt, ok := call.Call.Args[0].Type().Underlying().(*types.Pointer); ok {
						if _, isArr := pt.Elem().Underlying().(*types.Array); isArr {
							return
						}
					}
				}
			}
			o := c.bad("C01-DIV", fnName(f), "integer "+bo.Op.String(), in.Pos(), "integer division outside the recover barrier with a divisor that may be zero")
			if o.Status == StViolation {
				o.Path = br.unprot.pathTo(c, f)
			}
		})
	}

	// ---- C01-IDX
	c.checkIndexes(br)

	_ = sort.Strings
	_ = fmt.Sprint
}

func panicArg(v ssa.Value) string {
	if mi, ok := v.(*ssa.MakeInterface); ok {
		v = mi.X
	}
	if k, ok := v.(*ssa.Const); ok && k.Value != nil {
		return k.Value.ExactString()
	}
	if call, ok := v.(*ssa.Call); ok {
		s := calleeName(&call.Call)
		for _, a := range call.Call.Args {
			if k, ok := a.(*ssa.Const); ok && k.Value != nil {
				return s + " " + k.Value.ExactString()
			}
		}
		return s
	}
	return valueOrigin(v, 0)
}

// valueOrigin names a value by where it comes from, never by its SSA register.
func valueOrigin(v ssa.Value, depth int) string {
	if depth > 3 {
		return typeShort(v.Type())
	}
	switch x := v.(type) {
	case *ssa.Parameter:
		return x.Name()
	case *ssa.FreeVar:
		return x.Name()
	case *ssa.Extract:
		if call, ok := x.Tuple.(*ssa.Call); ok {
			return "result of " + calleeName(&call.Call)
		}
		if ta, ok := x.Tuple.(*ssa.TypeAssert); ok {
			return valueOrigin(ta.X, depth+1)
		}
	case *ssa.MakeInterface:
		return valueOrigin(x.X, depth+1)
	case *ssa.ChangeInterface:
		return valueOrigin(x.X, depth+1)
	case *ssa.TypeAssert:
		return valueOrigin(x.X, depth+1)
	case *ssa.Phi:
		var parts []string
		for _, e := range x.Edges {
			if k, ok := e.(*ssa.Const); ok && k.Value == nil {
				continue
			}
			if e == v {
				continue
			}
			parts = append(parts, valueOrigin(e, depth+1))
		}
		return strings.Join(uniqSorted(parts), "|")
	case *ssa.Call:
		nm := "result of " + calleeName(&x.Call)
		for _, a := range x.Call.Args {
			if k, ok := a.(*ssa.Const); ok && k.Value != nil && k.Value.Kind() == constant.String {
				return nm + " " + shortStr(k.Value.ExactString(), 40)
			}
		}
		return nm
	case *ssa.UnOp:
		if al, ok := x.X.(*ssa.Alloc); ok && al.Comment != "" {
			return al.Comment
		}
		if fa, ok := x.X.(*ssa.FieldAddr); ok {
			if f := faField(fa); f != nil {
				return "." + f.Name()
			}
		}
	}
	return typeShort(v.Type())
}

func calleeOfErr(v ssa.Value) string {
	switch x := v.(type) {
	case *ssa.Extract:
		if call, ok := x.Tuple.(*ssa.Call); ok {
			return calleeName(&call.Call)
		}
	case *ssa.Call:
		return calleeName(&x.Call)
	case *ssa.Phi:
		var parts []string
		for _, e := range x.Edges {
			parts = append(parts, calleeOfErr(e))
		}
		return strings.Join(uniqSorted(parts), "|")
	}
	return "err"
}

func uniqSorted(xs []string) []string {
	sort.Strings(xs)
	return uniq(xs)
}

// assertGuarded: ta is dominated by the success edge of a comma-ok assertion
// (or type-switch arm) of the same value to the same type, or by a call of a
// predicate listed as establishing that type.
func (c *Ctx) assertGuarded(ta *ssa.TypeAssert) bool {
	f := ta.Parent()
	guarded := false
	eachInstr(f, func(b *ssa.BasicBlock, i int, in ssa.Instruction) {
		t2, ok := in.(*ssa.TypeAssert)
		if !ok || !t2.CommaOk || t2.X != ta.X || !types.Identical(t2.AssertedType, ta.AssertedType) {
			return
		}
		for _, r := range nonDebugRefs(t2) {
			ex, ok := r.(*ssa.Extract)
			if !ok || ex.Index != 1 {
				continue
			}
			for _, r2 := range nonDebugRefs(ex) {
				if iff, ok := r2.(*ssa.If); ok {
					t := iff.Block().Succs[0]
					if len(t.Preds) == 1 && (t == ta.Block() || t.Dominates(ta.Block())) {
						guarded = true
					}
				}
			}
		}
	})
	return guarded
}

// checkNilRet: functions callable as builtins (ZlispUserFunction signature) and
// the value-returning entry points never return (nil value, nil error).
func (c *Ctx) checkNilRet(br *BR) {
	sexp := c.named("Sexp")
	uf := c.named("ZlispUserFunction")
	if sexp == nil || uf == nil {
		return
	}
	ufSig := uf.Underlying().(*types.Signature)
	entry := map[string]bool{"Zlisp.EvalString": true, "Zlisp.EvalExpressions": true, "Zlisp.Run": true, "Zlisp.Apply": true, "Zlisp.EvalCallExpression": true, "SexpLazyArg.Force": true}
	n, nf := 0, 0
	for _, f := range c.zygoFuncs() {
		sig := f.Signature
		isBuiltinShape := sig.Recv() == nil && types.Identical(types.NewSignatureType(nil, nil, nil, sig.Params(), sig.Results(), false), ufSig)
		if !isBuiltinShape && !entry[fnName(f)] {
			continue
		}
		if sig.Results().Len() != 2 || !types.Identical(sig.Results().At(0).Type(), sexp) {
			continue
		}
		if _, reach := br.full.reach[f]; !reach {
			continue
		}
		nf++
		// the recover block returns the current results only if a deferred call recovers a panic
		recovers := false
		eachInstr(f, func(b *ssa.BasicBlock, i int, in ssa.Instruction) {
			if d, ok := in.(*ssa.Defer); ok {
				if mc, ok := d.Call.Value.(*ssa.MakeClosure); ok {
					if g, ok := mc.Fn.(*ssa.Function); ok && closureRecovers(g) {
						recovers = true
					}
				} else if g := d.Call.StaticCallee(); g != nil && fnPkgPath(g) == zygoPath && closureRecovers(g) {
					recovers = true
				}
			}
		})
		for _, r := range returnsOf(f) {
			if f.Recover != nil && r.Block() == f.Recover && !recovers {
				continue
			}
			n++
			if nilPair(r.Results[0], r.Results[1]) && !errKnownNonNil(r, r.Results[1]) {
				c.bad("C01-NILRET", fnName(f), "return (nil Sexp, nil error)", r.Pos(), "a return can carry Go's nil value together with a nil error: the caller gets neither a value nor an error, and printing or using the result dereferences nil")
			}
		}
	}
	c.note("functions_checked_for_nil_value_return", nf)
	c.ok("C01-NILRET", "*", "success returns carry a value", token.NoPos, fmt.Sprintf("%d returns of %d builtin-shaped functions and entry points examined", n, nf)).Trivial = true
	if nf < 100 {
		c.undecided("C01-NILRET", "*", "functions examined", token.NoPos, fmt.Sprintf("only %d builtin-shaped functions found", nf))
	}
}

// nilPair: can (v, e) be (nil, nil) at the same time?
func nilPair(v, e ssa.Value) bool {
	// both phis of the same block: look for an incoming edge where both are nil
	pv, okv := v.(*ssa.Phi)
	pe, oke := e.(*ssa.Phi)
	if okv && oke && pv.Block() == pe.Block() {
		for i := range pv.Edges {
			if mayBeNilSexp(pv.Edges[i], map[ssa.Value]bool{}) && mayBeNilErr(pe.Edges[i]) {
				return true
			}
		}
		return false
	}
	return mayBeNilSexp(v, map[ssa.Value]bool{}) && mayBeNilErr(e)
}

func mayBeNilErr(e ssa.Value) bool {
	switch x := e.(type) {
	case *ssa.Const:
		return x.Value == nil
	case *ssa.Phi:
		for _, ed := range x.Edges {
			if mayBeNilErr(ed) {
				return true
			}
		}
		return false
	}
	return true // a computed error value may be nil
}

func mayBeNilSexp(v ssa.Value, seen map[ssa.Value]bool) bool {
	if seen[v] {
		return false
	}
	seen[v] = true
	switch x := v.(type) {
	case *ssa.Const:
		return x.Value == nil
	case *ssa.Phi:
		for _, e := range x.Edges {
			if mayBeNilSexp(e, seen) {
				return true
			}
		}
	case *ssa.UnOp:
		// load of a named result / local that may still hold its zero value
		if x.Op == token.MUL {
			if al, ok := x.X.(*ssa.Alloc); ok {
				// zero value unless every path stores: approximate — some store of nil const or no store at all
				stores := 0
				storeBlk := map[*ssa.BasicBlock]bool{}
				for _, r := range nonDebugRefs(al) {
					if st, ok := r.(*ssa.Store); ok && st.Addr == ssa.Value(al) {
						// only stores that can reach this load (the recover block is entered from anywhere)
						inRecover := x.Parent().Recover != nil && x.Block() == x.Parent().Recover
						if !inRecover && st.Block() != x.Block() && !blockReaches(st.Block(), x.Block()) {
							continue
						}
						if st.Block() == x.Block() && instrIndex(st) > instrIndex(x) {
							continue
						}
						stores++
						storeBlk[st.Block()] = true
						if mayBeNilSexp(st.Val, seen) {
							return true
						}
					}
				}
				if stores == 0 {
					return true
				}
				// a path from the entry to the load that passes no store leaves the zero value
				if !storeBlk[x.Block()] {
					entry := x.Parent().Blocks[0]
					if storeBlk[entry] {
						return false
					}
					if x.Parent().Recover != nil && x.Block() == x.Parent().Recover {
						return true // a panic before the first store leaves the zero value
					}
					if entry == x.Block() {
						return true
					}
					free := reachableAvoiding(entry, func(b *ssa.BasicBlock) bool { return storeBlk[b] })
					if free[x.Block()] {
						return true
					}
				}
				return false
			}
		}
	}
	return false
}

// checkUnderflow: the anchored stack-underflow mechanism.
func (c *Ctx) checkUnderflow() {
	get := c.mustFn("C01-UFL", "Stack.Get")
	if get == nil {
		return
	}
	tos := c.mustField("C01-UFL", "Stack", "tos")
	elements := c.mustField("C01-UFL", "Stack", "elements")
	if tos == nil || elements == nil {
		return
	}
	// the element access stack.elements[stack.tos-n] is dominated by `stack.tos-n < 0` being false
	okG := false
	eachInstr(get, func(b *ssa.BasicBlock, i int, in ssa.Instruction) {
		ia, ok := in.(*ssa.IndexAddr)
		if !ok || !derivesFromField(ia.X, elements, 0) {
			return
		}
		okG = guardedBy(b, func(cond ssa.Value) (bool, bool) {
			bo, ok := cond.(*ssa.BinOp)
			if !ok || bo.Op != token.LSS {
				return false, false
			}
			k, isC := constIntOf(bo.Y)
			if !isC || k != 0 {
				return false, false
			}
			sub, ok := bo.X.(*ssa.BinOp)
			if !ok || sub.Op != token.SUB {
				return false, false
			}
			_, isTos := loadOfField(sub.X, tos)
			return isTos, false
		})
	})
	c.check(okG, "C01-UFL", "Stack.Get", "underflow test dominates the element access", get.Pos(), "reading below the bottom of a stack is an error, not an index panic",
		"Stack.Get indexes the element slice without the `tos-n < 0` test dominating the access")
	// writers of tos / elements
	allowed := map[string]bool{"Stack.Push": true, "Stack.Pop": true, "Stack.TruncateToSize": true, "Stack.Clone": true, "Zlisp.NewStack": true, "Stack.PopAndDiscard": true}
	for _, fld := range []*types.Var{tos, elements} {
		for _, w := range c.fieldWrites(fld) {
			if w.kind == "elemstore" {
				continue
			}
			c.check(allowed[fnName(w.fn)], "C01-UFL", fnName(w.fn), w.kind+" Stack."+fld.Name(), w.in.Pos(), "stack bookkeeping written by the stack's own primitives",
				"Stack."+fld.Name()+" is modified outside Push/Pop/TruncateToSize/Clone/NewStack: the invariant tos == len(elements)-1 behind every stack access is no longer local")
		}
	}
	// TruncateToSize never grows the stack
	if tr := c.mustFn("C01-UFL", "Stack.TruncateToSize"); tr != nil {
		grows := false
		eachInstr(tr, func(b *ssa.BasicBlock, i int, in ssa.Instruction) {
			if _, ok := in.(*ssa.MakeSlice); ok {
				grows = true
			}
		})
		c.check(!grows, "C01-UFL", "Stack.TruncateToSize", "never grows", tr.Pos(), "truncation only shortens the stack",
			"TruncateToSize allocates a longer element slice when asked for a size above the current one: restoring a captured depth after a form under-delivered pads the data stack with nil elements, and the next pop panics on the type assertion")
	}
}

// errKnownNonNil: the return is on the non-nil branch of a test of this error value.
func errKnownNonNil(r *ssa.Return, e ssa.Value) bool {
	return guardedBy(r.Block(), func(cond ssa.Value) (bool, bool) {
		bo, ok := cond.(*ssa.BinOp)
		if !ok || (bo.Op != token.NEQ && bo.Op != token.EQL) {
			return false, false
		}
		if !(bo.X == e && isNilConst(bo.Y)) && !(bo.Y == e && isNilConst(bo.X)) {
			return false, false
		}
		return true, bo.Op == token.NEQ
	})
}

// checkSeenThreaded: every method of *PrintState that derives a new
// *PrintState from its receiver hands the receiver's Seen set on. Show and
// SexpString recurse through scope stacks, closures and packages, which can
// contain themselves; the Seen set is what ends that recursion, and
// closures are shown on every creation, outside any recover.
func (c *Ctx) checkSeenThreaded() {
	psT := c.named("PrintState")
	seen := c.field("PrintState", "Seen")
	if psT == nil || seen == nil {
		c.undecided("C01-CYCLE", "PrintState", "Seen", token.NoPos, "PrintState.Seen not found")
		return
	}
	n := 0
	for _, f := range c.zygoFuncs() {
		if f.Parent() != nil || !isMethodOf(f, psT) || len(f.Params) == 0 {
			continue
		}
		res := f.Signature.Results()
		if res.Len() != 1 {
			continue
		}
		if nm, ok := derefNamed(res.At(0).Type()); !ok || nm != psT {
			continue
		}
		recv := f.Params[0]
		n++
		okAll := true
		var badPos token.Pos
		for _, r := range returnsOf(f) {
			// returns reached only when the receiver is nil start a fresh set
			nilOnly := guardedBy(r.Block(), func(cond ssa.Value) (bool, bool) {
				bo, ok := cond.(*ssa.BinOp)
				if !ok || (bo.Op != token.EQL && bo.Op != token.NEQ) || bo.X != ssa.Value(recv) || !isNilConst(bo.Y) {
					return false, false
				}
				return true, bo.Op == token.EQL
			})
			if nilOnly {
				continue
			}
			for _, leaf := range phiLeaves(r.Results[0]) {
				if leaf == ssa.Value(recv) {
					continue // returns the receiver itself
				}
				threaded := false
				eachInstr(f, func(b *ssa.BasicBlock, i int, in ssa.Instruction) {
					st, ok := in.(*ssa.Store)
					if !ok {
						return
					}
					fa, ok := st.Addr.(*ssa.FieldAddr)
					if !ok || faField(fa) != seen || fa.X != leaf {
						return
					}
					if base, ok := loadOfField(st.Val, seen); ok && base == ssa.Value(recv) {
						threaded = true
					}
				})
				if !threaded {
					okAll = false
					badPos = r.Pos()
				}
			}
		}
		if !badPos.IsValid() {
			badPos = f.Pos()
		}
		c.check(okAll, "C01-CYCLE", fnName(f), "derived print state shares the Seen set", badPos,
			"the state returned for a non-nil receiver carries the receiver's Seen set",
			"the print state derived from a non-nil receiver starts with a fresh Seen set: nested Show/SexpString calls no longer recognise a scope, stack or package they are already inside, and a cyclic scope graph (a package bound in a local scope, then a closure created there) recurses until the Go stack overflows, which no recover can catch")
	}
	if n == 0 {
		c.undecided("C01-CYCLE", "PrintState", "derived states", token.NoPos, "no method deriving a print state found")
	}
}
