package main

// C01-IDX: index and slice expressions that the compiler's prove pass leaves
// with a bounds check, in code reachable outside the recover barrier.

import (
	"bytes"
	"fmt"
	"go/ast"
	"go/token"
	"go/types"
	"os"
	"os/exec"
	"path/filepath"
	"regexp"
	"strconv"
	"strings"

	"golang.org/x/tools/go/ssa"
)

type bceSite struct {
	file      string
	line, col int
	kind      string
}

func (c *Ctx) compilerBoundsChecks() ([]bceSite, error) {
	cmd := exec.Command("go", "build", "-gcflags=-d=ssa/check_bce/debug=1 -l", "-tags=verif", "-o", os.DevNull, "./zygo/")
	cmd.Dir = c.Repo
	cmd.Env = append(os.Environ(), "GOWORK=off")
	var out bytes.Buffer
	cmd.Stdout = &out
	cmd.Stderr = &out
	err := cmd.Run()
	re := regexp.MustCompile(`^(\S+\.go):(\d+):(\d+): Found (IsInBounds|IsSliceInBounds)`)
	var sites []bceSite
	for _, line := range strings.Split(out.String(), "\n") {
		m := re.FindStringSubmatch(line)
		if m == nil {
			continue
		}
		l, _ := strconv.Atoi(m[2])
		col, _ := strconv.Atoi(m[3])
		sites = append(sites, bceSite{filepath.Base(m[1]), l, col, m[4]})
	}
	if err != nil && len(sites) == 0 {
		return nil, fmt.Errorf("go build for the bounds-check listing failed: %v: %s", err, shortStr(out.String(), 300))
	}
	return sites, nil
}

func (c *Ctx) checkIndexes(br *BR) {
	sites, err := c.compilerBoundsChecks()
	if err != nil {
		c.undecided("C01-IDX", "compiler", "bounds-check listing", token.NoPos, err.Error())
		return
	}
	c.note("compiler_unproven_bounds_checks_in_package", len(sites))
	if len(sites) < 50 {
		c.undecided("C01-IDX", "compiler", "bounds-check listing", token.NoPos, fmt.Sprintf("only %d unproven bounds checks listed; the listing no longer works as when it was calibrated", len(sites)))
	}
	type key struct {
		file      string
		line, col int
	}
	want := map[key]string{}
	for _, s := range sites {
		want[key{s.file, s.line, s.col}] = s.kind
	}
	matched := map[key]bool{}
	nU := 0
	for _, file := range c.Zygo.Syntax {
		fname := filepath.Base(c.Fset.Position(file.Pos()).Filename)
		for _, d := range file.Decls {
			fd, ok := d.(*ast.FuncDecl)
			if !ok || fd.Body == nil {
				continue
			}
			fn := c.fn(declName(fd))
			unprot := false
			if fn != nil {
				for _, g := range withClosures(fn) {
					if br.unprotected(g) {
						unprot = true
					}
				}
			}
			ast.Inspect(fd.Body, func(n ast.Node) bool {
				var lbrack token.Pos
				var base, idx ast.Expr
				var shown ast.Expr
				switch x := n.(type) {
				case *ast.IndexExpr:
					lbrack, base, idx = x.Lbrack, x.X, x.Index
					shown = x
				case *ast.SliceExpr:
					lbrack, base = x.Lbrack, x.X
					shown = x
				case *ast.CallExpr:
					// make([]T, n): newer compilers list the length check at the opening parenthesis
					id, ok := x.Fun.(*ast.Ident)
					if !ok || id.Name != "make" || len(x.Args) < 2 {
						return true
					}
					lbrack, base = x.Lparen, x.Args[0]
					shown = x
				default:
					return true
				}
				p := c.Fset.Position(lbrack)
				k := key{fname, p.Line, p.Column}
				kind, listed := want[k]
				if !listed {
					return true
				}
				matched[k] = true
				if t := c.Zygo.TypesInfo.TypeOf(base); t != nil {
					if _, isMap := t.Underlying().(*types.Map); isMap {
						return true
					}
				}
				if fn == nil {
					c.undecided("C01-IDX", declName(fd), "index "+exprShort(shown), lbrack, "function not found in the SSA program")
					return true
				}
				// innermost enclosing function literal
				inner := fn
				for _, g := range withClosures(fn) {
					if lit, ok := g.Syntax().(*ast.FuncLit); ok && lit.Pos() <= lbrack && lbrack <= lit.End() {
						if il, ok := inner.Syntax().(*ast.FuncLit); !ok || (il.Pos() <= lit.Pos() && lit.End() <= il.End()) {
							inner = g
						}
					}
				}
				if !br.unprotected(inner) {
					return true // behind the barrier (or unreachable): an out-of-range index comes back as an error
				}
				_ = unprot
				nU++
				construct := exprShort(shown)
				if kind == "IsSliceInBounds" {
					construct = "slice " + construct
				}
				_ = idx
				o := c.bad("C01-IDX", fnName(inner), construct, lbrack, "the compiler cannot prove this index/slice in range, and the function is reachable outside the recover barrier: out of range is a Go panic out of the library")
				if o.Status == StViolation {
					o.Path = br.unprot.pathTo(c, inner)
				}
				return true
			})
		}
	}
	un := 0
	for k := range want {
		if !matched[k] {
			un++
			if un <= 3 {
				c.undecided("C01-IDX", k.file, fmt.Sprintf("unmatched bounds check %d:%d", k.line, k.col), token.NoPos, "a compiler-reported bounds check could not be matched to an index or slice expression")
			}
		}
	}
	c.note("unproven_bounds_checks_outside_barrier", nU)
	_ = ssa.Value(nil)
}

func exprShort(e ast.Expr) string {
	var sb strings.Builder
	var w func(e ast.Expr)
	w = func(e ast.Expr) {
		switch x := e.(type) {
		case *ast.Ident:
			sb.WriteString(x.Name)
		case *ast.BasicLit:
			sb.WriteString(x.Value)
		case *ast.SelectorExpr:
			w(x.X)
			sb.WriteString("." + x.Sel.Name)
		case *ast.IndexExpr:
			w(x.X)
			sb.WriteString("[")
			w(x.Index)
			sb.WriteString("]")
		case *ast.SliceExpr:
			w(x.X)
			sb.WriteString("[")
			if x.Low != nil {
				w(x.Low)
			}
			sb.WriteString(":")
			if x.High != nil {
				w(x.High)
			}
			if x.Max != nil {
				sb.WriteString(":")
				w(x.Max)
			}
			sb.WriteString("]")
		case *ast.BinaryExpr:
			w(x.X)
			sb.WriteString(x.Op.String())
			w(x.Y)
		case *ast.UnaryExpr:
			sb.WriteString(x.Op.String())
			w(x.X)
		case *ast.ParenExpr:
			sb.WriteString("(")
			w(x.X)
			sb.WriteString(")")
		case *ast.CallExpr:
			w(x.Fun)
			sb.WriteString("(")
			for i, a := range x.Args {
				if i > 0 {
					sb.WriteString(",")
				}
				w(a)
			}
			sb.WriteString(")")
		case *ast.StarExpr:
			sb.WriteString("*")
			w(x.X)
		case *ast.TypeAssertExpr:
			w(x.X)
			sb.WriteString(".(T)")
		case *ast.ArrayType:
			sb.WriteString("[]")
			w(x.Elt)
		default:
			sb.WriteString("…")
		}
	}
	w(e)
	return sb.String()
}
