package main

import (
	"go/ast"
	"go/token"
	"go/types"
	"sort"
	"strings"

	"golang.org/x/tools/go/ast/astutil"
	"golang.org/x/tools/go/ssa"
)

// C01-RETRY: a loop without a condition must not go round again after the
// input could not be read.
//
// "It returns whenever the program needs only a bounded number of evaluation
// steps" covers the drivers that read the program too (the REPL line reader
// is one of the observation points of the property). A driver of the shape
//
//	for {
//	    line, err := read()
//	    if err != nil { report; continue }
//
// is fine when err says that what was read is malformed (the next read gives
// the next line), and never returns when err says that reading itself failed:
// standard input that is a directory, a terminal that went away, an output
// that the line editor refuses. The same error comes back at once, for ever.
//
// The rule works on error values, not on names:
//
//   - origins: for every error-typed value the set of places it can come from,
//     followed through phis, results of functions of this package (a summary
//     per function), variables that a closure captured (the stores that reach
//     the load), fmt.Errorf arguments and wrapper structs. An origin is "io"
//     when it is the error result of a function or interface method of a
//     package that reads the outside world (bufio, io, os, the line editor);
//     a wrapper struct T whose error field was given an "io" origin makes the
//     origin "wrap T": a marked read failure.
//   - sites: every test `e != nil` / `e == nil` inside a `for` statement
//     without a condition, where e has an "io" or "wrap" origin.
//   - the obligation: from the non-nil side of the test, the test must not be
//     reachable again -- return, panic and os.Exit end a path. For a marked
//     failure the obligation holds for the paths on which the mark was found
//     (the true side of a comma-ok assertion to T); a path that comes back to
//     the test without having asked for the mark retries blindly and is
//     reported too.
//
// What the rule does not decide: that a read which succeeds makes progress,
// and drivers written outside this package.

var ioPkgs = map[string]bool{
	"bufio": true, "io": true, "os": true, "io/ioutil": true, "net": true, "syscall": true,
	"github.com/glycerine/liner": true,
}

// isReadName: the functions and methods of those packages that take input.
func isReadName(n string) bool {
	return strings.HasPrefix(n, "Read") || strings.HasPrefix(n, "Scan") || strings.HasPrefix(n, "Peek") ||
		strings.HasSuffix(n, "Prompt") || strings.HasPrefix(n, "Prompt") || n == "Accept" || n == "Copy"
}

type ioOrigin struct {
	kind string // "io", "wrap", "other"
	name string // callee for io, type name for wrap
	typ  *types.Named
}

type ioAnalysis struct {
	c        *Ctx
	summary  map[*ssa.Function]map[ioOrigin]bool
	busy     map[*ssa.Function]bool
	captured map[ssa.Value][]*ssa.FreeVar // root cell -> free variables bound to it
	rootOf   map[*ssa.FreeVar]ssa.Value
}

func (c *Ctx) newIOAnalysis() *ioAnalysis {
	a := &ioAnalysis{c: c, summary: map[*ssa.Function]map[ioOrigin]bool{}, busy: map[*ssa.Function]bool{},
		captured: map[ssa.Value][]*ssa.FreeVar{}, rootOf: map[*ssa.FreeVar]ssa.Value{}}
	// closures are listed parents first by withClosures, so a binding that is
	// itself a free variable already has its root
	for _, top := range c.zygoFuncs() {
		if top.Parent() != nil {
			continue
		}
		for _, f := range withClosures(top) {
			eachInstr(f, func(b *ssa.BasicBlock, i int, in ssa.Instruction) {
				mc, ok := in.(*ssa.MakeClosure)
				if !ok {
					return
				}
				g, ok := mc.Fn.(*ssa.Function)
				if !ok {
					return
				}
				for k, bv := range mc.Bindings {
					if k >= len(g.FreeVars) {
						break
					}
					root := bv
					if fv, ok := bv.(*ssa.FreeVar); ok {
						if r, ok := a.rootOf[fv]; ok {
							root = r
						}
					}
					a.rootOf[g.FreeVars[k]] = root
					a.captured[root] = append(a.captured[root], g.FreeVars[k])
				}
			})
		}
	}
	return a
}

func (a *ioAnalysis) root(v ssa.Value) ssa.Value {
	if fv, ok := v.(*ssa.FreeVar); ok {
		if r, ok := a.rootOf[fv]; ok {
			return r
		}
	}
	return v
}

// defsBefore: the values whose store to the variable `cell` can be the last
// one before instruction i of block b in f. A call made while a closure holds
// the variable may store too: the stores that reach the closure's returns.
func (a *ioAnalysis) defsBefore(f *ssa.Function, cell ssa.Value, b *ssa.BasicBlock, i int, seen map[*ssa.BasicBlock]bool, out map[ssa.Value]bool, cseen map[*ssa.Function]bool) {
	root := a.root(cell)
	for j := i - 1; j >= 0; j-- {
		in := b.Instrs[j]
		if st, ok := in.(*ssa.Store); ok && a.root(st.Addr) == root {
			out[st.Val] = true
			return
		}
		if _, ok := in.(ssa.CallInstruction); ok && len(a.captured[root]) > 0 {
			for _, fv := range a.captured[root] {
				g := fv.Parent()
				if g == f || cseen[g] {
					continue
				}
				cseen[g] = true
				for _, r := range returnsOf(g) {
					a.defsBefore(g, fv, r.Block(), instrIndex(r), map[*ssa.BasicBlock]bool{}, out, cseen)
				}
			}
		}
	}
	if b.Index == 0 {
		if _, isFree := cell.(*ssa.FreeVar); isFree {
			// entered with whatever the enclosing functions stored
			for _, top := range withClosures(topFn(f)) {
				if top == f {
					continue
				}
				eachInstr(top, func(_ *ssa.BasicBlock, _ int, in ssa.Instruction) {
					if st, ok := in.(*ssa.Store); ok && a.root(st.Addr) == root {
						out[st.Val] = true
					}
				})
			}
		}
		return
	}
	for _, p := range b.Preds {
		if seen[p] {
			continue
		}
		seen[p] = true
		a.defsBefore(f, cell, p, len(p.Instrs), seen, out, cseen)
	}
}

func (a *ioAnalysis) origins(v ssa.Value, out map[ioOrigin]bool, seen map[ssa.Value]bool) {
	if v == nil || seen[v] {
		return
	}
	seen[v] = true
	switch x := v.(type) {
	case *ssa.Const:
	case *ssa.Phi:
		for _, e := range x.Edges {
			a.origins(e, out, seen)
		}
	case *ssa.ChangeInterface:
		a.origins(x.X, out, seen)
	case *ssa.Extract:
		if call, ok := x.Tuple.(*ssa.Call); ok {
			a.callResult(call, x.Index, out, seen)
		} else {
			out[ioOrigin{kind: "other", name: "tuple"}] = true
		}
	case *ssa.Call:
		a.callResult(x, 0, out, seen)
	case *ssa.UnOp:
		if x.Op != token.MUL {
			out[ioOrigin{kind: "other", name: "op"}] = true
			return
		}
		switch cell := x.X.(type) {
		case *ssa.Alloc, *ssa.FreeVar:
			defs := map[ssa.Value]bool{}
			a.defsBefore(x.Parent(), cell, x.Block(), instrIndex(x), map[*ssa.BasicBlock]bool{}, defs, map[*ssa.Function]bool{})
			for d := range defs {
				a.origins(d, out, seen)
			}
		default:
			out[ioOrigin{kind: "other", name: "memory"}] = true
		}
	case *ssa.MakeInterface:
		if al, ok := x.X.(*ssa.Alloc); ok {
			if pt, ok := al.Type().Underlying().(*types.Pointer); ok {
				if nm, ok := pt.Elem().(*types.Named); ok && al.Referrers() != nil {
					inner := map[ioOrigin]bool{}
					for _, r := range *al.Referrers() {
						fa, ok := r.(*ssa.FieldAddr)
						if !ok || fa.Referrers() == nil {
							continue
						}
						for _, r2 := range *fa.Referrers() {
							if st, ok := r2.(*ssa.Store); ok && st.Addr == ssa.Value(fa) && isErrorType(st.Val.Type()) {
								a.origins(st.Val, inner, seen)
							}
						}
					}
					for o := range inner {
						if o.kind == "io" || o.kind == "wrap" {
							out[ioOrigin{kind: "wrap", name: nm.Obj().Name(), typ: nm}] = true
							return
						}
					}
				}
			}
		}
		out[ioOrigin{kind: "other", name: "value"}] = true
	default:
		out[ioOrigin{kind: "other", name: "value"}] = true
	}
}

func (a *ioAnalysis) callResult(call *ssa.Call, idx int, out map[ioOrigin]bool, seen map[ssa.Value]bool) {
	cc := call.Common()
	if cc.IsInvoke() {
		if pk := cc.Method.Pkg(); pk != nil && ioPkgs[pk.Path()] && isReadName(cc.Method.Name()) {
			out[ioOrigin{kind: "io", name: pk.Name() + "." + cc.Method.Name()}] = true
			return
		}
		// an interface of this package whose implementations are here
		out[ioOrigin{kind: "other", name: "invoke " + cc.Method.Name()}] = true
		return
	}
	g := cc.StaticCallee()
	if g == nil {
		out[ioOrigin{kind: "other", name: "dynamic call"}] = true
		return
	}
	pk := fnPkgPath(g)
	if ioPkgs[pk] && isReadName(g.Name()) {
		out[ioOrigin{kind: "io", name: calleeName(cc)}] = true
		return
	}
	if pk == "fmt" && g.Name() == "Errorf" {
		any := false
		for _, arg := range variadicArgs(call) {
			inner := arg
			if ci, ok := inner.(*ssa.ChangeInterface); ok {
				inner = ci.X
			}
			if mi, ok := inner.(*ssa.MakeInterface); ok {
				inner = mi.X
			}
			if isErrorType(inner.Type()) {
				n := len(out)
				a.origins(inner, out, seen)
				any = any || len(out) > n
			}
		}
		if !any {
			out[ioOrigin{kind: "other", name: "fmt.Errorf"}] = true
		}
		return
	}
	if pk != zygoPath || len(g.Blocks) == 0 {
		out[ioOrigin{kind: "other", name: calleeName(cc)}] = true
		return
	}
	for o := range a.summarize(g) {
		out[o] = true
	}
}

// summarize: the origins of the error result of g.
func (a *ioAnalysis) summarize(g *ssa.Function) map[ioOrigin]bool {
	if s, ok := a.summary[g]; ok {
		return s
	}
	if a.busy[g] {
		return nil
	}
	a.busy[g] = true
	defer delete(a.busy, g)
	s := map[ioOrigin]bool{}
	idx := errResultIndex(g.Signature)
	if idx >= 0 {
		for _, r := range returnsOf(g) {
			if idx < len(r.Results) {
				a.origins(r.Results[idx], s, map[ssa.Value]bool{})
			}
		}
	}
	a.summary[g] = s
	return s
}

// inBareLoop: pos lies inside a `for` statement without a condition (and not
// inside a function literal nested in that statement).
func (c *Ctx) inBareLoop(pos token.Pos) bool {
	for _, pkg := range c.Pkgs {
		for _, file := range pkg.Syntax {
			if file.Pos() <= pos && pos < file.End() {
				path, _ := astutil.PathEnclosingInterval(file, pos, pos)
				for _, n := range path {
					switch n := n.(type) {
					case *ast.FuncLit, *ast.FuncDecl:
						return false
					case *ast.ForStmt:
						if n.Cond == nil {
							return true
						}
					}
				}
				return false
			}
		}
	}
	return false
}

func blockEndsPath(b *ssa.BasicBlock) bool {
	if len(b.Instrs) == 0 {
		return false
	}
	switch b.Instrs[len(b.Instrs)-1].(type) {
	case *ssa.Return, *ssa.Panic:
		return true
	}
	for _, in := range b.Instrs {
		if ci, ok := in.(ssa.CallInstruction); ok {
			if g := ci.Common().StaticCallee(); g != nil && fnPkgPath(g) == "os" && g.Name() == "Exit" {
				return true
			}
		}
	}
	return false
}

// comesBack: can control get from `start` (the side of the test `x != nil` on
// which x is an error) back to block `goal` -- without passing a block that
// ends the path (return, panic, os.Exit, or a block for which stop says so),
// and on a path that is consistent in what it learns about x: a second test of
// x against nil, or against the same package-level error value, goes the way
// the first one went. A path that has identified x as a package-level error of
// this package (x == ErrMoreInputNeeded) is not a path of a failed read, and
// is not followed.
func (a *ioAnalysis) comesBack(x ssa.Value, start, goal *ssa.BasicBlock, stop func(*ssa.BasicBlock) bool) bool {
	var xcell ssa.Value
	if u, ok := x.(*ssa.UnOp); ok && u.Op == token.MUL {
		switch u.X.(type) {
		case *ssa.Alloc, *ssa.FreeVar:
			xcell = a.root(u.X)
		}
	}
	same := func(y ssa.Value) bool {
		if y == x {
			return true
		}
		if xcell == nil {
			return false
		}
		if u, ok := y.(*ssa.UnOp); ok && u.Op == token.MUL {
			return a.root(u.X) == xcell
		}
		return false
	}
	// what a test compares x with: "nil", or a package-level variable
	testOf := func(b *ssa.BasicBlock) (key string, glob *ssa.Global, eqSucc, neSucc *ssa.BasicBlock) {
		cond, t, f := condBranch(b)
		bo, ok := cond.(*ssa.BinOp)
		if !ok || (bo.Op != token.EQL && bo.Op != token.NEQ) {
			return "", nil, nil, nil
		}
		other := bo.Y
		if !same(bo.X) {
			if !same(bo.Y) {
				return "", nil, nil, nil
			}
			other = bo.X
		}
		if bo.Op == token.NEQ {
			t, f = f, t
		}
		if isNilConst(other) {
			return "nil", nil, t, f
		}
		if u, ok := other.(*ssa.UnOp); ok && u.Op == token.MUL {
			if g, ok := u.X.(*ssa.Global); ok {
				return g.Pkg.Pkg.Path() + "." + g.Name(), g, t, f
			}
		}
		return "", nil, nil, nil
	}
	type state struct {
		b     *ssa.BasicBlock
		facts string
	}
	encode := func(m map[string]bool) string {
		var ks []string
		for k, v := range m {
			if v {
				ks = append(ks, k+"=1")
			} else {
				ks = append(ks, k+"=0")
			}
		}
		sort.Strings(ks)
		return strings.Join(ks, ";")
	}
	seen := map[state]bool{}
	var walk func(b *ssa.BasicBlock, facts map[string]bool) bool
	walk = func(b *ssa.BasicBlock, facts map[string]bool) bool {
		if b == goal {
			return true
		}
		if blockEndsPath(b) || (stop != nil && stop(b)) {
			return false
		}
		// the variable is given another value: nothing is known any more
		if xcell != nil {
			for _, in := range b.Instrs {
				if st, ok := in.(*ssa.Store); ok && a.root(st.Addr) == xcell {
					return false // another error value: its own site decides about it
				}
			}
		}
		st := state{b, encode(facts)}
		if seen[st] {
			return false
		}
		seen[st] = true
		key, glob, eqS, neS := testOf(b)
		if key != "" {
			if v, known := facts[key]; known {
				if v {
					return walk(eqS, facts)
				}
				return walk(neS, facts)
			}
			with := func(v bool) map[string]bool {
				m := map[string]bool{}
				for k, w := range facts {
					m[k] = w
				}
				m[key] = v
				return m
			}
			back := walk(neS, with(false))
			if glob == nil || ioPkgs[glob.Pkg.Pkg.Path()] {
				back = back || walk(eqS, with(true))
			}
			return back
		}
		for _, s := range b.Succs {
			if walk(s, facts) {
				return true
			}
		}
		return false
	}
	return walk(start, map[string]bool{"nil": false})
}

func (c *Ctx) checkReadRetry() {
	a := c.newIOAnalysis()
	sites := 0
	for _, f := range c.zygoFuncs() {
		for _, b := range f.Blocks {
			cond, tb, fb := condBranch(b)
			if cond == nil {
				continue
			}
			bo, ok := cond.(*ssa.BinOp)
			if !ok || (bo.Op != token.NEQ && bo.Op != token.EQL) || !isNilConst(bo.Y) || !isErrorType(bo.X.Type()) {
				continue
			}
			if !c.inBareLoop(bo.Pos()) {
				continue
			}
			os := map[ioOrigin]bool{}
			a.origins(bo.X, os, map[ssa.Value]bool{})
			var raw, wraps []string
			var wrapTypes []*types.Named
			for o := range os {
				switch o.kind {
				case "io":
					raw = append(raw, o.name)
				case "wrap":
					wraps = append(wraps, o.name)
					wrapTypes = append(wrapTypes, o.typ)
				}
			}
			if len(raw) == 0 && len(wraps) == 0 {
				continue
			}
			sort.Strings(raw)
			sort.Strings(wraps)
			sites++
			nonNil := tb
			if bo.Op == token.EQL {
				nonNil = fb
			}
			from := strings.Join(append(append([]string{}, raw...), wraps...), ", ")
			construct := "error of " + shortStr(from, 60) + " tested in a bare loop"
			if len(raw) > 0 {
				back := a.comesBack(bo.X, nonNil, b, nil)
				c.check(!back, "C01-RETRY", fnName(f), construct, bo.Pos(),
					"after a failed read ("+from+") no path leads back to the read: the loop is left",
					"the error can be a failure to read the input at all ("+strings.Join(raw, ", ")+"), and a path from the failure leads round the loop to the same read again: an input that cannot be read (standard input a directory, an output the line editor refuses) fails again at once, for ever -- the driver never returns")
				continue
			}
			// marked failures only: the mark must be asked for, and its side must leave
			isMarkTest := func(blk *ssa.BasicBlock) (*ssa.BasicBlock, bool) {
				cd, t, _ := condBranch(blk)
				ex, ok := cd.(*ssa.Extract)
				if !ok || ex.Index != 1 {
					return nil, false
				}
				ta, ok := ex.Tuple.(*ssa.TypeAssert)
				if !ok || !ta.CommaOk {
					return nil, false
				}
				pt, ok := ta.AssertedType.(*types.Pointer)
				if !ok {
					return nil, false
				}
				for _, w := range wrapTypes {
					if types.Identical(pt.Elem(), w) {
						return t, true
					}
				}
				return nil, false
			}
			blind := a.comesBack(bo.X, nonNil, b, func(x *ssa.BasicBlock) bool {
				_, is := isMarkTest(x)
				return is
			})
			marked := false
			for _, blk := range f.Blocks {
				if t, is := isMarkTest(blk); is && reachableAvoiding(nonNil, blockEndsPath)[blk] && a.comesBack(bo.X, t, b, nil) {
					marked = true
				}
			}
			switch {
			case blind:
				c.bad("C01-RETRY", fnName(f), construct, bo.Pos(), "a failure to read the input is marked ("+strings.Join(wraps, ", ")+") but a path from the error goes round the loop to the same read without asking for the mark: an input that cannot be read fails again at once, for ever")
			case marked:
				c.bad("C01-RETRY", fnName(f), construct, bo.Pos(), "the path on which the error is known to be a failure to read the input ("+strings.Join(wraps, ", ")+") leads round the loop to the same read again: the driver never returns")
			default:
				c.ok("C01-RETRY", fnName(f), construct, bo.Pos(), "every path from the error back to the read asks whether reading failed ("+strings.Join(wraps, ", ")+"), and that side leaves the loop")
			}
		}
	}
	c.note("C01-RETRY sites", sites)
}
