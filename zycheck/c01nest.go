package main

import (
	"fmt"
	"go/token"
	"go/types"
	"strings"

	"golang.org/x/tools/go/ssa"
)

// C01-NEST: Go recursion whose depth the running program decides is counted.
//
// A Go stack that outgrows its limit is a fatal error: no recover() catches
// it, the host process dies. Two kinds of recursion in the interpreter are not
// bounded by the size of the text that was read, because the program itself
// produces what the next level works on:
//
//   - evaluation nests: Run executes an instruction, the instruction calls a
//     builtin, the builtin (eval, map, a sort comparator, a macro at compile
//     time, ...) calls Apply / Run again. (defn f [x] (map f [1])) (f 1) goes
//     down one level per call of f.
//   - the compiler feeds itself: it runs a macro and compiles what the macro
//     returned, or reads a file and compiles what it read; the result can
//     call the same macro, name the same file. (defmac m [] (list (quote m)))
//     (m) is 35 bytes long and never stops expanding.
//
// The obligation, for every such site: a depth counter -- an integer field of
// the interpreter or the generator -- is compared with a bound on a branch
// that dominates the site and returns an error instead of going on, and is
// incremented before the site. The sites are found, not listed:
//
//   - in Zlisp.Run, every call through which Run can be reached again in the
//     resolved call graph;
//   - in the methods of the code generator (and their closures), every call
//     to a function from which the caller can be reached again, with an
//     argument that derives from the result of a call that runs script code
//     (reaches Zlisp.Run) or opens a file.
//
// It decides that the counting is there; it does not decide that the bound is
// small enough for the Go stack of a particular host, nor recursion on the
// nesting of the text itself (parser, printers), which the size of the input
// bounds.

// blockReturnsError: control entering b runs straight (no branch) into a return
// whose error result is not the nil constant.
func blockReturnsError(b *ssa.BasicBlock) bool {
	for hop := 0; hop < 4 && b != nil; hop++ {
		if len(b.Instrs) == 0 {
			return false
		}
		switch last := b.Instrs[len(b.Instrs)-1].(type) {
		case *ssa.Return:
			idx := errResultIndex(b.Parent().Signature)
			return idx >= 0 && idx < len(last.Results) && !isNilConst(last.Results[idx])
		case *ssa.Jump:
			b = b.Succs[0]
		default:
			return false
		}
	}
	return false
}

// persistsAcrossLevels: v is an object the routine was handed (a parameter, the receiver, a free
// variable, or a field loaded from one), not the result of a call made in this activation.
func persistsAcrossLevels(v ssa.Value, depth int) bool {
	if depth > 6 {
		return false
	}
	switch x := v.(type) {
	case *ssa.Parameter, *ssa.FreeVar, *ssa.Global:
		return true
	case *ssa.UnOp:
		if x.Op == token.MUL {
			return persistsAcrossLevels(x.X, depth+1)
		}
	case *ssa.FieldAddr:
		return persistsAcrossLevels(x.X, depth+1)
	case *ssa.Field:
		return persistsAcrossLevels(x.X, depth+1)
	case *ssa.Phi:
		for _, e := range x.Edges {
			if !persistsAcrossLevels(e, depth+1) {
				return false
			}
		}
		return len(x.Edges) > 0
	case *ssa.Alloc:
		// a spilled parameter: every store into it is of a persistent value
		if x.Referrers() == nil {
			return false
		}
		n := 0
		for _, r := range *x.Referrers() {
			if st, ok := r.(*ssa.Store); ok && st.Addr == ssa.Value(x) {
				n++
				if !persistsAcrossLevels(st.Val, depth+1) {
					return false
				}
			}
		}
		return n > 0
	}
	return false
}

func (c *Ctx) checkNesting() {
	run := c.mustFn("C01-NEST", "Zlisp.Run")
	if run == nil {
		return
	}
	all := newRTA(c.Prog, nil, nil)
	for _, r := range c.entryRoots(false) {
		all.addRoot(r)
	}
	all.run()
	reachMemo := map[*ssa.Function]map[*ssa.Function]bool{}
	reachFrom := func(g *ssa.Function) map[*ssa.Function]bool {
		if m, ok := reachMemo[g]; ok {
			return m
		}
		m := map[*ssa.Function]bool{g: true}
		work := []*ssa.Function{g}
		for len(work) > 0 {
			f := work[len(work)-1]
			work = work[:len(work)-1]
			for _, e := range all.edges[f] {
				if !m[e.callee] {
					m[e.callee] = true
					work = append(work, e.callee)
				}
			}
		}
		reachMemo[g] = m
		return m
	}
	// callees of one call instruction in the resolved graph
	calleesAt := func(f *ssa.Function, in ssa.Instruction) []*ssa.Function {
		var out []*ssa.Function
		for _, e := range all.edges[f] {
			if e.pos == in.Pos() && in.Pos() != token.NoPos {
				out = append(out, e.callee)
			}
		}
		if ci, ok := in.(ssa.CallInstruction); ok {
			if g := ci.Common().StaticCallee(); g != nil {
				out = append(out, g)
			}
		}
		return out
	}

	var instrT types.Type
	if t := c.named("Instruction"); t != nil {
		instrT = t
	}
	zl := c.named("Zlisp")
	gn := c.named("Generator")
	isCounter := func(addr ssa.Value) *types.Var {
		fa, ok := addr.(*ssa.FieldAddr)
		if !ok {
			return nil
		}
		fld := faField(fa)
		if fld == nil {
			return nil
		}
		if b, ok := fld.Type().Underlying().(*types.Basic); !ok || b.Info()&types.IsInteger == 0 {
			return nil
		}
		pt, ok := fa.X.Type().Underlying().(*types.Pointer)
		if !ok {
			return nil
		}
		if nm, ok := pt.Elem().(*types.Named); ok && (nm == zl || nm == gn) {
			return fld
		}
		return nil
	}
	loadOfCounter := func(v ssa.Value) *types.Var {
		if u, ok := v.(*ssa.UnOp); ok && u.Op == token.MUL {
			return isCounter(u.X)
		}
		return nil
	}
	comparedCounter := func(cond ssa.Value) *types.Var {
		bo, ok := cond.(*ssa.BinOp)
		if !ok {
			return nil
		}
		switch bo.Op {
		case token.GEQ, token.GTR, token.LSS, token.LEQ:
		default:
			return nil
		}
		if fld := loadOfCounter(bo.X); fld != nil {
			return fld
		}
		return loadOfCounter(bo.Y)
	}
	// counts: inside f, a comparison of a counter with a bound decides, on a branch that
	// dominates `site` (or, with site == nil, the increment), whether it is reached at all, the
	// other side ends in an error return; and the same counter is incremented on the way.
	counts := func(f *ssa.Function, site ssa.Instruction) (bool, string) {
		var tested []*types.Var
		var tests []*ssa.BasicBlock
		for _, b := range f.Blocks {
			cond, tb, fb := condBranch(b)
			if cond == nil {
				continue
			}
			if neg, isNot := stripNot(cond); isNot {
				cond = neg
			}
			fld := comparedCounter(cond)
			if fld == nil {
				// a predicate of the package that does the comparison: if env.tooDeep() { return err }
				if call, isCall := cond.(*ssa.Call); isCall {
					if g := call.Call.StaticCallee(); g != nil && fnPkgPath(g) == zygoPath && len(g.Blocks) > 0 {
						for _, r := range returnsOf(g) {
							if len(r.Results) == 1 {
								if f2 := comparedCounter(r.Results[0]); f2 != nil {
									fld = f2
								}
							}
						}
					}
				}
			}
			if fld == nil {
				continue
			}
			if blockReturnsError(tb) != blockReturnsError(fb) {
				tested = append(tested, fld)
				tests = append(tests, b)
			}
		}
		if len(tested) == 0 {
			return false, "no comparison of a depth counter with a bound decides whether the call is made"
		}
		why := ""
		for k, fld := range tested {
			tb := tests[k]
			_, t, e := condBranch(tb)
			goOn := t
			if blockReturnsError(t) {
				goOn = e
			}
			found := false
			eachInstr(f, func(b *ssa.BasicBlock, i int, in ssa.Instruction) {
				st, ok := in.(*ssa.Store)
				if !ok || isCounter(st.Addr) != fld {
					return
				}
				bo, ok := st.Val.(*ssa.BinOp)
				if !ok || bo.Op != token.ADD || loadOfCounter(bo.X) != fld {
					return
				}
				// the increment is on the side that goes on, and before the site
				if !(goOn == st.Block() || goOn.Dominates(st.Block())) {
					return
				}
				if fa, ok := st.Addr.(*ssa.FieldAddr); ok && site != nil && !persistsAcrossLevels(fa.X, 0) {
					return
				}
				if site == nil || dominatesInstr(st, site) {
					found = true
				}
			})
			if found {
				return true, fld.Name()
			}
			why = "the counter " + fld.Name() + " is tested but not incremented before the call"
		}
		return false, why
	}
	// a helper that does the counting: returns an error when the bound is reached, counts otherwise
	helperMemo := map[*ssa.Function]string{}
	countingHelper := func(g *ssa.Function) string {
		if g == nil || fnPkgPath(g) != zygoPath || len(g.Blocks) == 0 || errResultIndex(g.Signature) < 0 {
			return ""
		}
		if w, ok := helperMemo[g]; ok {
			return w
		}
		w := ""
		if ok, name := counts(g, nil); ok {
			w = name
		}
		helperMemo[g] = w
		return w
	}
	guarded := func(site ssa.Instruction) (bool, string) {
		f := site.Parent()
		if ok, what := counts(f, site); ok {
			return true, what
		}
		_, why := counts(f, site)
		// or: a counting helper is called, its error tested, and the error side does not get to the site
		verdict := false
		eachInstr(f, func(b *ssa.BasicBlock, i int, in ssa.Instruction) {
			call, ok := in.(*ssa.Call)
			if !ok || !dominatesInstr(call, site) {
				return
			}
			name := countingHelper(call.Call.StaticCallee())
			if name == "" {
				return
			}
			// the counter must be the one the next level of the recursion sees: that of an interpreter the
			// routine was given (gen.env, env), not of one it has just made (a duplicate made for this
			// expansion starts from its parent's count, and the parent's is what the recursion goes on with)
			if len(call.Call.Args) > 0 && !persistsAcrossLevels(call.Call.Args[0], 0) {
				why = "the nesting is counted on an interpreter made in this very activation (" + shortStr(call.Call.Args[0].String(), 40) + "): the next level of the recursion starts from the uncounted parent"
				return
			}
			ev, _ := errorValueOf(call)
			if ev == nil {
				why = "the error of " + fnName(call.Call.StaticCallee()) + " is dropped: the bound is tested and ignored"
				return
			}
			_, tests := errConsumed(ev, map[ssa.Value]bool{})
			for _, iff := range tests {
				cond, tb, fb := condBranch(iff.Block())
				bo, ok := cond.(*ssa.BinOp)
				if !ok {
					continue
				}
				errSide := tb
				if bo.Op == token.EQL {
					errSide = fb
				}
				if !iff.Block().Dominates(site.Block()) {
					continue
				}
				if errSide != site.Block() && !blockReaches(errSide, site.Block()) {
					verdict = true
					why = name + ", in " + fnName(call.Call.StaticCallee())
				}
			}
		})
		return verdict, why
	}

	n := 0
	// (a) evaluation nests through Run
	eachInstr(run, func(b *ssa.BasicBlock, i int, in ssa.Instruction) {
		ci, ok := in.(ssa.CallInstruction)
		if !ok {
			return
		}
		if _, isDefer := in.(*ssa.Defer); isDefer {
			return
		}
		// the dispatch of the virtual machine: an instruction, taken from the running function, is executed
		if !ci.Common().IsInvoke() || instrT == nil || !types.Identical(ci.Common().Value.Type(), instrT) || errResultIndex(ci.Common().Signature()) < 0 {
			return
		}
		again := false
		for _, g := range calleesAt(run, in) {
			if reachFrom(g)[run] {
				again = true
			}
		}
		if !again {
			return
		}
		n++
		ok2, what := guarded(in)
		construct := "call of " + shortStr(calleeName(ci.Common()), 40) + " through which Run is entered again"
		c.check(ok2, "C01-NEST", fnName(run), construct, in.Pos(),
			"the nesting of evaluations is counted ("+what+"): beyond the bound Run returns an error",
			"evaluation nests on the Go stack through this call (an instruction runs a builtin that calls Apply/Run again) with no depth bound ("+what+"): a function that calls itself through map, eval or a comparator goes down until the Go stack limit, a fatal error that kills the host")
	})

	// (b) the compiler compiles what running the program, or reading a file, gave it
	// through static calls only: the resolved graph joins everything that prints to everything that runs
	srMemo := map[*ssa.Function]map[*ssa.Function]bool{}
	sreach := func(g *ssa.Function) map[*ssa.Function]bool {
		if m, ok := srMemo[g]; ok {
			return m
		}
		m := staticReach(g)
		srMemo[g] = m
		return m
	}
	opensFile := func(g *ssa.Function) bool {
		found := false
		for h := range sreach(g) {
			for _, hh := range withClosures(h) {
				eachInstr(hh, func(b *ssa.BasicBlock, i int, in ssa.Instruction) {
					if ci, ok := in.(ssa.CallInstruction); ok {
						if k := ci.Common().StaticCallee(); k != nil && fnPkgPath(k) == "os" && (k.Name() == "Open" || k.Name() == "OpenFile" || k.Name() == "ReadFile") {
							found = true
						}
					}
				})
			}
		}
		return found
	}
	a := c.newIOAnalysis()
	var fromSource func(v ssa.Value, seen map[ssa.Value]bool) string
	fromSource = func(v ssa.Value, seen map[ssa.Value]bool) string {
		if v == nil || seen[v] {
			return ""
		}
		seen[v] = true
		switch x := v.(type) {
		case *ssa.Phi:
			for _, e := range x.Edges {
				if s := fromSource(e, seen); s != "" {
					return s
				}
			}
		case *ssa.Extract:
			return fromSource(x.Tuple, seen)
		case *ssa.Slice:
			return fromSource(x.X, seen)
		case *ssa.ChangeInterface:
			return fromSource(x.X, seen)
		case *ssa.MakeInterface:
			return fromSource(x.X, seen)
		case *ssa.TypeAssert:
			return fromSource(x.X, seen)
		case *ssa.UnOp:
			if x.Op != token.MUL {
				return ""
			}
			switch cell := x.X.(type) {
			case *ssa.Alloc, *ssa.FreeVar:
				defs := map[ssa.Value]bool{}
				a.defsBefore(x.Parent(), cell, x.Block(), instrIndex(x), map[*ssa.BasicBlock]bool{}, defs, map[*ssa.Function]bool{})
				for d := range defs {
					if s := fromSource(d, seen); s != "" {
						return s
					}
				}
			}
		case *ssa.Call:
			if g := x.Call.StaticCallee(); g != nil && fnPkgPath(g) == zygoPath {
				if sreach(g)[run] {
					return fnName(g) + " (runs script code)"
				}
				if opensFile(g) {
					return fnName(g) + " (reads a file)"
				}
			}
		}
		return ""
	}
	nb := 0
	for _, f := range c.zygoFuncs() {
		if gn == nil || !isMethodOf(topFn(f), gn) {
			continue
		}
		eachInstr(f, func(b *ssa.BasicBlock, i int, in ssa.Instruction) {
			call, ok := in.(*ssa.Call)
			if !ok {
				return
			}
			src := ""
			for _, arg := range call.Call.Args {
				if s := fromSource(arg, map[ssa.Value]bool{}); s != "" {
					src = s
					break
				}
			}
			if src == "" {
				return
			}
			again := false
			if g := call.Call.StaticCallee(); g != nil && fnPkgPath(g) == zygoPath && sreach(g)[topFn(f)] {
				again = true
			}
			if !again {
				return
			}
			nb++
			ok2, what := guarded(in)
			construct := "compiles the result of " + src + " with " + shortStr(calleeName(call.Common()), 40)
			c.check(ok2, "C01-NEST", fnName(f), construct, in.Pos(),
				"the nesting of expansions is counted ("+what+"): beyond the bound the compiler returns an error",
				"the compiler hands what "+src+" produced to a routine from which this very place is reached again, with no depth bound ("+what+"): a macro whose expansion calls the macro, a file that includes itself, recurse until the Go stack limit, a fatal error that kills the host")
		})
	}
	c.check(n >= 1 && nb >= 1, "C01-NEST", "package", "self-feeding recursion sites", token.NoPos,
		fmt.Sprintf("%d call(s) in Run that re-enter Run and %d compiler site(s) fed by running or reading were examined", n, nb),
		fmt.Sprintf("only %d re-entering call(s) in Run and %d compiler site(s) found: the macro expansion and include sites confirmed by reading are not recognised any more", n, nb))
	_ = strings.Join
}

// C01-SPINE: no Go recursion along the spine of a list.
//
// A list is a chain of pairs; its length is whatever the input says (a data
// file with a few million atoms on one level is an ordinary data file). A
// routine that handles the first pair and calls itself for the rest uses one
// Go stack frame per element: depth = length, and beyond the Go stack limit
// the process dies with a fatal error. The nesting of an expression is
// bounded by what a person writes; the length of a list is not.
//
// The rule looks at every call of a function to itself and reports it when
// it walks the spine:
//   - an argument of the call is the Tail of the pair the function was given
//     (the pair derives from a parameter: the Tail of an entry of a hash
//     table is the value stored under a key, which is nesting, not length),
//   - an argument is the rest x[1:] of a slice parameter and the result
//     becomes the tail of a pair, or
//   - the result of the call becomes the Tail of a pair made in this
//     activation (stored into the Tail field, or handed to Cons as the tail).
//
// It does not decide recursion on the nesting depth (the head of a pair, the
// elements of an array), nor indirect recursion through other functions.
func (c *Ctx) checkListSpine() {
	pairT := c.named("SexpPair")
	tailF := c.field("SexpPair", "Tail")
	cons := c.fn("Cons")
	if pairT == nil || tailF == nil {
		c.undecided("C01-SPINE", "package", "list type", token.NoPos, "SexpPair.Tail not found")
		return
	}
	var fromParam func(v ssa.Value, depth int) bool
	fromParam = func(v ssa.Value, depth int) bool {
		if depth > 6 {
			return false
		}
		switch x := v.(type) {
		case *ssa.Parameter:
			return true
		case *ssa.TypeAssert:
			return fromParam(x.X, depth+1)
		case *ssa.Extract:
			return fromParam(x.Tuple, depth+1)
		case *ssa.ChangeInterface:
			return fromParam(x.X, depth+1)
		case *ssa.Phi:
			for _, e := range x.Edges {
				if fromParam(e, depth+1) {
					return true
				}
			}
		}
		return false
	}
	isTailRead := func(v ssa.Value) bool {
		for depth := 0; depth < 4; depth++ {
			switch x := v.(type) {
			case *ssa.UnOp:
				if x.Op == token.MUL {
					if fa, ok := x.X.(*ssa.FieldAddr); ok && faField(fa) == tailF {
						return fromParam(fa.X, 0)
					}
				}
				return false
			case *ssa.Field:
				return fField(x) == tailF && fromParam(x.X, 0)
			case *ssa.TypeAssert:
				v = x.X
			case *ssa.Extract:
				v = x.Tuple
			case *ssa.MakeInterface:
				v = x.X
			case *ssa.ChangeInterface:
				v = x.X
			default:
				return false
			}
		}
		return false
	}
	becomesTail := func(v ssa.Value) bool {
		seen := map[ssa.Value]bool{}
		var walk func(v ssa.Value, depth int) bool
		walk = func(v ssa.Value, depth int) bool {
			if v == nil || seen[v] || depth > 5 || v.Referrers() == nil {
				return false
			}
			seen[v] = true
			for _, r := range *v.Referrers() {
				switch x := r.(type) {
				case *ssa.Store:
					if fa, ok := x.Addr.(*ssa.FieldAddr); ok && faField(fa) == tailF && x.Val == v {
						return true
					}
				case *ssa.Extract:
					if walk(x, depth+1) {
						return true
					}
				case *ssa.MakeInterface:
					if walk(x, depth+1) {
						return true
					}
				case *ssa.ChangeInterface:
					if walk(x, depth+1) {
						return true
					}
				case *ssa.Phi:
					if walk(x, depth+1) {
						return true
					}
				case *ssa.Call:
					if cons != nil && x.Call.StaticCallee() == cons && len(x.Call.Args) == 2 && x.Call.Args[1] == v {
						return true
					}
				}
			}
			return false
		}
		return walk(v, 0)
	}
	n, selfCalls := 0, 0
	for _, f := range c.zygoFuncs() {
		eachInstr(f, func(b *ssa.BasicBlock, i int, in ssa.Instruction) {
			call, ok := in.(*ssa.Call)
			if !ok || call.Call.StaticCallee() != f {
				return
			}
			selfCalls++
			why := ""
			for ai, a := range call.Call.Args {
				if isTailRead(a) {
					why = "it is called again with the Tail of the pair it was given"
				}
				if sl, ok := a.(*ssa.Slice); ok && sl.Low != nil && ai < len(f.Params) {
					if p, ok := sl.X.(*ssa.Parameter); ok && p == f.Params[ai] {
						if k, ok := constIntOf(sl.Low); ok && k >= 1 && becomesTail(call) {
							why = "it is called again with the rest of the slice it was given, and the result becomes the tail of a pair"
						}
					}
				}
			}
			if why == "" && becomesTail(call) {
				why = "the result of calling itself becomes the Tail of the pair it makes"
			}
			if why == "" {
				return
			}
			n++
			c.bad("C01-SPINE", fnName(f), "calls itself for the rest of the list", call.Pos(),
				"recursion along the spine of a list: "+why+" -- one Go stack frame per element, so the length of a list in the input is the depth of the Go stack; a long flat list (a data file of a few million atoms) ends in a fatal stack overflow that kills the host")
		})
	}
	c.check(selfCalls >= 10, "C01-SPINE", "package", "self-recursive calls examined", token.NoPos,
		fmt.Sprintf("%d calls of a function to itself examined, %d of them walk the spine of a list", selfCalls, n),
		fmt.Sprintf("only %d self-recursive calls found", selfCalls))
}

// C01-DEPTH: the recursive-descent parser counts how deep it is.
//
// The parser calls itself once or twice per nesting level of the text, and the
// text is whatever the host was handed: a megabyte of opening parentheses is a
// source text like any other, and without a bound the Go stack decides when it
// ends -- fatally. The obligation: the methods of the parser that call each
// other in a cycle (found in the static call graph) all pass through a hub,
// and the hub compares a counter -- an integer field of the parser -- with a
// bound before it calls back into the cycle, returns an error on the far side,
// and counts on the near side. (The generator and the printers recurse on
// what the parser produced; the depth of that is the depth the parser let
// through. Structures that a running program nests by itself are not covered.)
func (c *Ctx) checkParserDepth() {
	parserT := c.named("Parser")
	pe := c.mustFn("C01-DEPTH", "Parser.ParseExpression")
	if parserT == nil || pe == nil {
		return
	}
	var members []*ssa.Function
	for _, f := range c.zygoFuncs() {
		if f.Parent() == nil && isMethodOf(f, parserT) {
			members = append(members, f)
		}
	}
	isMember := map[*ssa.Function]bool{}
	for _, f := range members {
		isMember[f] = true
	}
	calls := func(f *ssa.Function) []*ssa.Function {
		var out []*ssa.Function
		seen := map[*ssa.Function]bool{}
		for _, g := range withClosures(f) {
			eachInstr(g, func(b *ssa.BasicBlock, i int, in ssa.Instruction) {
				if ci, ok := in.(ssa.CallInstruction); ok {
					if h := ci.Common().StaticCallee(); h != nil && isMember[h] && !seen[h] {
						seen[h] = true
						out = append(out, h)
					}
				}
			})
		}
		return out
	}
	reach := func(from *ssa.Function, without *ssa.Function) map[*ssa.Function]bool {
		seen := map[*ssa.Function]bool{}
		work := []*ssa.Function{from}
		for len(work) > 0 {
			f := work[len(work)-1]
			work = work[:len(work)-1]
			for _, g := range calls(f) {
				if g == without || seen[g] {
					continue
				}
				seen[g] = true
				work = append(work, g)
			}
		}
		return seen
	}
	// the cycle the hub is on
	onCycle := reach(pe, nil)[pe]
	if !onCycle {
		c.undecided("C01-DEPTH", "Parser.ParseExpression", "recursive descent", pe.Pos(), "the expression parser is not on a cycle of the parser's static call graph any more; the hub of the recursion has to be found again")
		return
	}
	// every other cycle among the parser's methods passes through the hub
	var other []string
	for _, f := range members {
		if f != pe && reach(f, pe)[f] {
			other = append(other, fnName(f))
		}
	}
	c.check(len(other) == 0, "C01-DEPTH", "Parser", "every recursion of the parser passes through ParseExpression", pe.Pos(),
		"without the expression parser the parser's methods do not call each other in a cycle",
		"these methods of the parser recurse without passing through the expression parser, where the depth is counted: "+strings.Join(other, ", "))
	// the hub counts
	intField := func(addr ssa.Value) *types.Var {
		fa, ok := addr.(*ssa.FieldAddr)
		if !ok {
			return nil
		}
		fld := faField(fa)
		if fld == nil {
			return nil
		}
		if b, ok := fld.Type().Underlying().(*types.Basic); !ok || b.Info()&types.IsInteger == 0 {
			return nil
		}
		if pt, ok := fa.X.Type().Underlying().(*types.Pointer); ok {
			if nm, ok := pt.Elem().(*types.Named); ok && nm == parserT {
				return fld
			}
		}
		return nil
	}
	loadOf := func(v ssa.Value) *types.Var {
		if u, ok := v.(*ssa.UnOp); ok && u.Op == token.MUL {
			return intField(u.X)
		}
		if cv, ok := v.(*ssa.Convert); ok {
			if u, ok := cv.X.(*ssa.UnOp); ok && u.Op == token.MUL {
				return intField(u.X)
			}
		}
		return nil
	}
	var tested *types.Var
	var testBlock *ssa.BasicBlock
	for _, b := range pe.Blocks {
		cond, tb, fb := condBranch(b)
		bo, ok := cond.(*ssa.BinOp)
		if !ok {
			continue
		}
		switch bo.Op {
		case token.GEQ, token.GTR, token.LSS, token.LEQ:
		default:
			continue
		}
		fld := loadOf(bo.X)
		if fld == nil {
			fld = loadOf(bo.Y)
		}
		if fld == nil || blockReturnsError(tb) == blockReturnsError(fb) {
			continue
		}
		tested, testBlock = fld, b
	}
	counted := false
	if tested != nil {
		eachInstr(pe, func(b *ssa.BasicBlock, i int, in ssa.Instruction) {
			st, ok := in.(*ssa.Store)
			if !ok || intField(st.Addr) != tested {
				return
			}
			if bo, ok := st.Val.(*ssa.BinOp); ok && bo.Op == token.ADD && loadOf(bo.X) == tested {
				counted = true
			}
		})
	}
	guardsAll := tested != nil
	if tested != nil {
		for _, g := range calls(pe) {
			if !reach(g, nil)[pe] && g != pe {
				continue
			}
			for _, site := range callsOf(pe, g) {
				if !testBlock.Dominates(site.Block()) {
					guardsAll = false
				}
			}
		}
	}
	why := "no comparison of an integer field of the parser with a bound, with an error return on one side, was found in the expression parser"
	if tested != nil && !counted {
		why = "the field " + tested.Name() + " is compared with a bound but never incremented in the expression parser"
	} else if tested != nil && !guardsAll {
		why = "the comparison of " + tested.Name() + " with its bound does not come before every call back into the parser"
	}
	c.check(tested != nil && counted && guardsAll, "C01-DEPTH", "Parser.ParseExpression", "nesting depth counted against a bound", pe.Pos(),
		"the expression parser counts its activations and returns an error beyond a bound, before it calls back into the parser",
		"the parser recurses once per nesting level of the text with no bound ("+why+"): a text of a million opening parentheses is parsed until the Go stack limit, a fatal error that kills the host")
}


// checkNestPairing: the nesting counter is a resource: what counts one level in must count it out on
// every way out of the routine, failing ones included -- the counter is not part of the control state
// that a failed evaluation restores, and Clear does not touch it. A routine that calls a counting
// helper (one that compares an integer field of the interpreter with a bound and increments it) has
// either a deferred call of a routine that decrements the same field, made right after the successful
// count, or a decrementing call on every path from the count to a return.
func (c *Ctx) checkNestPairing(rule string) {
	zl := c.named("Zlisp")
	if zl == nil {
		c.undecided(rule, "package", "interpreter type", token.NoPos, "Zlisp not found")
		return
	}
	fieldOf := func(addr ssa.Value) *types.Var {
		fa, ok := addr.(*ssa.FieldAddr)
		if !ok {
			return nil
		}
		fld := faField(fa)
		if fld == nil {
			return nil
		}
		if b, ok := fld.Type().Underlying().(*types.Basic); !ok || b.Info()&types.IsInteger == 0 {
			return nil
		}
		if pt, ok := fa.X.Type().Underlying().(*types.Pointer); ok {
			if nm, ok := pt.Elem().(*types.Named); ok && nm == zl {
				return fld
			}
		}
		return nil
	}
	// helpers: up counts a field (and can refuse), down un-counts it
	up := map[*ssa.Function]*types.Var{}
	down := map[*ssa.Function]*types.Var{}
	for _, g := range c.zygoFuncs() {
		if g.Parent() != nil || !isMethodOf(g, zl) || len(g.Blocks) > 6 {
			continue
		}
		eachInstr(g, func(b *ssa.BasicBlock, i int, in ssa.Instruction) {
			st, ok := in.(*ssa.Store)
			if !ok {
				return
			}
			fld := fieldOf(st.Addr)
			bo, isBo := st.Val.(*ssa.BinOp)
			if fld == nil || !isBo {
				return
			}
			if u, ok := bo.X.(*ssa.UnOp); !ok || u.Op != token.MUL || fieldOf(u.X) != fld {
				return
			}
			if k, ok := constIntOf(bo.Y); ok && k == 1 {
				if bo.Op == token.ADD && errResultIndex(g.Signature) >= 0 {
					up[g] = fld
				}
				if bo.Op == token.SUB {
					down[g] = fld
				}
			}
		})
	}
	n := 0
	for _, f := range c.zygoFuncs() {
		eachInstr(f, func(b *ssa.BasicBlock, i int, in ssa.Instruction) {
			call, ok := in.(*ssa.Call)
			if !ok {
				return
			}
			fld, isUp := up[call.Call.StaticCallee()]
			if !isUp || up[f] != nil {
				return
			}
			n++
			// the side on which the count succeeded
			ev, _ := errorValueOf(call)
			var okSide *ssa.BasicBlock
			if ev != nil {
				_, tests := errConsumed(ev, map[ssa.Value]bool{})
				for _, iff := range tests {
					cond, tb, fb := condBranch(iff.Block())
					if bo, ok := cond.(*ssa.BinOp); ok {
						okSide = fb
						if bo.Op == token.EQL {
							okSide = tb
						}
					}
				}
			}
			if okSide == nil {
				c.bad(rule, fnName(f), "nesting counted in is counted out", call.Pos(), "the result of the counting helper is not tested: a refused level goes on uncounted")
				return
			}
			isDown := func(x ssa.Instruction) bool {
				switch y := x.(type) {
				case *ssa.Defer:
					if g := y.Call.StaticCallee(); g != nil {
						if down[g] == fld {
							return true
						}
						// a deferred closure that calls the un-counting routine
						for _, h := range withClosures(g) {
							for dg, dfld := range down {
								if dfld == fld && len(callsOf(h, dg)) > 0 {
									return true
								}
							}
						}
					}
					if mc, ok := y.Call.Value.(*ssa.MakeClosure); ok {
						if g, ok := mc.Fn.(*ssa.Function); ok {
							for dg, dfld := range down {
								if dfld == fld && len(callsOf(g, dg)) > 0 {
									return true
								}
							}
						}
					}
				case *ssa.Call:
					if g := y.Call.StaticCallee(); g != nil && down[g] == fld {
						return true
					}
				}
				return false
			}
			// every return reachable from the counted side without passing an un-count
			leak := token.NoPos
			reach := reachableAvoiding(okSide, func(x *ssa.BasicBlock) bool {
				for _, y := range x.Instrs {
					if isDown(y) {
						return true
					}
				}
				return false
			})
			for blk := range reach {
				for _, y := range blk.Instrs {
					if r, ok := y.(*ssa.Return); ok {
						leak = r.Pos()
						if leak == token.NoPos {
							leak = call.Pos()
						}
					}
				}
			}
			c.check(leak == token.NoPos, rule, fnName(f), "nesting counted in is counted out", call.Pos(),
				"after a successful count every way out of the routine passes the un-counting routine (deferred, or called on each path)",
				"a level of nesting is counted in and a return is reachable without counting it out ("+c.pos(leak)+"): the counter is not part of the restored control state, so every failed (or swallowed) nested evaluation leaves it one higher, until every evaluation is refused as nested too deep")
		})
	}
	if n < 2 {
		c.undecided(rule, "package", "counted routines", token.NoPos, fmt.Sprintf("only %d calls of a counting helper found (Run, the macro expansion and the include site confirmed by reading)", n))
	}
}
