package main

import (
	"go/token"
	"go/types"

	"golang.org/x/tools/go/ssa"
)

// C01-NILARG: a constant nil handed to a pointer parameter that the callee
// (or a function it passes the parameter on to) uses without a nil test.
//
// Several routines of the interpreter take the interpreter itself as a
// parameter and are called with nil by code that "does not need it" (printing,
// template walking). Most callees get away with it; a callee that reaches
// MakeSymbol (which panics on a nil receiver) or reads a field of the
// parameter does not: HashGet(nil, key) with a dot-symbol key walks the dot
// path and interns a name on the nil interpreter. Outside the recover barrier
// that is a Go panic out of the library.
//
// The rule follows a nil constant of pointer-to-struct type from each call
// site in code reachable outside the barrier into the callee's parameter and,
// through calls that pass the parameter on unchanged, for a bounded number of
// hops; it reports a field access or a panicking receiver use that no test of
// the parameter against nil guards.

type nilUse struct {
	pos   token.Pos
	what  string
	chain []string
}

func (c *Ctx) nilParamUse(f *ssa.Function, p int, depth int, seen map[[2]interface{}]bool) *nilUse {
	if depth > 5 || fnPkgPath(f) != zygoPath || len(f.Blocks) == 0 || p >= len(f.Params) {
		return nil
	}
	k := [2]interface{}{f, p}
	if seen[k] {
		return nil
	}
	seen[k] = true
	param := f.Params[p]
	nilGuarded := func(b *ssa.BasicBlock) bool {
		// the block runs only when param != nil
		return guardedBy(b, func(cond ssa.Value) (bool, bool) {
			bo, ok := cond.(*ssa.BinOp)
			if !ok || (bo.Op != token.EQL && bo.Op != token.NEQ) || bo.X != ssa.Value(param) || !isNilConst(bo.Y) {
				return false, false
			}
			return true, bo.Op == token.NEQ
		})
	}
	var found *nilUse
	if param.Referrers() == nil {
		return nil
	}
	// a nil test whose nil side panics is not a guard, it is the failure
	for _, r := range *param.Referrers() {
		bo, ok := r.(*ssa.BinOp)
		if !ok || (bo.Op != token.EQL && bo.Op != token.NEQ) || !isNilConst(bo.Y) || bo.Referrers() == nil {
			continue
		}
		for _, r2 := range *bo.Referrers() {
			iff, ok := r2.(*ssa.If)
			if !ok {
				continue
			}
			nilSide := iff.Block().Succs[0]
			if bo.Op == token.NEQ {
				nilSide = iff.Block().Succs[1]
			}
			for _, in := range nilSide.Instrs {
				if pn, ok := in.(*ssa.Panic); ok {
					return &nilUse{pn.Pos(), fnName(f) + " panics when the argument is nil", []string{fnName(f)}}
				}
			}
		}
	}
	for _, r := range *param.Referrers() {
		if found != nil {
			break
		}
		in, ok := r.(ssa.Instruction)
		if !ok || nilGuarded(in.Block()) {
			continue
		}
		switch x := r.(type) {
		case *ssa.FieldAddr:
			if x.X == ssa.Value(param) {
				found = &nilUse{x.Pos(), "field " + fieldName(x) + " of the nil argument is read in " + fnName(f), []string{fnName(f)}}
			}
		case *ssa.UnOp:
			if x.Op == token.MUL && x.X == ssa.Value(param) {
				found = &nilUse{x.Pos(), "the nil argument is dereferenced in " + fnName(f), []string{fnName(f)}}
			}
		case ssa.CallInstruction:
			cc := x.Common()
			g := cc.StaticCallee()
			if g == nil {
				continue
			}
			for i, a := range cc.Args {
				if a != ssa.Value(param) {
					continue
				}
				if u := c.nilParamUse(g, i, depth+1, seen); u != nil {
					found = &nilUse{u.pos, u.what, append([]string{fnName(f)}, u.chain...)}
					break
				}
			}
		}
	}
	return found
}

func fieldName(fa *ssa.FieldAddr) string {
	if f := faField(fa); f != nil {
		return f.Name()
	}
	return "?"
}

func (c *Ctx) checkNilArguments(br *BR) {
	n := 0
	for _, f := range c.zygoFuncs() {
		if !br.unprotected(f) {
			continue
		}
		eachInstr(f, func(b *ssa.BasicBlock, i int, in ssa.Instruction) {
			ci, ok := in.(ssa.CallInstruction)
			if !ok {
				return
			}
			if _, isFrame := br.frames[f]; isFrame {
				return
			}
			cc := ci.Common()
			g := cc.StaticCallee()
			if g == nil || fnPkgPath(g) != zygoPath {
				return
			}
			for idx, a := range cc.Args {
				k, isConst := a.(*ssa.Const)
				if !isConst || k.Value != nil {
					continue
				}
				pt, isPtr := k.Type().Underlying().(*types.Pointer)
				if !isPtr {
					continue
				}
				if _, isStruct := pt.Elem().Underlying().(*types.Struct); !isStruct {
					continue
				}
				n++
				u := c.nilParamUse(g, idx, 0, map[[2]interface{}]bool{})
				construct := "nil " + typeShort(k.Type()) + " handed to " + fnName(g)
				if u == nil {
					c.ok("C01-NILARG", fnName(f), construct, in.Pos(), "the callee and the functions it passes the argument on to test it against nil before use, or do not use it")
					continue
				}
				o := c.bad("C01-NILARG", fnName(f), construct, in.Pos(),
					"a nil argument reaches a use that no nil test guards ("+u.what+", by way of "+joinArrow(u.chain)+"), in code reachable outside the recover barrier: a Go panic out of the library")
				if o.Status == StViolation {
					o.Path = br.unprot.pathTo(c, f)
				}
			}
		})
	}
	c.note("nil_pointer_arguments_examined", n)
}

func joinArrow(xs []string) string {
	s := ""
	for i, x := range xs {
		if i > 0 {
			s += " -> "
		}
		s += x
	}
	return s
}

// C01-NILTYPE: a reflect.Type read from a struct field and handed to one of the reflect
// constructors (SliceOf, PtrTo/PointerTo, New, MakeSlice, Zero, MapOf, ...) without a nil test.
// These functions dereference their argument; RegisteredType.TypeCache is set only when the
// type's factory returns a non-nil sample, so for a type without one the field stays nil.
// (def h [(hash a: 1)]) (def h [(hash a: 2)]) asks for the slice type of such an element
// type when the variable is re-bound, outside the recover barrier.
func (c *Ctx) checkNilReflectTypes(br *BR) {
	n := 0
	for _, f := range c.zygoFuncs() {
		if !br.unprotected(f) {
			continue
		}
		eachInstr(f, func(b *ssa.BasicBlock, i int, in ssa.Instruction) {
			call, ok := in.(*ssa.Call)
			if !ok {
				return
			}
			g := call.Call.StaticCallee()
			if g == nil || fnPkgPath(g) != "reflect" || g.Signature.Recv() != nil {
				return
			}
			for ai, a := range call.Call.Args {
				if ai >= g.Signature.Params().Len() {
					break
				}
				if nm, ok := g.Signature.Params().At(ai).Type().(*types.Named); !ok || nm.Obj().Name() != "Type" {
					continue
				}
				ld, ok := a.(*ssa.UnOp)
				if !ok || ld.Op != token.MUL {
					continue
				}
				fa, ok := ld.X.(*ssa.FieldAddr)
				if !ok {
					continue
				}
				n++
				// a test of the same field against nil dominates the call, on the non-nil side
				fld := faField(fa)
				guarded := guardedBy(b, func(cond ssa.Value) (bool, bool) {
					bo, ok := cond.(*ssa.BinOp)
					if !ok || (bo.Op != token.EQL && bo.Op != token.NEQ) || !isNilConst(bo.Y) {
						return false, false
					}
					if _, same := loadOfField(bo.X, fld); !same {
						return false, false
					}
					return true, bo.Op == token.NEQ
				})
				construct := "reflect." + g.Name() + " of field " + fieldName(fa)
				if guarded {
					c.ok("C01-NILTYPE", fnName(f), construct, call.Pos(), "the field is tested against nil before it is handed to reflect")
					continue
				}
				o := c.bad("C01-NILTYPE", fnName(f), construct, call.Pos(),
					"a reflect.Type read from a struct field is handed to reflect."+g.Name()+", which dereferences it, with no nil test, in code reachable outside the recover barrier: for a registered type that has no Go sample value the field is nil and the call is a nil-pointer panic out of the library")
				if o.Status == StViolation {
					o.Path = br.unprot.pathTo(c, f)
				}
			}
		})
	}
	c.note("reflect_type_arguments_examined", n)
}
