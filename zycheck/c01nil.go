package main

import (
	"go/token"
	"go/types"
	"strings"

	"golang.org/x/tools/go/ssa"
)

// C01-NILARG: a constant nil handed to a pointer parameter that the callee
// (or a function it passes the parameter on to) uses without a nil test.
//
// Several routines of the interpreter take the interpreter itself as a
// parameter and are called with nil by code that "does not need it" (printing,
// template walking). Most callees get away with it; a callee that reaches
// MakeSymbol (which panics on a nil receiver) or reads a field of the
// parameter does not: HashGet(nil, key) with a dot-symbol key walks the dot
// path and interns a name on the nil interpreter. Outside the recover barrier
// that is a Go panic out of the library.
//
// The rule follows a nil constant of pointer-to-struct type from each call
// site in code reachable outside the barrier into the callee's parameter and,
// through calls that pass the parameter on unchanged, for a bounded number of
// hops; it reports a field access or a panicking receiver use that no test of
// the parameter against nil guards.

type nilUse struct {
	pos   token.Pos
	what  string
	chain []string
}

func (c *Ctx) nilParamUse(f *ssa.Function, p int, depth int, seen map[[2]interface{}]bool) *nilUse {
	if depth > 5 || fnPkgPath(f) != zygoPath || len(f.Blocks) == 0 || p >= len(f.Params) {
		return nil
	}
	k := [2]interface{}{f, p}
	if seen[k] {
		return nil
	}
	seen[k] = true
	param := f.Params[p]
	nilGuarded := func(b *ssa.BasicBlock) bool {
		// the block runs only when param != nil
		return guardedBy(b, func(cond ssa.Value) (bool, bool) {
			bo, ok := cond.(*ssa.BinOp)
			if !ok || (bo.Op != token.EQL && bo.Op != token.NEQ) || bo.X != ssa.Value(param) || !isNilConst(bo.Y) {
				return false, false
			}
			return true, bo.Op == token.NEQ
		})
	}
	var found *nilUse
	if param.Referrers() == nil {
		return nil
	}
	// a nil test whose nil side panics is not a guard, it is the failure
	for _, r := range *param.Referrers() {
		bo, ok := r.(*ssa.BinOp)
		if !ok || (bo.Op != token.EQL && bo.Op != token.NEQ) || !isNilConst(bo.Y) || bo.Referrers() == nil {
			continue
		}
		for _, r2 := range *bo.Referrers() {
			iff, ok := r2.(*ssa.If)
			if !ok {
				continue
			}
			nilSide := iff.Block().Succs[0]
			if bo.Op == token.NEQ {
				nilSide = iff.Block().Succs[1]
			}
			for _, in := range nilSide.Instrs {
				if pn, ok := in.(*ssa.Panic); ok {
					return &nilUse{pn.Pos(), fnName(f) + " panics when the argument is nil", []string{fnName(f)}}
				}
			}
		}
	}
	for _, r := range *param.Referrers() {
		if found != nil {
			break
		}
		in, ok := r.(ssa.Instruction)
		if !ok || nilGuarded(in.Block()) {
			continue
		}
		switch x := r.(type) {
		case *ssa.FieldAddr:
			if x.X == ssa.Value(param) {
				found = &nilUse{x.Pos(), "field " + fieldName(x) + " of the nil argument is read in " + fnName(f), []string{fnName(f)}}
			}
		case *ssa.UnOp:
			if x.Op == token.MUL && x.X == ssa.Value(param) {
				found = &nilUse{x.Pos(), "the nil argument is dereferenced in " + fnName(f), []string{fnName(f)}}
			}
		case ssa.CallInstruction:
			cc := x.Common()
			g := cc.StaticCallee()
			if g == nil {
				continue
			}
			for i, a := range cc.Args {
				if a != ssa.Value(param) {
					continue
				}
				if u := c.nilParamUse(g, i, depth+1, seen); u != nil {
					found = &nilUse{u.pos, u.what, append([]string{fnName(f)}, u.chain...)}
					break
				}
			}
		}
	}
	return found
}

func fieldName(fa *ssa.FieldAddr) string {
	if f := faField(fa); f != nil {
		return f.Name()
	}
	return "?"
}

func (c *Ctx) checkNilArguments(br *BR) {
	n := 0
	for _, f := range c.zygoFuncs() {
		if !br.unprotected(f) {
			continue
		}
		eachInstr(f, func(b *ssa.BasicBlock, i int, in ssa.Instruction) {
			ci, ok := in.(ssa.CallInstruction)
			if !ok {
				return
			}
			if _, isFrame := br.frames[f]; isFrame {
				return
			}
			cc := ci.Common()
			g := cc.StaticCallee()
			if g == nil || fnPkgPath(g) != zygoPath {
				return
			}
			for idx, a := range cc.Args {
				k, isConst := a.(*ssa.Const)
				if !isConst || k.Value != nil {
					continue
				}
				pt, isPtr := k.Type().Underlying().(*types.Pointer)
				if !isPtr {
					continue
				}
				if _, isStruct := pt.Elem().Underlying().(*types.Struct); !isStruct {
					continue
				}
				n++
				u := c.nilParamUse(g, idx, 0, map[[2]interface{}]bool{})
				construct := "nil " + typeShort(k.Type()) + " handed to " + fnName(g)
				if u == nil {
					c.ok("C01-NILARG", fnName(f), construct, in.Pos(), "the callee and the functions it passes the argument on to test it against nil before use, or do not use it")
					continue
				}
				o := c.bad("C01-NILARG", fnName(f), construct, in.Pos(),
					"a nil argument reaches a use that no nil test guards ("+u.what+", by way of "+joinArrow(u.chain)+"), in code reachable outside the recover barrier: a Go panic out of the library")
				if o.Status == StViolation {
					o.Path = br.unprot.pathTo(c, f)
				}
			}
		})
	}
	c.note("nil_pointer_arguments_examined", n)
}

func joinArrow(xs []string) string {
	s := ""
	for i, x := range xs {
		if i > 0 {
			s += " -> "
		}
		s += x
	}
	return s
}

// C01-NILTYPE: a reflect.Type read from a struct field and handed to one of the reflect
// constructors (SliceOf, PtrTo/PointerTo, New, MakeSlice, Zero, MapOf, ...) without a nil test.
// These functions dereference their argument; RegisteredType.TypeCache is set only when the
// type's factory returns a non-nil sample, so for a type without one the field stays nil.
// (def h [(hash a: 1)]) (def h [(hash a: 2)]) asks for the slice type of such an element
// type when the variable is re-bound, outside the recover barrier.
func (c *Ctx) checkNilReflectTypes(br *BR) {
	n := 0
	for _, f := range c.zygoFuncs() {
		if !br.unprotected(f) {
			continue
		}
		eachInstr(f, func(b *ssa.BasicBlock, i int, in ssa.Instruction) {
			call, ok := in.(*ssa.Call)
			if !ok {
				return
			}
			g := call.Call.StaticCallee()
			if g == nil || fnPkgPath(g) != "reflect" || g.Signature.Recv() != nil {
				return
			}
			for ai, a := range call.Call.Args {
				if ai >= g.Signature.Params().Len() {
					break
				}
				if nm, ok := g.Signature.Params().At(ai).Type().(*types.Named); !ok || nm.Obj().Name() != "Type" {
					continue
				}
				ld, ok := a.(*ssa.UnOp)
				if !ok || ld.Op != token.MUL {
					continue
				}
				fa, ok := ld.X.(*ssa.FieldAddr)
				if !ok {
					continue
				}
				n++
				// a test of the same field against nil dominates the call, on the non-nil side
				fld := faField(fa)
				guarded := guardedBy(b, func(cond ssa.Value) (bool, bool) {
					bo, ok := cond.(*ssa.BinOp)
					if !ok || (bo.Op != token.EQL && bo.Op != token.NEQ) || !isNilConst(bo.Y) {
						return false, false
					}
					if _, same := loadOfField(bo.X, fld); !same {
						return false, false
					}
					return true, bo.Op == token.NEQ
				})
				construct := "reflect." + g.Name() + " of field " + fieldName(fa)
				if guarded {
					c.ok("C01-NILTYPE", fnName(f), construct, call.Pos(), "the field is tested against nil before it is handed to reflect")
					continue
				}
				o := c.bad("C01-NILTYPE", fnName(f), construct, call.Pos(),
					"a reflect.Type read from a struct field is handed to reflect."+g.Name()+", which dereferences it, with no nil test, in code reachable outside the recover barrier: for a registered type that has no Go sample value the field is nil and the call is a nil-pointer panic out of the library")
				if o.Status == StViolation {
					o.Path = br.unprot.pathTo(c, f)
				}
			}
		})
	}
	c.note("reflect_type_arguments_examined", n)
}

// C01-NILPATH: a pointer that the code itself tests against nil is dereferenced on a path that
// comes from the nil side of that test (the contradiction rule: the author believed it can be nil).
// TypeCheckField tested obsTyp == nil, returned for the empty array and for nil itself, and fell
// out of the switch for a non-empty array without a type: obsTyp.RegisteredName was then read.
func (c *Ctx) checkNilPaths(br *BR) {
	n := 0
	for _, f := range c.zygoFuncs() {
		if !br.unprotected(f) {
			continue
		}
		eachInstr(f, func(b *ssa.BasicBlock, i int, in ssa.Instruction) {
			bo, ok := in.(*ssa.BinOp)
			if !ok || (bo.Op != token.EQL && bo.Op != token.NEQ) || !isNilConst(bo.Y) || bo.Referrers() == nil {
				return
			}
			v := bo.X
			if _, isPtr := v.Type().Underlying().(*types.Pointer); !isPtr {
				return
			}
			for _, r := range *bo.Referrers() {
				iff, ok := r.(*ssa.If)
				if !ok {
					continue
				}
				nilSide, okSide := iff.Block().Succs[0], iff.Block().Succs[1]
				if bo.Op == token.NEQ {
					nilSide, okSide = okSide, nilSide
				}
				if len(nilSide.Preds) != 1 {
					continue // the nil side is shared with other edges: not decidable here
				}
				n++
				// dereferences of v reachable from the nil side, not passing the test again
				reach := reachableAvoiding(nilSide, func(x *ssa.BasicBlock) bool { return x == iff.Block() })
				var hit ssa.Instruction
				if v.Referrers() != nil {
					for _, u := range *v.Referrers() {
						ui, ok := u.(ssa.Instruction)
						if !ok || !reach[ui.Block()] || okSide.Dominates(ui.Block()) && len(okSide.Preds) == 1 {
							continue
						}
						switch x := u.(type) {
						case *ssa.FieldAddr:
							if x.X == v {
								hit = ui
							}
						case *ssa.UnOp:
							if x.Op == token.MUL && x.X == v {
								hit = ui
							}
						}
					}
				}
				if hit == nil {
					continue
				}
				// v may be re-assigned on the nil side (a phi merges the new value): then the use is of the phi, not of v
				o := c.bad("C01-NILPATH", fnName(f), "dereference of "+valueOrigin(v, 0)+" on a path from its nil test", hit.Pos(),
					"the pointer is tested against nil and then dereferenced on a path that comes from the nil side of the test, in code reachable outside the recover barrier: for the input that makes it nil this is a nil-pointer panic out of the library")
				if o.Status == StViolation {
					o.Path = br.unprot.pathTo(c, f)
				}
			}
		})
	}
	c.note("nil_tests_examined", n)
}

// C01-REFLECT: reflect.Value operations that panic for inputs a script controls, outside the barrier.
//
//	(a) Interface() on a Value obtained by a field access (Field, FieldByName, ...): it panics for an
//	    unexported field unless CanInterface() was asked first ((var p (* int64)) (def z p.flag));
//	(b) a reflected wrapper value (SexpReflect) is built from reflect.ValueOf(x) where x is what a type's
//	    factory returned: a factory may return nil (a slice type whose element type has no Go sample),
//	    and the wrapper then holds the zero Value, on which Type() panics wherever the value is printed,
//	    re-bound or called. The nil case has to be refused where the wrapper is made.
func (c *Ctx) checkReflectUse(br *BR) {
	reflVal := func(g *ssa.Function, name string) bool {
		if g == nil || fnPkgPath(g) != "reflect" || g.Name() != name || g.Signature.Recv() == nil {
			return false
		}
		nm, ok := g.Signature.Recv().Type().(*types.Named)
		return ok && nm.Obj().Name() == "Value"
	}
	nA := 0
	for _, f := range c.zygoFuncs() {
		if !br.unprotected(f) {
			continue
		}
		eachInstr(f, func(b *ssa.BasicBlock, i int, in ssa.Instruction) {
			call, ok := in.(*ssa.Call)
			if !ok || !reflVal(call.Call.StaticCallee(), "Interface") || len(call.Call.Args) == 0 {
				return
			}
			src, ok := call.Call.Args[0].(*ssa.Call)
			if !ok {
				return
			}
			g := src.Call.StaticCallee()
			if g == nil || !(reflVal(g, "FieldByName") || reflVal(g, "Field") || reflVal(g, "FieldByIndex")) {
				return
			}
			nA++
			asked := false
			eachInstr(f, func(b2 *ssa.BasicBlock, j int, x ssa.Instruction) {
				c2, ok := x.(*ssa.Call)
				if ok && reflVal(c2.Call.StaticCallee(), "CanInterface") && len(c2.Call.Args) > 0 && c2.Call.Args[0] == ssa.Value(src) && dominatesInstr(c2, call) {
					asked = true
				}
			})
			o := c.check(asked, "C01-REFLECT", fnName(f), "Interface() of a struct field after CanInterface()", call.Pos(),
				"CanInterface is asked of the field value before Interface is called",
				"Interface() is called on a reflect.Value obtained by a field access without asking CanInterface(): for an unexported field (p.flag on a value that wraps a reflect.Value) it panics, in code reachable outside the recover barrier")
			if o.Status == StViolation {
				o.Path = br.unprot.pathTo(c, f)
			}
		})
	}
	// (b) anywhere in the package: the wrapper is made behind the barrier, the panic happens outside it
	valF := c.field("SexpReflect", "Val")
	nB := 0
	if valF != nil {
		for _, f := range c.zygoFuncs() {
			eachInstr(f, func(b *ssa.BasicBlock, i int, in ssa.Instruction) {
				st, ok := in.(*ssa.Store)
				if !ok {
					return
				}
				fa, ok := st.Addr.(*ssa.FieldAddr)
				if !ok || faField(fa) != valF {
					return
				}
				vo, ok := st.Val.(*ssa.Call)
				if !ok {
					return
				}
				g := vo.Call.StaticCallee()
				if g == nil || fnPkgPath(g) != "reflect" || g.Name() != "ValueOf" || len(vo.Call.Args) == 0 {
					return
				}
				// the wrapped value: does it come from a dynamic factory call?
				fromFactory := false
				var fv ssa.Value
				for _, leaf := range phiLeaves(vo.Call.Args[0]) {
					v := leaf
					for d := 0; d < 4; d++ {
						switch x := v.(type) {
						case *ssa.MakeInterface:
							v = x.X
							continue
						case *ssa.TypeAssert:
							v = x.X
							continue
						case *ssa.Extract:
							if ta, ok := x.Tuple.(*ssa.TypeAssert); ok {
								v = ta.X
								continue
							}
							if dc, ok := x.Tuple.(*ssa.Call); ok && dc.Call.StaticCallee() == nil && !dc.Call.IsInvoke() {
								fromFactory, fv = true, x
							}
						}
						break
					}
				}
				if !fromFactory {
					return
				}
				nB++
				guarded := guardedBy(b, func(cond ssa.Value) (bool, bool) {
					bo, ok := cond.(*ssa.BinOp)
					if !ok || (bo.Op != token.EQL && bo.Op != token.NEQ) || !isNilConst(bo.Y) || bo.X != fv {
						return false, false
					}
					return true, bo.Op == token.NEQ
				})
				c.check(guarded, "C01-REFLECT", fnName(f), "reflected wrapper made from a factory result tested for nil", vo.Pos(),
					"the factory's result is tested against nil before it is wrapped",
					"a reflected wrapper value is built with reflect.ValueOf from what a type's factory returned, without a nil test: a factory may return nil (a slice type whose element type has no Go sample value), the wrapper then holds the zero reflect.Value and Type() panics wherever the variable is printed, re-bound, called or captured, outside the recover barrier")
			})
		}
	}
	c.note("reflect_uses_examined", nA+nB)
}

// C01-PROTO: the type registry holds, for the interpreter's internal value types, a factory that
// returns an empty prototype (&T{}); every registered name is bound as a global, so a script can
// write (var q hashSelector) and own such a prototype. Its pointer fields are nil. A method of T
// that reads a pointer or interface field of its receiver and dereferences it without a nil test
// panics on the prototype, and the methods of value types (printing, RHS, Type) run outside the
// builtin barrier. The rule derives the prototype types from the factories and examines the
// methods of each that are reachable outside the barrier.
func (c *Ctx) checkPrototypes(br *BR) {
	factoryF := c.field("RegisteredType", "Factory")
	if factoryF == nil {
		c.undecided("C01-PROTO", "RegisteredType", "Factory", token.NoPos, "field not found")
		return
	}
	protos := map[*types.Named]token.Pos{}
	for _, f := range c.zygoFuncs() {
		if f.Parent() == nil {
			continue
		}
		// a function literal with the factory signature that returns a fresh, untouched struct
		sig := f.Signature
		if sig.Params().Len() != 2 || sig.Results().Len() != 2 {
			continue
		}
		for _, r := range returnsOf(f) {
			mi, ok := r.Results[0].(*ssa.MakeInterface)
			if !ok {
				continue
			}
			al, ok := mi.X.(*ssa.Alloc)
			if !ok || !al.Heap {
				continue
			}
			nm, ok := derefNamed(al.Type())
			if !ok {
				continue
			}
			st, isStruct := nm.Underlying().(*types.Struct)
			if !isStruct {
				continue
			}
			touched := false
			for _, ref := range *al.Referrers() {
				if _, isFA := ref.(*ssa.FieldAddr); isFA {
					touched = true
				}
			}
			hasPtr := false
			for i := 0; i < st.NumFields(); i++ {
				switch st.Field(i).Type().Underlying().(type) {
				case *types.Pointer, *types.Interface:
					hasPtr = true
				}
			}
			if !touched && hasPtr {
				protos[nm] = al.Pos()
			}
		}
	}
	n := 0
	for nm := range protos {
		for _, f := range c.zygoFuncs() {
			if f.Parent() != nil || !isMethodOf(f, nm) || len(f.Params) == 0 || !br.unprotected(f) {
				continue
			}
			recv := f.Params[0]
			eachInstr(f, func(b *ssa.BasicBlock, i int, in ssa.Instruction) {
				ld, ok := in.(*ssa.UnOp)
				if !ok || ld.Op != token.MUL {
					return
				}
				fa, ok := ld.X.(*ssa.FieldAddr)
				if !ok || fa.X != ssa.Value(recv) {
					return
				}
				switch ld.Type().Underlying().(type) {
				case *types.Pointer, *types.Interface:
				default:
					return
				}
				if ld.Referrers() == nil {
					return
				}
				for _, u := range *ld.Referrers() {
					deref := false
					switch x := u.(type) {
					case *ssa.FieldAddr:
						deref = x.X == ssa.Value(ld)
					case *ssa.UnOp:
						deref = x.Op == token.MUL && x.X == ssa.Value(ld)
					case *ssa.Call:
						if x.Call.IsInvoke() && x.Call.Value == ssa.Value(ld) {
							deref = true
						}
					case *ssa.TypeAssert:
						deref = !x.CommaOk && x.X == ssa.Value(ld)
					}
					if !deref {
						continue
					}
					ui := u.(ssa.Instruction)
					n++
					fld := faField(fa)
					guarded := guardedBy(ui.Block(), func(cond ssa.Value) (bool, bool) {
						bo, ok := cond.(*ssa.BinOp)
						if !ok || (bo.Op != token.EQL && bo.Op != token.NEQ) || !isNilConst(bo.Y) {
							return false, false
						}
						if _, same := loadOfField(bo.X, fld); !same {
							return false, false
						}
						return true, bo.Op == token.NEQ
					})
					// a nil test whose nil side panics is no guard (C01-PAN reports the panic itself)
					o := c.check(guarded, "C01-PROTO", fnName(f), "field "+fieldName(fa)+" of a registered prototype used after a nil test", ui.Pos(),
						"the field is tested against nil before it is dereferenced",
						"the method dereferences the receiver's field "+fieldName(fa)+" without a nil test; the type registry hands out an empty prototype of "+nm.Obj().Name()+" (every registered name is a global, so (var q "+strings.ToLower(nm.Obj().Name()[4:5])+nm.Obj().Name()[5:]+") binds one), and the method runs outside the recover barrier: a nil-pointer panic out of the library")
					if o.Status == StViolation {
						o.Path = br.unprot.pathTo(c, f)
					}
				}
			})
		}
	}
	c.note("prototype_types", len(protos))
	if len(protos) == 0 {
		c.undecided("C01-PROTO", "GoStructRegistry", "prototypes", token.NoPos, "no factory returning an empty prototype found (the selector types confirmed by reading)")
	}
}

// C01-NILFIELD: a field that the type's own code believes can be nil.
//
// When some routine tests a pointer field of a struct against nil, its author
// believed the field can be nil for values of that type that are in
// circulation (a Prompter made without a terminal has no line editor). A
// method of the same type that hands the field to a method call as the
// receiver, or reads through it, with no such test of its own contradicts that
// belief: one of the two is wrong (Engler et al.: a checked and an unchecked
// use of the same thing). Outside the recover barrier the unchecked use is a
// nil-pointer panic out of the library, for the values the test exists for.
//
// Sites: in functions reachable outside the barrier, a load of field F of T
// (F of pointer type, nil-tested somewhere in the package) used as the
// receiver of a call into another package, or as the base of a field access,
// where no comparison of a load of the same field with nil guards the use in
// that function. Constructors that set the field from a fresh non-nil value
// before using it are not sites (the use is of the fresh value, not of a load).
func (c *Ctx) checkNilFields(br *BR) {
	type fkey struct {
		fld *types.Var
	}
	tested := map[*types.Var][]token.Pos{}
	isFieldLoad := func(v ssa.Value) *types.Var {
		u, ok := v.(*ssa.UnOp)
		if !ok || u.Op != token.MUL {
			return nil
		}
		fa, ok := u.X.(*ssa.FieldAddr)
		if !ok {
			return nil
		}
		fld := faField(fa)
		if fld == nil {
			return nil
		}
		if _, isPtr := fld.Type().Underlying().(*types.Pointer); !isPtr {
			return nil
		}
		return fld
	}
	for _, f := range c.zygoFuncs() {
		eachInstr(f, func(b *ssa.BasicBlock, i int, in ssa.Instruction) {
			bo, ok := in.(*ssa.BinOp)
			if !ok || (bo.Op != token.EQL && bo.Op != token.NEQ) || !isNilConst(bo.Y) {
				return
			}
			if fld := isFieldLoad(bo.X); fld != nil && fld.Pkg() != nil && fld.Pkg().Path() == zygoPath {
				tested[fld] = append(tested[fld], bo.Pos())
			}
		})
	}
	// nilTest: cond says whether field fld is nil: a comparison of a load of the field with nil, or a call
	// of a predicate of the package whose result is such a comparison (p.HasEditor()). eqNil: cond is true
	// when the field IS nil.
	nilTest := func(cond ssa.Value) (fld *types.Var, eqNil bool, ok bool) {
		core, neg := stripNot(cond)
		if bo, isBo := core.(*ssa.BinOp); isBo && (bo.Op == token.EQL || bo.Op == token.NEQ) && isNilConst(bo.Y) {
			if f := isFieldLoad(bo.X); f != nil {
				return f, (bo.Op == token.EQL) != neg, true
			}
			return nil, false, false
		}
		if call, isCall := core.(*ssa.Call); isCall {
			g := call.Call.StaticCallee()
			if g == nil || fnPkgPath(g) != zygoPath || len(g.Blocks) != 1 {
				return nil, false, false
			}
			for _, r := range returnsOf(g) {
				if len(r.Results) != 1 {
					return nil, false, false
				}
				if bo, isBo := r.Results[0].(*ssa.BinOp); isBo && (bo.Op == token.EQL || bo.Op == token.NEQ) && isNilConst(bo.Y) {
					if f := isFieldLoad(bo.X); f != nil {
						return f, (bo.Op == token.EQL) != neg, true
					}
				}
			}
		}
		return nil, false, false
	}
	n := 0
	for _, f := range c.zygoFuncs() {
		if !br.unprotected(f) {
			continue
		}
		eachInstr(f, func(b *ssa.BasicBlock, i int, in ssa.Instruction) {
			call, ok := in.(ssa.CallInstruction)
			if !ok || call.Common().IsInvoke() {
				return
			}
			g := call.Common().StaticCallee()
			if g == nil || g.Signature.Recv() == nil || len(call.Common().Args) == 0 {
				return
			}
			// a method of another package called on the field: it cannot be expected to accept a nil receiver
			if fnPkgPath(g) == zygoPath {
				return
			}
			fld := isFieldLoad(call.Common().Args[0])
			if fld == nil || len(tested[fld]) == 0 {
				return
			}
			// a struct built in this very function, its field set from a fresh value: not a value "in circulation"
			if u, ok := call.Common().Args[0].(*ssa.UnOp); ok {
				if fa, ok := u.X.(*ssa.FieldAddr); ok {
					if _, local := fa.X.(*ssa.Alloc); local {
						return
					}
				}
			}
			n++
			guarded := false
			// the use is on the not-nil side of a test, or the function leaves early when the field is nil
			{
				for _, blk := range f.Blocks {
					cond, t, e := condBranch(blk)
					if cond == nil {
						continue
					}
					tf, eqNil, isTest := nilTest(cond)
					if !isTest || tf != fld {
						continue
					}
					nilSide, okSide := t, e
					if !eqNil {
						nilSide, okSide = e, t
					}
					if okSide.Dominates(b) && len(okSide.Preds) == 1 {
						guarded = true
					}
					if blk.Dominates(b) && !blockReaches(nilSide, b) && nilSide != b {
						guarded = true
					}
				}
			}
			o := c.check(guarded, "C01-NILFIELD", fnName(f), "call of "+shortStr(calleeName(call.Common()), 40)+" on the field "+fld.Name(), in.Pos(),
				"the field is compared with nil before it is used as a receiver",
				"the field "+fld.Name()+" is tested against nil elsewhere in the package ("+c.pos(tested[fld][0])+"), so values with a nil "+fld.Name()+" are in circulation, and here it is handed to a method of another package as the receiver with no test: a nil-pointer panic out of the library, outside the recover barrier")
			if o.Status == StViolation {
				o.Path = br.unprot.pathTo(c, f)
			}
		})
	}
	c.note("C01-NILFIELD sites", n)
}
