package main

import (
	"fmt"
	"go/token"
	"go/types"
	"os"

	"golang.org/x/tools/go/ssa"
)

// C01-REC: recursion whose depth is the nesting depth of script data.
//
// Arrays and hashes are mutable containers of Sexp values: (aset a 0 a) or
// (hset h k: h) makes one contain itself with three evaluation steps. A Go
// function that walks the elements of such a container and hands each
// element to a call chain that comes back to the same function recurses as
// deep as the data is nested; on a cyclic value that is until the Go stack
// limit, a fatal error no recover() catches. Such a walker needs a cycle
// guard: a set of containers already being visited, consulted and extended
// before the element calls.
//
// The rule derives the walkers from the program: (1) the element values of
// SexpArray.Val, SexpHash.Map and SexpHash.KeyOrder-driven look-ups inside a
// function; (2) the calls that receive such an element (as receiver or
// argument), resolved through the RTA graph, followed through parameters for
// a bounded number of hops; (3) a hop that reaches the walker itself closes
// the recursion.

type recKind int

const (
	kElem  recKind = iota // a script value that may be a container
	kSlice                // the storage of a container: slice, map, bucket, bucket entry
)

type tnode struct {
	g    *ssa.Function
	p    int
	kind recKind
	desc bool // at least one container level below the start
}

type tcall struct {
	call ssa.CallInstruction
	to   tnode
	fld  string // the container field the value was read from in this function, if it was
}

type tsummary struct {
	calls       []tcall
	returnsDesc bool // a descended element is returned
	readsStore  bool // a container field of the parameter itself (not descended) is read
	field       string
}

type recHit struct {
	f     *ssa.Function
	p     int
	site  ssa.CallInstruction // the call in f that starts the chain
	field string
	chain []string
}

type recAnalysis struct {
	c     *Ctx
	r     *RTA
	flds  map[*types.Var]string
	memo  map[tnode]*tsummary
	depth int
}

func (c *Ctx) containerElemFields() map[*types.Var]string {
	out := map[*types.Var]string{}
	for _, tf := range [][2]string{{"SexpArray", "Val"}, {"SexpHash", "Map"}} {
		if v := c.field(tf[0], tf[1]); v != nil {
			out[v] = tf[0] + "." + tf[1]
		}
	}
	return out
}

func (c *Ctx) calleesAt(r *RTA, f *ssa.Function, call ssa.CallInstruction) []*ssa.Function {
	if g := call.Common().StaticCallee(); g != nil {
		return []*ssa.Function{g}
	}
	var out []*ssa.Function
	seen := map[*ssa.Function]bool{}
	for _, e := range r.edges[f] {
		if e.pos == call.Pos() && (e.kind == "invoke" || e.kind == "dynamic") && !seen[e.callee] {
			seen[e.callee] = true
			out = append(out, e.callee)
		}
	}
	return out
}

func isIfaceType(t types.Type) bool {
	_, ok := t.Underlying().(*types.Interface)
	return ok
}

// summary: what happens in g to the value of its parameter p.
func (ra *recAnalysis) summary(n tnode) *tsummary {
	if s, ok := ra.memo[n]; ok {
		return s
	}
	s := &tsummary{}
	ra.memo[n] = s // recursion: an empty summary while it is being computed
	g := n.g
	if fnPkgPath(g) != zygoPath || n.p >= len(g.Params) || len(g.Blocks) == 0 {
		return s
	}
	type st struct {
		v    ssa.Value
		kind recKind
		desc bool
		fld  string
	}
	seen := map[st]bool{}
	var work []st
	curFld := ""
	push := func(v ssa.Value, k recKind, d bool) {
		x := st{v, k, d, curFld}
		if !seen[x] {
			seen[x] = true
			work = append(work, x)
		}
	}
	// an element read out of storage: an interface value is a script value, anything else is more storage
	pushLoaded := func(v ssa.Value, d bool) {
		if isIfaceType(v.Type()) {
			push(v, kElem, true)
		} else {
			push(v, kSlice, d)
		}
	}
	push(g.Params[n.p], n.kind, n.desc)
	for len(work) > 0 {
		x := work[0]
		work = work[1:]
		curFld = x.fld
		refs := x.v.Referrers()
		if refs == nil {
			continue
		}
		for _, r := range *refs {
			switch u := r.(type) {
			case *ssa.TypeAssert:
				push(u, x.kind, x.desc)
			case *ssa.Extract:
				if _, ok := u.Tuple.(*ssa.TypeAssert); ok && u.Index == 0 {
					push(u, x.kind, x.desc)
				}
				if _, ok := u.Tuple.(*ssa.Next); ok && u.Index == 2 && x.kind == kSlice {
					pushLoaded(u, x.desc)
				}
			case *ssa.ChangeInterface:
				push(u, x.kind, x.desc)
			case *ssa.MakeInterface:
				push(u, x.kind, x.desc)
			case *ssa.ChangeType:
				push(u, x.kind, x.desc)
			case *ssa.Phi:
				push(u, x.kind, x.desc)
			case *ssa.Slice:
				if x.kind == kSlice {
					push(u, kSlice, x.desc)
				}
			case *ssa.FieldAddr:
				if u.X != x.v {
					break
				}
				fld := faField(u)
				if x.kind == kElem {
					if nm, ok := ra.flds[fld]; ok {
						if !x.desc {
							s.readsStore, s.field = true, nm
						}
						curFld = nm
						for _, r2 := range *u.Referrers() {
							if ld, ok := r2.(*ssa.UnOp); ok && ld.Op == token.MUL {
								push(ld, kSlice, x.desc)
							}
						}
						curFld = x.fld
					}
				} else {
					// a field of a bucket entry
					for _, r2 := range *u.Referrers() {
						if ld, ok := r2.(*ssa.UnOp); ok && ld.Op == token.MUL {
							pushLoaded(ld, x.desc)
						}
					}
				}
			case *ssa.IndexAddr:
				if u.X == x.v && x.kind == kSlice {
					for _, r2 := range *u.Referrers() {
						if ld, ok := r2.(*ssa.UnOp); ok && ld.Op == token.MUL {
							pushLoaded(ld, x.desc)
						}
					}
				}
			case *ssa.Index:
				if u.X == x.v && x.kind == kSlice {
					pushLoaded(u, x.desc)
				}
			case *ssa.Lookup:
				if u.X == x.v && x.kind == kSlice {
					if u.CommaOk {
						for _, r2 := range *u.Referrers() {
							if ex, ok := r2.(*ssa.Extract); ok && ex.Index == 0 {
								pushLoaded(ex, x.desc)
							}
						}
					} else {
						pushLoaded(u, x.desc)
					}
				}
			case *ssa.Range:
				if x.kind == kSlice {
					for _, r2 := range *u.Referrers() {
						if nx, ok := r2.(*ssa.Next); ok {
							push(nx, kSlice, x.desc)
						}
					}
				}
			case *ssa.UnOp:
				if u.Op == token.MUL && x.kind == kSlice {
					push(u, kSlice, x.desc)
				}
			case *ssa.Store:
				// a parameter or local spilled to a cell (captured by a closure, address taken): its loads
				if al, ok := u.Addr.(*ssa.Alloc); ok && u.Val == x.v {
					for _, r2 := range *al.Referrers() {
						if ld, ok := r2.(*ssa.UnOp); ok && ld.Op == token.MUL {
							push(ld, x.kind, x.desc)
						}
					}
				}
			case *ssa.Return:
				if x.kind == kElem && x.desc {
					s.returnsDesc = true
				}
			case ssa.CallInstruction:
				cc := u.Common()
				var idx []int
				if cc.IsInvoke() {
					if cc.Value == x.v {
						idx = append(idx, 0)
					}
					for i, a := range cc.Args {
						if a == x.v {
							idx = append(idx, i+1)
						}
					}
				} else {
					for i, a := range cc.Args {
						if a == x.v {
							idx = append(idx, i)
						}
					}
				}
				if len(idx) == 0 {
					break
				}
				if ra.c.isUserFunCall(u) {
					break // calling a script-supplied function is evaluation, not a walk over data
				}
				for _, g2 := range ra.c.calleesAt(ra.r, g, u) {
					if fnPkgPath(g2) != zygoPath {
						continue
					}
					for _, i := range idx {
						to := tnode{g2, i, x.kind, x.desc}
						s.calls = append(s.calls, tcall{u, to, x.fld})
						// the result of a callee that hands an element of its argument back
						if val, ok := u.(ssa.Value); ok {
							if ra.summary(to).returnsDesc {
								if isIfaceType(val.Type()) {
									push(val, kElem, true)
								} else if _, isTuple := val.Type().(*types.Tuple); isTuple {
									for _, r2 := range *val.Referrers() {
										if ex, ok := r2.(*ssa.Extract); ok && isIfaceType(ex.Type()) && !isErrorType(ex.Type()) {
											push(ex, kElem, true)
										}
									}
								}
							}
						}
					}
				}
			}
		}
	}
	return s
}

func (c *Ctx) dataRecursions(r *RTA) []recHit {
	ra := &recAnalysis{c: c, r: r, flds: c.containerElemFields(), memo: map[tnode]*tsummary{}}
	var hits []recHit
	for _, f := range r.order {
		if fnPkgPath(f) != zygoPath || f.Synthetic != "" || len(f.Blocks) == 0 {
			continue
		}
		for p := range f.Params {
			start := tnode{f, p, kElem, false}
			goal := tnode{f, p, kElem, true}
			doneSite := map[ssa.CallInstruction]bool{}
			// the descent happens in f: a call in f receives something one level below f's own argument
			for _, tc0 := range ra.summary(start).calls {
				if !(tc0.to.desc || tc0.to.kind == kSlice) || doneSite[tc0.call] {
					continue
				}
				type qn struct {
					n     tnode
					chain []string
				}
				visited := map[tnode]bool{tc0.to: true}
				work := []qn{{tc0.to, []string{fnName(tc0.to.g)}}}
				var chain []string
				if tc0.to == goal {
					chain = work[0].chain
				}
				for len(work) > 0 && chain == nil {
					cur := work[0]
					work = work[1:]
					if len(cur.chain) > 6 {
						continue
					}
					for _, tc := range ra.summary(cur.n).calls {
						ch := append(append([]string{}, cur.chain...), fnName(tc.to.g))
						if tc.to == goal {
							chain = ch
							break
						}
						if !visited[tc.to] {
							visited[tc.to] = true
							work = append(work, qn{tc.to, ch})
						}
					}
				}
				if chain != nil {
					doneSite[tc0.call] = true
					fld := tc0.fld
					if fld == "" {
						fld = "a container (read by a callee)"
					}
					hits = append(hits, recHit{f, p, tc0.call, fld, chain})
				}
			}
		}
	}
	return hits
}

// cycleGuarded: the function consults a set of visited containers before the
// call and enters the container it is about to walk: a call of a method
// named GetSeen/SetSeen on the print state, or a look-up and an update of a
// map keyed by the container (the receiver or a parameter), both dominating the call.
func (c *Ctx) cycleGuarded(f *ssa.Function, site ssa.CallInstruction) (bool, string) {
	getSeen := c.fn("PrintState.GetSeen")
	setSeen := c.fn("PrintState.SetSeen")
	look, enter := false, false
	eachInstr(f, func(b *ssa.BasicBlock, i int, in ssa.Instruction) {
		if !dominatesInstr(in, site) {
			return
		}
		switch x := in.(type) {
		case ssa.CallInstruction:
			g := x.Common().StaticCallee()
			if g != nil && g == getSeen {
				look = true
			}
			if g != nil && g == setSeen {
				enter = true
			}
		case *ssa.Lookup:
			if _, ok := x.X.Type().Underlying().(*types.Map); ok && isParamView(f, x.Index) {
				look = true
			}
		case *ssa.MapUpdate:
			if isParamView(f, x.Key) {
				enter = true
			}
		}
	})
	switch {
	case look && enter:
		return true, "a set of visited containers is consulted and extended before the element calls"
	case look:
		return false, "the set of visited containers is consulted but the container is not entered before its elements are walked"
	}
	return false, "no set of visited containers is consulted"
}

func isParamView(f *ssa.Function, v ssa.Value) bool {
	for d := 0; d < 4; d++ {
		switch x := v.(type) {
		case *ssa.Parameter:
			return true
		case *ssa.MakeInterface:
			v = x.X
		case *ssa.ChangeInterface:
			v = x.X
		case *ssa.ChangeType:
			v = x.X
		case *ssa.TypeAssert:
			v = x.X
		default:
			return false
		}
	}
	return false
}

func (c *Ctx) checkDataRecursion(br *BR) {
	hits := c.dataRecursions(br.full)
	for _, h := range hits {
		construct := "recursion on the elements of " + h.field + " through " + calleeName(h.site.Common())
		ok, why := c.cycleGuarded(h.f, h.site)
		if !ok && consumesArgument(h.f, h.site) {
			ok, why = true, "the call passes a strictly shorter tail of one of this function's slice arguments: the depth is bounded by that argument's length"
		}
		via := fmt.Sprintf("%v", h.chain)
		if os.Getenv("ZY_REC_PROBE") != "" {
			fmt.Fprintf(os.Stderr, "REC %v %s p=%d %s via %s: %s\n", ok, fnName(h.f), h.p, h.field, via, why)
		}
		if ok {
			c.ok("C01-REC", fnName(h.f), construct, h.site.Pos(), "elements are handed to "+via+", which comes back here; "+why)
		} else {
			c.bad("C01-REC", fnName(h.f), construct, h.site.Pos(), "each element is handed to "+via+", which comes back to this function: the recursion is as deep as the data is nested, and "+why+". A container that contains itself ((aset a 0 a), (hset h k: h)) recurses until the Go stack limit, a fatal error that no recover() catches")
		}
	}
	c.note("C01-REC walkers", len(hits))
}

// consumesArgument: a direct self-call that passes params[i][k:] (k >= 1) for
// some slice parameter: each level consumes one element of that argument.
func consumesArgument(f *ssa.Function, site ssa.CallInstruction) bool {
	if site.Common().StaticCallee() != f {
		return false
	}
	for i, a := range site.Common().Args {
		sl, ok := a.(*ssa.Slice)
		if !ok || i >= len(f.Params) || sl.X != ssa.Value(f.Params[i]) || sl.Low == nil {
			continue
		}
		if k, ok := constIntOf(sl.Low); ok && k >= 1 {
			return true
		}
	}
	return false
}
