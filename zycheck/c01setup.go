package main

import (
	"fmt"
	"go/token"
	"go/types"
	"sort"
	"strings"

	"golang.org/x/tools/go/ssa"
)

// C01-SETUP: what a script writes is not what the set-up of the next
// interpreter reads.
//
// NewZlisp / StandardSetup compile a constant prelude and panic when that
// fails (panicOn(err)); the table exempts those panics because the text is
// constant. The exemption is only right when the set-up reads nothing that a
// script can have written: the package has process-level state (the type
// registry), and a script of one interpreter that stores a name there which
// the set-up of the next interpreter binds as a global makes the constant
// prelude fail -- (struct range []) or the JSON {"Atype":"range"} in one
// interpreter, and StandardSetup panics in every later one.
//
// The rule is a separation of writers and readers of process-level state:
//
//   - state: a package-level variable of the package, or a field of a struct
//     type of which the package has a package-level variable (the variable is
//     the struct, not a pointer to one of many);
//   - script-side functions: reachable, in the resolved call graph, from the
//     entry points that take script text (EvalString, Run, Apply, ... and, through
//     them, every builtin);
//   - set-up functions: reachable from NewZlisp / NewZlispSandbox /
//     StandardSetup / ImportDemoData without passing through a script entry
//     point, and not script-side themselves (a helper that both sides share
//     is not counted as a reader: its reads serve the writer too);
//   - a violation is a piece of state that a script-side function writes
//     (store, map update, delete) and a set-up function reads.
//
// It does not decide what the script-side readers do with shared state (that
// a fresh interpreter behaves like any other is C20's subject), and it does
// not follow state handed around through pointers stored elsewhere.

type stateSite struct {
	f   *ssa.Function
	pos token.Pos
}

func (c *Ctx) stateKey(addr ssa.Value, holders map[*types.Named]bool) string {
	switch a := addr.(type) {
	case *ssa.Global:
		if a.Pkg != nil && a.Pkg.Pkg.Path() == zygoPath {
			return "var " + a.Name()
		}
	case *ssa.FieldAddr:
		pt, ok := a.X.Type().Underlying().(*types.Pointer)
		if !ok {
			return ""
		}
		nm, ok := pt.Elem().(*types.Named)
		if !ok || !holders[nm] {
			return ""
		}
		st, ok := nm.Underlying().(*types.Struct)
		if !ok || a.Field >= st.NumFields() {
			return ""
		}
		return nm.Obj().Name() + "." + st.Field(a.Field).Name()
	}
	return ""
}

func (c *Ctx) checkSetupState() {
	// struct types of which the package holds a package-level variable
	holders := map[*types.Named]bool{}
	for _, m := range c.SZygo.Members {
		g, ok := m.(*ssa.Global)
		if !ok {
			continue
		}
		// a variable that IS the struct: its fields are process-level state. (A variable
		// that points to one names an instance among many; fields are not followed there.)
		t := g.Type().(*types.Pointer).Elem()
		if nm, ok := t.(*types.Named); ok {
			if _, isStruct := nm.Underlying().(*types.Struct); isStruct && nm.Obj().Pkg() != nil && nm.Obj().Pkg().Path() == zygoPath {
				holders[nm] = true
			}
		}
	}
	entry := map[*ssa.Function]bool{}
	for _, n := range scriptEntry {
		if f := c.fn(n); f != nil {
			entry[f] = true
		}
	}
	setupRoots := []string{"NewZlisp", "NewZlispSandbox", "NewZlispWithFuncs", "Zlisp.StandardSetup", "Zlisp.ImportDemoData"}
	// the whole program the interpreter can run
	all := newRTA(c.Prog, nil, nil)
	for _, n := range setupRoots {
		all.addRoot(c.fn(n))
	}
	for f := range entry {
		all.addRoot(f)
	}
	all.run()
	// script side: from the script entry points along the resolved edges
	scriptVia := map[*ssa.Function]*ssa.Function{}
	script := map[*ssa.Function]bool{}
	var work []*ssa.Function
	for f := range entry {
		script[f] = true
		work = append(work, f)
	}
	for len(work) > 0 {
		f := work[len(work)-1]
		work = work[:len(work)-1]
		for _, e := range all.edges[f] {
			if !script[e.callee] {
				script[e.callee] = true
				scriptVia[e.callee] = f
				work = append(work, e.callee)
			}
		}
	}
	// set-up side: from the constructors, not through a script entry point
	setup := map[*ssa.Function]bool{}
	for _, n := range setupRoots {
		if f := c.fn(n); f != nil && !setup[f] {
			setup[f] = true
			work = append(work, f)
		}
	}
	for len(work) > 0 {
		f := work[len(work)-1]
		work = work[:len(work)-1]
		for _, e := range all.edges[f] {
			if !setup[e.callee] && !entry[e.callee] {
				setup[e.callee] = true
				work = append(work, e.callee)
			}
		}
	}
	writes := map[string][]stateSite{}
	reads := map[string][]stateSite{}
	nScript, nSetup := 0, 0
	for _, f := range c.zygoFuncs() {
		isScript, isSetup := script[f], setup[f] && !script[f]
		if isScript {
			nScript++
		}
		if isSetup {
			nSetup++
		}
		if !isScript && !isSetup {
			continue
		}
		loadKey := func(v ssa.Value) string {
			if u, ok := v.(*ssa.UnOp); ok && u.Op == token.MUL {
				return c.stateKey(u.X, holders)
			}
			return ""
		}
		eachInstr(f, func(b *ssa.BasicBlock, i int, in ssa.Instruction) {
			if isScript {
				k := ""
				switch x := in.(type) {
				case *ssa.Store:
					k = c.stateKey(x.Addr, holders)
					if k == "" {
						// an element of an array or slice held in the state
						if ia, ok := x.Addr.(*ssa.IndexAddr); ok {
							k = loadKey(ia.X)
						}
					}
				case *ssa.MapUpdate:
					k = loadKey(x.Map)
				case *ssa.Call:
					if bi, ok := x.Call.Value.(*ssa.Builtin); ok && bi.Name() == "delete" && len(x.Call.Args) > 0 {
						k = loadKey(x.Call.Args[0])
					}
				}
				if k != "" {
					writes[k] = append(writes[k], stateSite{f, in.Pos()})
				}
			}
			if isSetup {
				if u, ok := in.(*ssa.UnOp); ok && u.Op == token.MUL {
					if k := c.stateKey(u.X, holders); k != "" {
						reads[k] = append(reads[k], stateSite{f, u.Pos()})
					}
				}
			}
		})
	}
	var keys []string
	for k := range writes {
		keys = append(keys, k)
	}
	sort.Strings(keys)
	shared := 0
	for _, k := range keys {
		rs := reads[k]
		if len(rs) == 0 {
			continue
		}
		shared++
		readers := map[string]bool{}
		for _, r := range rs {
			readers[fnName(r.f)] = true
		}
		var rn []string
		for n := range readers {
			rn = append(rn, n)
		}
		sort.Strings(rn)
		why := "process-level state " + k + " is written by a function that scripts reach, and read by the set-up of an interpreter (" + strings.Join(rn, ", ") + "): what a script of one interpreter stores decides what the constant prelude of the next one meets, and the set-up panics when its prelude fails"
		report := func(f *ssa.Function, construct string, pos token.Pos) {
			var via []string
			for g := f; g != nil && len(via) < 12; g = scriptVia[g] {
				via = append(via, fnName(g))
			}
			o := c.bad("C01-SETUP", fnName(f), construct, pos, why)
			if o.Status == StViolation {
				for i, j := 0, len(via)-1; i < j; i, j = i+1, j-1 {
					via[i], via[j] = via[j], via[i]
				}
				o.Path = via
			}
		}
		// A write inside a method of the state's own type is the registry's interface: what
		// matters is who calls it from the script side, and with what. A caller that names
		// what it stores with constants only stores what the host program's author chose.
		isHolderMethod := func(f *ssa.Function) bool {
			if f.Signature.Recv() == nil {
				return false
			}
			t := f.Signature.Recv().Type()
			if p, ok := t.Underlying().(*types.Pointer); ok {
				t = p.Elem()
			}
			nm, ok := t.(*types.Named)
			return ok && holders[nm]
		}
		constantNames := func(ci ssa.CallInstruction) bool {
			any := false
			for _, a := range ci.Common().Args {
				switch {
				case types.Identical(a.Type().Underlying(), types.Typ[types.String]):
					any = true
					if _, isConst := a.(*ssa.Const); !isConst {
						return false
					}
				default:
					if sl, ok := a.Type().Underlying().(*types.Slice); ok && types.Identical(sl.Elem().Underlying(), types.Typ[types.String]) {
						call, isCall := ci.(*ssa.Call)
						if !isCall {
							return false
						}
						vs := variadicArgs(call)
						if len(vs) == 0 {
							return false
						}
						for _, v := range vs {
							any = true
							if _, isConst := v.(*ssa.Const); !isConst {
								return false
							}
						}
					}
				}
			}
			return any
		}
		seenFn := map[*ssa.Function]bool{}
		var hoist func(w *ssa.Function, pos token.Pos)
		hoist = func(w *ssa.Function, pos token.Pos) {
			if seenFn[w] {
				return
			}
			seenFn[w] = true
			if !isHolderMethod(w) {
				report(w, "writes "+k+", which the set-up reads", pos)
				return
			}
			for _, f := range c.zygoFuncs() {
				if !script[f] || f == w {
					continue
				}
				for _, ci := range callsOf(f, w) {
					if isHolderMethod(f) {
						hoist(f, ci.Pos())
						continue
					}
					construct := "calls " + fnName(w) + " (writes " + k + ", which the set-up reads)"
					if constantNames(ci) {
						c.ok("C01-SETUP", fnName(f), construct, ci.Pos(), "every name handed over is a constant of the program: a script that gets here stores what the author of the host program chose, not a name of its own")
						continue
					}
					report(f, construct, ci.Pos())
				}
			}
		}
		for _, w := range writes[k] {
			hoist(w.f, w.pos)
		}
	}
	c.check(nScript > 300 && nSetup >= 5 && len(writes) > 0, "C01-SETUP", "package", "writers and readers of process-level state", token.NoPos,
		fmt.Sprintf("%d script-side and %d set-up-only functions examined; %d pieces of process-level state are written from the script side (%s), %d of them read by the set-up", nScript, nSetup, len(writes), strings.Join(keys, ", "), shared),
		fmt.Sprintf("too little examined: %d script-side, %d set-up-only functions, %d written pieces of state", nScript, nSetup, len(writes)))
}
