package main

// C03 — lexical scoping: closures capture where they were made, never the caller.
//
// Structural necessary conditions, decided on the resolved program:
//
//   C03-SNAP   a closure value is a copy of the compiled function carrying a
//              snapshot of the live scope stack trimmed at the innermost
//              function scope; the snapshot shares the scope objects.
//   C03-LIVE   the run-time look-up crosses at most one function scope of
//              the live stack, innermost scope first, and consults the live
//              stack before captured stacks.
//   C03-FRESH  every execution of AddScope / AddFuncScope allocates a new
//              scope; every scope-opening form emits one before its body.
//   C03-BIND   def binds in the innermost scope only; set writes into the
//              scope in which the look-up found the variable.
//   C03-KEEP   leaving a scope does not modify the scope object.

import (
	"go/ast"
	"go/token"
	"go/types"
	"strings"

	"golang.org/x/tools/go/ssa"
)

func checkC03(c *Ctx) {
	c.explainf("C03 decides structural necessary conditions of lexical scoping on the resolved program: (SNAP) CreateClosure pushes a Copy of the compiled function on which SetClosing installed the result of NewClosing, never the shared template; NewClosing clones the live scope stack (sharing the scope objects), scans it from the top, stops at the first function scope and keeps exactly the scopes from there to the top; (LIVE) every look-up on the live scope stack made by LexicalLookupSymbol is LookupSymbolUntilFunction with the constant bound 1, the live stack is consulted first and its hit is returned, whole-stack look-ups on the live stack are confined to listed host functions; LookupSymbolUntilFunction scans from the top, tests the scope's own bindings before the function-boundary test, counts only function scopes and leaves the loop when the count reaches the bound; (FRESH) AddScope and AddFuncScope push a scope allocated in that very execution, AddFuncScope marks it as a function boundary, and every emission sequence of let / letseq / newScope / for / package / compiled functions opens its scope before any sub-form is compiled; parameters are bound right after the function scope is opened; (BIND) def writes only the top scope, set writes through the scope in which the look-up found the name and falls back to def only when the look-up failed; (KEEP) popping a scope does not touch the scope's bindings. The captured scopes searched for a symbol are those of the compiled function found under a running Go builtin (C03-LEXFN); the order of scope opening and right-hand sides in let is reported (C03-LETSCOPE). It does not decide the outcome of any particular program's look-ups.")
	c03Snap(c)
	c03Live(c)
	c03Fresh(c)
	c03Bind(c)
	c03Cur(c)
	c03Let(c)
	c.checkLexicalFunc("C03-LEXFN")
	// the generator's scope counter equals the scopes open at run time wherever a sub-form is compiled:
	// otherwise a tail call or break leaves a stale function or let scope on the live stack, and the
	// caller then resolves names in the callee's scopes
	c.esReport("ES-S", "ES-MODEL")
	c.checkGeneratorCtors("ES-CTOR")
}

// c03Let: `let` binds in parallel (every right-hand side is evaluated before
// any name of the vector is bound, so a right-hand side sees the enclosing
// binding of a name the same vector rebinds); `letseq` binds one by one.
func c03Let(c *Ctx) {
	const R = "C03-LET"
	es := c.runES()
	type shape struct {
		parallel, sequential bool
		t                    *esTemplate
	}
	classify := func(t *esTemplate) shape {
		sh := shape{t: t}
		sawGenRep := false
		for _, a := range t.seq {
			if a.kind != "Rep" || len(a.alts) != 1 {
				continue
			}
			hasSeg, hasBind := false, false
			for _, x := range a.alts[0] {
				if x.kind == "Seg" {
					hasSeg = true
				}
				if x.kind == "PopStackPutEnvInstr" {
					hasBind = true
				}
			}
			switch {
			case hasSeg && hasBind:
				sh.sequential = true
			case hasSeg:
				sawGenRep = true
			case hasBind && sawGenRep:
				sh.parallel = true
			}
		}
		return sh
	}
	var letShapes, seqShapes, unknown []shape
	for _, t := range es.templates {
		if t.fn != "Generator.GenerateLet" || t.what != "return" {
			continue
		}
		sh := classify(t)
		if !sh.parallel && !sh.sequential {
			continue // no bindings on this path
		}
		isLet, isSeq := false, false
		if t.state != nil {
			for k, v := range t.state.decided {
				if !v {
					continue
				}
				if strings.HasSuffix(k, `=="let"`) {
					isLet = true
				}
				if strings.HasSuffix(k, `=="letseq"`) {
					isSeq = true
				}
			}
		}
		switch {
		case isLet:
			letShapes = append(letShapes, sh)
		case isSeq:
			seqShapes = append(seqShapes, sh)
		default:
			unknown = append(unknown, sh)
		}
	}
	fd := c.funcDecl("Generator.GenerateLet")
	pos := token.NoPos
	if fd != nil {
		pos = fd.Pos()
	}
	if len(letShapes) == 0 {
		// the generator does not distinguish let: every binding path applies to it
		par := false
		for _, sh := range unknown {
			if sh.parallel && !sh.sequential {
				par = true
			}
		}
		if len(unknown) == 0 && len(seqShapes) == 0 {
			c.undecided(R, "Generator.GenerateLet", "let binds in parallel", pos, "no emission sequence with bindings derived for GenerateLet")
			return
		}
		c.check(par && len(seqShapes) > 0, R, "Generator.GenerateLet", "let binds in parallel", pos,
			"let has its own emission sequence: all right-hand sides, then all bindings",
			"no emission sequence of GenerateLet is selected for `let` and evaluates every right-hand side before binding any name: let binds one by one like letseq, so in (let [a 2 b a] ...) the second a is the new one instead of the enclosing one")
		return
	}
	for _, sh := range letShapes {
		c.check(sh.parallel && !sh.sequential, R, "Generator.GenerateLet", "let binds in parallel", sh.t.seq[0].pos,
			"for let: every right-hand side is compiled, then every name is bound",
			"the emission sequence selected for `let` binds a name before all right-hand sides are evaluated: "+seqString(sh.t.seq))
	}
	// ---- C03-LETSCOPE: a closure written in a binding expression of `let` is textually outside the scope of the
	// let's names; if the let's scope is already open when the right-hand sides run, that closure captures it and
	// later sees the let's variables
	doneScope := false
	for _, sh := range letShapes {
		if !sh.parallel || doneScope {
			continue
		}
		opened, rhsInside := false, false
		var at *atom
		for _, a := range sh.t.seq {
			if a.kind == "AddScopeInstr" {
				opened = true
			}
			if a.kind == "Rep" && len(a.alts) == 1 {
				onlySeg := len(a.alts[0]) > 0
				for _, x := range a.alts[0] {
					if x.kind != "Seg" {
						onlySeg = false
					}
				}
				if onlySeg && opened {
					rhsInside, at = true, a
				}
			}
		}
		doneScope = true
		p := sh.t.seq[0].pos
		if at != nil {
			p = at.pos
		}
		c.check(!rhsInside, "C03-LETSCOPE", "Generator.GenerateLet", "let: binding expressions evaluated outside the new scope", p,
			"the right-hand sides of let are compiled before the let's scope is opened",
			"the let's scope is opened before its right-hand sides are evaluated: a closure written in a binding expression captures the let's own scope and later sees the let's variables, although textually it is outside their scope; a def inside a binding expression lands in the let's scope")
	}
	for _, sh := range seqShapes {
		c.check(sh.sequential && !sh.parallel, R, "Generator.GenerateLet", "letseq binds one by one", sh.t.seq[0].pos,
			"for letseq: each right-hand side is followed by its binding",
			"the emission sequence selected for `letseq` does not bind each name right after its value: "+seqString(sh.t.seq))
	}
	// the parallel form pops in the reverse of the push order
	if fd != nil {
		okRev, found := false, false
		ast.Inspect(fd.Body, func(n ast.Node) bool {
			fs, ok := n.(*ast.ForStmt)
			if !ok {
				return true
			}
			emitsBind, callsGen := false, false
			ast.Inspect(fs.Body, func(m ast.Node) bool {
				if cl, ok := m.(*ast.CompositeLit); ok && exprShort(cl.Type) == "PopStackPutEnvInstr" {
					emitsBind = true
				}
				if call, ok := m.(*ast.CallExpr); ok {
					if sel, ok := call.Fun.(*ast.SelectorExpr); ok && sel.Sel.Name == "Generate" {
						callsGen = true
					}
				}
				return true
			})
			if !emitsBind || callsGen {
				return true
			}
			found = true
			if inc, ok := fs.Post.(*ast.IncDecStmt); ok && inc.Tok == token.DEC {
				okRev = true
			}
			return true
		})
		if found {
			c.check(okRev, R, "Generator.GenerateLet", "parallel bindings popped in reverse", pos,
				"the values were pushed first to last, so the names are bound last to first", "the parallel form binds the names in push order: the values are popped last to first, so the names receive each other's values")
		} else if len(letShapes) > 0 {
			// a range loop over the names cannot run backwards: with values pushed first to last this binds them crosswise
			c.bad(R, "Generator.GenerateLet", "parallel bindings popped in reverse", pos, "no counting-down loop binds the names of the parallel form: the values are popped last to first, so the names must be bound last to first")
		}
	}
}

// c03Cur: the function whose captured scopes the look-up consults is the one being executed.
func c03Cur(c *Ctx) {
	const R = "C03-CUR"
	call := c.mustFn(R, "Zlisp.CallFunction")
	ret := c.mustFn(R, "Zlisp.ReturnFromFunction")
	pushAddr := c.mustFn(R, "Stack.PushAddr")
	popAddr := c.mustFn(R, "Stack.PopAddr")
	cur := c.mustField(R, "Zlisp", "curfunc")
	if call == nil || ret == nil || pushAddr == nil || popAddr == nil || cur == nil {
		return
	}
	var setCur *ssa.Store
	eachInstr(call, func(b *ssa.BasicBlock, i int, in ssa.Instruction) {
		if st, ok := in.(*ssa.Store); ok {
			if fa, ok := st.Addr.(*ssa.FieldAddr); ok && faField(fa) == cur {
				if len(call.Params) > 1 && st.Val == ssa.Value(call.Params[1]) {
					setCur = st
				} else {
					c.bad(R, "Zlisp.CallFunction", "current function := callee", st.Pos(), "the current function is set to something other than the callee")
				}
			}
		}
	})
	okAll := setCur != nil
	if setCur != nil {
		for _, r := range returnsOf(call) {
			if len(r.Results) == 1 && isNilConst(r.Results[0]) && !dominatesInstr(setCur, r) {
				okAll = false
			}
		}
	}
	pos := call.Pos()
	if setCur != nil {
		pos = setCur.Pos()
	}
	c.check(okAll, R, "Zlisp.CallFunction", "current function := callee", pos,
		"every successful return of CallFunction has made the callee the current function: free variables resolve through the callee's captured scopes",
		"CallFunction can succeed without making the callee the current function: the callee's free variables resolve through the caller's captured scopes")
	okSave := false
	if setCur != nil {
		for _, ci := range callsOf(call, pushAddr) {
			if _, ok := loadOfField(ci.Common().Args[1], cur); ok && dominatesInstr(ci, setCur) {
				okSave = true
			}
		}
	}
	c.check(okSave, R, "Zlisp.CallFunction", "caller saved with the return address", pos,
		"the caller's function is pushed with the return address before the switch", "the caller's function is not saved with the return address before the current function changes")
	okRestore := false
	eachInstr(ret, func(b *ssa.BasicBlock, i int, in ssa.Instruction) {
		if st, ok := in.(*ssa.Store); ok {
			if fa, ok := st.Addr.(*ssa.FieldAddr); ok && faField(fa) == cur {
				if ex, ok := st.Val.(*ssa.Extract); ok && ex.Index == 0 {
					if _, ok := staticCallTo(ex.Tuple, popAddr); ok {
						okRestore = true
					}
				}
			}
		}
	})
	c.check(okRestore, R, "Zlisp.ReturnFromFunction", "current function := saved caller", ret.Pos(),
		"returning restores the function saved with the return address", "returning does not restore the caller as the current function: after a call, the caller's free variables resolve through the callee's captured scopes")
}

// stripIface removes interface conversions.
func stripIface(v ssa.Value) ssa.Value {
	for {
		switch x := v.(type) {
		case *ssa.MakeInterface:
			v = x.X
		case *ssa.ChangeInterface:
			v = x.X
		case *ssa.ChangeType:
			v = x.X
		default:
			return v
		}
	}
}

// phiLeaves: the non-phi values that flow into v.
func phiLeaves(v ssa.Value) []ssa.Value {
	seen := map[ssa.Value]bool{}
	var out []ssa.Value
	var walk func(ssa.Value)
	walk = func(x ssa.Value) {
		if seen[x] {
			return
		}
		seen[x] = true
		if p, ok := x.(*ssa.Phi); ok {
			for _, e := range p.Edges {
				walk(e)
			}
			return
		}
		out = append(out, x)
	}
	walk(v)
	return out
}

func staticCallTo(v ssa.Value, f *ssa.Function) (*ssa.Call, bool) {
	call, ok := v.(*ssa.Call)
	if !ok || f == nil {
		return nil, false
	}
	return call, call.Call.StaticCallee() == f
}

func c03Snap(c *Ctx) {
	const R = "C03-SNAP"
	exec := c.mustFn(R, "CreateClosureInstr.Execute")
	newClosing := c.mustFn(R, "NewClosing")
	setClosing := c.mustFn(R, "SexpFunction.SetClosing")
	cp := c.mustFn(R, "SexpFunction.Copy")
	pushExpr := c.mustFn(R, "Stack.PushExpr")
	clone := c.mustFn(R, "Stack.Clone")
	if exec == nil || newClosing == nil || setClosing == nil || cp == nil || pushExpr == nil || clone == nil {
		return
	}
	// ---- CreateClosureInstr.Execute
	sets := callsOf(exec, setClosing)
	if len(sets) == 0 {
		c.bad(R, "CreateClosureInstr.Execute", "installs the snapshot", exec.Pos(), "no call to SetClosing: the closure value carries no captured scopes")
	}
	var closureVals []ssa.Value
	for _, s := range sets {
		recv := s.Common().Args[0]
		_, onCopy := staticCallTo(recv, cp)
		c.check(onCopy, R, "CreateClosureInstr.Execute", "snapshot installed on a copy", s.Pos(),
			"SetClosing's receiver is the result of Copy(): each evaluation of the fn form gets its own function value",
			"SetClosing is applied to a value that is not a fresh Copy() of the compiled function: all closures made from this fn form share one captured environment (the last one created wins)")
		_, fromNew := staticCallTo(s.Common().Args[1], newClosing)
		c.check(fromNew, R, "CreateClosureInstr.Execute", "snapshot comes from NewClosing", s.Pos(),
			"the installed Closing is the result of NewClosing in this execution", "the installed Closing is not the result of NewClosing in this execution")
		closureVals = append(closureVals, recv)
	}
	pushes := callsOf(exec, pushExpr)
	if len(pushes) == 0 {
		c.bad(R, "CreateClosureInstr.Execute", "pushes the closure", exec.Pos(), "nothing is pushed on the data stack")
	}
	for _, p := range pushes {
		v := stripIface(p.Common().Args[1])
		same := false
		for _, cv := range closureVals {
			if cv == v {
				same = true
			}
		}
		c.check(same, R, "CreateClosureInstr.Execute", "pushes the closure", p.Pos(),
			"the value pushed is the copy that received the snapshot", "the value pushed is not the copy that received the snapshot (the shared template, or a function without captured scopes, becomes the closure)")
	}
	// ---- NewClosing
	lin := c.mustField(R, "Zlisp", "linearstack")
	isFunc := c.mustField(R, "Scope", "IsFunction")
	tos := c.mustField(R, "Stack", "tos")
	elems := c.mustField(R, "Stack", "elements")
	closingStack := c.mustField(R, "Closing", "Stack")
	if lin == nil || isFunc == nil || tos == nil || elems == nil || closingStack == nil {
		return
	}
	// the stack stored in the Closing
	var stored ssa.Value
	eachInstr(newClosing, func(b *ssa.BasicBlock, i int, in ssa.Instruction) {
		if st, ok := in.(*ssa.Store); ok {
			if fa, ok := st.Addr.(*ssa.FieldAddr); ok && faField(fa) == closingStack {
				stored = st.Val
			}
		}
	})
	if stored == nil {
		c.bad(R, "NewClosing", "snapshot of the live stack", newClosing.Pos(), "the Closing's Stack field is never set")
		return
	}
	newStack := c.fn("Zlisp.NewStack")
	var cloneCall *ssa.Call
	okLeaves := true
	for _, leaf := range phiLeaves(stored) {
		if call, ok := staticCallTo(leaf, clone); ok {
			if _, isLive := loadOfField(call.Call.Args[0], lin); isLive {
				cloneCall = call
				continue
			}
		}
		if _, ok := staticCallTo(leaf, newStack); ok {
			continue
		}
		okLeaves = false
	}
	c.check(okLeaves && cloneCall != nil, R, "NewClosing", "snapshot of the live stack", newClosing.Pos(),
		"the captured stack is a Clone of the live scope stack (or a new stack filled from it)",
		"the captured stack is not a clone of the live scope stack: the closure aliases the live stack itself (later pushes and pops change what it sees) or captures something else")
	// Clone shares scope objects
	bad := ""
	for g := range staticReach(clone) {
		if g == clone {
			continue
		}
		if res := g.Signature.Results(); res.Len() > 0 {
			if named, ok := derefNamed(res.At(0).Type()); ok && named.Obj().Name() == "Scope" {
				bad = fnName(g)
			}
		}
	}
	c.check(bad == "", R, "Stack.Clone", "shares the scope objects", clone.Pos(),
		"Clone copies the element references: closures made in one activation share its variables",
		"Clone reaches "+bad+", which makes new scopes: closures no longer share variables with the activation that created them nor with each other")
	// the trim loop
	var ifBlk *ssa.BasicBlock
	var idx ssa.Value
	for _, b := range newClosing.Blocks {
		cond, _, _ := condBranch(b)
		if cond == nil {
			continue
		}
		base, ok := loadOfField(cond, isFunc)
		if !ok {
			continue
		}
		ifBlk = b
		// base = extract (typeassert (load (indexaddr elements idx)))
		if ex, ok := base.(*ssa.Extract); ok {
			if ta, ok := ex.Tuple.(*ssa.TypeAssert); ok {
				if ld, ok := ta.X.(*ssa.UnOp); ok {
					if ia, ok := ld.X.(*ssa.IndexAddr); ok && derivesFromField(ia.X, elems, 0) {
						idx = ia.Index
					}
				}
			}
		} else if ta, ok := base.(*ssa.TypeAssert); ok {
			if ld, ok := ta.X.(*ssa.UnOp); ok {
				if ia, ok := ld.X.(*ssa.IndexAddr); ok && derivesFromField(ia.X, elems, 0) {
					idx = ia.Index
				}
			}
		}
	}
	if ifBlk == nil || idx == nil {
		c.bad(R, "NewClosing", "trims at the innermost function scope", newClosing.Pos(), "no test of Scope.IsFunction on an element of the cloned stack: the snapshot is not cut at the function that is running")
		return
	}
	phi, isPhi := idx.(*ssa.Phi)
	header := (*ssa.BasicBlock)(nil)
	topDown := false
	if isPhi {
		header = phi.Block()
		var fromTos, stepDown bool
		for _, e := range phi.Edges {
			if _, ok := loadOfField(e, tos); ok {
				fromTos = true
			}
			if bo, ok := e.(*ssa.BinOp); ok && bo.Op == token.SUB && bo.X == phi {
				if k, ok := constIntOf(bo.Y); ok && k == 1 {
					stepDown = true
				}
			}
		}
		topDown = fromTos && stepDown
	}
	c.check(topDown, R, "NewClosing", "scans from the top of the stack downwards", blkPos(ifBlk),
		"the scan index starts at tos and decreases: the first function scope met is the innermost one",
		"the scan over the cloned stack does not run from tos downwards: the function scope found is not the innermost one")
	if header != nil {
		_, tsucc, _ := condBranch(ifBlk)
		stops := !blockReaches(tsucc, header)
		c.check(stops, R, "NewClosing", "stops at the first function scope", blkPos(ifBlk),
			"once a function scope is found the loop is left", "the loop goes on after a function scope was found: the snapshot is cut at an outer function and includes, or is re-cut relative to, scopes of callers")
		// the kept part: a slice of elements starting at the index
		okSlice, sawSlice := false, false
		for b := range reachableAvoiding(tsucc, func(x *ssa.BasicBlock) bool { return x == header }) {
			for _, in := range b.Instrs {
				if sl, ok := in.(*ssa.Slice); ok && derivesFromField(sl.X, elems, 0) {
					sawSlice = true
					hiOK := false
					if sl.High != nil {
						if bo, ok := sl.High.(*ssa.BinOp); ok && bo.Op == token.ADD {
							if _, isTos := loadOfField(bo.X, tos); isTos {
								if k, ok := constIntOf(bo.Y); ok && k == 1 {
									hiOK = true
								}
							}
						}
					} else {
						hiOK = true
					}
					if sl.Low == idx && hiOK {
						okSlice = true
					}
				}
			}
		}
		if sawSlice {
			c.check(okSlice, R, "NewClosing", "keeps the function scope and everything above it", blkPos(ifBlk),
				"the kept scopes are elements[i : tos+1] for the index i of the function scope", "the kept scopes are not elements[i : tos+1] for the index of the function scope found")
		} else {
			c.undecided(R, "NewClosing", "keeps the function scope and everything above it", newClosing.Pos(), "the trimmed stack is not built from a slice of the cloned elements; rule needs review")
		}
	}
}

func derefNamed(t types.Type) (*types.Named, bool) {
	if p, ok := t.(*types.Pointer); ok {
		t = p.Elem()
	}
	n, ok := t.(*types.Named)
	return n, ok
}

func c03Live(c *Ctx) {
	const R = "C03-LIVE"
	lex := c.mustFn(R, "Zlisp.LexicalLookupSymbol")
	luf := c.mustFn(R, "Stack.LookupSymbolUntilFunction")
	lin := c.mustField(R, "Zlisp", "linearstack")
	if lex == nil || luf == nil || lin == nil {
		return
	}
	// ---- calls on the live stack in LexicalLookupSymbol
	var liveCalls []*ssa.Call
	for _, ci := range methodCallsOnField(lex, lin) {
		callee := ci.Common().StaticCallee()
		if callee != luf {
			c.bad(R, "Zlisp.LexicalLookupSymbol", "live stack: "+calleeName(ci.Common()), ci.Pos(), "the lexical look-up calls "+calleeName(ci.Common())+" on the live scope stack: only the one-function-bounded look-up may read it, anything else sees the caller's locals")
			continue
		}
		k, isConst := constIntOf(ci.Common().Args[3])
		c.check(isConst && k == 1, R, "Zlisp.LexicalLookupSymbol", "live stack: bound is one function", ci.Pos(),
			"the live stack is searched up to one function boundary", "the live stack is searched across more than one function boundary: free variables resolve to the caller's locals (dynamic scope)")
		if call, ok := ci.(*ssa.Call); ok {
			liveCalls = append(liveCalls, call)
		}
	}
	if len(liveCalls) == 0 {
		c.bad(R, "Zlisp.LexicalLookupSymbol", "live stack consulted", lex.Pos(), "the lexical look-up never consults the live scope stack")
		return
	}
	// bounded look-ups on captured stacks from here
	for _, name := range []string{"SexpFunction.ClosingLookupSymbolUntilFunc"} {
		g := c.fn(name)
		if g == nil {
			continue
		}
		for _, ci := range callsOf(lex, g) {
			k, isConst := constIntOf(ci.Common().Args[3])
			c.check(isConst && k == 1, R, "Zlisp.LexicalLookupSymbol", "captured stack: bound is one function", ci.Pos(),
				"the function's own captured stack is searched up to one function boundary", "the captured stack is searched across function boundaries")
		}
	}
	// order: the first live look-up dominates every other look-up and its hit is returned
	first := liveCalls[0]
	for _, lc := range liveCalls {
		if dominatesInstr(lc, first) {
			first = lc
		}
	}
	// the scope of a running function carries the compiled template (MyFunction), whose own snapshot was taken
	// where the form was compiled: it may be consulted only after the closure's captured scopes and parent chain
	{
		capOf := func(call *ssa.Call) (bool, bool) {
			if len(call.Call.Args) < 5 {
				return false, false
			}
			k, ok := call.Call.Args[4].(*ssa.Const)
			if !ok || k.Value == nil {
				return false, false
			}
			return k.Value.String() == "true", true
		}
		v, known := capOf(first)
		c.check(known && !v, R, "Zlisp.LexicalLookupSymbol", "live scopes first, without the template's snapshot", first.Pos(),
			"the first look-up searches the live scopes only (checkCaptures is false)",
			"the first look-up on the live stack also consults the snapshot of the compiled template carried by the function scope: for code compiled at top level that snapshot is the global scope, so a global shadows a captured variable of the same name, for reads and for set")
		chain := []*ssa.Function{c.fn("SexpFunction.LookupSymbolInParentChainOfClosures"), c.fn("SexpFunction.ClosingLookupSymbolUntilFunc")}
		for _, lc := range liveCalls {
			if lc == first {
				continue
			}
			if v, known := capOf(lc); known && v {
				// must come after the closure-chain look-ups
				after := false
				for _, g := range chain {
					if g == nil {
						continue
					}
					for _, ci := range callsOf(lex, g) {
						if blockReaches(ci.Block(), lc.Block()) && !blockReaches(lc.Block(), ci.Block()) {
							after = true
						}
					}
				}
				c.check(after, R, "Zlisp.LexicalLookupSymbol", "template snapshot consulted last", lc.Pos(),
					"the look-up that also consults the template's snapshot runs after the captured scopes and the parent chain",
					"the template's compile-time snapshot is consulted before the closure's own captured scopes")
			}
		}
	}
	okFirst := true
	eachInstr(lex, func(b *ssa.BasicBlock, i int, in ssa.Instruction) {
		ci, ok := in.(ssa.CallInstruction)
		if !ok || in == ssa.Instruction(first) {
			return
		}
		callee := ci.Common().StaticCallee()
		if callee == nil || fnPkgPath(callee) != zygoPath {
			return
		}
		if strings.Contains(callee.Name(), "Lookup") && !dominatesInstr(first, in) {
			okFirst = false
		}
	})
	c.check(okFirst, R, "Zlisp.LexicalLookupSymbol", "live scopes are consulted first", first.Pos(),
		"the bounded look-up on the live stack precedes every look-up in captured stacks: the innermost binding shadows captured ones",
		"a look-up in captured stacks can run before the live scopes were consulted: an outer captured binding shadows a local one")
	hitReturned := false
	for _, r := range returnsOf(lex) {
		if len(r.Results) == 3 {
			if ex, ok := r.Results[0].(*ssa.Extract); ok && ex.Tuple == ssa.Value(first) && ex.Index == 0 {
				// under err == nil of that call
				if guardedBy(r.Block(), func(cond ssa.Value) (bool, bool) {
					bo, ok := cond.(*ssa.BinOp)
					if !ok || (bo.Op != token.EQL && bo.Op != token.NEQ) {
						return false, false
					}
					ex2, ok := bo.X.(*ssa.Extract)
					if !ok || ex2.Tuple != ssa.Value(first) || !isNilConst(bo.Y) {
						return false, false
					}
					return true, bo.Op == token.EQL
				}) {
					hitReturned = true
				}
			}
		}
	}
	c.check(hitReturned, R, "Zlisp.LexicalLookupSymbol", "a hit in the live scopes is the answer", first.Pos(),
		"when the live look-up succeeds its value is returned", "the result of a successful live look-up is not returned directly")

	// ---- whole-stack look-ups on the live stack elsewhere
	whole := map[*ssa.Function]bool{}
	for _, n := range []string{"Stack.LookupSymbol", "Stack.lookupSymbol", "Stack.LookupSymbolNonGlobal"} {
		if g := c.fn(n); g != nil {
			whole[g] = true
		}
	}
	// reachability from evaluation: the interpreter's constructors (which take the
	// address of every builtin) and the script-facing entry points, FindObject
	// itself excluded (it is the host's own whole-stack query).
	rta := newRTA(c.Prog, nil, nil)
	for _, name := range append([]string{"NewZlisp", "Zlisp.StandardSetup"}, scriptEntry...) {
		if name == "Zlisp.FindObject" {
			continue
		}
		if f := c.fn(name); f != nil {
			rta.addRoot(f)
		}
	}
	rta.run()
	c.note("functions_reachable_from_evaluation", len(rta.reach))
	nWhole := 0
	for _, f := range c.zygoFuncs() {
		for _, ci := range methodCallsOnField(f, lin) {
			if callee := ci.Common().StaticCallee(); callee != nil && whole[callee] {
				nWhole++
				_, reach := rta.reach[topFn(f)]
				detail := ""
				if reach {
					detail = "; reached from evaluation via " + strings.Join(rta.pathTo(c, topFn(f)), " <- ")
				}
				c.check(!reach, R, fnName(f), "whole-stack look-up on the live scope stack", ci.Pos(),
					fnName(f)+" searches every live scope but is not reachable from evaluation (host-side query only)",
					fnName(f)+" looks a name up through every scope of the live stack, callers' locals included"+detail)
			}
		}
	}
	c.note("whole_stack_lookups_on_live_stack", nWhole)

	// ---- the bounded look-up itself
	isFunc := c.mustField(R, "Scope", "IsFunction")
	scopeMap := c.mustField(R, "Scope", "Map")
	get := c.mustFn(R, "Stack.Get")
	tos := c.mustField(R, "Stack", "tos")
	elems := c.mustField(R, "Stack", "elements")
	if isFunc == nil || scopeMap == nil || get == nil || tos == nil || elems == nil {
		return
	}
	var maxParam *ssa.Parameter
	for _, p := range luf.Params {
		if p.Name() == "maximumFuncToSearch" || (maxParam == nil && types.Identical(p.Type(), types.Typ[types.Int])) {
			maxParam = p
		}
	}
	var funcIf *ssa.BasicBlock
	for _, b := range luf.Blocks {
		cond, _, _ := condBranch(b)
		if cond == nil {
			continue
		}
		if _, ok := loadOfField(cond, isFunc); ok {
			funcIf = b
		}
	}
	if funcIf == nil || maxParam == nil {
		c.bad(R, "Stack.LookupSymbolUntilFunction", "function-boundary test", luf.Pos(), "no test of Scope.IsFunction: the look-up does not stop at function boundaries")
		return
	}
	_, tsucc, _ := condBranch(funcIf)
	// the scan index: argument of Get
	var header *ssa.BasicBlock
	fromTop := false
	for _, ci := range callsOf(luf, get) {
		if phi, ok := ci.Common().Args[1].(*ssa.Phi); ok {
			header = phi.Block()
			var from0, up bool
			for _, e := range phi.Edges {
				if k, ok := constIntOf(e); ok && k == 0 {
					from0 = true
				}
				if bo, ok := e.(*ssa.BinOp); ok && bo.Op == token.ADD && bo.X == phi {
					if k, ok := constIntOf(bo.Y); ok && k == 1 {
						up = true
					}
				}
			}
			fromTop = from0 && up
		}
	}
	// Get(n) is elements[tos-n]
	getTop := false
	eachInstr(get, func(b *ssa.BasicBlock, i int, in ssa.Instruction) {
		if ia, ok := in.(*ssa.IndexAddr); ok && derivesFromField(ia.X, elems, 0) {
			if bo, ok := ia.Index.(*ssa.BinOp); ok && bo.Op == token.SUB {
				if _, isTos := loadOfField(bo.X, tos); isTos && len(get.Params) > 1 && bo.Y == ssa.Value(get.Params[1]) {
					getTop = true
				}
			}
		}
	})
	c.check(fromTop && getTop && header != nil, R, "Stack.LookupSymbolUntilFunction", "innermost scope first", luf.Pos(),
		"scopes are visited with Get(0), Get(1), ... and Get(n) is elements[tos-n]: inner bindings shadow outer ones",
		"the scan does not visit scopes from the top of the stack downwards: an outer binding shadows an inner one")
	if header == nil {
		return
	}
	// own bindings before the boundary test
	lookupBefore := false
	eachInstr(luf, func(b *ssa.BasicBlock, i int, in ssa.Instruction) {
		if lk, ok := in.(*ssa.Lookup); ok && derivesFromField(lk.X, scopeMap, 0) {
			if b == funcIf || b.Dominates(funcIf) {
				lookupBefore = true
			}
		}
	})
	c.check(lookupBefore, R, "Stack.LookupSymbolUntilFunction", "a function scope's own bindings are searched", blkPos(funcIf),
		"the scope's map is consulted before the function-boundary test: parameters and locals of the running function are visible",
		"the function-boundary test is not preceded by a look-up in that scope: parameters of the running function are invisible")
	// counting and leaving
	var countPhi *ssa.Phi
	var inc *ssa.BinOp
	for _, in := range header.Instrs {
		phi, ok := in.(*ssa.Phi)
		if !ok {
			continue
		}
		for _, leaf := range phiLeaves(phi) {
			if bo, ok := leaf.(*ssa.BinOp); ok && bo.Op == token.ADD && bo.X == ssa.Value(phi) {
				if k, ok := constIntOf(bo.Y); ok && k == 1 && (bo.Block() == tsucc || tsucc.Dominates(bo.Block())) {
					countPhi, inc = phi, bo
				}
			}
		}
	}
	okCount := countPhi != nil
	if okCount {
		for _, leaf := range phiLeaves(countPhi) {
			if leaf == ssa.Value(inc) {
				continue
			}
			if k, ok := constIntOf(leaf); ok && k == 0 {
				continue
			}
			okCount = false
		}
	}
	c.check(okCount, R, "Stack.LookupSymbolUntilFunction", "counts function scopes only", blkPos(funcIf),
		"the counter starts at 0 and is incremented exactly when a function scope was searched",
		"the function-scope counter is not `0, +1 per function scope`: let / for / newScope scopes are counted as boundaries or function scopes are not")
	if !okCount {
		return
	}
	var leave *ssa.BasicBlock
	for _, b := range luf.Blocks {
		cond, t, _ := condBranch(b)
		bo, ok := cond.(*ssa.BinOp)
		if !ok {
			continue
		}
		isBound := (bo.Op == token.GEQ || bo.Op == token.EQL) && bo.X == ssa.Value(inc) && bo.Y == ssa.Value(maxParam) ||
			(bo.Op == token.LEQ || bo.Op == token.EQL) && bo.Y == ssa.Value(inc) && bo.X == ssa.Value(maxParam)
		if isBound && !blockReaches(t, header) {
			leave = b
		}
	}
	okLeave := false
	if leave != nil {
		r := reachableAvoiding(tsucc, func(x *ssa.BasicBlock) bool { return x == leave })
		okLeave = !r[header] || tsucc == leave
		if tsucc == leave {
			okLeave = true
		}
	}
	c.check(okLeave, R, "Stack.LookupSymbolUntilFunction", "leaves the scan when the bound is reached", blkPos(funcIf),
		"after a function scope every path to the next iteration passes `count >= maximum`, whose true branch leaves the loop",
		"after a function scope was searched the scan can continue without comparing the count with the bound (or the comparison lets `count == maximum` continue): scopes of the caller are searched")
}

func c03Fresh(c *Ctx) {
	const R = "C03-FRESH"
	lin := c.mustField(R, "Zlisp", "linearstack")
	isFunc := c.mustField(R, "Scope", "IsFunction")
	scopeMap := c.mustField(R, "Scope", "Map")
	push := c.mustFn(R, "Stack.Push")
	if lin == nil || isFunc == nil || push == nil || scopeMap == nil {
		return
	}
	allocators := map[*ssa.Function]bool{}
	for _, n := range []string{"Zlisp.NewScope", "Zlisp.NewNamedScope"} {
		g := c.mustFn(R, n)
		if g == nil {
			continue
		}
		// returns a new Scope whose Map is a new map
		okAlloc := true
		for _, r := range returnsOf(g) {
			al, ok := r.Results[0].(*ssa.Alloc)
			if !ok || !al.Heap {
				okAlloc = false
				continue
			}
			newMap := false
			eachInstr(g, func(b *ssa.BasicBlock, i int, in ssa.Instruction) {
				if st, ok := in.(*ssa.Store); ok {
					if fa, ok := st.Addr.(*ssa.FieldAddr); ok && fa.X == ssa.Value(al) && faField(fa) == scopeMap {
						if _, ok := st.Val.(*ssa.MakeMap); ok {
							newMap = true
						}
					}
				}
			})
			if !newMap {
				okAlloc = false
			}
		}
		c.check(okAlloc, R, n, "allocates a scope with an empty map", g.Pos(), "returns a newly allocated Scope whose Map is a newly made map", n+" does not return a newly allocated scope with a newly made map: scopes share bindings")
		if okAlloc {
			allocators[g] = true
		}
	}
	for _, name := range []string{"AddScopeInstr.Execute", "AddFuncScopeInstr.Execute"} {
		f := c.mustFn(R, name)
		if f == nil {
			continue
		}
		var pushes []ssa.CallInstruction
		for _, ci := range methodCallsOnField(f, lin) {
			if ci.Common().StaticCallee() == push {
				pushes = append(pushes, ci)
			}
		}
		if len(pushes) != 1 {
			c.bad(R, name, "pushes one new scope", f.Pos(), "expected exactly one push on the live scope stack per execution")
			continue
		}
		v := stripIface(pushes[0].Common().Args[1])
		call, ok := v.(*ssa.Call)
		fresh := ok && call.Call.StaticCallee() != nil && allocators[call.Call.StaticCallee()]
		c.check(fresh, R, name, "pushes one new scope", pushes[0].Pos(),
			"the scope pushed is allocated in this execution: every activation gets its own variables",
			"the scope pushed is not allocated by NewScope/NewNamedScope in this execution: activations share variables")
		if name == "AddFuncScopeInstr.Execute" && fresh {
			marked := false
			eachInstr(f, func(b *ssa.BasicBlock, i int, in ssa.Instruction) {
				if st, ok := in.(*ssa.Store); ok {
					if fa, ok := st.Addr.(*ssa.FieldAddr); ok && fa.X == v && faField(fa) == isFunc {
						if k, ok := st.Val.(*ssa.Const); ok && k.Value != nil && k.Value.String() == "true" && dominatesInstr(st, pushes[0]) {
							marked = true
						}
					}
				}
			})
			c.check(marked, R, name, "marks the scope as a function boundary", pushes[0].Pos(),
				"IsFunction is set before the scope is pushed", "the function scope is not marked IsFunction: look-ups run through it into the caller's scopes and closures are not trimmed at it")
		}
	}
	// ---- forms open their scope before compiling sub-forms
	es := c.runES()
	forms := map[string]string{
		"Generator.GenerateLet":      "AddScopeInstr",
		"Generator.GenerateNewScope": "AddScopeInstr",
		"Generator.GenerateForLoop":  "AddScopeInstr",
		"Generator.GeneratePackage":  "AddScopeInstr",
		"buildSexpFun":               "AddFuncScopeInstr",
		"FuncBuilder":                "AddFuncScopeInstr",
	}
	seen := map[string]int{}
	dedup := map[string]bool{}
	for _, t := range es.templates {
		opener, ok := forms[t.fn]
		if !ok || t.what != "return" || len(t.seq) == 0 {
			continue
		}
		hasSeg := false
		for _, a := range t.seq {
			if a.kind == "Seg" || a.kind == "Rep" {
				hasSeg = true
			}
		}
		if !hasSeg {
			continue
		}
		if dedup[t.fn+"|"+seqString(t.seq)] {
			continue
		}
		dedup[t.fn+"|"+seqString(t.seq)] = true
		seen[t.fn]++
		opened := false
		okOrder := true
		var at *atom
		for _, a := range t.seq {
			if a.kind == opener {
				opened = true
			}
			if t.fn == "Generator.GenerateLet" && a.kind == "Rep" && len(a.alts) == 1 {
				// the right-hand sides of let may be evaluated on either side of the scope
				// opening (C03-LETSCOPE decides which is right); binding and body may not
				binds := false
				for _, x := range a.alts[0] {
					if x.kind == "PopStackPutEnvInstr" {
						binds = true
					}
				}
				if !binds {
					continue
				}
			}
			if (a.kind == "Seg" || a.kind == "Rep") && !opened {
				okOrder = false
				if at == nil {
					at = a
				}
			}
		}
		pos := t.seq[0].pos
		if at != nil {
			pos = at.pos
		}
		c.check(opened && okOrder, R, t.fn, "scope opened before the body is compiled", pos,
			"the emission sequence opens a "+strings.TrimSuffix(opener, "Instr")+" before any sub-form",
			"an emission sequence of "+t.fn+" compiles a sub-form before (or without) opening its scope: bindings of the form land in the enclosing scope: "+seqString(t.seq))
		if opener == "AddFuncScopeInstr" {
			// parameters are bound straight after the function scope is opened
			okParams := len(t.seq) >= 2 && t.seq[0].kind == opener
			for i := 1; i < len(t.seq) && okParams; i++ {
				a := t.seq[i]
				if a.kind == "Seg" {
					break
				}
				if a.kind == "Rep" {
					// every way round the loop binds exactly one parameter
					if len(a.alts) == 0 {
						okParams = false
					}
					for _, alt := range a.alts {
						if !(len(alt) == 1 && alt[0].kind == "PopStackPutEnvInstr") {
							okParams = false
						}
					}
					continue
				}
				okParams = false
			}
			c.check(okParams, R, t.fn, "parameters bound in the new function scope", t.seq[0].pos,
				"between AddFuncScope and the body only the parameters are bound", "the function template does not bind its parameters directly after AddFuncScope: "+seqString(t.seq))
		}
	}
	for fn := range forms {
		if seen[fn] == 0 {
			c.undecided(R, fn, "scope opened before the body is compiled", token.NoPos, "no emission sequence derived for "+fn)
		}
	}
	// ---- leaving a scope keeps the scope object intact (captured variables outlive the activation)
	const K = "C03-KEEP"
	for _, name := range []string{"Stack.PopScope", "Stack.Pop", "RemoveScopeInstr.Execute"} {
		f := c.mustFn(K, name)
		if f == nil {
			continue
		}
		touches := ""
		for g := range staticReach(f) {
			eachInstr(g, func(b *ssa.BasicBlock, i int, in ssa.Instruction) {
				switch x := in.(type) {
				case *ssa.MapUpdate:
					if derivesFromField(x.Map, scopeMap, 0) {
						touches = fnName(g)
					}
				case *ssa.Store:
					if fa, ok := x.Addr.(*ssa.FieldAddr); ok {
						if n, ok := derefNamed(fa.X.Type()); ok && n.Obj().Name() == "Scope" {
							touches = fnName(g)
						}
					}
				case *ssa.Call:
					if bi, ok := x.Call.Value.(*ssa.Builtin); ok && (bi.Name() == "delete" || bi.Name() == "clear") {
						touches = fnName(g)
					}
				}
			})
		}
		c.check(touches == "", K, name, "leaves the popped scope intact", f.Pos(),
			"nothing reachable from here writes a Scope or its map", "leaving a scope modifies the scope object (in "+touches+"): variables captured by closures do not outlive the activation")
	}
}

func c03Bind(c *Ctx) {
	const R = "C03-BIND"
	bind := c.mustFn(R, "Stack.BindSymbol")
	lexBind := c.mustFn(R, "Zlisp.LexicalBindSymbol")
	lex := c.mustFn(R, "Zlisp.LexicalLookupSymbol")
	luf := c.mustFn(R, "Stack.LookupSymbolUntilFunction")
	lin := c.mustField(R, "Zlisp", "linearstack")
	tos := c.mustField(R, "Stack", "tos")
	elems := c.mustField(R, "Stack", "elements")
	scopeMap := c.mustField(R, "Scope", "Map")
	if bind == nil || lexBind == nil || lex == nil || luf == nil || lin == nil || tos == nil || elems == nil || scopeMap == nil {
		return
	}
	// BindSymbol: every element access is elements[tos]
	n, okTop := 0, true
	var badPos token.Pos
	eachInstr(bind, func(b *ssa.BasicBlock, i int, in ssa.Instruction) {
		if ia, ok := in.(*ssa.IndexAddr); ok && derivesFromField(ia.X, elems, 0) {
			n++
			if _, isTos := loadOfField(ia.Index, tos); !isTos {
				okTop = false
				badPos = ia.Pos()
			}
		}
	})
	writes := 0
	eachInstr(bind, func(b *ssa.BasicBlock, i int, in ssa.Instruction) {
		if mu, ok := in.(*ssa.MapUpdate); ok && derivesFromField(mu.Map, scopeMap, 0) {
			writes++
		}
	})
	if badPos == token.NoPos {
		badPos = bind.Pos()
	}
	c.check(n > 0 && okTop && writes > 0, R, "Stack.BindSymbol", "binds in the innermost scope only", badPos,
		"every scope touched is elements[tos]", "BindSymbol reads or writes a scope other than elements[tos]: def escapes its block or clobbers an outer variable")
	// LexicalBindSymbol → BindSymbol on the live stack
	okLB := false
	for _, ci := range methodCallsOnField(lexBind, lin) {
		if ci.Common().StaticCallee() == bind {
			okLB = true
		}
	}
	c.check(okLB, R, "Zlisp.LexicalBindSymbol", "binds on the live scope stack", lexBind.Pos(), "calls BindSymbol on the live stack", "LexicalBindSymbol does not bind on the live scope stack")
	// PopStackPutEnv (def / let bindings / parameters)
	if f := c.mustFn(R, "PopStackPutEnvInstr.Execute"); f != nil {
		c.check(len(callsOf(f, lexBind)) == 1 && len(callsOf(f, lex)) == 0, R, "PopStackPutEnvInstr.Execute", "def binds without looking up", f.Pos(),
			"the value is bound in the innermost scope regardless of outer bindings of the same name (shadowing)", "def / let / parameter binding consults outer scopes: an inner definition overwrites the outer variable instead of shadowing it")
	}
	// Update (set)
	if f := c.mustFn(R, "UpdateInstr.Execute"); f != nil {
		looks := callsOf(f, lex)
		binds := callsOf(f, lexBind)
		ok := len(looks) == 1 && len(binds) <= 1
		if ok {
			// setVal argument is not nil
			if isNilConst(looks[0].Common().Args[2]) {
				ok = false
			}
		}
		if ok && len(binds) == 1 {
			lk := looks[0].(*ssa.Call)
			ok = guardedBy(binds[0].Block(), func(cond ssa.Value) (bool, bool) {
				bo, isBin := cond.(*ssa.BinOp)
				if !isBin || (bo.Op != token.EQL && bo.Op != token.NEQ) || !isNilConst(bo.Y) {
					return false, false
				}
				ex, isEx := bo.X.(*ssa.Extract)
				if !isEx || ex.Tuple != ssa.Value(lk) {
					return false, false
				}
				return true, bo.Op == token.NEQ
			})
		}
		c.check(ok, R, "UpdateInstr.Execute", "set writes where the name was found", f.Pos(),
			"set passes the new value to the lexical look-up, which writes it into the scope holding the variable, and defines a new variable only when the look-up failed",
			"set does not write through the lexical look-up (or defines a new local although the variable exists): closures stop seeing each other's updates")
	}
	// the look-up writes into the scope it found the name in
	upd := c.fn("Scope.UpdateSymbolInScope")
	okWrite, nWrite := true, 0
	eachInstr(luf, func(b *ssa.BasicBlock, i int, in ssa.Instruction) {
		ci, ok := in.(ssa.CallInstruction)
		if !ok || upd == nil || ci.Common().StaticCallee() != upd {
			return
		}
		nWrite++
		recv := ci.Common().Args[0]
		// the same scope value whose Map was searched in a dominating block
		found := false
		eachInstr(luf, func(b2 *ssa.BasicBlock, j int, in2 ssa.Instruction) {
			if lk, ok := in2.(*ssa.Lookup); ok && lk.CommaOk {
				if base, ok := loadOfField(lk.X, scopeMap); ok && base == recv && dominatesInstr(lk, in) {
					found = true
				}
			}
		})
		if !found {
			okWrite = false
		}
	})
	if nWrite == 0 {
		// direct map update form
		eachInstr(luf, func(b *ssa.BasicBlock, i int, in ssa.Instruction) {
			if mu, ok := in.(*ssa.MapUpdate); ok && derivesFromField(mu.Map, scopeMap, 0) {
				nWrite++
			}
		})
	}
	c.check(okWrite && nWrite > 0, R, "Stack.LookupSymbolUntilFunction", "setVal is written into the scope that holds the name", luf.Pos(),
		"the update goes to the scope whose map contained the symbol", "the value passed for set is not written into the scope in which the symbol was found")
}

// blkPos: a source position inside block b (the last instruction that has one).
func blkPos(b *ssa.BasicBlock) token.Pos {
	for i := len(b.Instrs) - 1; i >= 0; i-- {
		if p := b.Instrs[i].Pos(); p.IsValid() {
			return p
		}
		if v, ok := b.Instrs[i].(*ssa.If); ok {
			if p := v.Cond.Pos(); p.IsValid() {
				return p
			}
		}
	}
	return b.Parent().Pos()
}

// checkLexicalFunc: while a Go builtin runs, env.curfunc is the builtin, which
// has captured nothing and belongs to no package. A symbol a builtin resolves
// for its caller (a dot-symbol operand such as h.x, defined?, =) must be looked
// up in the captured scopes of the compiled function that called the builtin.
// The rule: in LexicalLookupSymbol, the function whose captured scopes are
// searched is never env.curfunc read directly; it comes from a routine that
// tests whether the current function is a Go builtin (.user) and, if so, takes
// the function recorded on the address stack.
func (c *Ctx) checkLexicalFunc(rule string) {
	look := c.mustFn(rule, "Zlisp.LexicalLookupSymbol")
	cur := c.mustField(rule, "Zlisp", "curfunc")
	user := c.mustField(rule, "SexpFunction", "user")
	addr := c.mustField(rule, "Zlisp", "addrstack")
	sfn := c.named("SexpFunction")
	if look == nil || cur == nil || user == nil || addr == nil || sfn == nil {
		return
	}
	skipsBuiltins := func(g *ssa.Function) bool {
		if g == nil {
			return false
		}
		readsUser, readsAddr := false, false
		eachInstr(g, func(b *ssa.BasicBlock, i int, in ssa.Instruction) {
			if fa, ok := in.(*ssa.FieldAddr); ok {
				if faField(fa) == user {
					readsUser = true
				}
				if faField(fa) == addr {
					readsAddr = true
				}
			}
		})
		return readsUser && readsAddr
	}
	n := 0
	eachInstr(look, func(b *ssa.BasicBlock, i int, in ssa.Instruction) {
		call, ok := in.(*ssa.Call)
		if !ok {
			return
		}
		g := call.Call.StaticCallee()
		if g == nil || !isMethodOf(g, sfn) || len(call.Call.Args) == 0 {
			return
		}
		n++
		recv := call.Call.Args[0]
		construct := "captured scopes searched by " + g.Name()
		if _, direct := loadOfField(recv, cur); direct {
			c.bad(rule, "Zlisp.LexicalLookupSymbol", construct, call.Pos(),
				"the captured scopes searched are those of env.curfunc, which is the Go builtin while a builtin resolves a symbol for its caller: a dot-symbol operand (h.x) inside a closure or a package function is looked up without the variables the closure captured and without the package's members; it reads or writes a global of the same name, or fails")
			return
		}
		var src *ssa.Function
		for _, leaf := range phiLeaves(recv) {
			if cl, ok := leaf.(*ssa.Call); ok {
				src = cl.Call.StaticCallee()
			}
		}
		c.check(skipsBuiltins(src), rule, "Zlisp.LexicalLookupSymbol", construct, call.Pos(),
			"the function whose captured scopes are searched comes from a routine that steps over Go builtins to the calling compiled function",
			"the function whose captured scopes are searched does not come from a routine that tests for a Go builtin (.user) and consults the address stack")
	})
	if n == 0 {
		c.undecided(rule, "Zlisp.LexicalLookupSymbol", "captured scopes", look.Pos(), "no look-up in captured scopes found")
	}
}
