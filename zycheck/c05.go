package main

// C05 — errors are contained: a failed evaluation restores the interpreter.

import (
	"fmt"
	"go/token"
	"go/types"
	"strings"

	"golang.org/x/tools/go/ssa"
)

// onlySignalsEOF: every return of f carries a nil error or the io.EOF
// sentinel (a condition the caller re-derives through IsEOF()).
func onlySignalsEOF(f *ssa.Function) bool {
	idx := errResultIndex(f.Signature)
	if idx < 0 || len(f.Blocks) == 0 {
		return false
	}
	for _, r := range returnsOf(f) {
		v := r.Results[idx]
		if isNilConst(v) {
			continue
		}
		u, ok := v.(*ssa.UnOp)
		if !ok {
			return false
		}
		g, ok := u.X.(*ssa.Global)
		if !ok || g.Pkg.Pkg.Path() != "io" || g.Name() != "EOF" {
			return false
		}
	}
	return true
}

func checkC05(c *Ctx) {
	c.explainf("C05 decides: (ERR) in every function of the interpreter package (lexer, parser, infix parser, generator, VM, call machinery, builtins, converters) every error returned by a repository function is tested, returned or passed on, and on the non-nil branch the function does not return a nil error; (CAP) in every function that captures the VM control state each return of a possibly non-nil error after the capture is preceded on every path by a restore, and every caller of CallFunction has such a bracket or a named enclosing one; (TRUNC) every error return of the call dispatcher after argument preparation is preceded by truncating the data stack to its starting size; (MAIN) the compiled code is appended to the main function only on the success branch of compilation and the run loop's error path parks the program counter at the end of the restored function; (RESET) every ParseTokens call in an entry function is dominated by a parser reset. A Go builtin is called through userfun only inside a capture/restore bracket, and a function that registers a user type and can fail afterwards has a deferred undo (C05-UNDO). The undo hands the previous type to nothing that stores into it; eval brackets its own nested run, the capture before the frame is pushed; the routines that compile a text with a fresh generator put the macro table back when the text does not compile (C05-MACRO; a macro defined by a form that a failed run never reached is a recorded finding). It does not decide equivalence of later evaluations with a twin interpreter.")

	c.checkDeclarationUndone("C05-UNDO")
	// ---------------- C05-ERR
	peek := c.fn("Lexer.PeekNextToken")
	ppeek := c.fn("Parser.ParserPeekNextToken")
	getTok := c.fn("Lexer.GetNextToken")
	nScope := 0
	for _, f := range c.zygoFuncs() {
		if f.Parent() != nil {
			continue
		}
		nScope++
		for _, u := range c.errorUses(f, zygoCallee) {
			in := u.call.(ssa.Instruction)
			if u.kind == "ok" {
				c.ok("C05-ERR", fnName(u.fn), u.callee, in.Pos(), "error tested / returned / passed on")
				continue
			}
			callee := u.call.Common().StaticCallee()
			// recognised idioms
			if callee != nil && onlySignalsEOF(callee) {
				c.ok("C05-ERR", fnName(u.fn), u.callee, in.Pos(), "callee never returns an error other than io.EOF (end of the token stream), which the caller re-derives with IsEOF()/position tests")
				continue
			}
			if callee != nil && callee == getTok && u.kind == "dropped" && c.afterCheckedPeek(in, peek, ppeek, getTok) {
				c.ok("C05-ERR", fnName(u.fn), u.callee, in.Pos(), "token taken right after a peek whose error was checked: GetNextToken fails only if that peek fails")
				continue
			}
			c.bad("C05-ERR", fnName(u.fn), u.callee, in.Pos(), u.kind+": "+u.detail)
		}
	}
	c.note("functions_in_error_scope", nScope)

	// ---------------- C05-CAP
	capF := c.mustFn("C05-CAP", "Zlisp.captureControlState")
	resF := c.mustFn("C05-CAP", "Zlisp.restoreControlState")
	callFn := c.mustFn("C05-CAP", "Zlisp.CallFunction")
	if capF != nil && resF != nil {
		n := 0
		for _, f := range c.zygoFuncs() {
			caps := callsOf(f, capF)
			if len(caps) == 0 {
				continue
			}
			n++
			if len(caps) != 1 {
				c.undecided("C05-CAP", fnName(f), "capture", f.Pos(), "more than one captureControlState in one function; not modelled")
				continue
			}
			capCall := caps[0].(*ssa.Call)
			hasRestore := func(b *ssa.BasicBlock, afterIdx int) bool {
				for i, in := range b.Instrs {
					if i <= afterIdx {
						continue
					}
					if ci, ok := in.(ssa.CallInstruction); ok && ci.Common().StaticCallee() == resF && len(ci.Common().Args) == 2 && sameState(ci.Common().Args[1], capCall) {
						return true
					}
				}
				return false
			}
			capBlk := capCall.Block()
			capIdx := instrIndex(capCall)
			// blocks reachable after the capture without passing a restore
			var unrestored map[*ssa.BasicBlock]bool
			if hasRestore(capBlk, capIdx) {
				unrestored = map[*ssa.BasicBlock]bool{}
			} else {
				unrestored = map[*ssa.BasicBlock]bool{}
				var stack []*ssa.BasicBlock
				for _, s := range capBlk.Succs {
					stack = append(stack, s)
				}
				for len(stack) > 0 {
					b := stack[len(stack)-1]
					stack = stack[:len(stack)-1]
					if unrestored[b] {
						continue
					}
					unrestored[b] = true
					if hasRestore(b, -1) {
						// the part of b before the restore is unrestored, the part after is not:
						// mark but do not continue beyond
						continue
					}
					for _, s := range b.Succs {
						stack = append(stack, s)
					}
				}
			}
			idx := errResultIndex(f.Signature)
			nRet := 0
			for _, r := range returnsOf(f) {
				if idx < 0 || isNilConst(r.Results[idx]) {
					continue
				}
				b := r.Block()
				afterCap := unrestored[b] || (b == capBlk)
				if !afterCap {
					// either before the capture or after a restore on every path
					reachableFromCap := b == capBlk || blockReaches(capBlk, b)
					if reachableFromCap {
						nRet++
						c.ok("C05-CAP", fnName(f), "error return", r.Pos(), "restore precedes this error return on every path from the capture")
					}
					continue
				}
				// in an unrestored block: fine only if the restore is in this very block before the return
				restoredHere := false
				for i, in := range b.Instrs {
					if ci, ok := in.(ssa.CallInstruction); ok && ci.Common().StaticCallee() == resF && i < instrIndex(r) && (b != capBlk || i > capIdx) {
						restoredHere = true
					}
				}
				if b == capBlk && instrIndex(r) < capIdx {
					continue
				}
				nRet++
				c.check(restoredHere, "C05-CAP", fnName(f), "error return", r.Pos(), "restore precedes this error return",
					"an error can be returned after captureControlState without restoreControlState on the path: the interpreter is left mid-call (wrong function, pc, scope or stack depth)")
			}
			if nRet == 0 {
				c.undecided("C05-CAP", fnName(f), "error return", f.Pos(), "function captures the control state but has no error return after it; bracket not understood")
			}
		}
		if n < 5 {
			c.undecided("C05-CAP", "*", "capture sites", token.NoPos, fmt.Sprintf("only %d functions capture the control state (5 confirmed by reading)", n))
		}
	}
	// a routine that captures the control state and then runs the VM (Run) is a nested evaluation: it has to put the
	// state back on success too, or it leaves the program counter where Run stopped (-1), and on an idle interpreter
	// every later evaluation ends at once with nil
	if capF != nil && resF != nil {
		runF := c.fn("Zlisp.Run")
		nRun := 0
		for _, f := range c.zygoFuncs() {
			if runF == nil || len(callsOf(f, capF)) == 0 {
				continue
			}
			for _, rs := range callsOf(f, runF) {
				nRun++
				restoreBlocks := map[*ssa.BasicBlock]bool{}
				for _, r := range callsOf(f, resF) {
					restoreBlocks[r.Block()] = true
				}
				rb := rs.Block()
				reach := reachableAvoiding(rb, func(b *ssa.BasicBlock) bool { return restoreBlocks[b] && b != rb })
				okAll := true
				var at token.Pos
				// restored right after the run, before anything branches: every way on is restored
				for _, x := range rb.Instrs {
					if ci, ok := x.(ssa.CallInstruction); ok && ci.Common().StaticCallee() == resF && instrIndex(x) > instrIndex(rs.(ssa.Instruction)) {
						reach = map[*ssa.BasicBlock]bool{}
					}
				}
				for b := range reach {
					if restoreBlocks[b] && b != rb {
						continue
					}
					for _, in := range b.Instrs {
						r, isRet := in.(*ssa.Return)
						if !isRet {
							continue
						}
						// in the Run block itself a restore after the call counts
						restoredHere := false
						if b == rb {
							for _, x := range b.Instrs {
								if ci, ok := x.(ssa.CallInstruction); ok && ci.Common().StaticCallee() == resF && instrIndex(x) > instrIndex(rs.(ssa.Instruction)) {
									restoredHere = true
								}
							}
						}
						if !restoredHere {
							okAll, at = false, r.Pos()
						}
					}
				}
				c.check(okAll, "C05-CAP", fnName(f), "state restored after the nested run on every return", orPos(at, rs.Pos()),
					"every return after the nested Run is preceded by restoreControlState, on the success path too",
					"a routine that captured the control state and ran the VM returns on a path without restoring it: the caller finds the program counter where the nested run stopped; after env.Apply on an idle interpreter every later EvalString returns nil without running anything")
			}
		}
		if nRun < 3 {
			c.undecided("C05-CAP", "*", "nested runs", token.NoPos, fmt.Sprintf("only %d nested Run calls inside a capture bracket found (Apply, EvalCallExpression, Force confirmed by reading)", nRun))
		}
	}
	// a Go builtin may call back into the VM; the place that calls it (through SexpFunction.userfun) is a re-entry
	// point and needs the bracket: the call comes after a capture in the same function (or its enclosing function)
	if capF != nil {
		userfun := c.mustField("C05-CAP", "SexpFunction", "userfun")
		nUF := 0
		for _, f := range c.zygoFuncs() {
			eachInstr(f, func(b *ssa.BasicBlock, i int, in ssa.Instruction) {
				call, ok := in.(*ssa.Call)
				if !ok || call.Call.StaticCallee() != nil || call.Call.IsInvoke() || userfun == nil {
					return
				}
				if _, via := loadOfField(call.Call.Value, userfun); !via {
					return
				}
				nUF++
				bracketed := false
				for _, cp := range callsOf(f, capF) {
					if dominatesInstr(cp.(ssa.Instruction), call) {
						bracketed = true
					}
				}
				if !bracketed && f.Parent() != nil {
					// a closure run inside the enclosing function's bracket: the capture precedes the closure's creation or call
					bracketed = len(callsOf(f.Parent(), capF)) > 0
				}
				c.check(bracketed, "C05-CAP", fnName(f), "Go builtin called inside a capture/restore bracket", call.Pos(),
					"the control state is captured before the builtin is called",
					"a Go builtin is called through userfun with no captured control state: when the builtin re-enters the VM (eval, map, a selector argument) and fails there, the caller gets the error but the VM stays inside the aborted call; a host function built on Apply that handles the error turns the rest of the running program into a no-op with a success result")
			})
		}
		if nUF < 2 {
			c.undecided("C05-CAP", "*", "builtin call sites", token.NoPos, fmt.Sprintf("only %d calls through SexpFunction.userfun found (2 confirmed by reading)", nUF))
		}
	}
	if callFn != nil && capF != nil {
		for f, calls := range c.callersOf(callFn) {
			for _, ci := range calls {
				// the capture comes first: a state captured after the frame is pushed puts the frame back
				own := false
				for _, cp := range callsOf(f, capF) {
					if dominatesInstr(cp.(ssa.Instruction), ci.(ssa.Instruction)) {
						own = true
					}
				}
				if !own && f.Parent() != nil {
					own = len(callsOf(topFn(f), capF)) > 0 // a closure run inside the enclosing function's bracket
				}
				if own {
					c.ok("C05-CAP", fnName(f), "calls CallFunction", ci.Pos(), "has its own capture/restore bracket")
				} else if c.isExecuteMethod(f) {
					c.ok("C05-CAP", fnName(f), "calls CallFunction", ci.Pos(), "an instruction's Execute runs inside Run's loop, whose error path restores the state captured at Run's entry")
				} else {
					c.bad("C05-CAP", fnName(f), "calls CallFunction", ci.Pos(), "enters a compiled function without a capture/restore bracket of its own; needs a table row naming the enclosing bracket")
				}
			}
		}
	}

	// ---------------- C05-TRUNC
	if cr := c.mustFn("C05-TRUNC", "Zlisp.CallResolved"); cr != nil {
		trunc := c.mustFn("C05-TRUNC", "Stack.TruncateToSize")
		datastack := c.mustField("C05-TRUNC", "Zlisp", "datastack")
		wrappers, direct := c.argPreparers(cr)
		if trunc != nil && datastack != nil && len(wrappers)+len(direct) > 0 {
			isPrep := map[*ssa.Function]bool{}
			for _, g := range wrappers {
				isPrep[g] = true
			}
			for _, g := range direct {
				isPrep[g] = true
			}
			isTrunc := func(in ssa.Instruction) bool {
				ci, ok := in.(ssa.CallInstruction)
				if !ok || ci.Common().StaticCallee() != trunc {
					return false
				}
				_, ok = loadOfField(ci.Common().Args[0], datastack)
				return ok
			}
			// inside a preparation wrapper: error returns preceded by truncate in the same block
			for _, prepare := range wrappers {
				for _, r := range returnsOf(prepare) {
					if isNilConst(r.Results[0]) {
						continue
					}
					okT := false
					for _, in := range r.Block().Instrs {
						if isTrunc(in) {
							okT = true
						}
					}
					c.check(okT, "C05-TRUNC", fnName(prepare), "error return", r.Pos(), "data stack truncated before the preparation error is returned",
						"argument preparation fails without truncating the data stack to its starting size: evaluated arguments stay behind")
				}
			}
			// in CallResolved: returns of a possibly non-nil error in blocks reachable from a prepare call
			var prepBlocks []*ssa.BasicBlock
			prepResults := map[ssa.Value]bool{}
			eachInstr(cr, func(b *ssa.BasicBlock, i int, in ssa.Instruction) {
				if call, ok := in.(*ssa.Call); ok && isPrep[call.Call.StaticCallee()] && call.Call.StaticCallee() != nil {
					prepBlocks = append(prepBlocks, b)
					for _, w := range wrappers {
						if call.Call.StaticCallee() == w {
							prepResults[call] = true // the wrapper has truncated already
						}
					}
				}
			})
			if len(prepBlocks) == 0 {
				c.undecided("C05-TRUNC", "Zlisp.CallResolved", "prepare calls", cr.Pos(), "no call of an argument-preparation routine found")
			}
			for _, r := range returnsOf(cr) {
				v := r.Results[0]
				if isNilConst(v) || prepResults[v] {
					continue
				}
				after := false
				for _, pb := range prepBlocks {
					if pb == r.Block() || blockReaches(pb, r.Block()) {
						after = true
					}
				}
				if !after {
					continue
				}
				// error value must be guarded: either truncate in this block, or the return hands on an
				// error whose non-nil case was truncated in the predecessor (`if err != nil {trunc}; return err`)
				okT := false
				for _, in := range r.Block().Instrs {
					if isTrunc(in) {
						okT = true
					}
				}
				if !okT {
					allPredsOK := len(r.Block().Preds) > 0
					for _, p := range r.Block().Preds {
						pOK := false
						for _, in := range p.Instrs {
							if isTrunc(in) {
								pOK = true
							}
						}
						// or the predecessor is the nil-error branch of the test
						if !pOK {
							if cond, t, e := condBranch(p); cond != nil {
								if bo, ok := cond.(*ssa.BinOp); ok && (isNilConst(bo.Y) || isNilConst(bo.X)) {
									nilSucc := e
									if bo.Op == token.EQL {
										nilSucc = t
									}
									if nilSucc == r.Block() {
										pOK = true
									}
								}
							}
						}
						if !pOK {
							allPredsOK = false
						}
					}
					okT = allPredsOK
				}
				c.check(okT, "C05-TRUNC", "Zlisp.CallResolved", "error return", r.Pos(), "data stack truncated to its starting size before a call error is returned",
					"a failing call returns its error without truncating the data stack to its starting size")
			}
		} else {
			c.undecided("C05-TRUNC", "Zlisp.CallResolved", "shape", cr.Pos(), "CallResolved calls nothing that reaches PrepareCallExprArgs: the argument preparation was not found")
		}
	}

	// ---------------- C05-MAIN
	if le := c.mustFn("C05-MAIN", "Zlisp.LoadExpressions"); le != nil {
		funF := c.mustField("C05-MAIN", "SexpFunction", "fun")
		genBegin := c.mustFn("C05-MAIN", "Generator.GenerateBegin")
		if funF != nil && genBegin != nil {
			n := 0
			for _, w := range c.fieldWrites(funF) {
				if w.fn != le || w.kind != "store" {
					continue
				}
				n++
				okG := guardedBy(w.in.Block(), func(cond ssa.Value) (bool, bool) {
					bo, ok := cond.(*ssa.BinOp)
					if !ok || !(isNilConst(bo.Y) || isNilConst(bo.X)) {
						return false, false
					}
					call, ok := bo.X.(*ssa.Call)
					if !ok || call.Call.StaticCallee() != genBegin {
						return false, false
					}
					return true, bo.Op == token.EQL
				})
				c.check(okG, "C05-MAIN", "Zlisp.LoadExpressions", "append to mainfunc.fun", w.in.Pos(), "code is appended to the main function only when compilation succeeded",
					"compiled code is appended to the main function without being on the success branch of GenerateBegin: a failed load leaves half a program behind")
			}
			if n == 0 {
				c.undecided("C05-MAIN", "Zlisp.LoadExpressions", "append to mainfunc.fun", le.Pos(), "LoadExpressions no longer stores to mainfunc.fun")
			}
		}
	}
	if run := c.mustFn("C05-MAIN", "Zlisp.Run"); run != nil && resF != nil {
		pcF := c.mustField("C05-MAIN", "Zlisp", "pc")
		fsz := c.mustFn("C05-MAIN", "functionSize")
		okPark := false
		for _, ci := range callsOf(run, resF) {
			b := ci.(ssa.Instruction).Block()
			for i, in := range b.Instrs {
				if i <= instrIndex(ci.(ssa.Instruction)) {
					continue
				}
				if st, ok := in.(*ssa.Store); ok {
					if fa, ok := st.Addr.(*ssa.FieldAddr); ok && faField(fa) == pcF {
						if call, ok := st.Val.(*ssa.Call); ok && call.Call.StaticCallee() == fsz {
							okPark = true
						}
					}
				}
			}
		}
		c.check(okPark, "C05-MAIN", "Zlisp.Run", "park pc after restore", run.Pos(), "after a failed instruction the state is restored and pc is set past the end of the restored function",
			"Run's error path does not park the program counter at the end of the restored function: the next evaluation would re-run or resume the failed code")
	}

	// ---------------- C05-STOP: a failed parse leaves no live coroutine behind the next load
	c.checkParserStopOrder("C05-STOP")

	// ---------------- C05-MEMO: a failed evaluation leaves no memoised result behind
	c.checkForcedOnlyOnSuccess("C05-MEMO")
	c.checkMacrosUndone("C05-MACRO")

	// ---------------- C05-PAIR: what a compilation pushes on the loop stack is popped on every way out, errors included
	{
		loopF := c.field("Zlisp", "loopstack")
		push := c.fn("Stack.Push")
		pop := c.fn("Stack.Pop")
		nPush := 0
		if loopF != nil && push != nil && pop != nil {
			for _, f := range c.zygoFuncs() {
				for _, ci := range methodCallsOnField(f, loopF) {
					if ci.Common().StaticCallee() != push {
						continue
					}
					nPush++
					pushIn := ci.(ssa.Instruction)
					// a deferred pop registered right after the push, or a pop before every later return
					deferred := false
					var pops []ssa.Instruction
					eachInstr(f, func(b *ssa.BasicBlock, i int, in ssa.Instruction) {
						switch x := in.(type) {
						case *ssa.Defer:
							if x.Call.StaticCallee() == pop && len(x.Call.Args) > 0 {
								if _, ok := loadOfField(x.Call.Args[0], loopF); ok && dominatesInstr(pushIn, x) {
									// no return between the push and the defer
									deferred = true
									for _, r := range returnsOf(f) {
										if dominatesInstr(pushIn, r) && !dominatesInstr(x, r) {
											deferred = false
										}
									}
								}
							}
						case *ssa.Call:
							if x.Call.StaticCallee() == pop && len(x.Call.Args) > 0 {
								if _, ok := loadOfField(x.Call.Args[0], loopF); ok {
									pops = append(pops, x)
								}
							}
						}
					})
					okPair := deferred
					where := pushIn.Pos()
					if !deferred {
						okPair = len(pops) > 0
						for _, r := range returnsOf(f) {
							if !dominatesInstr(pushIn, r) {
								continue
							}
							popped := false
							for _, p := range pops {
								if dominatesInstr(p, r) {
									popped = true
								}
							}
							if !popped {
								okPair = false
								where = r.Pos()
							}
						}
					}
					c.check(okPair, "C05-PAIR", fnName(f), "loop stack push is popped on every exit", where,
						"the entry pushed on the compile-time loop stack is removed on every return that follows the push, error returns included",
						"a return after the push (an error while compiling the loop's parts) leaves the loop record on the interpreter's loop stack: no restore covers that stack, so a later stray break/continue outside every loop compiles against the dead loop instead of being rejected")
				}
			}
		}
		if nPush == 0 {
			c.undecided("C05-PAIR", "Generator.GenerateForLoop", "loop stack push", token.NoPos, "no push on the compile-time loop stack found")
		}
	}

	// ---------------- C05-RESET
	if pt := c.mustFn("C05-RESET", "Parser.ParseTokens"); pt != nil {
		r1 := c.fn("Parser.Reset")
		r2 := c.fn("Parser.ResetAddNewInput")
		n := 0
		for f, calls := range c.callersOf(pt) {
			for _, ci := range calls {
				n++
				dom := false
				eachInstr(f, func(b *ssa.BasicBlock, i int, in ssa.Instruction) {
					if c2, ok := in.(ssa.CallInstruction); ok {
						cal := c2.Common().StaticCallee()
						if (cal == r1 || cal == r2) && cal != nil && dominatesInstr(in, ci.(ssa.Instruction)) {
							dom = true
						}
					}
				})
				c.check(dom, "C05-RESET", fnName(f), "ParseTokens", ci.Pos(), "the parser is reset before this load parses", "a load parses without resetting the parser first: residue of an earlier (failed) parse is read as part of this text")
			}
		}
		if n == 0 {
			c.undecided("C05-RESET", "*", "ParseTokens", token.NoPos, "no caller of ParseTokens found")
		}
	}
}

// sameState: v is the value returned by the capture call (possibly via a phi-free copy).
func sameState(v ssa.Value, capCall *ssa.Call) bool {
	if v == ssa.Value(capCall) {
		return true
	}
	// captured state spilled to a local because a closure / address is taken
	if u, ok := v.(*ssa.UnOp); ok && u.Op == token.MUL {
		if al, ok := u.X.(*ssa.Alloc); ok {
			for _, r := range *al.Referrers() {
				if st, ok := r.(*ssa.Store); ok && st.Addr == ssa.Value(al) && st.Val == ssa.Value(capCall) {
					return true
				}
			}
		}
	}
	return false
}

// afterCheckedPeek: the GetNextToken call `in` is dominated by a peek whose
// error was consumed, with no other GetNextToken in between on the dominator chain.
func (c *Ctx) afterCheckedPeek(in ssa.Instruction, peek, ppeek, getTok *ssa.Function) bool {
	f := in.Parent()
	var best ssa.Instruction
	eachInstr(f, func(b *ssa.BasicBlock, i int, x ssa.Instruction) {
		ci, ok := x.(ssa.CallInstruction)
		if !ok {
			return
		}
		cal := ci.Common().StaticCallee()
		if cal == nil || (cal != peek && cal != ppeek) {
			return
		}
		if !dominatesInstr(x, in) {
			return
		}
		e, has := errorValueOf(ci)
		if !has || e == nil {
			return
		}
		if cons, _ := errConsumed(e, map[ssa.Value]bool{}); !cons {
			return
		}
		if best == nil || dominatesInstr(best, x) {
			best = x
		}
	})
	if best == nil {
		// the peek may be taken by one of several sibling branches (a yielding and a non-yielding
		// look-ahead chosen by a flag): every path from the entry to `in` passes a checked peek
		peekBlocks := map[*ssa.BasicBlock]bool{}
		eachInstr(f, func(b *ssa.BasicBlock, i int, x ssa.Instruction) {
			ci, ok := x.(ssa.CallInstruction)
			if !ok {
				return
			}
			cal := ci.Common().StaticCallee()
			if cal == nil || (cal != peek && cal != ppeek) {
				return
			}
			e, has := errorValueOf(ci)
			if !has || e == nil {
				return
			}
			if cons, _ := errConsumed(e, map[ssa.Value]bool{}); cons {
				peekBlocks[b] = true
			}
		})
		if len(peekBlocks) < 2 || len(f.Blocks) == 0 || peekBlocks[in.Block()] {
			return false
		}
		reach := reachableAvoiding(f.Blocks[0], func(b *ssa.BasicBlock) bool { return peekBlocks[b] })
		if reach[in.Block()] {
			return false
		}
		// no other GetNextToken between the peeks and in
		other := false
		for pb := range peekBlocks {
			between := reachableAvoiding(pb, func(b *ssa.BasicBlock) bool { return b == in.Block() })
			for b := range between {
				if b == pb {
					continue
				}
				for _, x := range b.Instrs {
					if ci, ok := x.(ssa.CallInstruction); ok && x != in && ci.Common().StaticCallee() == getTok && blockReaches(b, in.Block()) {
						other = true
					}
				}
			}
		}
		return !other
	}
	// no other GetNextToken strictly between best and in on the dominator chain
	bad := false
	eachInstr(f, func(b *ssa.BasicBlock, i int, x ssa.Instruction) {
		if x == in {
			return
		}
		if ci, ok := x.(ssa.CallInstruction); ok && ci.Common().StaticCallee() == getTok {
			if dominatesInstr(best, x) && dominatesInstr(x, in) {
				bad = true
			}
		}
	})
	return !bad
}

var _ = types.Typ

// isExecuteMethod: f is the Execute method of a type implementing Instruction.
func (c *Ctx) isExecuteMethod(f *ssa.Function) bool {
	if f.Name() != "Execute" || f.Signature.Recv() == nil {
		return false
	}
	instr := c.named("Instruction")
	if instr == nil {
		return false
	}
	it, ok := instr.Underlying().(*types.Interface)
	return ok && types.Implements(f.Signature.Recv().Type(), it)
}

// argPreparers: the routines through which CallResolved marshals the arguments of
// a call: PrepareCallExprArgs itself when it is called directly, and the wrappers
// (a local closure, a method, a function) that call it on CallResolved's behalf.
func (c *Ctx) argPreparers(cr *ssa.Function) (wrappers, direct []*ssa.Function) {
	pcea := c.fn("Zlisp.PrepareCallExprArgs")
	if pcea == nil {
		return nil, nil
	}
	seen := map[*ssa.Function]bool{}
	eachInstr(cr, func(b *ssa.BasicBlock, i int, in ssa.Instruction) {
		call, ok := in.(*ssa.Call)
		if !ok {
			return
		}
		g := call.Call.StaticCallee()
		if g == nil || seen[g] {
			return
		}
		seen[g] = true
		if g == pcea {
			direct = append(direct, g)
			return
		}
		if fnPkgPath(g) == zygoPath && len(g.Blocks) > 0 && len(callsOf(g, pcea)) > 0 {
			wrappers = append(wrappers, g)
		}
	})
	return wrappers, direct
}

// registrationFns: the methods of the type registry through which a user type
// is entered under a name -- exported methods of GoStructRegistryType that take
// a *RegisteredType and reach the registry's register method -- with the index
// of that parameter.
func (c *Ctx) registrationFns() map[*ssa.Function]int {
	out := map[*ssa.Function]int{}
	register := c.fn("GoStructRegistryType.register")
	regT := c.named("GoStructRegistryType")
	rtT := c.named("RegisteredType")
	if register == nil || regT == nil || rtT == nil {
		return out
	}
	for _, f := range c.zygoFuncs() {
		if f.Parent() != nil || !isMethodOf(f, regT) || f == register || f.Object() == nil || !f.Object().Exported() {
			continue
		}
		idx := -1
		for i, p := range f.Params {
			if pt, ok := p.Type().(*types.Pointer); ok && i > 0 && types.Identical(pt.Elem(), rtT) {
				idx = i
				break
			}
		}
		if idx < 0 || !staticReach(f)[register] {
			continue
		}
		// derived-type constructors (GetOrCreate...) look a name up first and take the element type, not the type to enter
		if strings.HasPrefix(f.Name(), "GetOrCreate") {
			continue
		}
		out[f] = idx
	}
	return out
}

type rewriteSite struct {
	call *ssa.Call
	how  string
}

// writesParamFields: does g (or a routine it passes the parameter on to) store into a field of
// the struct its parameter idx points to? Returns a description of the first store found.
func writesParamFields(g *ssa.Function, idx int, depth int, seen map[[2]interface{}]bool) string {
	if depth > 4 || g == nil || len(g.Blocks) == 0 || idx >= len(g.Params) {
		return ""
	}
	k := [2]interface{}{g, idx}
	if seen[k] {
		return ""
	}
	seen[k] = true
	// values that alias the parameter: itself, phis of it, copies made through `rt := *e; e0 = &rt` are new objects
	alias := map[ssa.Value]bool{g.Params[idx]: true}
	for changed := true; changed; {
		changed = false
		eachInstr(g, func(b *ssa.BasicBlock, i int, in ssa.Instruction) {
			if phi, ok := in.(*ssa.Phi); ok && !alias[phi] {
				for _, e := range phi.Edges {
					if alias[e] {
						alias[phi] = true
						changed = true
					}
				}
			}
		})
	}
	found := ""
	eachInstr(g, func(b *ssa.BasicBlock, i int, in ssa.Instruction) {
		if found != "" {
			return
		}
		switch x := in.(type) {
		case *ssa.Store:
			if fa, ok := x.Addr.(*ssa.FieldAddr); ok && alias[fa.X] {
				if fld := faField(fa); fld != nil {
					found = fnName(g) + " stores " + fld.Name()
				}
			}
		case *ssa.Call:
			h := x.Call.StaticCallee()
			if h == nil || fnPkgPath(h) != zygoPath {
				return
			}
			for ai, a := range x.Call.Args {
				if alias[a] {
					if w := writesParamFields(h, ai, depth+1, seen); w != "" {
						found = w
					}
				}
			}
		}
	})
	return found
}

// checkDeclarationUndone: C05-UNDO. "Every definition completed before the
// failure is intact." A builtin that enters a type into the package-level type
// registry and can still fail afterwards (it evaluates the field expressions
// after binding the name, so that a struct can refer to itself) has replaced
// the previous definition of the name by the time it fails. It needs an undo:
// a deferred function that puts the registry entry back (registers the
// previous type again or deletes the name). The rule looks at every function
// that registers a user type and can return an error after doing so.
func (c *Ctx) checkDeclarationUndone(rule string) {
	regs := c.registrationFns()
	// methods of the registry that store into its name table
	registryWriters := map[*ssa.Function]bool{}
	if regT, regF := c.named("GoStructRegistryType"), c.field("GoStructRegistryType", "Registry"); regT != nil && regF != nil {
		for _, g := range c.zygoFuncs() {
			if g.Parent() != nil || !isMethodOf(g, regT) {
				continue
			}
			eachInstr(g, func(b *ssa.BasicBlock, i int, in ssa.Instruction) {
				if mu, ok := in.(*ssa.MapUpdate); ok {
					if _, isF := loadOfField(mu.Map, regF); isF {
						registryWriters[g] = true
					}
				}
			})
		}
	}
	regVar := c.SZygo.Var("GoStructRegistry")
	if len(regs) == 0 || regVar == nil {
		c.undecided(rule, "package", "registration interface", token.NoPos, "no method of the type registry that enters a user type was found")
		return
	}
	n := 0
	for _, f := range c.zygoFuncs() {
		if f.Parent() != nil {
			continue
		}
		idx := errResultIndex(f.Signature)
		if idx < 0 {
			continue
		}
		var sites []ssa.CallInstruction
		for reg := range regs {
			sites = append(sites, callsOf(f, reg)...)
		}
		if len(sites) == 0 {
			continue
		}
		// an error return reachable after a registration
		var failAfter ssa.Instruction
		for _, site := range sites {
			for _, r := range returnsOf(f) {
				if idx >= len(r.Results) || isNilConst(r.Results[idx]) {
					continue
				}
				if r.Block() == site.Block() && instrIndex(r) > instrIndex(site.(ssa.Instruction)) || blockReaches(site.Block(), r.Block()) {
					failAfter = r
				}
			}
		}
		if failAfter == nil {
			continue
		}
		n++
		undone := false
		var rewrites []rewriteSite
		eachInstr(f, func(b *ssa.BasicBlock, i int, in ssa.Instruction) {
			d, ok := in.(*ssa.Defer)
			if !ok {
				return
			}
			mc, ok := d.Call.Value.(*ssa.MakeClosure)
			if !ok {
				return
			}
			cl, ok := mc.Fn.(*ssa.Function)
			if !ok {
				return
			}
			// the name is bound early (so that the type can refer to itself): the undo takes that binding out
			// again whenever the declaration did not complete -- under the completion flag only, not under
			// some other condition (such as "the name was bound before")
			if bindF := c.fn("Zlisp.LexicalBindSymbol"); bindF != nil && len(callsOf(f, bindF)) > 0 {
				unbound, why := c.undoRemovesBinding(f, mc, cl)
				c.check(unbound, rule, fnName(f), "the early binding of the name is undone", d.Pos(),
					"the deferred undo removes the binding of the name whenever the declaration did not complete",
					"the declaration binds its name before it can still fail, and the deferred undo does not take the binding out on every failing path ("+why+"): a failed declaration of a new name leaves the name bound to the empty placeholder")
			}
			eachInstr(cl, func(b2 *ssa.BasicBlock, j int, x ssa.Instruction) {
				switch y := x.(type) {
				case *ssa.Call:
					if _, isReg := regs[y.Call.StaticCallee()]; isReg && y.Call.StaticCallee() != nil {
						undone = true
					}
					if g := y.Call.StaticCallee(); g != nil && registryWriters[g] {
						undone = true
					}
					// the undo must put the previous definition back as it was: handing it to a routine
					// that stores into the fields of the type it is given turns a builtin or host type
					// into a script struct, for every interpreter of the process
					if g := y.Call.StaticCallee(); g != nil && fnPkgPath(g) == zygoPath {
						for ai, a := range y.Call.Args {
							if !isRegisteredTypePtr(a.Type()) || ai >= len(g.Params) {
								continue
							}
							if w := writesParamFields(g, ai, 0, map[[2]interface{}]bool{}); w != "" {
								rewrites = append(rewrites, rewriteSite{y, fnName(g) + " -> " + w})
							}
						}
					}
					if bi, ok := y.Call.Value.(*ssa.Builtin); ok && bi.Name() == "delete" && len(y.Call.Args) > 0 && derivesFromGlobal(y.Call.Args[0], regVar, 0) {
						undone = true
					}
				}
			})
		})
		for _, rw := range rewrites {
			c.bad(rule, fnName(f), "the undo puts the previous type back untouched", rw.call.Pos(),
				"the deferred undo hands the previous definition of the name to a routine that stores into the fields of the type it is given ("+rw.how+"): when the name belonged to a builtin or to a type of the host program, the failed declaration turns that type into a script struct (its constructor, IsUser, hasShadowStruct are overwritten), in every interpreter of the process")
		}
		if undone && len(rewrites) == 0 {
			c.ok(rule, fnName(f), "the undo puts the previous type back untouched", failAfter.Pos(), "no routine called by the undo stores into the fields of a registered type it is given")
		}
		c.check(undone, rule, fnName(f), "registration undone when the declaration fails", failAfter.Pos(),
			"a deferred function puts the previous registry entry back (or removes the name) unless the declaration completed",
			"the function enters a type into the package-level registry and can return an error afterwards, with nothing that undoes the registration: a failed (struct Name [...]) leaves an empty definition under Name, so the previous definition is destroyed (constructors of existing code fail with 'has no field'), also for other interpreters of the process")
	}
	if n == 0 {
		c.undecided(rule, "package", "fallible registrations", token.NoPos, "no function registers a user type and can fail afterwards (StructBuilder confirmed by reading)")
	}
}

// checkMacrosUndone: C05-MACRO. defmac takes effect while a text is being
// compiled (later forms of the same text may use the macro), by a store into
// the interpreter's macro table made by the generator. A routine that compiles
// a text with a fresh generator and gives up when a form does not compile has
// run nothing of that text -- and yet the macros of the forms before the
// broken one are defined, or have replaced earlier definitions: after the
// failing load "(defmac twice [x] ^(* 3 ~x)) (let)" the old (twice 5) gives 15.
// Every caller of Generator.GenerateBegin outside the generator restores the
// macro table on the path on which the compilation failed: that path contains
// a call of a routine that is handed a saved table (a parameter of the table's
// type) and stores into Zlisp.macros, or such stores themselves.
//
// It does not decide the run-time half of the same question (a text that
// compiles, defines a macro in a later form and fails at run time in an
// earlier one): that is a recorded finding.
func (c *Ctx) checkMacrosUndone(rule string) {
	gb := c.mustFn(rule, "Generator.GenerateBegin")
	macrosF := c.mustField(rule, "Zlisp", "macros")
	genT := c.named("Generator")
	if gb == nil || macrosF == nil || genT == nil {
		return
	}
	writesMacros := func(f *ssa.Function) bool {
		w := false
		eachInstr(f, func(b *ssa.BasicBlock, i int, in ssa.Instruction) {
			switch x := in.(type) {
			case *ssa.MapUpdate:
				if _, ok := loadOfField(x.Map, macrosF); ok {
					w = true
				}
			case *ssa.Call:
				if bi, ok := x.Call.Value.(*ssa.Builtin); ok && bi.Name() == "delete" && len(x.Call.Args) > 0 {
					if _, ok := loadOfField(x.Call.Args[0], macrosF); ok {
						w = true
					}
				}
			}
		})
		return w
	}
	restorer := func(g *ssa.Function) bool {
		if g == nil || fnPkgPath(g) != zygoPath || len(g.Blocks) == 0 || !writesMacros(g) {
			return false
		}
		for _, p := range g.Params {
			if types.Identical(p.Type(), macrosF.Type()) {
				return true
			}
		}
		return false
	}
	// inside the generator: its methods, and the routines that only they call (a nested compilation, whose
	// failure fails the enclosing one; the outermost routine restores the table)
	var inside func(f *ssa.Function, depth int) bool
	inside = func(f *ssa.Function, depth int) bool {
		f = topFn(f)
		if isMethodOf(f, genT) {
			return true
		}
		if depth > 3 {
			return false
		}
		callers := c.callersOf(f)
		if len(callers) == 0 {
			return false
		}
		for g := range callers {
			if !inside(g, depth+1) {
				return false
			}
		}
		return true
	}
	n := 0
	for _, f := range c.zygoFuncs() {
		if inside(f, 0) {
			continue
		}
		for _, site := range callsOf(f, gb) {
			n++
			ev, _ := errorValueOf(site)
			if ev == nil {
				c.bad(rule, fnName(f), "macro table restored when the text does not compile", site.Pos(), "the error of the compilation is dropped")
				continue
			}
			_, tests := errConsumed(ev, map[ssa.Value]bool{})
			restored := false
			for _, iff := range tests {
				cond, tb, fb := condBranch(iff.Block())
				bo, ok := cond.(*ssa.BinOp)
				if !ok {
					continue
				}
				errSide := tb
				if bo.Op == token.EQL {
					errSide = fb
				}
				// on the failing side, before anything returns
				for b := range reachableAvoiding(errSide, func(x *ssa.BasicBlock) bool { return false }) {
					if !errSide.Dominates(b) && b != errSide {
						continue
					}
					for _, in := range b.Instrs {
						if ci, ok := in.(ssa.CallInstruction); ok && restorer(ci.Common().StaticCallee()) {
							restored = true
						}
					}
				}
			}
			c.check(restored, rule, fnName(f), "macro table restored when the text does not compile", site.Pos(),
				"the path on which the compilation failed hands the saved macro table to a routine that puts it back",
				"this routine compiles a text with a fresh generator and returns the compile error without putting the macro table back: nothing of the text has run, yet the macros of the forms before the broken one are defined (or have replaced earlier definitions) from now on")
		}
	}
	// the run-time half: a definition that a failed run must not leave behind unless its form was reached
	// has to be made by an instruction. The generator's own store into the macro table is made when the
	// form is compiled, wherever in the text it stands.
	for _, f := range c.zygoFuncs() {
		if !isMethodOf(topFn(f), genT) {
			continue
		}
		eachInstr(f, func(b *ssa.BasicBlock, i int, in ssa.Instruction) {
			if mu, ok := in.(*ssa.MapUpdate); ok {
				if _, isM := loadOfField(mu.Map, macrosF); isM {
					c.bad(rule, fnName(f), "takes effect at compile time", in.Pos(),
						"the macro is installed by the generator while the text is compiled, not by an instruction at the form's place in the run: a text that fails at run time before it reaches a defmac leaves that macro defined")
				}
			}
		})
	}
	if n < 3 {
		c.undecided(rule, "package", "callers of GenerateBegin outside the generator", token.NoPos, fmt.Sprintf("only %d found (LoadExpressions, EvalFunction, SourceExpressions, FuncBuilder confirmed by reading)", n))
	}
}


// undoRemovesBinding: the deferred closure cl (made by mc in f) calls a routine that deletes from a
// scope's map, in a block whose only guards are completion flags: boolean variables of f that are only
// ever assigned constants (false at the start, true when the declaration is complete).
func (c *Ctx) undoRemovesBinding(f *ssa.Function, mc *ssa.MakeClosure, cl *ssa.Function) (bool, string) {
	scopeMap := c.field("Scope", "Map")
	deletes := func(g *ssa.Function) bool {
		if g == nil || fnPkgPath(g) != zygoPath || len(g.Blocks) == 0 || scopeMap == nil {
			return false
		}
		found := false
		eachInstr(g, func(b *ssa.BasicBlock, i int, in ssa.Instruction) {
			if call, ok := in.(*ssa.Call); ok {
				if bi, ok := call.Call.Value.(*ssa.Builtin); ok && bi.Name() == "delete" && len(call.Call.Args) > 0 {
					if _, isM := loadOfField(call.Call.Args[0], scopeMap); isM {
						found = true
					}
				}
			}
		})
		return found
	}
	isCompletionFlag := func(cond ssa.Value) bool {
		core, _ := stripNot(cond)
		u, ok := core.(*ssa.UnOp)
		if !ok || u.Op != token.MUL {
			return false
		}
		fv, ok := u.X.(*ssa.FreeVar)
		if !ok {
			return false
		}
		for k, fvv := range cl.FreeVars {
			if fvv != fv || k >= len(mc.Bindings) {
				continue
			}
			al, ok := mc.Bindings[k].(*ssa.Alloc)
			if !ok || al.Referrers() == nil {
				return false
			}
			n := 0
			for _, fn := range withClosures(f) {
				bad := false
				eachInstr(fn, func(b *ssa.BasicBlock, i int, in ssa.Instruction) {
					st, ok := in.(*ssa.Store)
					if !ok {
						return
					}
					target := st.Addr
					if tfv, ok := target.(*ssa.FreeVar); ok && fn == cl {
						for kk, x := range cl.FreeVars {
							if x == tfv && kk < len(mc.Bindings) {
								target = mc.Bindings[kk]
							}
						}
					}
					if target != ssa.Value(al) {
						return
					}
					n++
					if _, isK := st.Val.(*ssa.Const); !isK {
						bad = true
					}
				})
				if bad {
					return false
				}
			}
			return n > 0
		}
		return false
	}
	verdict, why := false, "the undo never removes a binding from a scope"
	eachInstr(cl, func(b *ssa.BasicBlock, i int, in ssa.Instruction) {
		call, ok := in.(*ssa.Call)
		if !ok || !deletes(call.Call.StaticCallee()) {
			return
		}
		// every condition that decides whether this block runs is a completion flag
		okGuards := true
		for _, d := range cl.Blocks {
			cond, t, e := condBranch(d)
			if cond == nil || d == b || !d.Dominates(b) {
				continue
			}
			onOneSide := (t.Dominates(b) && len(t.Preds) == 1) != (e.Dominates(b) && len(e.Preds) == 1)
			if !onOneSide {
				continue
			}
			if !isCompletionFlag(cond) {
				okGuards = false
				why = "the removal runs only under a further condition"
			}
		}
		if okGuards {
			verdict = true
		}
	})
	return verdict, why
}
