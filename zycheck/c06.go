package main

// C06 — infix blocks mean what the precedence table says.
// TB: the operator table is read out of InitInfixOps and compared, as an
// order relation with associativity, with the table stated by the property.

import (
	"fmt"
	"go/ast"
	"go/constant"
	"go/token"
	"go/types"
	"golang.org/x/tools/go/ssa"
	"regexp/syntax"
	"sort"
	"strconv"
	"strings"
)

type opReg struct {
	op   string
	ctor string
	bp   int
	pos  token.Pos
}

func (c *Ctx) infixRegistrations() ([]opReg, bool) {
	fd := c.funcDecl("Zlisp.InitInfixOps")
	if fd == nil {
		return nil, false
	}
	var out []opReg
	okAll := true
	ast.Inspect(fd.Body, func(n ast.Node) bool {
		call, ok := n.(*ast.CallExpr)
		if !ok {
			return true
		}
		sel, ok := call.Fun.(*ast.SelectorExpr)
		if !ok {
			return true
		}
		switch sel.Sel.Name {
		case "Infix", "Infixr", "Prefix", "Assignment", "PostfixAssign":
		default:
			return true
		}
		if id, ok := sel.X.(*ast.Ident); !ok || id.Name != "env" {
			return true
		}
		if len(call.Args) != 2 {
			okAll = false
			return true
		}
		tv0 := c.Zygo.TypesInfo.Types[call.Args[0]]
		tv1 := c.Zygo.TypesInfo.Types[call.Args[1]]
		if tv0.Value == nil || tv1.Value == nil {
			okAll = false
			c.undecided("C06-TAB", "Zlisp.InitInfixOps", "registration with non-constant arguments", call.Pos(), "an operator is registered with a name or binding power that is not a constant")
			return true
		}
		bp, _ := constant.Int64Val(tv1.Value)
		out = append(out, opReg{constant.StringVal(tv0.Value), sel.Sel.Name, int(bp), call.Pos()})
		return true
	})
	return out, okAll
}

func checkC06(c *Ctx) {
	c.explainf("C06 decides the operator table and the climbing loop: every operator the property names is registered in InitInfixOps with the constructor that gives its associativity (assignments, ** and and/or recurse with bp-1, the others with bp, not is a prefix operator); the classes are strictly ordered assignment < comma < or/and < comparisons < + - < * / mod < ** < not < indexing/field access and operators within a class share one binding power; the precedence loop continues exactly while the right binding power is below the next token's left binding power, which is the registered power (80 for arrays and dotted symbols, the comma's own value, 0 for if); every registered operator spelled with operator characters is in the lexer's operator regex or has a dedicated lexer state. The prefix runes are in the sign-context set, ParseInfix keeps a sign that follows an operand away from the Inf fusion (C06-INF), and the colon DecodeAtom sets aside is emitted after non-symbol atoms (C06-COLON). It does not decide sign-vs-operator classification of + and -, statement splitting, the go-style for lowering, or value equality with the prefix form.")
	regs, _ := c.infixRegistrations()
	if len(regs) < 20 {
		c.undecided("C06-TAB", "Zlisp.InitInfixOps", "registrations", token.NoPos, fmt.Sprintf("only %d operator registrations with constant arguments found", len(regs)))
	}
	byOp := map[string]opReg{}
	for _, r := range regs {
		if prev, dup := byOp[r.op]; dup {
			c.bad("C06-TAB", "Zlisp.InitInfixOps", "operator "+r.op+" registered twice", r.pos, fmt.Sprintf("operator %q is registered twice (%s %d and %s %d); the later one wins", r.op, prev.ctor, prev.bp, r.ctor, r.bp))
		}
		byOp[r.op] = r
	}
	type class struct {
		name string
		ops  []string
		ctor string
	}
	classes := []class{
		{"assignment", []string{"=", ":=", "+=", "-="}, "Assignment"},
		{"comma", []string{"comma"}, "Infix"},
		{"or/and", []string{"or", "and"}, "Infixr"},
		{"comparison", []string{"==", "!=", "<", "<=", ">", ">="}, "Infix"},
		{"additive", []string{"+", "-"}, "Infix"},
		{"multiplicative", []string{"*", "/", "mod"}, "Infix"},
		{"power", []string{"**"}, "Infixr"},
		{"not", []string{"not"}, "Prefix"},
		{"field access", []string{"."}, "Infix"},
	}
	classBp := map[string]int{}
	for _, cl := range classes {
		bps := map[int]bool{}
		for _, op := range cl.ops {
			r, ok := byOp[op]
			if !ok {
				c.bad("C06-TAB", "Zlisp.InitInfixOps", "operator "+op, token.NoPos, "operator "+op+" of class "+cl.name+" is not registered for infix parsing")
				continue
			}
			c.check(r.ctor == cl.ctor, "C06-TAB", "Zlisp.InitInfixOps", "operator "+op+" constructor", r.pos,
				fmt.Sprintf("registered with %s (class %s)", r.ctor, cl.name),
				fmt.Sprintf("operator %s is registered with %s but its class (%s) needs %s: its associativity / arity changes", op, r.ctor, cl.name, cl.ctor))
			bps[r.bp] = true
			classBp[cl.name] = r.bp
		}
		var l []int
		for b := range bps {
			l = append(l, b)
		}
		sort.Ints(l)
		c.check(len(l) == 1, "C06-TAB", "Zlisp.InitInfixOps", "class "+cl.name+" uniform", token.NoPos,
			fmt.Sprintf("all operators of the class bind with %v", l), fmt.Sprintf("operators of class %s have different binding powers %v", cl.name, l))
	}
	// postfix ++ -- are assignments (lowest)
	for _, op := range []string{"++", "--"} {
		if r, ok := byOp[op]; ok {
			c.check(r.ctor == "PostfixAssign" && r.bp == classBp["assignment"], "C06-TAB", "Zlisp.InitInfixOps", "operator "+op, r.pos, "postfix assignment at assignment level", "postfix "+op+" is not a postfix assignment at the assignment level")
		}
	}
	// array index power from the arrayOp literal
	arrayBp := -1
	if fd := c.funcDecl("Zlisp.InitInfixOps"); fd != nil {
		ast.Inspect(fd.Body, func(n ast.Node) bool {
			as, ok := n.(*ast.AssignStmt)
			if !ok || len(as.Lhs) != 1 {
				return true
			}
			if id, ok := as.Lhs[0].(*ast.Ident); !ok || id.Name != "arrayOp" {
				return true
			}
			ast.Inspect(as.Rhs[0], func(m ast.Node) bool {
				if kv, ok := m.(*ast.KeyValueExpr); ok {
					if k, ok := kv.Key.(*ast.Ident); ok && k.Name == "Bp" {
						if tv := c.Zygo.TypesInfo.Types[kv.Value]; tv.Value != nil {
							v, _ := constant.Int64Val(tv.Value)
							arrayBp = int(v)
						}
					}
				}
				return true
			})
			return true
		})
	}
	classBp["indexing"] = arrayBp
	order := []string{"assignment", "comma", "or/and", "comparison", "additive", "multiplicative", "power", "not", "indexing"}
	for i := 0; i+1 < len(order); i++ {
		a, b := order[i], order[i+1]
		c.check(classBp[a] < classBp[b] && classBp[a] > 0, "C06-ORD", "Zlisp.InitInfixOps", a+" < "+b, token.NoPos,
			fmt.Sprintf("%d < %d", classBp[a], classBp[b]),
			fmt.Sprintf("class %s (binding power %d) must bind more loosely than %s (%d)", a, classBp[a], b, classBp[b]))
	}
	c.check(classBp["field access"] == classBp["indexing"], "C06-ORD", "Zlisp.InitInfixOps", "field access = indexing", token.NoPos, "dot and array index bind equally tight", "field access and indexing have different binding powers")

	// ---- C06-ASSOC: how each constructor recurses
	wantRec := map[string]string{"Infix": "bp", "Infixr": "bp - 1", "Assignment": "bp - 1", "Prefix": "bp"}
	var ctors []string
	for k := range wantRec {
		ctors = append(ctors, k)
	}
	sort.Strings(ctors)
	for _, ctor := range ctors {
		fd := c.funcDecl("Zlisp." + ctor)
		if fd == nil {
			c.undecided("C06-ASSOC", "Zlisp."+ctor, "anchor", token.NoPos, "constructor not found")
			continue
		}
		got := ""
		stores := false
		ast.Inspect(fd.Body, func(n ast.Node) bool {
			switch x := n.(type) {
			case *ast.CallExpr:
				if sel, ok := x.Fun.(*ast.SelectorExpr); ok && sel.Sel.Name == "Expression" && len(x.Args) == 2 {
					got = exprSpaced(x.Args[1])
				}
			case *ast.AssignStmt:
				if len(x.Lhs) == 1 {
					if ix, ok := x.Lhs[0].(*ast.IndexExpr); ok && exprShort(ix.X) == "env.infixOps" {
						if id, ok := ix.Index.(*ast.Ident); ok && id.Name == "op" {
							stores = true
						}
					}
				}
			}
			return true
		})
		c.check(got == wantRec[ctor], "C06-ASSOC", "Zlisp."+ctor, "right operand parsed with "+wantRec[ctor], fd.Pos(),
			"associativity as the class requires", fmt.Sprintf("%s parses its right operand with binding power `%s` instead of `%s`: associativity flips", ctor, got, wantRec[ctor]))
		c.check(stores, "C06-ASSOC", "Zlisp."+ctor, "registers under its own name", fd.Pos(), "env.infixOps[op] = the new operator", ctor+" does not store the operator under its name")
		// Bp field is the parameter
		bpOK := false
		ast.Inspect(fd.Body, func(n ast.Node) bool {
			if kv, ok := n.(*ast.KeyValueExpr); ok {
				if k, ok := kv.Key.(*ast.Ident); ok && k.Name == "Bp" {
					if v, ok := kv.Value.(*ast.Ident); ok && v.Name == "bp" {
						bpOK = true
					}
				}
			}
			return true
		})
		c.check(bpOK, "C06-ASSOC", "Zlisp."+ctor, "left binding power is the registered one", fd.Pos(), "Bp: bp", ctor+" does not record the registered binding power as the operator's Bp")
	}

	// ---- C06-LOOP
	if fd := c.funcDecl("Pratt.Expression"); fd != nil {
		found := false
		ast.Inspect(fd.Body, func(n ast.Node) bool {
			fs, ok := n.(*ast.ForStmt)
			if !ok {
				return true
			}
			// for !p.IsEOF() { nextLbp, err := env.LeftBindingPower(p.NextToken) ... if rbp >= nextLbp { break } ...
			hasLbp := false
			hasBreak := false
			var lbpObj types.Object
			var rbpObj types.Object
			if fd.Type.Params != nil && len(fd.Type.Params.List) == 2 && len(fd.Type.Params.List[1].Names) == 1 {
				rbpObj = c.Zygo.TypesInfo.ObjectOf(fd.Type.Params.List[1].Names[0])
			}
			for _, st := range fs.Body.List {
				if as, ok := st.(*ast.AssignStmt); ok && len(as.Rhs) == 1 {
					if call, ok := as.Rhs[0].(*ast.CallExpr); ok {
						if sel, ok := call.Fun.(*ast.SelectorExpr); ok && sel.Sel.Name == "LeftBindingPower" && len(call.Args) == 1 && exprShort(call.Args[0]) == "p.NextToken" {
							if id, ok := as.Lhs[0].(*ast.Ident); ok {
								lbpObj = c.Zygo.TypesInfo.ObjectOf(id)
								hasLbp = lbpObj != nil
							}
						}
					}
				}
				if is, ok := st.(*ast.IfStmt); ok && hasLbp {
					if be, ok := is.Cond.(*ast.BinaryExpr); ok && be.Op == token.GEQ && isObj(c, be.X, rbpObj) && isObj(c, be.Y, lbpObj) {
						for _, bs := range is.Body.List {
							if br, ok := bs.(*ast.BranchStmt); ok && br.Tok == token.BREAK {
								hasBreak = true
							}
						}
					}
				}
			}
			if hasLbp && hasBreak {
				found = true
			}
			return true
		})
		c.check(found, "C06-LOOP", "Pratt.Expression", "continue while rbp < lbp(next)", fd.Pos(), "the loop stops exactly when rbp >= LeftBindingPower(next token)",
			"the precedence-climbing loop no longer has the shape `lbp := LeftBindingPower(next token); if rbp >= lbp { break }`")
	} else {
		c.undecided("C06-LOOP", "Pratt.Expression", "anchor", token.NoPos, "Pratt.Expression not found")
	}

	// ---- C06-LBP
	if fd := c.funcDecl("Zlisp.LeftBindingPower"); fd != nil {
		cases, ok := c.typeSwitchCases(fd, "sx")
		if !ok {
			c.undecided("C06-LBP", "Zlisp.LeftBindingPower", "type switch", fd.Pos(), "no type switch over the token")
		} else {
			retConst := func(cc *ast.CaseClause) (int, bool) {
				if cc == nil || len(cc.Body) == 0 {
					return 0, false
				}
				if rs, ok := cc.Body[len(cc.Body)-1].(*ast.ReturnStmt); ok && len(rs.Results) == 2 {
					if tv := c.Zygo.TypesInfo.Types[rs.Results[0]]; tv.Value != nil {
						v, _ := constant.Int64Val(tv.Value)
						return int(v), true
					}
				}
				return 0, false
			}
			av, aok := retConst(cases["*SexpArray"])
			c.check(aok && av == arrayBp, "C06-LBP", "Zlisp.LeftBindingPower", "array", fd.Pos(), "arrays bind with the index operator's power", fmt.Sprintf("left binding power of an array token (%d) differs from the index operator's (%d)", av, arrayBp))
			cv, cok := retConst(cases["*SexpComma"])
			c.check(cok && cv == classBp["comma"], "C06-LBP", "Zlisp.LeftBindingPower", "comma", fd.Pos(), "the comma token binds with the registered comma power", fmt.Sprintf("left binding power of the comma token (%d) differs from the registered comma operator (%d)", cv, classBp["comma"]))
			// symbol arm: returns op.Bp when found, 80 for dot symbols, 0 for if
			sym := cases["*SexpSymbol"]
			src := ""
			if sym != nil {
				src = nodeSrc(c, sym)
			}
			okSym := strings.Contains(src, "return op.Bp, nil") && strings.Contains(src, `x.name == "if"`) && strings.Contains(src, "x.isDot")
			dotv := -1
			if sym != nil {
				ast.Inspect(sym, func(n ast.Node) bool {
					if is, ok := n.(*ast.IfStmt); ok && exprShort(is.Cond) == "x.isDot" {
						for _, st := range is.Body.List {
							if rs, ok := st.(*ast.ReturnStmt); ok {
								if tv := c.Zygo.TypesInfo.Types[rs.Results[0]]; tv.Value != nil {
									v, _ := constant.Int64Val(tv.Value)
									dotv = int(v)
								}
							}
						}
					}
					return true
				})
			}
			c.check(okSym && dotv == classBp["field access"], "C06-LBP", "Zlisp.LeftBindingPower", "symbol", fd.Pos(), "operators bind with their registered power, dotted symbols like field access, `if` with 0",
				fmt.Sprintf("the symbol arm of LeftBindingPower changed (dot symbols bind with %d, field access with %d)", dotv, classBp["field access"]))
		}
	}

	// ---- C06-LEX
	c.checkOperatorLexable(regs)
	c.checkSignContext(regs)
	c.checkInfixSignFusion("C06-INF")
	c.checkTrailingColonKept("C06-COLON")
	c.checkExponentSign("C06-EXP")
	c.checkOperandStackEnds()
	c.checkSelectorReparse()
	// whether a - or + is a sign or an operator is decided by looking back through the lexer's ring of recent runes
	c.checkLookbackRing("C06-RING")
}

func exprSpaced(e ast.Expr) string {
	if be, ok := e.(*ast.BinaryExpr); ok {
		return exprShort(be.X) + " " + be.Op.String() + " " + exprShort(be.Y)
	}
	return exprShort(e)
}

func nodeSrc(c *Ctx, n ast.Node) string {
	var sb strings.Builder
	ast.Inspect(n, func(m ast.Node) bool {
		switch x := m.(type) {
		case *ast.ReturnStmt:
			sb.WriteString("return ")
			for i, r := range x.Results {
				if i > 0 {
					sb.WriteString(", ")
				}
				sb.WriteString(exprShort(r))
			}
			sb.WriteString("\n")
		case *ast.IfStmt:
			sb.WriteString("if " + exprSpaced(x.Cond) + "\n")
		}
		return true
	})
	return sb.String()
}

// checkOperatorLexable: operators spelled with operator characters must be
// alternatives of BuiltinOpRegex (or have a dedicated lexer state).
func (c *Ctx) checkOperatorLexable(regs []opReg) {
	// find the regex literal
	var pattern string
	var pos token.Pos
	for _, f := range c.Zygo.Syntax {
		ast.Inspect(f, func(n ast.Node) bool {
			vs, ok := n.(*ast.ValueSpec)
			if !ok {
				return true
			}
			for i, name := range vs.Names {
				if name.Name == "BuiltinOpRegex" && i < len(vs.Values) {
					if call, ok := vs.Values[i].(*ast.CallExpr); ok && len(call.Args) == 1 {
						if tv := c.Zygo.TypesInfo.Types[call.Args[0]]; tv.Value != nil {
							pattern = constant.StringVal(tv.Value)
							pos = vs.Pos()
						}
					}
				}
			}
			return true
		})
	}
	if pattern == "" {
		c.undecided("C06-LEX", "BuiltinOpRegex", "pattern", token.NoPos, "BuiltinOpRegex literal not found")
		return
	}
	re, err := syntax.Parse(pattern, syntax.Perl)
	if err != nil {
		c.undecided("C06-LEX", "BuiltinOpRegex", "pattern", pos, "cannot parse BuiltinOpRegex: "+err.Error())
		return
	}
	alts := map[string]bool{}
	var collect func(r *syntax.Regexp)
	collect = func(r *syntax.Regexp) {
		switch r.Op {
		case syntax.OpLiteral:
			alts[string(r.Rune)] = true
		case syntax.OpAlternate:
			for _, s := range r.Sub {
				if s.Op == syntax.OpLiteral {
					alts[string(s.Rune)] = true
				} else if s.Op == syntax.OpConcat {
					// literal prefix + char class (factored alternation, e.g. \+(\+|=))
					for _, a := range expandConcat(s) {
						alts[a] = true
					}
				} else {
					collect(s)
				}
			}
		case syntax.OpCharClass:
			for i := 0; i+1 < len(r.Rune); i += 2 {
				for ch := r.Rune[i]; ch <= r.Rune[i+1] && ch-r.Rune[i] < 64; ch++ {
					alts[string(ch)] = true
				}
			}
		default:
			for _, s := range r.Sub {
				collect(s)
			}
		}
	}
	collect(re.Simplify())
	dedicated := map[string]string{"/": "LexerFirstFwdSlash", ":=": "LexerFreshAssignOrColon", ".": "dot symbols are lexed as part of the atom"}
	isOpSpelling := func(s string) bool {
		for _, r := range s {
			if strings.ContainsRune("+-*/<>=!&|:.%^~", r) {
				continue
			}
			return false
		}
		return s != ""
	}
	n := 0
	for _, r := range regs {
		if !isOpSpelling(r.op) {
			continue
		}
		n++
		if why, ok := dedicated[r.op]; ok {
			c.ok("C06-LEX", "BuiltinOpRegex", "operator "+r.op, r.pos, "produced by "+why)
			continue
		}
		c.check(alts[r.op], "C06-LEX", "BuiltinOpRegex", "operator "+r.op, r.pos, "an alternative of the lexer's operator regex",
			"the infix operator "+strconv.Quote(r.op)+" is registered for parsing but the lexer's operator regex has no alternative for it: written without spaces it is not tokenised as that operator")
	}
	if n < 15 {
		c.undecided("C06-LEX", "BuiltinOpRegex", "operators", pos, fmt.Sprintf("only %d operator spellings checked", n))
	}
}

// expandConcat expands a concatenation of literals and small char classes into strings.
func expandConcat(r *syntax.Regexp) []string {
	outs := []string{""}
	for _, s := range r.Sub {
		var parts []string
		switch s.Op {
		case syntax.OpLiteral:
			parts = []string{string(s.Rune)}
		case syntax.OpCharClass:
			for i := 0; i+1 < len(s.Rune); i += 2 {
				for ch := s.Rune[i]; ch <= s.Rune[i+1] && ch-s.Rune[i] < 64; ch++ {
					parts = append(parts, string(ch))
				}
			}
		case syntax.OpAlternate:
			for _, a := range s.Sub {
				if a.Op == syntax.OpLiteral {
					parts = append(parts, string(a.Rune))
				} else if a.Op == syntax.OpEmptyMatch {
					parts = append(parts, "")
				} else if a.Op == syntax.OpCharClass {
					for i := 0; i+1 < len(a.Rune); i += 2 {
						for ch := a.Rune[i]; ch <= a.Rune[i+1] && ch-a.Rune[i] < 64; ch++ {
							parts = append(parts, string(ch))
						}
					}
				} else if a.Op == syntax.OpConcat {
					parts = append(parts, expandConcat(a)...)
				}
			}
		case syntax.OpQuest:
			parts = []string{""}
			if len(s.Sub) == 1 {
				sub := &syntax.Regexp{Op: syntax.OpConcat, Sub: []*syntax.Regexp{s.Sub[0]}}
				parts = append(parts, expandConcat(sub)...)
			}
		case syntax.OpCapture:
			sub := &syntax.Regexp{Op: syntax.OpConcat, Sub: s.Sub}
			parts = expandConcat(sub)
		case syntax.OpBeginText, syntax.OpEndText, syntax.OpBeginLine, syntax.OpEndLine, syntax.OpEmptyMatch:
			parts = []string{""}
		default:
			parts = []string{"\x00"}
		}
		var next []string
		for _, o := range outs {
			for _, p := range parts {
				next = append(next, o+p)
			}
		}
		outs = next
	}
	return outs
}

func isObj(c *Ctx, e ast.Expr, obj types.Object) bool {
	id, ok := e.(*ast.Ident)
	return ok && obj != nil && c.Zygo.TypesInfo.ObjectOf(id) == obj
}

// checkSignContext: C06-SIGN. A `-` written directly after a binary operator
// starts a negative literal only if the lexer's sign-context set contains the
// operator's last rune; the set and the operator table must agree, otherwise
// `a*-1` and `a * -1` parse differently for that operator.
func (c *Ctx) checkSignContext(regs []opReg) {
	fd := c.funcDecl("canStartSignedNumberAfter")
	if fd == nil {
		c.undecided("C06-SIGN", "canStartSignedNumberAfter", "anchor", token.NoPos, "the lexer's sign-context predicate was not found")
		return
	}
	set := map[rune]bool{}
	ast.Inspect(fd.Body, func(n ast.Node) bool {
		cc, ok := n.(*ast.CaseClause)
		if !ok {
			return true
		}
		returnsTrue := false
		for _, st := range cc.Body {
			if rs, ok := st.(*ast.ReturnStmt); ok && len(rs.Results) == 1 {
				if tv := c.Zygo.TypesInfo.Types[rs.Results[0]]; tv.Value != nil && tv.Value.Kind() == constant.Bool && constant.BoolVal(tv.Value) {
					returnsTrue = true
				}
			}
		}
		if !returnsTrue {
			return true
		}
		for _, e := range cc.List {
			if tv := c.Zygo.TypesInfo.Types[e]; tv.Value != nil && tv.Value.Kind() == constant.Int {
				if v, ok := constant.Int64Val(tv.Value); ok {
					set[rune(v)] = true
				}
			}
		}
		return true
	})
	if len(set) < 5 {
		c.undecided("C06-SIGN", "canStartSignedNumberAfter", "case list", fd.Pos(), fmt.Sprintf("only %d runes found in the sign-context set; the predicate is no longer a switch over rune constants", len(set)))
		return
	}
	n := 0
	for _, r := range regs {
		if r.ctor == "PostfixAssign" || r.ctor == "Prefix" || r.op == "." {
			continue // nothing is written to the right of a postfix operator; field access takes a name
		}
		rs := []rune(r.op)
		last := rs[len(rs)-1]
		if !strings.ContainsRune("+-*/<>=!&|:%^~", last) {
			continue // word operators are separated from a literal by white space
		}
		n++
		c.check(set[last], "C06-SIGN", "canStartSignedNumberAfter", "after operator "+r.op, r.pos,
			"a minus sign directly after this operator starts a negative literal, as it does after white space",
			fmt.Sprintf("the lexer does not treat %q as a rune after which `-` starts a number: `a%s-1` is lexed as two operators while `a %s -1` is not, so the two spellings of one expression parse differently", string(last), r.op, r.op))
	}
	if n < 12 {
		c.undecided("C06-SIGN", "canStartSignedNumberAfter", "operators", fd.Pos(), fmt.Sprintf("only %d binary operator spellings checked", n))
	}
	c.checkPrefixSignContext("C06-SIGN")
}

// checkOperandStackEnds: C06-STACK. Every site that pushes, pops or reads the
// top of Pratt.CnodeStack must use the same end of the slice.
func (c *Ctx) checkOperandStackEnds() {
	fld := c.field("Pratt", "CnodeStack")
	if fld == nil {
		c.undecided("C06-STACK", "Pratt", "CnodeStack", token.NoPos, "field not found")
		return
	}
	info := c.Zygo.TypesInfo
	isStack := func(e ast.Expr) bool {
		sel, ok := e.(*ast.SelectorExpr)
		return ok && info.Uses[sel.Sel] == types.Object(fld)
	}
	isLenMinus1 := func(e ast.Expr) bool {
		be, ok := e.(*ast.BinaryExpr)
		if !ok || be.Op != token.SUB {
			return false
		}
		if tv := info.Types[be.Y]; tv.Value == nil || tv.Value.String() != "1" {
			return false
		}
		call, ok := be.X.(*ast.CallExpr)
		if !ok || len(call.Args) != 1 {
			return false
		}
		id, ok := call.Fun.(*ast.Ident)
		return ok && id.Name == "len" && isStack(call.Args[0])
	}
	isConst := func(e ast.Expr, want string) bool {
		tv := info.Types[e]
		return tv.Value != nil && tv.Value.String() == want
	}
	type site struct {
		end  string
		what string
		pos  token.Pos
		fn   string
	}
	var sites []site
	for _, f := range c.Zygo.Syntax {
		for _, d := range f.Decls {
			fd, ok := d.(*ast.FuncDecl)
			if !ok || fd.Body == nil {
				continue
			}
			name := declName(fd)
			ast.Inspect(fd.Body, func(n ast.Node) bool {
				switch x := n.(type) {
				case *ast.IndexExpr:
					if isStack(x.X) {
						switch {
						case isConst(x.Index, "0"):
							sites = append(sites, site{"head", "reads/writes slot 0", x.Pos(), name})
						case isLenMinus1(x.Index):
							sites = append(sites, site{"tail", "reads/writes the last slot", x.Pos(), name})
						}
					}
				case *ast.SliceExpr:
					if isStack(x.X) {
						switch {
						case x.Low != nil && isConst(x.Low, "1") && x.High == nil:
							sites = append(sites, site{"head", "pops slot 0", x.Pos(), name})
						case x.Low == nil && x.High != nil && isLenMinus1(x.High):
							sites = append(sites, site{"tail", "pops the last slot", x.Pos(), name})
						}
					}
				case *ast.CallExpr:
					if id, ok := x.Fun.(*ast.Ident); ok && id.Name == "append" && len(x.Args) >= 2 {
						if isStack(x.Args[0]) {
							sites = append(sites, site{"tail", "appends (pushes at the end)", x.Pos(), name})
						} else if x.Ellipsis.IsValid() && isStack(x.Args[len(x.Args)-1]) {
							sites = append(sites, site{"head", "prepends (pushes at slot 0)", x.Pos(), name})
						}
					}
				}
				return true
			})
		}
	}
	if len(sites) < 4 {
		c.undecided("C06-STACK", "Pratt", "CnodeStack sites", token.NoPos, fmt.Sprintf("only %d push/pop/top sites of the operand stack recognised", len(sites)))
		return
	}
	count := map[string]int{}
	for _, s := range sites {
		count[s.end]++
	}
	major := "head"
	if count["tail"] > count["head"] {
		major = "tail"
	}
	for _, s := range sites {
		c.check(s.end == major, "C06-STACK", s.fn, s.what, s.pos,
			"uses the "+major+" of the slice as the top of the operand stack, like every other site",
			fmt.Sprintf("this site %s while %d other sites use the %s of the slice as the top of the stack: the operator reads an outer operator's token instead of its own operand", s.what, count[major], major))
	}
}

// checkSelectorReparse: C06-SEL. An index selector a[...] is re-parsed as an
// infix expression unless it is too short to be one. One token cannot be an
// expression; two can (a[i++], a[not x], a[idx[0]]), so the shortcut that
// returns the raw tokens must be limited to at most one token.
func (c *Ctx) checkSelectorReparse() {
	fd := c.funcDecl("normalizeArraySelector")
	if fd == nil {
		c.undecided("C06-SEL", "normalizeArraySelector", "anchor", token.NoPos, "function not found")
		return
	}
	info := c.Zygo.TypesInfo
	found := 0
	ast.Inspect(fd.Body, func(n ast.Node) bool {
		is, ok := n.(*ast.IfStmt)
		if !ok {
			return true
		}
		be, ok := is.Cond.(*ast.BinaryExpr)
		if !ok {
			return true
		}
		call, ok := be.X.(*ast.CallExpr)
		if !ok {
			return true
		}
		id, ok := call.Fun.(*ast.Ident)
		if !ok || id.Name != "len" || len(call.Args) != 1 {
			return true
		}
		tv := info.Types[be.Y]
		if tv.Value == nil {
			return true
		}
		k, exact := constant.Int64Val(tv.Value)
		if !exact {
			return true
		}
		// the branch must return without calling the selector parser
		returnsRaw := false
		for _, st := range is.Body.List {
			if _, ok := st.(*ast.ReturnStmt); ok {
				returnsRaw = true
			}
		}
		reparses := false
		ast.Inspect(is.Body, func(m ast.Node) bool {
			if c2, ok := m.(*ast.CallExpr); ok {
				if id2, ok := c2.Fun.(*ast.Ident); ok && strings.HasPrefix(id2.Name, "parse") {
					reparses = true
				}
			}
			return true
		})
		if !returnsRaw || reparses {
			return true
		}
		var maxLen int64 = -1
		switch be.Op {
		case token.LEQ:
			maxLen = k
		case token.LSS:
			maxLen = k - 1
		case token.EQL:
			maxLen = k
		default:
			return true
		}
		found++
		c.check(maxLen <= 1, "C06-SEL", "normalizeArraySelector", "only selectors of at most one token skip the re-parse", is.Pos(),
			"the raw tokens are returned only for a selector of at most one token",
			fmt.Sprintf("selectors of up to %d tokens are returned without being re-parsed as an infix expression: a two-token selector such as a[i++], a[not x] or a[idx[0]] is indexed with its raw tokens", maxLen))
		return true
	})
	if found == 0 {
		c.undecided("C06-SEL", "normalizeArraySelector", "shortcut", fd.Pos(), "no length-guarded shortcut found; rule needs review")
	}
}

// checkPrefixSignContext: the reader's prefix operators (% ^ ~ ~@) are followed
// directly by their operand. A minus sign written there starts the operand
// (~-1 is (unquote -1)); the lexer decides that from the rune before the sign,
// so every rune that ends a prefix operator has to be in the sign-context set.
// The prefix runes are taken from the lexer itself: the rune cases (and rune
// comparisons) of LexNextRune whose code emits a prefix-operator token.
func (c *Ctx) checkPrefixSignContext(rule string) {
	fd := c.funcDecl("canStartSignedNumberAfter")
	lx := c.funcDecl("Lexer.LexNextRune")
	if fd == nil || lx == nil {
		c.undecided(rule, "canStartSignedNumberAfter", "anchor", token.NoPos, "the lexer's sign-context predicate or its rune dispatcher was not found")
		return
	}
	set := map[rune]bool{}
	ast.Inspect(fd.Body, func(n ast.Node) bool {
		cc, ok := n.(*ast.CaseClause)
		if !ok {
			return true
		}
		for _, e := range cc.List {
			if tv := c.Zygo.TypesInfo.Types[e]; tv.Value != nil && tv.Value.Kind() == constant.Int {
				if v, ok := constant.Int64Val(tv.Value); ok {
					set[rune(v)] = true
				}
			}
		}
		return true
	})
	prefixTok := map[string]bool{"TokenQuote": true, "TokenCaret": true, "TokenTilde": true, "TokenTildeAt": true, "LexerUnquote": true}
	mentions := func(stmts []ast.Stmt) string {
		found := ""
		for _, st := range stmts {
			ast.Inspect(st, func(n ast.Node) bool {
				// do not look into nested case clauses or ifs: the rune must be the one that emits the token
				if id, ok := n.(*ast.Ident); ok && prefixTok[id.Name] && found == "" {
					found = id.Name
				}
				return true
			})
		}
		return found
	}
	isRune := func(e ast.Expr) (rune, bool) {
		tv := c.Zygo.TypesInfo.Types[e]
		if tv.Value == nil || tv.Value.Kind() != constant.Int {
			return 0, false
		}
		if bl, ok := e.(*ast.BasicLit); !ok || bl.Kind != token.CHAR {
			return 0, false
		}
		v, _ := constant.Int64Val(tv.Value)
		return rune(v), true
	}
	prefix := map[rune]string{}
	ast.Inspect(lx.Body, func(n ast.Node) bool {
		switch x := n.(type) {
		case *ast.CaseClause:
			tok := ""
			for _, e := range x.List {
				if r, ok := isRune(e); ok {
					if tok == "" {
						tok = mentions(x.Body)
					}
					if tok != "" {
						prefix[r] = tok
					}
				}
			}
		case *ast.IfStmt:
			if be, ok := x.Cond.(*ast.BinaryExpr); ok && be.Op == token.EQL {
				if r, ok := isRune(be.Y); ok {
					if tok := mentions(x.Body.List); tok != "" {
						prefix[r] = tok
					}
				}
			}
		}
		return true
	})
	if len(prefix) < 4 {
		c.undecided(rule, "Lexer.LexNextRune", "prefix operator runes", lx.Pos(), fmt.Sprintf("only %d runes that emit a prefix-operator token found (4 confirmed by reading: %% ^ ~ @)", len(prefix)))
		return
	}
	var rs []rune
	for r := range prefix {
		rs = append(rs, r)
	}
	sort.Slice(rs, func(i, j int) bool { return rs[i] < rs[j] })
	for _, r := range rs {
		c.check(set[r], rule, "canStartSignedNumberAfter", "after prefix operator "+string(r), fd.Pos(),
			"a minus sign directly after this prefix operator starts the operand",
			fmt.Sprintf("the lexer does not treat %q (which emits %s) as a rune after which `-` starts a number: in %s-1 the minus is lexed as the operator symbol, the prefix operator wraps the function - and 1 stays behind as a separate element", string(r), prefix[r], string(r)))
	}
}

// checkInfixSignFusion: C06-INF. The expression parser fuses a + or - token with
// a following Inf into one signed literal (so that "- Inf" reads as -Inf in a
// prefix form). Inside an infix expression that must not happen after an
// operand: {x = 5 - Inf} subtracts. If the fusion exists in ParseExpression,
// ParseInfix has to take a sign that follows an operand itself: a branch that
// compares the peeked token's text with "-" and "+", consumes the token and
// appends the operator symbol, without calling ParseExpression.
func (c *Ctx) checkInfixSignFusion(rule string) {
	pe := c.mustFn(rule, "Parser.ParseExpression")
	pi := c.mustFn(rule, "Parser.ParseInfix")
	mk := c.fn("Zlisp.MakeSymbol")
	get := c.fn("Lexer.GetNextToken")
	if pe == nil || pi == nil || mk == nil || get == nil {
		return
	}
	signCmp := func(f *ssa.Function) map[string][]*ssa.BinOp {
		out := map[string][]*ssa.BinOp{}
		eachInstr(f, func(b *ssa.BasicBlock, i int, in ssa.Instruction) {
			bo, ok := in.(*ssa.BinOp)
			if !ok || bo.Op != token.EQL {
				return
			}
			for _, v := range []ssa.Value{bo.X, bo.Y} {
				if k, ok := v.(*ssa.Const); ok && k.Value != nil && k.Value.Kind() == constant.String {
					s := constant.StringVal(k.Value)
					if s == "-" || s == "+" {
						out[s] = append(out[s], bo)
					}
				}
			}
		})
		return out
	}
	// does ParseExpression fuse? a sign comparison followed by a float parse
	fuses := false
	cmpE := signCmp(pe)
	if len(cmpE["-"]) > 0 {
		eachInstr(pe, func(b *ssa.BasicBlock, i int, in ssa.Instruction) {
			if call, ok := in.(*ssa.Call); ok {
				if g := call.Call.StaticCallee(); g != nil && fnPkgPath(g) == "strconv" && g.Name() == "ParseFloat" {
					for _, bo := range cmpE["-"] {
						if bo.Block().Dominates(b) {
							fuses = true
						}
					}
				}
			}
		})
	}
	if !fuses {
		c.ok(rule, "Parser.ParseExpression", "sign fused with Inf", pe.Pos(), "the expression parser does not fuse a sign token with a following Inf: nothing to keep out of infix expressions")
		return
	}
	cmpI := signCmp(pi)
	handled := false
	var at token.Pos
	if len(cmpI["-"]) > 0 && len(cmpI["+"]) > 0 {
		for _, b := range pi.Blocks {
			// a block under the comparisons that consumes the token and appends the symbol, and does not parse an expression
			dom := false
			for _, bo := range cmpI["-"] {
				if bo.Block().Dominates(b) && bo.Block() != b {
					dom = true
				}
			}
			if !dom {
				continue
			}
			takes, makes, parses := false, false, false
			for _, in := range b.Instrs {
				if ci, ok := in.(ssa.CallInstruction); ok {
					switch ci.Common().StaticCallee() {
					case get:
						takes = true
					case mk:
						makes = true
					case pe:
						parses = true
					}
				}
			}
			if takes && makes && !parses {
				handled = true
				at = b.Instrs[0].Pos()
			}
		}
	}
	c.check(handled, rule, "Parser.ParseInfix", "a sign after an operand stays an operator", orPos(at, pi.Pos()),
		"ParseInfix takes a + or - that follows an operand itself and appends the operator symbol; ParseExpression, which would fuse it with a following Inf, is not asked",
		"ParseExpression fuses a + or - token with a following Inf into a signed literal, and ParseInfix hands every token to it: in {x = 5 - Inf} the operator never reaches the precedence parser, x is set to 5 and -Inf becomes a statement of its own")
}

// checkTrailingColonKept: C06-COLON. The lexer glues a ':' onto the pending atom
// and DecodeAtom sets it aside again; only its symbol arm gives the colon back
// (key: becomes a symbol-colon token). For every other kind of atom (a hex
// literal, a dotted path, a float) the colon is the slice colon of a[i:j] and
// must still reach the parser: a[0x1:] is a slice, not an index. The routine
// that turns the buffer into tokens has to emit the colon token itself when
// the atom ended in ':' and the decoded token is not the symbol-colon.
func (c *Ctx) checkTrailingColonKept(rule string) {
	dec := c.mustFn(rule, "Lexer.DecodeAtom")
	mkTok := c.mustFn(rule, "Lexer.Token")
	if dec == nil || mkTok == nil {
		return
	}
	var colonOp int64 = -1
	if k, ok := c.Zygo.Types.Scope().Lookup("TokenColonOperator").(*types.Const); ok {
		colonOp, _ = constInt64(k)
	}
	var symColon int64 = -1
	if k, ok := c.Zygo.Types.Scope().Lookup("TokenSymbolColon").(*types.Const); ok {
		symColon, _ = constInt64(k)
	}
	isColonByteCmp := func(in ssa.Instruction) bool {
		bo, ok := in.(*ssa.BinOp)
		if !ok || (bo.Op != token.EQL && bo.Op != token.NEQ) {
			return false
		}
		k, ok := constIntOf(bo.Y)
		return ok && k == ':'
	}
	strips := false
	eachInstr(dec, func(b *ssa.BasicBlock, i int, in ssa.Instruction) {
		if isColonByteCmp(in) {
			strips = true
		}
	})
	if !strips {
		c.ok(rule, "Lexer.DecodeAtom", "trailing colon", dec.Pos(), "DecodeAtom does not set a trailing colon aside")
		return
	}
	callers := c.callersOf(dec)
	n := 0
	var fs []*ssa.Function
	for g := range callers {
		fs = append(fs, g)
	}
	sort.Slice(fs, func(i, j int) bool { return fnName(fs[i]) < fnName(fs[j]) })
	for _, g := range fs {
		n++
		gives := false
		var cmpBlocks []*ssa.BasicBlock
		eachInstr(g, func(b *ssa.BasicBlock, i int, in ssa.Instruction) {
			if isColonByteCmp(in) {
				cmpBlocks = append(cmpBlocks, b)
			}
		})
		eachInstr(g, func(b *ssa.BasicBlock, i int, in ssa.Instruction) {
			call, ok := in.(*ssa.Call)
			if !ok || call.Call.StaticCallee() != mkTok || len(call.Call.Args) < 2 {
				return
			}
			if k, ok := constIntOf(call.Call.Args[1]); !ok || k != colonOp {
				return
			}
			// ... on the side where the decoded token is not the symbol-colon
			notSymColon := guardedBy(b, func(cond ssa.Value) (bool, bool) {
				bo, ok := cond.(*ssa.BinOp)
				if !ok || (bo.Op != token.EQL && bo.Op != token.NEQ) {
					return false, false
				}
				k, ok := constIntOf(bo.Y)
				if !ok || k != symColon {
					return false, false
				}
				return true, bo.Op == token.NEQ
			})
			for _, cb := range cmpBlocks {
				if cb.Dominates(b) && cb != b && notSymColon {
					gives = true
				}
			}
		})
		c.check(gives, rule, fnName(g), "colon set aside by DecodeAtom is given back", callers[g][0].Pos(),
			"when the atom ended in ':' and the decoded token is not a symbol-colon, the colon operator token is emitted after it",
			"DecodeAtom strips a trailing ':' from the atom and returns it only with a symbol; this caller emits the decoded token alone, so after a hex, octal, binary or float literal or a dotted path the slice colon vanishes: a[0x1:] is read as the index a[1] and a[h.lo:h.hi] as a field access")
	}
	if n == 0 {
		c.undecided(rule, "Lexer.DecodeAtom", "callers", dec.Pos(), "no caller of DecodeAtom found")
	}
}

// checkExponentSign: a + or - is glued into the pending atom (instead of ending it and becoming an
// operator) when the rune before it is e or E: the sign of an exponent, 1e-5. That is right only if
// the pending text without its last rune is a number; x.rate-1, 0x1e-1 or q[3].e-1 end in e too. The
// rule: in the lexer's rune dispatcher, every path from the e/E test to the block that writes the
// sign into the buffer passes the true side of a match of the pending text against the decimal or
// float pattern.
func (c *Ctx) checkExponentSign(rule string) {
	lx := c.mustFn(rule, "Lexer.LexNextRune")
	two := c.mustFn(rule, "Lexer.twoback")
	if lx == nil || two == nil {
		return
	}
	dec, flt := c.SZygo.Var("DecimalRegex"), c.SZygo.Var("FloatRegex")
	var isNumberMatch func(cond ssa.Value) bool
	isNumberMatch = func(cond ssa.Value) bool {
		call, ok := cond.(*ssa.Call)
		if !ok {
			return false
		}
		g := call.Call.StaticCallee()
		if g == nil || g.Name() != "MatchString" || fnPkgPath(g) != "regexp" || len(call.Call.Args) < 1 {
			return false
		}
		ld, ok := call.Call.Args[0].(*ssa.UnOp)
		if !ok {
			return false
		}
		gl, ok := ld.X.(*ssa.Global)
		return ok && (gl == dec || gl == flt)
	}
	plainMatch := isNumberMatch
	// a predicate that answers true only with a number match: every value it returns is the constant false
	// or the result of matching against the decimal / float pattern
	numberPredicate := func(g *ssa.Function) bool {
		if g == nil || fnPkgPath(g) != zygoPath || len(g.Blocks) == 0 || g.Signature.Results().Len() != 1 {
			return false
		}
		if b, ok := g.Signature.Results().At(0).Type().Underlying().(*types.Basic); !ok || b.Kind() != types.Bool {
			return false
		}
		var okVal func(v ssa.Value, depth int) bool
		okVal = func(v ssa.Value, depth int) bool {
			if depth > 6 {
				return false
			}
			if k, ok := v.(*ssa.Const); ok && k.Value != nil && k.Value.String() == "false" {
				return true
			}
			if plainMatch(v) {
				return true
			}
			if ph, ok := v.(*ssa.Phi); ok {
				for i, e := range ph.Edges {
					if k, ok := e.(*ssa.Const); ok && k.Value != nil && k.Value.String() == "true" {
						// `a || b`: the constant true arrives from the true side of a
						if i >= len(ph.Block().Preds) {
							return false
						}
						cond, t, _ := condBranch(ph.Block().Preds[i])
						if cond == nil || !plainMatch(cond) || t != ph.Block() {
							return false
						}
						continue
					}
					if !okVal(e, depth+1) {
						return false
					}
				}
				return true
			}
			return false
		}
		for _, r := range returnsOf(g) {
			if !okVal(r.Results[0], 0) {
				return false
			}
		}
		return true
	}
	isNumberMatch = func(cond ssa.Value) bool {
		if plainMatch(cond) {
			return true
		}
		if call, ok := cond.(*ssa.Call); ok {
			return numberPredicate(call.Call.StaticCallee())
		}
		return false
	}
	// blocks entered when the rune two back is e / E
	var eBlocks []*ssa.BasicBlock
	// (the test may live in a predicate helper: then the search starts at the branch on the helper's answer)
	eachInstr(lx, func(b *ssa.BasicBlock, i int, in ssa.Instruction) {
		call, ok := in.(*ssa.Call)
		if !ok {
			return
		}
		g := call.Call.StaticCallee()
		if g == nil || g == two || fnPkgPath(g) != zygoPath || len(callsOf(g, two)) == 0 || !numberPredicate(g) {
			return
		}
		if call.Referrers() == nil {
			return
		}
		for _, r := range *call.Referrers() {
			if iff, ok := r.(*ssa.If); ok {
				eBlocks = append(eBlocks, iff.Block())
			}
		}
	})
	for _, site := range callsOf(lx, two) {
		v, ok := site.(ssa.Value)
		if !ok || v.Referrers() == nil {
			continue
		}
		for _, r := range *v.Referrers() {
			bo, ok := r.(*ssa.BinOp)
			if !ok || bo.Op != token.EQL {
				continue
			}
			k, ok := constIntOf(bo.Y)
			if !ok || (k != 'e' && k != 'E') || bo.Referrers() == nil {
				continue
			}
			for _, r2 := range *bo.Referrers() {
				if iff, ok := r2.(*ssa.If); ok {
					eBlocks = append(eBlocks, iff.Block().Succs[0])
				}
			}
		}
	}
	if len(eBlocks) == 0 {
		c.undecided(rule, "Lexer.LexNextRune", "exponent test", lx.Pos(), "no comparison of the look-back rune with e / E found")
		return
	}
	// the block(s) that write the current rune into the atom buffer
	rParam := lx.Params[len(lx.Params)-1]
	glue := map[*ssa.BasicBlock]bool{}
	eachInstr(lx, func(b *ssa.BasicBlock, i int, in ssa.Instruction) {
		call, ok := in.(*ssa.Call)
		if !ok {
			return
		}
		g := call.Call.StaticCallee()
		if g == nil || g.Name() != "WriteRune" || len(call.Call.Args) < 2 || call.Call.Args[1] != ssa.Value(rParam) {
			return
		}
		glue[b] = true
	})
	if len(glue) == 0 {
		c.undecided(rule, "Lexer.LexNextRune", "write of the rune into the atom", lx.Pos(), "no WriteRune of the current rune found")
		return
	}
	// reachability from the e-blocks, not taking the true side of a number match and not re-entering the dispatcher's loop head
	seen := map[*ssa.BasicBlock]bool{}
	stack := append([]*ssa.BasicBlock{}, eBlocks...)
	var hit *ssa.BasicBlock
	for len(stack) > 0 && hit == nil {
		b := stack[len(stack)-1]
		stack = stack[:len(stack)-1]
		if seen[b] {
			continue
		}
		seen[b] = true
		if glue[b] {
			hit = b
			break
		}
		cond, t, e := condBranch(b)
		if cond != nil && isNumberMatch(cond) {
			_ = t
			stack = append(stack, e)
			continue
		}
		// leaving the case for the operator path (the pending atom is dumped) is not a way to glue the sign
		dumps := false
		for _, in := range b.Instrs {
			if ci, ok := in.(ssa.CallInstruction); ok && ci.Common().StaticCallee() != nil && ci.Common().StaticCallee().Name() == "dumpBuffer" {
				dumps = true
			}
		}
		if dumps {
			continue
		}
		stack = append(stack, b.Succs...)
	}
	pos := lx.Pos()
	if hit != nil && len(hit.Instrs) > 0 {
		pos = hit.Instrs[0].Pos()
	}
	c.check(hit == nil, rule, "Lexer.LexNextRune", "exponent sign only after a number", pos,
		"after e / E the sign is written into the pending atom only on the true side of a match of that atom against the decimal or float pattern",
		"the sign after an e / E can be glued into the pending atom on a path that never matched the atom against the number patterns: an operand that merely ends in e (a hex literal 0x1e, a field selector .e, a dotted name) swallows a following + or -, so {0x1e-1} or {q[3].e-1} is an unrecognized atom instead of a subtraction")
}
