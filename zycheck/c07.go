package main

// C07 — numbers compare and compute exactly as specified.

import (
	"fmt"
	"go/ast"
	"go/constant"
	"go/token"
	"go/types"
	"sort"
	"strings"

	"golang.org/x/tools/go/ssa"
)

// isSignumLike: one numeric parameter, used only in comparisons with the constant 0.
func isSignumLike(f *ssa.Function) bool {
	if f == nil || len(f.Params) != 1 || len(f.Blocks) == 0 {
		return false
	}
	p := f.Params[0]
	b, ok := p.Type().Underlying().(*types.Basic)
	if !ok || b.Info()&types.IsNumeric == 0 {
		return false
	}
	n := 0
	for _, r := range nonDebugRefs(p) {
		bo, ok := r.(*ssa.BinOp)
		if !ok {
			return false
		}
		switch bo.Op {
		case token.LSS, token.GTR, token.LEQ, token.GEQ, token.EQL, token.NEQ:
		default:
			return false
		}
		k, ok := bo.Y.(*ssa.Const)
		if !ok || k.Value == nil || (k.Value.String() != "0") {
			return false
		}
		n++
	}
	return n > 0
}

func intBits(t types.Type) (bits int, unsigned bool, isInt bool) {
	b, ok := t.Underlying().(*types.Basic)
	if !ok || b.Info()&types.IsInteger == 0 {
		return 0, false, false
	}
	unsigned = b.Info()&types.IsUnsigned != 0
	switch b.Kind() {
	case types.Int8, types.Uint8:
		return 8, unsigned, true
	case types.Int16, types.Uint16:
		return 16, unsigned, true
	case types.Int32, types.Uint32:
		return 32, unsigned, true
	}
	return 64, unsigned, true
}

// narrowOrigin: v cannot be near the 64-bit limits by type: widened from a
// type of at most 32 bits, or the result of len/cap.
func narrowOrigin(v ssa.Value) bool {
	switch x := v.(type) {
	case *ssa.Convert:
		if bits, _, ok := intBits(x.X.Type()); ok && bits <= 32 {
			return true
		}
		return narrowOrigin(x.X)
	case *ssa.Call:
		if bi, ok := x.Call.Value.(*ssa.Builtin); ok && (bi.Name() == "len" || bi.Name() == "cap") {
			return true
		}
	case *ssa.Const:
		return true
	}
	return false
}

func stripConvert(v ssa.Value) ssa.Value {
	for {
		c, ok := v.(*ssa.Convert)
		if !ok {
			return v
		}
		v = c.X
	}
}

func (c *Ctx) filesFuncs(files ...string) []*ssa.Function {
	want := map[string]bool{}
	for _, f := range files {
		want[f] = true
	}
	var out []*ssa.Function
	for _, f := range c.zygoFuncs() {
		if want[c.fileOf(f)] {
			out = append(out, f)
		}
	}
	return out
}

func checkC07(c *Ctx) {
	c.explainf("C07 decides the absence of the arithmetic shapes that are wrong at the 64-bit boundaries and the NaN discipline in the comparison and numeric-tower code: no three-way result is taken from the sign of a difference of two 64-bit integers (unless both are widened from at most 32 bits or are lengths), none from an unsigned difference; wherever a float operand is compared, an IsNaN test of that operand dominates the sign computation; the operator table maps each comparison name to the matching predicate on the three-way result and codes above 1 to false except for !=; the type-pair matrix of the numeric comparisons is symmetric; mixed int/float arms convert to float64; every integer division or modulo with a non-constant divisor runs only behind the builtin recover barrier. It does not decide numerical results.")
	c.checkSignumOrdered("C07-SIGN")
	scope := c.filesFuncs("comparisons.go", "numerictower.go")

	// ---- C07-SOD / C07-UNS
	nSub := 0
	for _, f := range scope {
		eachInstr(f, func(b *ssa.BasicBlock, i int, in ssa.Instruction) {
			// (a) signum-like call on a difference
			var diff *ssa.BinOp
			var how string
			if call, ok := in.(*ssa.Call); ok {
				if g := call.Call.StaticCallee(); g != nil && isSignumLike(g) && len(call.Call.Args) == 1 {
					if bo, ok := stripConvert(call.Call.Args[0]).(*ssa.BinOp); ok && bo.Op == token.SUB {
						diff, how = bo, "sign of a difference via "+fnName(g)
					}
				}
			}
			// (b) direct comparison of a difference with 0
			if cmp, ok := in.(*ssa.BinOp); ok {
				switch cmp.Op {
				case token.LSS, token.GTR, token.LEQ, token.GEQ:
					if k, ok := cmp.Y.(*ssa.Const); ok && k.Value != nil && k.Value.String() == "0" {
						if bo, ok := stripConvert(cmp.X).(*ssa.BinOp); ok && bo.Op == token.SUB {
							diff, how = bo, "difference compared with 0"
						}
					}
				}
			}
			if diff == nil {
				return
			}
			bits, uns, isInt := intBits(diff.X.Type())
			if !isInt {
				return // float difference: exact sign except for NaN (C07-NAN)
			}
			nSub++
			construct := how + ": " + typeShort(diff.X.Type())
			switch {
			case uns:
				c.bad("C07-UNS", fnName(f), construct, in.Pos(), "the sign of an unsigned difference is taken: a-b wraps, so a<b is reported as a>b (and the <0 test is always false)")
			case bits == 64 && !(narrowOrigin(diff.X) && narrowOrigin(diff.Y)):
				c.bad("C07-SOD", fnName(f), construct, in.Pos(), "three-way comparison from the sign of a difference of two 64-bit integers: the subtraction overflows next to the int64 limits and the sign is wrong")
			default:
				c.ok("C07-SOD", fnName(f), construct, in.Pos(), "operands cannot be near the 64-bit limits by type (widened from <=32 bits, or lengths)")
			}
		})
	}
	if nSub == 0 {
		c.ok("C07-SOD", "comparisons.go", "no sign-of-difference on integers", token.NoPos, "no integer three-way result is derived from a subtraction").Trivial = true
	}

	// ---- C07-NAN
	isnan := func(call *ssa.Call) bool {
		g := call.Call.StaticCallee()
		return g != nil && fnPkgPath(g) == "math" && g.Name() == "IsNaN"
	}
	floatVal := c.mustField("C07-NAN", "SexpFloat", "Val")
	nNaN := 0
	for _, f := range scope {
		var nanChecks []*ssa.Call
		eachInstr(f, func(b *ssa.BasicBlock, i int, in ssa.Instruction) {
			if call, ok := in.(*ssa.Call); ok && isnan(call) {
				nanChecks = append(nanChecks, call)
			}
		})
		eachInstr(f, func(b *ssa.BasicBlock, i int, in ssa.Instruction) {
			// any comparison-like use of a float difference or direct float ordering comparison
			var operands []ssa.Value
			if call, ok := in.(*ssa.Call); ok {
				if g := call.Call.StaticCallee(); g != nil && isSignumLike(g) && len(call.Call.Args) == 1 {
					if bo, ok := call.Call.Args[0].(*ssa.BinOp); ok && bo.Op == token.SUB {
						if bt, ok := bo.X.Type().Underlying().(*types.Basic); ok && bt.Info()&types.IsFloat != 0 {
							operands = []ssa.Value{bo.X, bo.Y}
						}
					}
				}
			}
			if len(operands) == 0 {
				return
			}
			for _, op := range operands {
				base, ok := loadOfField(op, floatVal)
				if !ok {
					continue // converted from an integer: never NaN
				}
				nNaN++
				guarded := false
				for _, nc := range nanChecks {
					if b2, ok := loadOfField(nc.Call.Args[0], floatVal); ok && b2 == base && dominatesInstr(nc, in) {
						// the test must decide a branch
						for _, r := range nonDebugRefs(nc) {
							if _, ok := r.(*ssa.If); ok {
								guarded = true
							}
						}
					}
				}
				c.check(guarded, "C07-NAN", fnName(f), "float operand "+valueOrigin(base, 0)+" of "+calleeName(in.(*ssa.Call).Common()), in.Pos(),
					"an IsNaN test of this operand dominates the sign computation",
					"a float operand reaches the sign-of-difference without an IsNaN test: NaN compares as equal (NaN-x is NaN, whose sign is reported as 0)")
			}
		})
	}
	if nNaN < 4 {
		c.undecided("C07-NAN", "comparisons.go", "float operands", token.NoPos, fmt.Sprintf("only %d float operands of comparisons found (6 confirmed by reading)", nNaN))
	}

	// ---- C07-CODE: the three-way code of a comparison that can signal NaN (2) is not negated or scaled
	c.checkCompareCode()

	// ---- C07-EXACT: an integer quotient is the result only when the remainder is zero
	c.checkExactDivision(scope)

	// ---- C07-UNS: an unsigned value does not pass through a signed integer on its way to float64
	c.checkUnsignedToFloat(scope)

	// ---- C07-DIV0: the float quotient of two integers is produced only after the integer modulo ran
	c.checkFloatQuotientAfterModulo(scope)

	// ---- C07-ID: comparison never short-cuts on object identity (NaN is unequal to itself)
	c.checkNoIdentityShortcut()

	// ---- C07-WRAP: the places where a 64-bit result could silently become another number
	c.checkIntegerResultWidth(scope)

	// ---- C07-OPS (AST)
	c.checkCompareOps()

	// ---- C07-ANTI (AST): numeric comparison matrix is symmetric
	c.checkCompareMatrix()

	// ---- C07-PROMO
	c.checkPromotion()

	// ---- C07-DIV
	br := c.newBR(c.entryRoots(true), c.tableCut("C01-BAR"))
	nDiv := 0
	for _, f := range c.zygoFuncs() {
		eachInstr(f, func(b *ssa.BasicBlock, i int, in ssa.Instruction) {
			bo, ok := in.(*ssa.BinOp)
			if !ok || (bo.Op != token.QUO && bo.Op != token.REM) {
				return
			}
			if _, _, isInt := intBits(bo.X.Type()); !isInt {
				return
			}
			if _, isConst := bo.Y.(*ssa.Const); isConst {
				return
			}
			nDiv++
			construct := "integer " + bo.Op.String() + " " + typeShort(bo.X.Type())
			if _, reach := br.full.reach[f]; !reach {
				c.ok("C07-DIV", fnName(f), construct, in.Pos(), "not reachable from the entry points")
				return
			}
			if !br.unprotected(f) {
				c.ok("C07-DIV", fnName(f), construct, in.Pos(), "reachable only through a builtin call made behind the recover barrier: division by zero comes back as an error")
				return
			}
			// zero test dominating
			guard := guardedBy(b, func(cond ssa.Value) (bool, bool) {
				cmp, ok := cond.(*ssa.BinOp)
				if !ok || (cmp.Op != token.EQL && cmp.Op != token.NEQ) {
					return false, false
				}
				if k, ok := cmp.Y.(*ssa.Const); ok && k.Value != nil && k.Value.String() == "0" && cmp.X == bo.Y {
					return true, cmp.Op == token.NEQ
				}
				return false, false
			})
			o := c.check(guard, "C07-DIV", fnName(f), construct, in.Pos(), "divisor tested non-zero",
				"integer division with a divisor that may be zero is reachable outside the recover barrier: it is a Go panic out of the library, not an error")
			if !guard {
				o.Path = br.unprot.pathTo(c, f)
			}
		})
	}
	c.note("integer_divisions", nDiv)
}

func typeShort(t types.Type) string {
	return types.TypeString(t, func(p *types.Package) string { return "" })
}

// tableCut: call sites tabled as protected for the barrier analysis (rule C01-BAR rows).
func (c *Ctx) tableCut(rule string) func(f *ssa.Function, in ssa.Instruction) bool {
	return func(f *ssa.Function, in ssa.Instruction) bool {
		if !c.isUserFunCall(in) {
			return false
		}
		// the same exemptions as C01 uses (tables/C01.tsv is not loaded for other properties):
		// Apply's direct call of a Go function value is reached unprotected only for Go macros.
		return fnName(f) == "Zlisp.Apply"
	}
}

// checkCompareOps: the operator switch inside CompareFunction.
func (c *Ctx) checkCompareOps() {
	fd := c.funcDecl("CompareFunction")
	if fd == nil {
		c.undecided("C07-OPS", "CompareFunction", "anchor", token.NoPos, "CompareFunction not found")
		return
	}
	want := map[string]token.Token{"<": token.LSS, ">": token.GTR, "<=": token.LEQ, ">=": token.GEQ, "==": token.EQL, "!=": token.NEQ}
	seen := map[string]bool{}
	nanGuard := false
	ast.Inspect(fd.Body, func(n ast.Node) bool {
		switch s := n.(type) {
		case *ast.IfStmt:
			// if res > 1 { if name == "!=" { true } ; false }
			if be, ok := s.Cond.(*ast.BinaryExpr); ok && be.Op == token.GTR {
				if id, ok := be.X.(*ast.Ident); ok && id.Name == "res" {
					if lit, ok := be.Y.(*ast.BasicLit); ok && lit.Value == "1" {
						// inside: a test name == "!=" returning true, and a final return false
						inner := types.ExprString
						_ = inner
						okTrue, okFalse := false, false
						ast.Inspect(s.Body, func(m ast.Node) bool {
							if is, ok := m.(*ast.IfStmt); ok {
								if b2, ok := is.Cond.(*ast.BinaryExpr); ok && b2.Op == token.EQL {
									if l2, ok := b2.Y.(*ast.BasicLit); ok && l2.Value == `"!="` {
										if retBool(is.Body) == "true" {
											okTrue = true
										}
									}
								}
								return false
							}
							return true
						})
						if len(s.Body.List) > 0 {
							if rs, ok := s.Body.List[len(s.Body.List)-1].(*ast.ReturnStmt); ok && boolOfReturn(rs) == "false" {
								okFalse = true
							}
						}
						nanGuard = okTrue && okFalse
					}
				}
			}
		case *ast.SwitchStmt:
			id, ok := s.Tag.(*ast.Ident)
			if !ok || id.Name != "name" {
				return true
			}
			for _, cl := range s.Body.List {
				cc := cl.(*ast.CaseClause)
				for _, e := range cc.List {
					lit, ok := e.(*ast.BasicLit)
					if !ok {
						continue
					}
					op := strings.Trim(lit.Value, `"`)
					wantTok, known := want[op]
					if !known {
						continue
					}
					seen[op] = true
					good := false
					if len(cc.Body) == 1 {
						if as, ok := cc.Body[0].(*ast.AssignStmt); ok && len(as.Rhs) == 1 {
							if be, ok := as.Rhs[0].(*ast.BinaryExpr); ok && be.Op == wantTok {
								x, okx := be.X.(*ast.Ident)
								y, oky := be.Y.(*ast.BasicLit)
								good = okx && oky && x.Name == "res" && y.Value == "0"
							}
						}
					}
					c.check(good, "C07-OPS", "CompareFunction", "operator "+op, cc.Pos(), "maps to `res "+op+" 0`", "comparison operator "+op+" is not computed as `res "+op+" 0` from the three-way result")
				}
			}
		}
		return true
	})
	var missing []string
	for op := range want {
		if !seen[op] {
			missing = append(missing, op)
		}
	}
	sort.Strings(missing)
	if len(missing) > 0 {
		c.bad("C07-OPS", "CompareFunction", "operator table", fd.Pos(), "no arm for operators "+strings.Join(missing, " "))
	}
	c.check(nanGuard, "C07-OPS", "CompareFunction", "unordered codes", fd.Pos(), "codes above 1 (NaN involved) give false for every operator except !=",
		"the NaN codes (res > 1) are not mapped to false / true-for-!= before the operator switch")
}

func retBool(b *ast.BlockStmt) string {
	if len(b.List) == 1 {
		if rs, ok := b.List[0].(*ast.ReturnStmt); ok {
			return boolOfReturn(rs)
		}
	}
	return ""
}

func boolOfReturn(rs *ast.ReturnStmt) string {
	if len(rs.Results) == 0 {
		return ""
	}
	res := ""
	ast.Inspect(rs.Results[0], func(n ast.Node) bool {
		if kv, ok := n.(*ast.KeyValueExpr); ok {
			if k, ok := kv.Key.(*ast.Ident); ok && k.Name == "Val" {
				if v, ok := kv.Value.(*ast.Ident); ok && (v.Name == "true" || v.Name == "false") {
					res = v.Name
				}
			}
		}
		return true
	})
	return res
}

// typeSwitchCases: the case types of the first type switch in fd whose subject is the named parameter.
func (c *Ctx) typeSwitchCases(fd *ast.FuncDecl, subject string) (map[string]*ast.CaseClause, bool) {
	out := map[string]*ast.CaseClause{}
	found := false
	ast.Inspect(fd.Body, func(n ast.Node) bool {
		ts, ok := n.(*ast.TypeSwitchStmt)
		if !ok || found {
			return !found
		}
		var x ast.Expr
		switch a := ts.Assign.(type) {
		case *ast.AssignStmt:
			x = a.Rhs[0].(*ast.TypeAssertExpr).X
		case *ast.ExprStmt:
			x = a.X.(*ast.TypeAssertExpr).X
		}
		if id, ok := x.(*ast.Ident); !ok || id.Name != subject {
			return true
		}
		found = true
		for _, cl := range ts.Body.List {
			cc := cl.(*ast.CaseClause)
			for _, e := range cc.List {
				out[types.ExprString(e)] = cc
			}
		}
		return false
	})
	return out, found
}

func (c *Ctx) checkCompareMatrix() {
	numeric := []string{"*SexpInt", "*SexpFloat", "*SexpChar", "*SexpUint64"}
	fnOf := map[string]string{"*SexpInt": "compareInt", "*SexpFloat": "compareFloat", "*SexpChar": "compareChar", "*SexpUint64": "compareUint64"}
	handles := map[string]map[string]bool{}
	for _, t := range numeric {
		fd := c.funcDecl(fnOf[t])
		if fd == nil {
			c.undecided("C07-ANTI", fnOf[t], "anchor", token.NoPos, "function not found")
			return
		}
		cases, ok := c.typeSwitchCases(fd, "expr")
		if !ok {
			c.undecided("C07-ANTI", fnOf[t], "type switch", fd.Pos(), "no type switch over the second operand found")
			return
		}
		handles[t] = map[string]bool{}
		for k := range cases {
			handles[t][k] = true
		}
	}
	// dispatch: Compare must route each numeric type to its function
	if fd := c.funcDecl("Zlisp.Compare"); fd != nil {
		cases, _ := c.typeSwitchCases(fd, "a")
		for _, t := range numeric {
			cc := cases[t]
			routed := false
			if cc != nil && len(cc.Body) == 1 {
				if rs, ok := cc.Body[0].(*ast.ReturnStmt); ok && len(rs.Results) == 1 {
					if call, ok := rs.Results[0].(*ast.CallExpr); ok {
						if id, ok := call.Fun.(*ast.Ident); ok && id.Name == fnOf[t] {
							routed = true
						}
					}
				}
			}
			c.check(routed, "C07-ANTI", "Zlisp.Compare", "dispatch "+t, fd.Pos(), "routed to "+fnOf[t], "Compare does not route "+t+" to "+fnOf[t])
		}
	}
	for _, a := range numeric {
		for _, b := range numeric {
			if a >= b {
				continue
			}
			ab, ba := handles[a][b], handles[b][a]
			c.check(ab == ba, "C07-ANTI", fnOf[a]+"/"+fnOf[b], "pair ("+a+","+b+")", token.NoPos,
				fmt.Sprintf("handled from both sides alike (%v)", ab),
				fmt.Sprintf("(%s,%s) handled=%v but (%s,%s) handled=%v: (< a b) and (> b a) disagree (one is an error)", a, b, ab, b, a, ba))
		}
	}
}

// checkPromotion: in NumericMatchX, every arm in which exactly one operand is
// a float calls NumericFloatDo; int×int arms call the integer routine.
func (c *Ctx) checkPromotion() {
	kind := map[string]string{"*SexpFloat": "float", "*SexpInt": "int", "*SexpUint64": "uint", "*SexpChar": "int"}
	fns := map[string]string{"NumericMatchFloat": "float", "NumericMatchInt": "int", "NumericMatchUint64": "uint", "NumericMatchChar": "int"}
	var names []string
	for n := range fns {
		names = append(names, n)
	}
	sort.Strings(names)
	for _, n := range names {
		fd := c.funcDecl(n)
		if fd == nil {
			c.undecided("C07-PROMO", n, "anchor", token.NoPos, "function not found")
			continue
		}
		cases, ok := c.typeSwitchCases(fd, "b")
		if !ok {
			c.undecided("C07-PROMO", n, "type switch", fd.Pos(), "no type switch over the second operand")
			continue
		}
		var ts []string
		for t := range cases {
			ts = append(ts, t)
		}
		sort.Strings(ts)
		for _, t := range ts {
			kb, known := kind[t]
			if !known {
				continue
			}
			cc := cases[t]
			ka := fns[n]
			wantFloat := ka == "float" || kb == "float"
			callsFloat, callsInt, callsUint := false, false, false
			// NumericMatchFloat converts in the arms and calls NumericFloatDo after the switch
			scope := ast.Node(cc)
			if n == "NumericMatchFloat" {
				scope = fd.Body
			}
			ast.Inspect(scope, func(m ast.Node) bool {
				if call, ok := m.(*ast.CallExpr); ok {
					if id, ok := call.Fun.(*ast.Ident); ok {
						switch id.Name {
						case "NumericFloatDo":
							callsFloat = true
						case "NumericIntDo":
							callsInt = true
						case "NumericUint64Do":
							callsUint = true
						}
					}
				}
				return true
			})
			good := false
			var detail string
			if wantFloat {
				good = callsFloat && !(n != "NumericMatchFloat" && (callsInt || callsUint))
				detail = "one operand is a float: must be computed by NumericFloatDo after converting the other with float64()"
				if good && n != "NumericMatchFloat" {
					// the converted operand is float64(a.Val)
					good = strings.Contains(nodeString(cc), "float64(a.Val)")
				}
				if good && n == "NumericMatchFloat" && kb != "float" {
					good = strings.Contains(nodeString(cc), "float64(tb.Val)")
				}
			} else {
				good = !callsFloat && (callsInt || callsUint)
				detail = "both operands are integers: must stay in the integer domain"
			}
			c.check(good, "C07-PROMO", n, "arm "+t, cc.Pos(), detail, "promotion rule broken: "+detail)
		}
	}
}

func nodeString(n ast.Node) string {
	var sb strings.Builder
	ast.Inspect(n, func(m ast.Node) bool {
		if e, ok := m.(ast.Expr); ok {
			if _, isCall := e.(*ast.CallExpr); isCall {
				sb.WriteString(types.ExprString(e))
				sb.WriteString(";")
			}
		}
		return true
	})
	return sb.String()
}

// nanCodeFuncs: zygo functions whose first result is an int three-way code
// that can be the NaN code 2 (returned as a constant, or passed on from
// another such function).
func (c *Ctx) nanCodeFuncs() map[*ssa.Function]bool {
	set := map[*ssa.Function]bool{}
	isCode := func(f *ssa.Function) bool {
		res := f.Signature.Results()
		if res.Len() < 1 {
			return false
		}
		b, ok := res.At(0).Type().Underlying().(*types.Basic)
		return ok && b.Kind() == types.Int
	}
	funcs := c.zygoFuncs()
	for changed := true; changed; {
		changed = false
		for _, f := range funcs {
			if set[f] || !isCode(f) {
				continue
			}
			for _, r := range returnsOf(f) {
				if len(r.Results) == 0 {
					continue
				}
				for _, leaf := range phiLeaves(r.Results[0]) {
					if k, ok := constIntOf(leaf); ok && k == 2 {
						set[f] = true
					}
					if g := codeSource(leaf); g != nil && set[g] {
						set[f] = true
					}
				}
			}
			if set[f] {
				changed = true
			}
		}
	}
	return set
}

// codeSource: v is the (first) result of a static call; returns the callee.
func codeSource(v ssa.Value) *ssa.Function {
	switch x := v.(type) {
	case *ssa.Extract:
		if x.Index == 0 {
			if call, ok := x.Tuple.(*ssa.Call); ok {
				return call.Call.StaticCallee()
			}
		}
	case *ssa.Call:
		return x.Call.StaticCallee()
	}
	return nil
}

func (c *Ctx) checkCompareCode() {
	nan := c.nanCodeFuncs()
	if len(nan) < 3 {
		c.undecided("C07-CODE", "comparisons.go", "NaN-signalling comparisons", token.NoPos, fmt.Sprintf("only %d functions found that can return the NaN code", len(nan)))
		return
	}
	c.note("nan_code_functions", len(nan))
	n := 0
	for _, f := range c.zygoFuncs() {
		seen := map[string]bool{}
		eachInstr(f, func(b *ssa.BasicBlock, i int, in ssa.Instruction) {
			var operand ssa.Value
			how := ""
			switch x := in.(type) {
			case *ssa.UnOp:
				if x.Op == token.SUB {
					operand, how = x.X, "negated"
				}
			case *ssa.BinOp:
				if x.Op == token.MUL || x.Op == token.SUB || x.Op == token.ADD {
					if _, isK := x.Y.(*ssa.Const); isK {
						operand, how = x.X, "transformed by "+x.Op.String()
					} else if _, isK := x.X.(*ssa.Const); isK {
						operand, how = x.Y, "transformed by "+x.Op.String()
					}
				}
			}
			if operand == nil {
				return
			}
			for _, leaf := range phiLeaves(operand) {
				g := codeSource(leaf)
				if g == nil || !nan[g] {
					continue
				}
				// accepted when the code was first compared with a constant (the NaN code is handled apart)
				handled := guardedBy(b, func(cond ssa.Value) (bool, bool) {
					bo, ok := cond.(*ssa.BinOp)
					if !ok {
						return false, false
					}
					if _, isK := bo.Y.(*ssa.Const); isK && bo.X == leaf {
						return true, true
					}
					return false, false
				}) || guardedBy(b, func(cond ssa.Value) (bool, bool) {
					bo, ok := cond.(*ssa.BinOp)
					if !ok {
						return false, false
					}
					if _, isK := bo.Y.(*ssa.Const); isK && bo.X == leaf {
						return true, false
					}
					return false, false
				})
				n++
				key := "result of " + fnName(g) + " " + how
				if seen[key] {
					continue
				}
				seen[key] = true
				c.check(handled, "C07-CODE", fnName(f), key, in.Pos(),
					"the code is tested against a constant before it is transformed",
					"the three-way result of "+fnName(g)+", which is 2 for an unordered (NaN) pair, is "+how+": 2 becomes a value the operator table reads as an ordering, so a comparison with NaN answers true from one side")
			}
		})
	}
	// every caller that passes the code on untouched is fine; report how many call sites were looked at
	sites := 0
	for _, f := range c.zygoFuncs() {
		eachInstr(f, func(b *ssa.BasicBlock, i int, in ssa.Instruction) {
			if call, ok := in.(*ssa.Call); ok {
				if g := call.Call.StaticCallee(); g != nil && nan[g] {
					sites++
				}
			}
		})
	}
	c.note("nan_code_call_sites", sites)
	c.check(sites >= 10, "C07-CODE", "comparisons.go", "call sites of NaN-signalling comparisons examined", token.NoPos,
		fmt.Sprintf("%d call sites of %d NaN-signalling comparison functions examined, %d arithmetic uses of their result", sites, len(nan), n),
		fmt.Sprintf("only %d call sites found; the comparison family moved", sites))
}

// sameFieldLoad: a and b load the same field of the same base value.
func sameFieldLoad(a, b ssa.Value) bool {
	if a == b {
		return true
	}
	la, ok1 := a.(*ssa.UnOp)
	lb, ok2 := b.(*ssa.UnOp)
	if !ok1 || !ok2 || la.Op != token.MUL || lb.Op != token.MUL {
		return false
	}
	fa, ok1 := la.X.(*ssa.FieldAddr)
	fb, ok2 := lb.X.(*ssa.FieldAddr)
	return ok1 && ok2 && fa.X == fb.X && fa.Field == fb.Field
}

func (c *Ctx) checkExactDivision(scope []*ssa.Function) {
	n := 0
	for _, f := range scope {
		eachInstr(f, func(b *ssa.BasicBlock, i int, in ssa.Instruction) {
			q, ok := in.(*ssa.BinOp)
			if !ok || q.Op != token.QUO {
				return
			}
			if _, _, isInt := intBits(q.X.Type()); !isInt {
				return
			}
			if _, isK := q.Y.(*ssa.Const); isK {
				return
			}
			// only quotients that become the value of an integer of the language
			var useBlk *ssa.BasicBlock
			for _, ref := range *q.Referrers() {
				if st, ok := ref.(*ssa.Store); ok && st.Val == ssa.Value(q) {
					if fa, ok := st.Addr.(*ssa.FieldAddr); ok {
						if nmd, ok := derefNamed(fa.X.Type()); ok && (nmd.Obj().Name() == "SexpInt" || nmd.Obj().Name() == "SexpUint64") {
							useBlk = st.Block()
						}
					}
				}
			}
			if useBlk == nil {
				return
			}
			n++
			guarded := guardedBy(useBlk, func(cond ssa.Value) (bool, bool) {
				bo, ok := cond.(*ssa.BinOp)
				if !ok || (bo.Op != token.EQL && bo.Op != token.NEQ) {
					return false, false
				}
				k, isK := constIntOf(bo.Y)
				rem, isRem := bo.X.(*ssa.BinOp)
				if !isK || k != 0 || !isRem || rem.Op != token.REM {
					return false, false
				}
				if !sameFieldLoad(rem.X, q.X) || !sameFieldLoad(rem.Y, q.Y) {
					return false, false
				}
				return true, bo.Op == token.EQL
			})
			c.check(guarded, "C07-EXACT", fnName(f), "integer quotient "+typeShort(q.X.Type()), q.Pos(),
				"the integer quotient is produced only under `a % b == 0` on the same operands",
				"an integer quotient is produced without the integer test `a % b == 0` on the same operands: whether the division is exact is decided some other way (e.g. in float64, which cannot tell beyond 2^53), so a non-dividing pair yields a truncated integer or a dividing pair a rounded float")
		})
	}
	if n < 2 {
		c.undecided("C07-EXACT", "numerictower.go", "integer quotients", token.NoPos, fmt.Sprintf("only %d integer divisions found in the numeric tower", n))
	}
}

func isUint64(t types.Type) bool {
	b, ok := t.Underlying().(*types.Basic)
	return ok && (b.Kind() == types.Uint64 || b.Kind() == types.Uint || b.Kind() == types.Uintptr)
}
func isSignedInt(t types.Type) bool {
	b, ok := t.Underlying().(*types.Basic)
	return ok && b.Info()&types.IsInteger != 0 && b.Info()&types.IsUnsigned == 0
}
func isFloatT(t types.Type) bool {
	b, ok := t.Underlying().(*types.Basic)
	return ok && b.Info()&types.IsFloat != 0
}

// checkUnsignedToFloat: float64(int64(u)) for a uint64 u is negative from 2^63 on.
func (c *Ctx) checkUnsignedToFloat(scope []*ssa.Function) {
	direct := 0
	for _, f := range scope {
		eachInstr(f, func(b *ssa.BasicBlock, i int, in ssa.Instruction) {
			cv, ok := in.(*ssa.Convert)
			if !ok {
				return
			}
			if isFloatT(cv.Type()) && isUint64(cv.X.Type()) {
				direct++ // the sound promotion
				return
			}
			if !isSignedInt(cv.Type()) || !isUint64(cv.X.Type()) {
				return
			}
			// uint64 -> signed: where does it go?
			bad := ""
			for _, ref := range *cv.Referrers() {
				switch x := ref.(type) {
				case *ssa.Convert:
					if isFloatT(x.Type()) {
						bad = "and then converted to float64"
					}
				case ssa.CallInstruction:
					g := x.Common().StaticCallee()
					if g == nil || fnPkgPath(g) != zygoPath {
						continue
					}
					for ai, a := range x.Common().Args {
						if a != ssa.Value(cv) || ai >= len(g.Params) {
							continue
						}
						for _, pr := range *g.Params[ai].Referrers() {
							if c2, ok := pr.(*ssa.Convert); ok && isFloatT(c2.Type()) {
								bad = "and handed to " + fnName(g) + ", which converts it to float64"
							}
						}
					}
				}
			}
			if bad != "" {
				c.bad("C07-UNS", fnName(f), "uint64 through a signed integer to float64", cv.Pos(),
					"an unsigned 64-bit value is reinterpreted as a signed integer "+bad+": from 2^63 on the value is negative, so mixed or inexact unsigned arithmetic is wrong at the top half of the range")
			}
		})
	}
	c.check(direct >= 2, "C07-UNS", "numerictower.go", "unsigned operands are promoted with float64(u)", token.NoPos,
		fmt.Sprintf("%d direct uint64→float64 promotions found, none routed through a signed integer", direct),
		fmt.Sprintf("only %d direct uint64→float64 promotions found in the numeric tower", direct))
}

// checkFloatQuotientAfterModulo: C07-DIV0. Integer division by zero is an error
// because the modulo (or the integer division) panics and the builtin barrier
// turns the panic into an error. The float branch `float64(a)/float64(b)` would
// quietly give Inf or NaN, so it must be reached only on the `a % b != 0` side
// of the modulo test, i.e. after the modulo has been evaluated.
func (c *Ctx) checkFloatQuotientAfterModulo(scope []*ssa.Function) {
	n := 0
	for _, f := range scope {
		eachInstr(f, func(b *ssa.BasicBlock, i int, in ssa.Instruction) {
			q, ok := in.(*ssa.BinOp)
			if !ok || q.Op != token.QUO || !isFloatT(q.X.Type()) {
				return
			}
			cx, okx := q.X.(*ssa.Convert)
			cy, oky := q.Y.(*ssa.Convert)
			if !okx || !oky {
				return
			}
			if _, _, ix := intBits(cx.X.Type()); !ix {
				return
			}
			if _, _, iy := intBits(cy.X.Type()); !iy {
				return
			}
			n++
			guarded := guardedBy(b, func(cond ssa.Value) (bool, bool) {
				bo, ok := cond.(*ssa.BinOp)
				if !ok || (bo.Op != token.EQL && bo.Op != token.NEQ) {
					return false, false
				}
				k, isK := constIntOf(bo.Y)
				rem, isRem := bo.X.(*ssa.BinOp)
				if !isK || k != 0 || !isRem || rem.Op != token.REM {
					return false, false
				}
				if !sameFieldLoad(rem.X, cx.X) || !sameFieldLoad(rem.Y, cy.X) {
					return false, false
				}
				return true, bo.Op == token.NEQ
			}) || guardedBy(b, func(cond ssa.Value) (bool, bool) {
				// or on the `== 0` side: the modulo has been evaluated there too (the min / -1 case)
				bo, ok := cond.(*ssa.BinOp)
				if !ok || (bo.Op != token.EQL && bo.Op != token.NEQ) {
					return false, false
				}
				k, isK := constIntOf(bo.Y)
				rem, isRem := bo.X.(*ssa.BinOp)
				if !isK || k != 0 || !isRem || rem.Op != token.REM {
					return false, false
				}
				if !sameFieldLoad(rem.X, cx.X) || !sameFieldLoad(rem.Y, cy.X) {
					return false, false
				}
				return true, bo.Op == token.EQL
			})
			c.check(guarded, "C07-DIV0", fnName(f), "float quotient of two integers "+typeShort(cx.X.Type()), q.Pos(),
				"reached only behind the modulo test (either outcome): the modulo has been evaluated, so a zero divisor has already raised the division error",
				"the float quotient of two integers can be reached without the integer modulo having been evaluated (for instance behind a `b != 0 &&` guard): an integer divided by the integer zero quietly becomes +Inf, -Inf or NaN instead of an error")
		})
	}
	if n < 2 {
		c.undecided("C07-DIV0", "numerictower.go", "float quotients of integers", token.NoPos, fmt.Sprintf("only %d found", n))
	}
}

// checkNoIdentityShortcut: C07-ID.
func (c *Ctx) checkNoIdentityShortcut() {
	n, nBad := 0, 0
	for _, f := range c.filesFuncs("comparisons.go") {
		eachInstr(f, func(b *ssa.BasicBlock, i int, in ssa.Instruction) {
			bo, ok := in.(*ssa.BinOp)
			if !ok || (bo.Op != token.EQL && bo.Op != token.NEQ) {
				return
			}
			if !types.IsInterface(bo.X.Type()) || !types.IsInterface(bo.Y.Type()) {
				return
			}
			n++
			isSentinel := func(v ssa.Value) bool {
				if isNilConst(v) {
					return true
				}
				v = stripIface(v)
				if ld, ok := v.(*ssa.UnOp); ok && ld.Op == token.MUL {
					if _, ok := ld.X.(*ssa.Global); ok {
						return true
					}
				}
				return false
			}
			if isSentinel(bo.X) || isSentinel(bo.Y) {
				return
			}
			if isErrorType(bo.X.Type()) || isErrorType(bo.Y.Type()) {
				return
			}
			nBad++
			c.bad("C07-ID", fnName(f), "operands compared by identity", bo.Pos(),
				"two values are compared with `==` on the interface values inside the comparison code: when both are the same object the result is decided without looking at the value, so a NaN bound to a variable compares equal to itself")
		})
	}
	if nBad == 0 {
		c.ok("C07-ID", "comparisons.go", "operands compared by identity", token.NoPos, fmt.Sprintf("%d interface comparisons in the comparison code, all against nil or a sentinel", n))
	}
}

// checkIntegerResultWidth: C07-WRAP.
//
//	(a) a signed integer quotient is guarded against the one pair that overflows (min / -1);
//	(b) an integer result is not obtained by converting math.Pow's float64 back, except on a
//	    path that has compared the exponent with 0 (negative exponents);
//	(c) a 64-bit result is narrowed to a char only behind a test that it survives the round trip.
func (c *Ctx) checkIntegerResultWidth(scope []*ssa.Function) {
	nq, np, nn := 0, 0, 0
	for _, f := range scope {
		eachInstr(f, func(b *ssa.BasicBlock, i int, in ssa.Instruction) {
			switch x := in.(type) {
			case *ssa.BinOp:
				if x.Op != token.QUO {
					return
				}
				bits, uns, isInt := intBits(x.X.Type())
				if !isInt || uns || bits != 64 {
					return
				}
				if _, isK := x.Y.(*ssa.Const); isK {
					return
				}
				// only quotients that become a language integer
				toInt := false
				var useBlk *ssa.BasicBlock
				for _, ref := range *x.Referrers() {
					if st, ok := ref.(*ssa.Store); ok && st.Val == ssa.Value(x) {
						if fa, ok := st.Addr.(*ssa.FieldAddr); ok {
							if nm, ok := derefNamed(fa.X.Type()); ok && nm.Obj().Name() == "SexpInt" {
								toInt = true
								useBlk = st.Block()
							}
						}
					}
				}
				if !toInt {
					return
				}
				nq++
				// a comparison of the divisor with -1 on the way to the store (the test is `b == -1 && a == min`,
				// so the store is reached from both of its false edges; what is checked is that the test is made)
				guarded := false
				for d := useBlk; d != nil; d = d.Idom() {
					cond, _, _ := condBranch(d)
					bo, ok := cond.(*ssa.BinOp)
					if !ok || (bo.Op != token.EQL && bo.Op != token.NEQ) {
						continue
					}
					if k, ok := constIntOf(bo.Y); ok && k == -1 && sameFieldLoad(bo.X, x.Y) {
						guarded = true
					}
				}
				c.check(guarded, "C07-WRAP", fnName(f), "signed quotient guarded against min / -1", x.Pos(),
					"the integer quotient is produced only when the divisor is not -1 (or the dividend not the smallest integer)",
					"the exact-division branch also takes the smallest integer divided by -1, whose quotient 2^63 does not fit: the result wraps to the same negative number")
			case *ssa.Convert:
				_, _, toIntT := intBits(x.Type())
				if toIntT && isFloatT(x.X.Type()) {
					if call, ok := x.X.(*ssa.Call); ok {
						becomes := false
						for _, ref := range *x.Referrers() {
							if st, ok := ref.(*ssa.Store); ok && st.Val == ssa.Value(x) {
								if fa, ok := st.Addr.(*ssa.FieldAddr); ok {
									if nm, ok := derefNamed(fa.X.Type()); ok && (nm.Obj().Name() == "SexpInt" || nm.Obj().Name() == "SexpUint64") {
										becomes = true
									}
								}
							}
						}
						if g := call.Call.StaticCallee(); becomes && g != nil && fnPkgPath(g) == "math" && g.Name() == "Pow" {
							np++
							guarded := guardedBy(b, func(cond ssa.Value) (bool, bool) {
								bo, ok := cond.(*ssa.BinOp)
								if !ok {
									return false, false
								}
								if k, ok := constIntOf(bo.Y); ok && k == 0 {
									switch bo.Op {
									case token.GEQ:
										return true, false
									case token.LSS:
										return true, true
									}
								}
								return false, false
							})
							c.check(guarded, "C07-WRAP", fnName(f), "integer power not taken from float64", x.Pos(),
								"math.Pow's result becomes an integer only on the negative-exponent path",
								"an integer power is computed in float64 and converted back: beyond 2^53 the low digits are lost and beyond 2^63 the conversion saturates instead of wrapping")
						}
					}
				}
				bitsTo, _, okTo := intBits(x.Type())
				bitsFrom, _, okFrom := intBits(x.X.Type())
				if okTo && okFrom && bitsFrom == 64 && bitsTo == 32 {
					// narrowed and then stored as a char's value
					toChar := false
					for _, ref := range *x.Referrers() {
						if st, ok := ref.(*ssa.Store); ok && st.Val == ssa.Value(x) {
							if fa, ok := st.Addr.(*ssa.FieldAddr); ok {
								if nm, ok := derefNamed(fa.X.Type()); ok && nm.Obj().Name() == "SexpChar" {
									toChar = true
								}
							}
						}
					}
					if !toChar {
						return
					}
					nn++
					guarded := guardedBy(b, func(cond ssa.Value) (bool, bool) {
						bo, ok := cond.(*ssa.BinOp)
						if !ok || (bo.Op != token.EQL && bo.Op != token.NEQ) {
							return false, false
						}
						// v != int64(rune(v))
						wide := func(v ssa.Value) bool {
							cw, ok := v.(*ssa.Convert)
							if !ok {
								return false
							}
							cn, ok := cw.X.(*ssa.Convert)
							return ok && sameFieldLoad(cn.X, x.X)
						}
						if (sameFieldLoad(bo.X, x.X) && wide(bo.Y)) || (sameFieldLoad(bo.Y, x.X) && wide(bo.X)) {
							return true, bo.Op == token.EQL
						}
						return false, false
					})
					c.check(guarded, "C07-WRAP", fnName(f), "64-bit result narrowed to a char only when it fits", x.Pos(),
						"the result is turned into a char only behind the test v == int64(rune(v))",
						"a 64-bit arithmetic result is turned into a char unconditionally: only its low 32 bits survive, so (+ 'a' 4294967296) is 'a' and differs from (+ 4294967296 'a')")
				}
			}
		})
	}
	if nq < 1 || nn < 1 {
		c.undecided("C07-WRAP", "numerictower.go", "width-sensitive results", token.NoPos, fmt.Sprintf("found %d signed quotients, %d float powers, %d narrowings", nq, np, nn))
	}
}

// condLeaves: the comparisons a short-circuit condition value is made of.
func condLeaves(v ssa.Value) []ssa.Value {
	out := []ssa.Value{v}
	if ph, ok := v.(*ssa.Phi); ok {
		for _, e := range ph.Edges {
			out = append(out, e)
		}
	}
	return out
}

// checkSignumOrdered: C07-SIGN. The comparisons of floats reduce to the sign of a difference. For
// two infinities of the same sign the difference is NaN, which is neither above nor below zero;
// equality of Inf with Inf comes out right only because the sign routine answers 0 for everything
// that is not strictly positive or strictly negative. The rule: in every sign routine over a float
// (a function float -> int returning constants), a positive result is returned only under f > 0
// and a negative one only under f < 0.
func (c *Ctx) checkSignumOrdered(rule string) {
	n := 0
	for _, f := range c.zygoFuncs() {
		if f.Parent() != nil || len(f.Params) != 1 || f.Signature.Results().Len() != 1 {
			continue
		}
		pt, ok := f.Params[0].Type().Underlying().(*types.Basic)
		if !ok || pt.Info()&types.IsFloat == 0 {
			continue
		}
		rt, ok := f.Signature.Results().At(0).Type().Underlying().(*types.Basic)
		if !ok || rt.Info()&types.IsInteger == 0 {
			continue
		}
		// all returns are constants
		allConst := true
		var rets []*ssa.Return
		for _, r := range returnsOf(f) {
			if _, ok := r.Results[0].(*ssa.Const); !ok {
				allConst = false
			}
			rets = append(rets, r)
		}
		if !allConst || len(rets) < 3 {
			continue
		}
		n++
		param := f.Params[0]
		under := func(b *ssa.BasicBlock, op token.Token) bool {
			return guardedBy(b, func(cond ssa.Value) (bool, bool) {
				bo, ok := cond.(*ssa.BinOp)
				if !ok {
					return false, false
				}
				zeroY := false
				if k, ok := bo.Y.(*ssa.Const); ok && k.Value != nil {
					if fv, _ := constant.Float64Val(constant.ToFloat(k.Value)); fv == 0 {
						zeroY = true
					}
				}
				if bo.X != ssa.Value(param) || !zeroY || bo.Op != op {
					return false, false
				}
				return true, true
			})
		}
		okAll := true
		var at token.Pos
		for _, r := range rets {
			k := r.Results[0].(*ssa.Const)
			v, _ := constant.Int64Val(k.Value)
			if v > 0 && !under(r.Block(), token.GTR) {
				okAll, at = false, r.Pos()
			}
			if v < 0 && !under(r.Block(), token.LSS) {
				okAll, at = false, r.Pos()
			}
		}
		c.check(okAll, rule, fnName(f), "nonzero sign only under a strict comparison with zero", orPos(at, f.Pos()),
			"the positive result is returned only under f > 0, the negative one only under f < 0: NaN (the difference of two equal infinities) has sign 0",
			"the sign routine returns a nonzero result on a path that is not under the matching strict comparison with zero: for NaN, which is what Inf - Inf is, it answers nonzero, so (== Inf Inf) is false and (> Inf Inf) true")
	}
	if n == 0 {
		c.undecided(rule, "comparisons.go", "sign routines", token.NoPos, "no float sign routine found (signumFloat confirmed by reading)")
	}
}
