package main

// C08 — a sandboxed interpreter cannot reach the outside world.
// Rule C08-REACH: in each sandbox configuration no call site of an
// outside-world sink is reachable in the modelled call graph (rta.go).
// Rule C08-CTRL: positive control — the same sinks are reachable from the
// non-sandbox constructor, so the rule is not vacuous.
// Rule C08-FLAG: a configuration flag used for pruning is written only where
// the configuration says.

import (
	"fmt"
	"go/token"
	"go/types"
	"sort"
	"strings"

	"golang.org/x/tools/go/ssa"
	"golang.org/x/tools/go/ssa/ssautil"
)

var stdCache = map[string]bool{}

func (c *Ctx) isStd(pkgPath string) bool {
	if v, ok := stdCache[pkgPath]; ok {
		return v
	}
	// standard library packages have no dot in the first path element
	first := pkgPath
	if i := strings.Index(pkgPath, "/"); i >= 0 {
		first = pkgPath[:i]
	}
	v := !strings.Contains(first, ".")
	stdCache[pkgPath] = v
	return v
}

func fnPkgPath(f *ssa.Function) string {
	if f.Pkg != nil {
		return f.Pkg.Pkg.Path()
	}
	if o := f.Object(); o != nil && o.Pkg() != nil {
		return o.Pkg().Path()
	}
	if f.Parent() != nil {
		return fnPkgPath(f.Parent())
	}
	if f.Origin() != nil {
		return fnPkgPath(f.Origin())
	}
	return ""
}

// sinkClass says whether a call to callee (a standard-library function or
// method) is an outside-world access, and of which class.
func sinkClass(callee *ssa.Function) string {
	pkg := fnPkgPath(callee)
	name := callee.Name()
	isMethod := callee.Signature.Recv() != nil
	switch {
	case pkg == "os/exec":
		return "process"
	case pkg == "net" || strings.HasPrefix(pkg, "net/"):
		if pkg == "net/url" || pkg == "net/textproto" || pkg == "net/netip" || pkg == "net/mail" {
			return ""
		}
		if isMethod {
			return ""
		}
		return "network"
	case pkg == "plugin":
		return "process"
	case pkg == "os/user":
		return "file"
	case pkg == "syscall":
		if isMethod {
			return ""
		}
		switch name {
		case "Getpid", "Getppid", "Getpagesize", "Getuid", "Getgid", "Geteuid", "Getegid", "ByteSliceFromString", "BytePtrFromString":
			return ""
		}
		return "syscall"
	case pkg == "io/ioutil":
		switch name {
		case "ReadFile", "WriteFile", "ReadDir", "TempFile", "TempDir":
			return "file"
		}
	case pkg == "path/filepath":
		switch name {
		case "Walk", "WalkDir", "Glob", "EvalSymlinks", "Abs":
			return "file"
		}
	case pkg == "log":
		if strings.HasPrefix(name, "Fatal") {
			return "exit"
		}
	case pkg == "text/template" || pkg == "html/template":
		if strings.HasPrefix(name, "ParseFiles") || strings.HasPrefix(name, "ParseGlob") || strings.HasPrefix(name, "ParseFS") {
			return "file"
		}
	case pkg == "archive/zip":
		if name == "OpenReader" {
			return "file"
		}
	case pkg == "os":
		if isMethod {
			return "" // operations on a handle the host already opened
		}
		switch name {
		case "Exit":
			return "exit"
		case "Getenv", "LookupEnv", "Environ", "Setenv", "Unsetenv", "Clearenv", "ExpandEnv", "Expand",
			"UserHomeDir", "UserCacheDir", "UserConfigDir", "TempDir", "Getwd", "Hostname", "Executable":
			if name == "Expand" {
				return ""
			}
			return "env"
		case "StartProcess", "FindProcess":
			return "process"
		case "IsNotExist", "IsExist", "IsPermission", "IsTimeout", "NewSyscallError", "Getpid", "Getppid",
			"Getpagesize", "IsPathSeparator", "NewFile", "SameFile", "Getuid", "Geteuid", "Getgid", "Getegid",
			"Getgroups", "init":
			return ""
		}
		if name == "init" || strings.HasPrefix(name, "init#") {
			return ""
		}
		// every other package-level function of os touches the file system
		// (Open, OpenFile, Create, ReadFile, WriteFile, Remove*, Rename, Mkdir*,
		// Chdir, Chmod, Chown, Stat, Lstat, ReadDir, Symlink, Link, Truncate, DirFS, CopyFS, ...)
		if token.IsExported(name) {
			return "file"
		}
	}
	return ""
}

type sinkSite struct {
	caller *ssa.Function
	callee *ssa.Function
	pos    token.Pos
	class  string
}

// allSinkSites enumerates every call site, anywhere in non-standard-library
// code of the program, whose static callee is a sink.
func (c *Ctx) allSinkSites() []sinkSite {
	var out []sinkSite
	for f := range ssautil.AllFunctions(c.Prog) {
		if c.isStd(fnPkgPath(f)) {
			continue
		}
		for _, b := range f.Blocks {
			for _, in := range b.Instrs {
				// direct calls
				if ci, ok := in.(ssa.CallInstruction); ok {
					if callee := ci.Common().StaticCallee(); callee != nil && c.isStd(fnPkgPath(callee)) {
						if cl := sinkClass(callee); cl != "" {
							out = append(out, sinkSite{f, callee, in.Pos(), cl})
							continue
						}
					}
				}
				// sink used as a function value (e.g. handed to a helper)
				var rands [8]*ssa.Value
				var calleeVal ssa.Value
				if ci, ok := in.(ssa.CallInstruction); ok && !ci.Common().IsInvoke() {
					calleeVal = ci.Common().Value
				}
				for _, op := range in.Operands(rands[:0]) {
					if g, ok := (*op).(*ssa.Function); ok && g != calleeVal && c.isStd(fnPkgPath(g)) {
						if cl := sinkClass(g); cl != "" {
							out = append(out, sinkSite{f, g, in.Pos(), cl})
						}
					}
				}
			}
		}
	}
	sort.Slice(out, func(i, j int) bool {
		a, b := out[i], out[j]
		if fnName(a.caller) != fnName(b.caller) {
			return fnName(a.caller) < fnName(b.caller)
		}
		return a.pos < b.pos
	})
	return out
}

func calleeLabel(f *ssa.Function) string {
	p := fnPkgPath(f)
	if recv := f.Signature.Recv(); recv != nil {
		t := recv.Type()
		if pt, ok := t.(*types.Pointer); ok {
			t = pt.Elem()
		}
		if n, ok := t.(*types.Named); ok {
			return p + "." + n.Obj().Name() + "." + f.Name()
		}
	}
	return p + "." + f.Name()
}

type c08Config struct {
	name  string
	roots []string // zygo functions
	cmd   bool     // add cmd/zygo main
	flags func(c *Ctx) []flagCond
}

// script-facing entry points of an interpreter the host already holds
var scriptEntry = []string{
	"Zlisp.EvalString", "Zlisp.LoadString", "Zlisp.LoadStream", "Zlisp.LoadFile", "Zlisp.LoadExpressions",
	"Zlisp.EvalExpressions", "Zlisp.Run", "Zlisp.Apply", "Zlisp.Clear", "Zlisp.Close", "Zlisp.GetStackTrace",
	"Zlisp.FindObject", "Zlisp.Clone", "Zlisp.Duplicate", "Zlisp.Stop", "Parser.ParseTokens", "Parser.ResetAddNewInput", "Parser.Reset",
	"Parser.NewInput", "Parser.Stop",
}

func sandboxFlags(c *Ctx) []flagCond {
	var out []flagCond
	if v := c.field("ZlispConfig", "Sandboxed"); v != nil {
		out = append(out, flagCond{v, true})
	}
	// an interpreter-level flag, if the tree has one (introduced by a repair)
	for _, n := range []string{"sandboxed", "Sandboxed", "sandbox", "Sandbox"} {
		if v := c.field("Zlisp", n); v != nil && types.Identical(v.Type(), types.Typ[types.Bool]) {
			out = append(out, flagCond{v, true})
		}
	}
	return out
}

func checkC08(c *Ctx) {
	c.explainf("C08 decides: in the three sandbox configurations no call site of an outside-world sink (file system, process, environment, exit, network, raw syscall; deny-list by resolved standard-library callee) is reachable in the modelled call graph: an RTA-style graph over go/ssa in which a dynamic call of a function value resolves to the functions whose address is taken in reachable code (hence `userfun` dispatch = exactly the builtins registered in that configuration), interface invokes resolve to types made into interfaces in reachable code, every special form is reached through the compiler, and branches contradicted by the sandbox flag are pruned. It does not decide resource exhaustion or information flow through printing.")
	c.assumef("no reflect.Value.Call / unsafe / linkname / cgo edge leads to a sink (reflect method calls reachable in a sandbox configuration are themselves reported)")
	c.assumef("standard-library functions outside the deny-list give scripts no access to files, processes, environment or exit")
	c.assumef("a function value is only ever called if its address is taken in reachable code (RTA)")

	sites := c.allSinkSites()
	c.note("sink_call_sites_in_program", len(sites))

	configs := []c08Config{
		{name: "bare", roots: append([]string{"NewZlispSandbox"}, scriptEntry...), flags: sandboxFlags},
		{name: "setup", roots: append([]string{"NewZlispSandbox", "Zlisp.StandardSetup"}, scriptEntry...), flags: sandboxFlags},
		{name: "cmd", roots: append([]string{"NewZlispSandbox", "Zlisp.StandardSetup", "ReplMain", "Repl", "runScript"}, scriptEntry...), cmd: true, flags: sandboxFlags},
	}
	// reflect-based calls
	isReflectCall := func(f *ssa.Function) bool {
		return fnPkgPath(f) == "reflect" && f.Signature.Recv() != nil && (f.Name() == "Call" || f.Name() == "CallSlice")
	}
	cfgReach := map[string]int{}
	rtas := map[string]*RTA{}
	for _, cf := range configs {
		r := newRTA(c.Prog, cf.flags(c), func(f *ssa.Function) bool { return false })
		for _, name := range cf.roots {
			f := c.fn(name)
			if f == nil {
				if name == "NewZlispSandbox" || name == "Zlisp.StandardSetup" || name == "Zlisp.EvalString" || name == "Zlisp.Run" || name == "ReplMain" {
					c.undecided("C08-REACH", name, "anchor@"+cf.name, token.NoPos, "root "+name+" no longer exists")
				}
				continue
			}
			r.addRoot(f)
		}
		if cf.cmd {
			if m := c.SCmd.Func("main"); m != nil {
				r.addRoot(m)
			} else {
				c.undecided("C08-REACH", "cmd/zygo.main", "anchor@"+cf.name, token.NoPos, "cmd/zygo main not found")
			}
		}
		r.run()
		rtas[cf.name] = r
		cfgReach[cf.name] = len(r.reach)
		nReach := 0
		for _, s := range sites {
			fnm := fnName(s.caller)
			construct := calleeLabel(s.callee) + "@" + cf.name
			if _, ok := r.reach[s.caller]; ok && r.siteLive(s.caller, s.pos) {
				nReach++
				o := c.bad("C08-REACH", fnm, construct, s.pos,
					fmt.Sprintf("%s sink %s is reachable from script-facing code in configuration %q", s.class, calleeLabel(s.callee), cf.name))
				o.Path = append(r.pathTo(c, s.caller), fnm+" --static--> "+calleeLabel(s.callee)+"  ("+c.pos(s.pos)+")")
			} else {
				c.ok("C08-REACH", fnm, construct, s.pos, "not reachable in configuration "+cf.name)
			}
		}
		// reflect.Value.Call reachable from non-std code in this configuration
		for f := range r.reach {
			if c.isStd(fnPkgPath(f)) {
				continue
			}
			for _, e := range r.edges[f] {
				if e.kind == "static" && isReflectCall(e.callee) {
					o := c.bad("C08-REFLECT", fnName(f), "reflect.Value."+e.callee.Name()+"@"+cf.name, e.pos,
						"a reflective call is reachable in sandbox configuration "+cf.name+"; its targets are outside the modelled call graph")
					o.Path = r.pathTo(c, f)
				}
			}
		}
		c.note("reachable_functions_"+cf.name, len(r.reach))
		c.note("reachable_sink_sites_"+cf.name, nReach)
		c.note("flag_pruned_blocks_"+cf.name, r.pruned)
	}

	// positive control: non-sandbox interpreter reaches the sinks
	{
		r := newRTA(c.Prog, nil, nil)
		for _, name := range append([]string{"NewZlisp", "Zlisp.StandardSetup"}, scriptEntry...) {
			r.addRoot(c.fn(name))
		}
		r.run()
		n := 0
		classes := map[string]bool{}
		for _, s := range sites {
			if _, ok := r.reach[s.caller]; ok && fnPkgPath(s.caller) == zygoPath {
				n++
				classes[s.class] = true
			}
		}
		c.note("control_reachable_sink_sites_full_interpreter", n)
		c.check(n >= 8 && classes["file"] && classes["process"] && classes["env"] && classes["exit"], "C08-CTRL", "NewZlisp", "sinks reachable", token.NoPos,
			fmt.Sprintf("positive control: %d sink call sites of classes %v are reachable from the non-sandbox constructor", n, keys(classes)),
			fmt.Sprintf("positive control failed: only %d sink sites (classes %v) reachable from NewZlisp; the graph or the deny-list no longer sees the sinks", n, keys(classes)))
	}

	// flag fields used for pruning must be written only by the sandbox constructor (true) or copied
	for _, fc := range sandboxFlags(c) {
		if fc.field.Name() == "Sandboxed" && fc.field.Pkg() != nil && c.field("ZlispConfig", "Sandboxed") == fc.field {
			c.ok("C08-FLAG", "ZlispConfig", "Sandboxed", fc.field.Pos(), "command-line flag; configuration `cmd` is defined as -sandbox given")
			continue
		}
		c.checkFlagWriters(fc.field)
		c.checkFlagWindow(fc.field, rtas["cmd"])
	}
}

// checkFlagWindow: pruning on the interpreter-level flag is sound only if
// every interpreter that exists in a sandbox configuration carries the flag
// from the moment it exists:
//
//	(1) wherever a Zlisp value is allocated, the flag is stored into it before
//	    any call is made (same block, no call in between);
//	(2) the value stored is the constant true, a copy of the flag of another
//	    interpreter, or a parameter that is the constant true at every call
//	    site reachable in the sandbox configuration.
func (c *Ctx) checkFlagWindow(fld *types.Var, r *RTA) {
	zl := c.named("Zlisp")
	if zl == nil || r == nil {
		return
	}
	nAlloc := 0
	for f := range ssautil.AllFunctions(c.Prog) {
		if fnPkgPath(f) != zygoPath {
			continue
		}
		_, reachable := r.reach[f]
		for _, b := range f.Blocks {
			for i, in := range b.Instrs {
				a, ok := in.(*ssa.Alloc)
				if !ok {
					continue
				}
				pt, ok := a.Type().(*types.Pointer)
				if !ok || !types.Identical(pt.Elem(), zl) {
					continue
				}
				nAlloc++
				if !reachable {
					c.ok("C08-FLAG", fnName(f), "alloc Zlisp", in.Pos(), "allocation not reachable in any sandbox configuration")
					continue
				}
				var val ssa.Value
				for _, nx := range b.Instrs[i+1:] {
					if _, isCall := nx.(ssa.CallInstruction); isCall {
						break
					}
					if st, ok := nx.(*ssa.Store); ok {
						if fa, ok := st.Addr.(*ssa.FieldAddr); ok && fa.X == a {
							s := zl.Underlying().(*types.Struct)
							if s.Field(fa.Field) == fld {
								val = st.Val
								break
							}
						}
					}
				}
				if val == nil {
					c.bad("C08-FLAG", fnName(f), "alloc Zlisp", in.Pos(),
						"an interpreter is allocated in sandbox-reachable code and the sandbox flag is not stored into it before the next call: code running in between (or ever after) sees a non-sandboxed interpreter")
					continue
				}
				okv, why := c.flagValueOK(val, fld, f, r)
				c.check(okv, "C08-FLAG", fnName(f), "alloc Zlisp", in.Pos(), "flag stored at allocation: "+why, "flag stored at allocation may be false in a sandbox configuration: "+why)
			}
		}
	}
	if nAlloc == 0 {
		c.undecided("C08-FLAG", "Zlisp", "alloc Zlisp", token.NoPos, "no allocation of Zlisp found; the constructors moved")
	}
}

func (c *Ctx) flagValueOK(val ssa.Value, fld *types.Var, f *ssa.Function, r *RTA) (bool, string) {
	switch v := val.(type) {
	case *ssa.Const:
		if v.Value != nil && v.Value.String() == "true" {
			return true, "constant true"
		}
		return false, "constant false"
	case *ssa.UnOp:
		if v.Op == token.MUL {
			if fa, ok := v.X.(*ssa.FieldAddr); ok {
				s := fa.X.Type().Underlying().(*types.Pointer).Elem().Underlying().(*types.Struct)
				if s.Field(fa.Field) == fld {
					return true, "copy of another interpreter's flag"
				}
			}
		}
	case *ssa.Parameter:
		idx := -1
		for i, p := range f.Params {
			if p == v {
				idx = i
			}
		}
		n := 0
		for caller := range r.reach {
			for _, e := range r.edges[caller] {
				if e.callee != f {
					continue
				}
				if e.kind != "static" {
					return false, "constructor called dynamically from " + fnName(caller)
				}
				if !r.siteLive(caller, e.pos) {
					continue
				}
				// find the call instruction
				for _, b := range caller.Blocks {
					for _, in := range b.Instrs {
						if ci, ok := in.(ssa.CallInstruction); ok && in.Pos() == e.pos && ci.Common().StaticCallee() == f {
							arg := ci.Common().Args[idx]
							k, isC := arg.(*ssa.Const)
							if !isC || k.Value == nil || k.Value.String() != "true" {
								return false, "called with a flag that is not the constant true from " + fnName(caller) + " at " + c.pos(e.pos)
							}
							n++
						}
					}
				}
			}
		}
		if _, isRoot := r.reach[f]; isRoot && r.reach[f].caller == nil {
			return false, "constructor is itself a root"
		}
		return n > 0, fmt.Sprintf("parameter; constant true at all %d call sites reachable in the sandbox configuration", n)
	}
	return false, "value not understood: " + val.String()
}

func keys(m map[string]bool) []string {
	var out []string
	for k := range m {
		out = append(out, k)
	}
	sort.Strings(out)
	return out
}

// siteLive reports whether the instruction at pos in f is in a block that
// survives flag pruning.
func (r *RTA) siteLive(f *ssa.Function, pos token.Pos) bool {
	live := r.liveBlocks(f)
	found := false
	for _, b := range f.Blocks {
		for _, in := range b.Instrs {
			if in.Pos() == pos {
				found = true
				if live[b] {
					return true
				}
			}
		}
	}
	return !found // position not found (synthetic): be conservative
}

// checkFlagWriters: every store to the interpreter-level sandbox flag is at
// an allocation site (checked by checkFlagWindow); any other store is reported.
func (c *Ctx) checkFlagWriters(fld *types.Var) {
	for f := range ssautil.AllFunctions(c.Prog) {
		if fnPkgPath(f) != zygoPath {
			continue
		}
		for _, b := range f.Blocks {
			for _, in := range b.Instrs {
				st, ok := in.(*ssa.Store)
				if !ok {
					continue
				}
				fa, ok := st.Addr.(*ssa.FieldAddr)
				if !ok {
					continue
				}
				s := fa.X.Type().Underlying().(*types.Pointer).Elem().Underlying().(*types.Struct)
				if s.Field(fa.Field) != fld {
					continue
				}
				_, atAlloc := fa.X.(*ssa.Alloc)
				c.check(atAlloc, "C08-FLAG", fnName(f), "store "+fld.Name(), in.Pos(), "flag written into a freshly allocated interpreter",
					"the sandbox flag of an existing interpreter is overwritten: pruning on it is unsound, and a sandboxed interpreter can be un-sandboxed")
			}
		}
	}
}
