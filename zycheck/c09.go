package main

// C09 (tail calls), C04 (nothing left behind), C02 (control flow / order):
// drivers over the emission-sequence verifier (es.go, esv.go), the
// instruction-effect extractor (ix.go) and a few direct rules.

import (
	"fmt"
	"go/ast"
	"go/constant"
	"go/token"
	"go/types"
	"os"
	"strings"

	"golang.org/x/tools/go/ssa"
)

// checkTailCallShape: ES-G.
func (c *Ctx) checkTailCallShape() {
	es := c.runES()
	found := false
	for _, t := range es.templates {
		// (the routine that emits the jump is found by what it emits, not by its name: the tail path may
		// live in the call generator or in a helper split off from it)
		if t.what != "return" {
			continue
		}
		idx := -1
		for i, a := range t.seq {
			if a.kind == "PrepareCallInstr" {
				idx = i
			}
		}
		if idx < 0 {
			continue
		}
		found = true
		seq := t.seq
		shape := seqString(seq)
		okArgs := idx >= 1 && len(seq) >= 2 && seq[0].kind == "Seg" && strings.HasPrefix(seq[0].callee, "GenerateCallArgsForFunction") && seq[0].tail == tailF
		c.check(okArgs, "ES-G", t.fn, "tail call: arguments first, not in tail position", seq[0].pos,
			"the arguments of the tail call are compiled first, with the tail flag cleared", "tail-call template does not start with the argument code compiled with the tail flag cleared: "+shape)
		// unwind: RemoveScope × gen.scopes, between the arguments and the jump
		okUnwind := false
		after := linConst(0) // number of instructions emitted after PrepareCall
		singles := 0
		for i := 1; i < len(seq); i++ {
			a := seq[i]
			if i == idx {
				continue
			}
			isRep := a.kind == "Rep" && len(a.alts) == 1 && len(a.alts[0]) == 1 && a.alts[0][0].kind == "RemoveScopeInstr" && a.countLin != nil
			if isRep && a.countLin.eq(linSym("σ")) {
				okUnwind = true
			}
			if i > idx && after != nil {
				switch {
				case isRep:
					after = after.add(a.countLin)
				case a.kind == "Rep" || a.kind == "Seg" || a.kind == "Alt":
					after = nil
				default:
					after = after.add(linConst(1))
				}
			}
			if a.kind == "RemoveScopeInstr" {
				singles++
			}
		}
		c.check(okUnwind, "ES-G", t.fn, "tail call: unwinds every open non-function scope", seq[idx].pos,
			"RemoveScope is emitted exactly gen.scopes times before the jump", "the tail call does not remove exactly gen.scopes scopes before jumping: scopes opened by let/for/newScope around the call leak on every iteration (or too many are popped): "+shape)
		// same arity
		okN := seq[0].nvals != nil && seq[idx].n != nil && seq[0].nvals.eq(seq[idx].n)
		c.check(okN, "ES-G", t.fn, "tail call: PrepareCall arity", seq[idx].pos, "PrepareCall is told the number of arguments that were pushed", "PrepareCall's argument count differs from the number of arguments compiled")
		// fresh scope: one RemoveScope for the function scope, then Goto 0 as the last instruction
		n := len(seq)
		tailOK := n >= 3 && singles == 1 && seq[n-1].kind == "GotoInstr" && seq[n-1].off != nil && seq[n-1].off.isConst() && seq[n-1].off.c == 0
		c.check(tailOK, "ES-G", t.fn, "tail call: fresh function scope", seq[idx].pos,
			"the finished activation's function scope is removed and the jump targets instruction 0, which opens a new one",
			"the tail call re-enters the function without leaving the old function scope and opening a new one (expected one RemoveScope for the function scope and a final Goto(0)): closures created in earlier iterations see the parameters of later ones: "+shape)
		// the instructions PrepareCall passes over when the callee is not the running function are exactly those of the jump
		if seq[idx].off != nil {
			c.check(after != nil && seq[idx].off.eq(after), "ES-G", t.fn, "tail call: PrepareCall passes over exactly the jump", seq[idx].pos,
				"the count PrepareCall is given equals the number of instructions emitted after it (scope removals and the goto)",
				"the number of instructions PrepareCall is told to pass over differs from the number emitted after it: when the name is not bound to the running function, execution resumes inside the jump sequence or past the following code: "+shape)
		}
		noCall := true
		for _, a := range seq {
			if a.kind == "CallExprInstr" {
				noCall = false
			}
		}
		c.check(noCall, "ES-G", t.fn, "tail call: no call instruction", seq[idx].pos, "the tail path pushes no return address", "the tail path also emits an ordinary call")
	}
	if !found {
		c.bad("ES-G", "Generator.GenerateCallBySymbol", "tail call template", token.NoPos, "no path of the call generator emits the tail self-call sequence (PrepareCall + jump): tail recursion is not optimised and deep tail recursion exhausts the address stack")
	}
	// function templates: AddFuncScope first, RemoveScope Return last
	for _, fn := range []string{"buildSexpFun", "FuncBuilder"} {
		n := 0
		dedup := map[string]bool{}
		for _, t := range es.templates {
			if t.fn != fn || t.what != "return" || len(t.seq) < 3 {
				continue
			}
			if dedup[seqString(t.seq)] {
				continue
			}
			dedup[seqString(t.seq)] = true
			n++
			first := t.seq[0].kind == "AddFuncScopeInstr"
			last := t.seq[len(t.seq)-1].kind == "ReturnInstr" && t.seq[len(t.seq)-2].kind == "RemoveScopeInstr"
			c.check(first && last, "ES-G", fn, "function template frame", t.seq[0].pos,
				"a compiled function opens its function scope at instruction 0 and ends RemoveScope, Return", "a compiled function does not have the frame AddFuncScope ... RemoveScope Return: "+seqString(t.seq))
		}
		if n == 0 {
			c.undecided("ES-G", fn, "function template frame", token.NoPos, "no function template derived")
		}
	}
	// the condition that selects the tail path: wherever the jump sequence is emitted (or the routine that
	// emits it is called), that runs only under `the tail flag was set` and `the callee's name is the name of
	// the function being compiled`
	c.checkTailPathCondition()
}

func (c *Ctx) checkTailPathCondition() {
	tailF := c.field("Generator", "Tail")
	funcnameF := c.field("Generator", "funcname")
	symNameF := c.field("SexpSymbol", "name")
	prepT := c.named("PrepareCallInstr")
	if tailF == nil || funcnameF == nil || symNameF == nil || prepT == nil {
		c.undecided("ES-G", "Generator", "tail path only for a self-call in tail position", token.NoPos, "Generator.Tail / funcname, SexpSymbol.name or PrepareCallInstr not found")
		return
	}
	isLoadOf := func(v ssa.Value, fld *types.Var) bool {
		u, ok := v.(*ssa.UnOp)
		if !ok || u.Op != token.MUL {
			return false
		}
		fa, ok := u.X.(*ssa.FieldAddr)
		return ok && faField(fa) == fld
	}
	guardedSite := func(b *ssa.BasicBlock) bool {
		underTail := guardedBy(b, func(cond ssa.Value) (bool, bool) {
			if isLoadOf(cond, tailF) {
				return true, true
			}
			return false, false
		})
		selfCall := guardedBy(b, func(cond ssa.Value) (bool, bool) {
			bo, ok := cond.(*ssa.BinOp)
			if !ok || (bo.Op != token.EQL && bo.Op != token.NEQ) {
				return false, false
			}
			if (isLoadOf(bo.X, symNameF) && isLoadOf(bo.Y, funcnameF)) || (isLoadOf(bo.Y, symNameF) && isLoadOf(bo.X, funcnameF)) {
				return true, bo.Op == token.EQL
			}
			return false, false
		})
		return underTail && selfCall
	}
	var siteOK func(f *ssa.Function, b *ssa.BasicBlock, depth int) bool
	siteOK = func(f *ssa.Function, b *ssa.BasicBlock, depth int) bool {
		if guardedSite(b) {
			return true
		}
		if depth >= 3 {
			return false
		}
		// the whole routine is the tail path: every call of it must be guarded
		callers := c.callersOf(f)
		if len(callers) == 0 {
			return false
		}
		for g, sites := range callers {
			for _, cs := range sites {
				if !siteOK(g, cs.Block(), depth+1) {
					return false
				}
			}
		}
		return true
	}
	n := 0
	for _, f := range c.zygoFuncs() {
		eachInstr(f, func(b *ssa.BasicBlock, i int, in ssa.Instruction) {
			mi, ok := in.(*ssa.MakeInterface)
			if !ok || !types.Identical(mi.X.Type(), prepT) {
				return
			}
			n++
			c.check(siteOK(f, b, 0), "ES-G", fnName(f), "tail path only for a self-call in tail position", in.Pos(),
				"the jump is emitted only when the tail flag was set and the callee is the function being compiled", "the tail-jump path is not guarded by `tail flag && callee is the function being compiled`")
		})
	}
	if n == 0 {
		c.undecided("ES-G", "Generator", "tail path only for a self-call in tail position", token.NoPos, "no place that emits PrepareCallInstr found")
	}
}

func checkC09(c *Ctx) {
	c.explainf("C09 decides, for all function bodies by induction over the generator's own code: a sub-form compiled with the tail flag possibly set (and able to emit the tail jump) is followed in its generator only by scope removal, return, or a jump to the end of the sequence; the tail self-call is `arguments (flag cleared), RemoveScope × open scopes, PrepareCall, RemoveScope, Goto 0` with no call instruction, selected only for a self-call under the tail flag; the generator's scope counter equals the number of open non-function scopes wherever a sub-form, break or continue is compiled, and every scope opened by a form is closed; compiled functions open their function scope at instruction 0. The emission sequences are obtained by abstract interpretation of the generator's Go code (no program is run). The jump is taken only when the name resolves to the running function (C09-SELF), PrepareCall is told exactly the length of the jump sequence, and every argument routine of CallFunction also runs before the jump (C09-ARITY). It does not decide memory at depth or equality with an unoptimised run.")
	n := c.esReport("ES-T", "ES-S", "ES-MODEL")
	c.note("emission_templates", len(c.es.templates))
	c.note("es_obligations", n)
	c.checkTailCallShape()
	c.checkLoopScopeDepth("ES-S")
	c.checkTailArity("C09-ARITY")
	c.checkTailSelf("C09-SELF")
	c.checkLastFormKeepsTail("C09-LAST")
	c.checkArgsReadAtCall("C09-DOT")
	c.checkSelfNameShadowing("C09-SHADOW")
	c.checkGeneratorCtors("ES-CTOR")
	c.checkRegisteredBeforeBody("C09-REG")
}

// checkTailArity: the tail self-call jumps past CallFunction, which is where an
// ordinary call has its argument count compared with the function's arity. The
// instruction that prepares the jump must make the same comparison.
func (c *Ctx) checkTailArity(rule string) {
	prep := c.mustFn(rule, "PrepareCallInstr.execute")
	callF := c.mustFn(rule, "Zlisp.CallFunction")
	nargsF := c.field("SexpFunction", "nargs")
	lazyPrep := c.fn("Zlisp.prepareLazyCallArgs")
	if prep == nil || callF == nil || nargsF == nil || lazyPrep == nil {
		return
	}
	arityTests := func(f *ssa.Function) []*ssa.BinOp {
		var out []*ssa.BinOp
		eachInstr(f, func(b *ssa.BasicBlock, i int, in ssa.Instruction) {
			bo, ok := in.(*ssa.BinOp)
			if !ok || (bo.Op != token.NEQ && bo.Op != token.EQL) {
				return
			}
			_, lx := loadOfField(bo.X, nargsF)
			_, ly := loadOfField(bo.Y, nargsF)
			if !lx && !ly {
				return
			}
			// the mismatch side returns an error
			cond, t, e := condBranch(b)
			if cond != ssa.Value(bo) {
				return
			}
			mismatch := t
			if bo.Op == token.EQL {
				mismatch = e
			}
			if allReturnsError(f, mismatch) {
				out = append(out, bo)
			}
		})
		return out
	}
	ref := arityTests(callF)
	c.check(len(ref) >= 1, rule, "Zlisp.CallFunction", "ordinary call checks the arity", callF.Pos(),
		"CallFunction compares the argument count with the function's arity and returns an error on mismatch", "CallFunction no longer rejects a wrong argument count")
	// sibling agreement: every interpreter routine CallFunction runs on the arguments of an ordinary call
	// (lazy wrapping, name/type check of a typed func, variadic packing) is also run before the jump
	zl := c.named("Zlisp")
	seenCallee := map[*ssa.Function]bool{}
	nSib := 0
	eachInstr(callF, func(b *ssa.BasicBlock, i int, in ssa.Instruction) {
		ci, ok := in.(ssa.CallInstruction)
		if !ok {
			return
		}
		g := ci.Common().StaticCallee()
		if g == nil || seenCallee[g] || zl == nil || !isMethodOf(g, zl) {
			return
		}
		seenCallee[g] = true
		nSib++
		c.check(len(callsOf(prep, g)) >= 1, rule, "PrepareCallInstr.execute", "prepares the arguments with "+g.Name()+" as an ordinary call does", in.Pos(),
			"the routine CallFunction runs on the arguments of an ordinary call is also run before the tail jump",
			"CallFunction runs "+g.Name()+" on the arguments of an ordinary call, the tail-call preparation does not: a self call in tail position binds arguments an ordinary call would have rejected, reordered or wrapped")
	})
	if nSib < 3 {
		c.undecided(rule, "Zlisp.CallFunction", "argument routines", callF.Pos(), fmt.Sprintf("only %d argument routines found in CallFunction (3 confirmed by reading)", nSib))
	}
	sites := callsOf(prep, lazyPrep)
	got := arityTests(prep)
	c.check(len(sites) > 0 && len(got) >= len(sites), rule, "PrepareCallInstr.execute", "tail call checks the arity like an ordinary call", prep.Pos(),
		fmt.Sprintf("each of the %d arms that prepare a compiled function's arguments also compares their number with the function's arity", len(sites)),
		fmt.Sprintf("%d arms prepare the arguments of a compiled function for the tail jump but only %d compare their number with the function's arity: a tail self-call with the wrong number of arguments binds the wrong values (and can loop for ever) where the ordinary call raises an error", len(sites), len(got)))
}

// checkLoopScopeDepth: the Loop record remembers gen.scopes as it was before the loop's own scope was counted.
func (c *Ctx) checkLoopScopeDepth(rule string) {
	fd := c.funcDecl("Generator.GenerateForLoop")
	if fd == nil {
		c.undecided(rule, "Generator.GenerateForLoop", "anchor", token.NoPos, "not found")
		return
	}
	var incPos token.Pos
	ast.Inspect(fd.Body, func(n ast.Node) bool {
		if id, ok := n.(*ast.IncDecStmt); ok && id.Tok == token.INC && exprShort(id.X) == "gen.scopes" && !incPos.IsValid() {
			incPos = id.Pos()
		}
		return true
	})
	n := 0
	ast.Inspect(fd.Body, func(x ast.Node) bool {
		cl, ok := x.(*ast.CompositeLit)
		if !ok || exprShort(cl.Type) != "Loop" {
			return true
		}
		for _, el := range cl.Elts {
			if kv, ok := el.(*ast.KeyValueExpr); ok && exprShort(kv.Key) == "scopeDepth" {
				n++
				c.check(exprShort(kv.Value) == "gen.scopes" && incPos.IsValid() && cl.Pos() < incPos, rule, "Generator.GenerateForLoop", "loop.scopeDepth", cl.Pos(),
					"the loop records the scope count from before its own scope is opened", "loop.scopeDepth is not the generator's scope count before the loop scope is counted: break/continue pop the wrong number of scopes")
			}
		}
		return true
	})
	if n == 0 {
		c.undecided(rule, "Generator.GenerateForLoop", "loop.scopeDepth", fd.Pos(), "no Loop literal with scopeDepth found")
	}
}

func checkC04(c *Ctx) {
	c.explainf("C04 decides balance of the interpreter's stacks as a property of the compiler and of the builtin contract: every emission sequence the generator can produce (derived by abstract interpretation of the generator's Go code) nets exactly one operand per form and zero per separated statement on all control paths, opens and closes scopes in pairs with the generator's scope counter in step, and nests markers / stack marks properly; every instruction's Execute has the operand effect the verifier assumes; builtins leave the data stack as they found it; Run pops exactly one result, the resume pop is emitted only when a previous result is pending, eval truncates back to its starting depth, address and loop stacks are pushed and popped in pairs. When the interpreter is at rest the loader drops the finished code of the main function before it appends more, and a generated name is never bound (C04-GROW); the symbols interned per compilation are recorded findings. It does not decide heap growth in general or depth after failed evaluations.")
	c.esReport("ES-D", "ES-S", "ES-M", "ES-MODEL")
	c.note("emission_templates", len(c.es.templates))
	c.checkIX("IX-DATA", "")
	c.checkBuiltinsNeutral("C04-USR")
	c.checkLoopScopeDepth("ES-S")
	c.checkRunBrackets()
	c.checkIdleGrowth("C04-GROW")
	c.checkNestPairing("C04-NEST")
	c.checkStackmarkIdentity("C04-MARK")
	c.checkGeneratorCtors("ES-CTOR")
	c.checkParserStopOrder("C04-STOP")
	c.checkArgRewriters("C04-ARGS")
}

// checkArgRewriters: C04-ARGS. A routine of the call machinery that rewrites the arguments of a call
// on the data stack is told their number through a *int. Its contract, which CallFunction and the
// tail-call preparation rely on: if it pushes a list of expressions back, it first popped exactly
// *nargs expressions (a PopExpressions of the loaded count dominates the push), it adjusts the stack
// by nothing else (no truncation), and it stores the length of what it pushed into *nargs.
// Otherwise a call with named arguments (label + value per argument) leaves operands behind.
func (c *Ctx) checkArgRewriters(rule string) {
	popN := c.mustFn(rule, "Stack.PopExpressions")
	pushN := c.mustFn(rule, "Stack.PushExpressions")
	trunc := c.fn("Stack.TruncateToSize")
	if popN == nil || pushN == nil {
		return
	}
	n := 0
	for _, f := range c.zygoFuncs() {
		if f.Parent() != nil {
			continue
		}
		// a parameter of type *int
		var np *ssa.Parameter
		for _, p := range f.Params {
			if pt, ok := p.Type().(*types.Pointer); ok {
				if bt, ok := pt.Elem().(*types.Basic); ok && bt.Kind() == types.Int {
					np = p
				}
			}
		}
		pushes := callsOf(f, pushN)
		if np == nil || len(pushes) == 0 {
			continue
		}
		n++
		okAll := true
		why := ""
		for _, ps := range pushes {
			// (1) a pop of *nargs dominates
			popped := false
			for _, pp := range callsOf(f, popN) {
				args := pp.Common().Args
				if ld, ok := args[len(args)-1].(*ssa.UnOp); ok && ld.Op == token.MUL && ld.X == ssa.Value(np) && dominatesInstr(pp.(ssa.Instruction), ps.(ssa.Instruction)) {
					popped = true
				}
			}
			if !popped {
				okAll, why = false, "the expressions are pushed back without a dominating PopExpressions(*nargs): what was on the stack for this call is not what is taken off"
			}
			// (3) *nargs = len(pushed)
			pushed := ps.Common().Args[len(ps.Common().Args)-1]
			stored := false
			eachInstr(f, func(b *ssa.BasicBlock, i int, in ssa.Instruction) {
				st, ok := in.(*ssa.Store)
				if !ok || st.Addr != ssa.Value(np) {
					return
				}
				if call, ok := st.Val.(*ssa.Call); ok {
					if bi, ok := call.Call.Value.(*ssa.Builtin); ok && bi.Name() == "len" && len(call.Call.Args) == 1 && call.Call.Args[0] == pushed {
						stored = true
					}
				}
			})
			if !stored {
				okAll, why = false, "the count handed back in *nargs is not the length of the list that is pushed"
			}
		}
		// (2) nothing else adjusts the stack
		if trunc != nil && len(callsOf(f, trunc)) > 0 {
			okAll, why = false, "the routine also truncates the data stack: its net effect is no longer `take *nargs off, put the rewritten list on`"
		}
		c.check(okAll, rule, fnName(f), "takes *nargs operands off and puts the rewritten list on", f.Pos(),
			"PopExpressions(*nargs) dominates the push, nothing else adjusts the stack, and *nargs is set to the length of the pushed list",
			"a routine that rewrites the arguments of a call on the data stack does not keep to `pop *nargs, push the list, *nargs = len(list)`: "+why+"; a call with named arguments made as a statement leaves operands on the data stack")
	}
	if n == 0 {
		c.undecided(rule, "package", "argument rewriters", token.NoPos, "no routine with a *int argument count that pushes expressions back was found (FunctionCallNameTypeCheck confirmed by reading)")
	}
}

func (c *Ctx) checkRunBrackets() {
	// Run: returns datastack.PopExpr() after pushing nil onto an empty stack
	if run := c.mustFn("C04-RUN", "Zlisp.Run"); run != nil {
		datastack := c.field("Zlisp", "datastack")
		okPop := false
		for _, r := range returnsOf(run) {
			if ex, ok := returnedValue(r, 0).(*ssa.Extract); ok {
				if call, ok := ex.Tuple.(*ssa.Call); ok && call.Call.StaticCallee() != nil && call.Call.StaticCallee().Name() == "PopExpr" {
					if _, ok := loadOfField(call.Call.Args[0], datastack); ok {
						okPop = true
					}
				}
			}
		}
		c.check(okPop, "C04-RUN", "Zlisp.Run", "pops exactly the result", run.Pos(), "Run returns the popped top of the data stack", "Run no longer returns by popping one result off the data stack")
	}
	// LoadExpressions: resume pop only under !ReachedEnd()
	if fd := c.funcDecl("Zlisp.LoadExpressions"); fd != nil {
		okGuard := false
		ast.Inspect(fd.Body, func(n ast.Node) bool {
			is, ok := n.(*ast.IfStmt)
			if !ok {
				return true
			}
			if exprShort(is.Cond) == "!env.ReachedEnd()" && len(is.Body.List) == 1 {
				if strings.Contains(exprShort(is.Body.List[0].(*ast.ExprStmt).X), "PopInstr") {
					okGuard = true
				}
			}
			return true
		})
		c.check(okGuard, "C04-RUN", "Zlisp.LoadExpressions", "resume pop only when a result is pending", fd.Pos(), "the leading Pop is emitted only under !ReachedEnd()", "the resume pop is not guarded by !ReachedEnd(): a fresh load pops an operand it does not own, or a resumed one leaves the previous result")
	}
	// EvalFunction truncates back
	if f := c.mustFn("C04-RUN", "EvalFunction"); f != nil {
		trunc := c.fn("Stack.TruncateToSize")
		c.check(len(callsOf(f, trunc)) >= 1, "C04-RUN", "EvalFunction", "truncates to the starting depth", f.Pos(), "eval cuts the data stack back to where it started", "eval no longer truncates the data stack to its starting depth")
	}
	// address stack pairing
	push := c.fn("Stack.PushAddr")
	pop := c.fn("Stack.PopAddr")
	if push != nil && pop != nil {
		pushers := map[string]bool{}
		for f := range c.callersOf(push) {
			pushers[fnName(f)] = true
		}
		poppers := map[string]bool{}
		for f := range c.callersOf(pop) {
			poppers[fnName(f)] = true
		}
		okA := len(pushers) == 2 && pushers["Zlisp.CallFunction"] && pushers["Zlisp.CallUserFunction"] && len(poppers) == 2 && poppers["Zlisp.ReturnFromFunction"] && poppers["Zlisp.CallUserFunction"]
		c.check(okA, "C04-RUN", "addrstack", "push/pop sites", token.NoPos, "return addresses are pushed by CallFunction/CallUserFunction and popped by ReturnFromFunction/CallUserFunction only",
			fmt.Sprintf("the set of address-stack writers changed: push %v pop %v", keys(pushers), keys(poppers)))
	}
	// loop stack: Push paired with deferred Pop in GenerateForLoop
	if fd := c.funcDecl("Generator.GenerateForLoop"); fd != nil {
		hasPush, hasDefer := false, false
		ast.Inspect(fd.Body, func(n ast.Node) bool {
			switch x := n.(type) {
			case *ast.ExprStmt:
				if exprShort(x.X) == "gen.env.loopstack.Push(loop)" {
					hasPush = true
				}
			case *ast.DeferStmt:
				if exprShort(x.Call) == "gen.env.loopstack.Pop()" {
					hasDefer = true
				}
			}
			return true
		})
		c.check(hasPush && hasDefer, "C04-RUN", "Generator.GenerateForLoop", "loop record pushed and popped", fd.Pos(), "the loop record is pushed and a deferred pop removes it on every exit", "the loop stack push is not paired with a deferred pop")
	}
}

func checkC02(c *Ctx) {
	c.explainf("C02 decides well-formedness of compiled control flow and evaluation order for all programs, by induction over the generator: every relative jump and branch offset, and the break/continue offsets of loops, land exactly on a boundary between the pieces of the emitted sequence (offsets are computed as linear forms over the unknown lengths of the sub-forms; no program is run); each form leaves exactly one value and statements are separated by one pop, on every control path; tail jumps appear only in tail position; every instruction advances or sets the program counter exactly once on success; a call evaluates the callee, then resolves it, then marshals arguments in ascending order pushing each once, then calls; variadic packing rejects too few arguments and pushes exactly one rest value. No Go append on the storage of one script array becomes the storage of another (C02-SHARE). It does not decide values, truthiness, or that a jump lands on the intended boundary among several valid ones.")
	c.esReport("ES-J", "ES-D", "ES-T", "ES-S", "ES-MODEL")
	c.note("emission_templates", len(c.es.templates))
	c.checkIX("", "C02-PC")
	c.checkStackmarkIdentity("C02-MARK")
	c.checkMapOrder("C02-MAP")
	c.checkGeneratorCtors("ES-CTOR")
	c.checkAppendSharing("C02-SHARE")
	// ---- C02-ORD
	if f := c.mustFn("C02-ORD", "CallExprInstr.Execute"); f != nil {
		ev := c.fn("Zlisp.EvalCallExpression")
		rs := c.fn("Zlisp.ResolveCallable")
		cr := c.fn("Zlisp.CallResolved")
		a, b, d := callsOf(f, ev), callsOf(f, rs), callsOf(f, cr)
		okOrd := len(a) == 1 && len(b) == 1 && len(d) == 1 && dominatesInstr(a[0].(ssa.Instruction), b[0].(ssa.Instruction)) && dominatesInstr(b[0].(ssa.Instruction), d[0].(ssa.Instruction))
		c.check(okOrd, "C02-ORD", "CallExprInstr.Execute", "callee, resolve, call", f.Pos(), "the callee expression is evaluated before it is resolved and before any argument", "a call no longer evaluates the callee, resolves it and then calls, in that order")
		if okOrd {
			// the callee handed to EvalCallExpression is the instruction's callee field, the args its args field
			okArgs := false
			if call, ok := d[0].(*ssa.Call); ok && len(call.Call.Args) == 4 {
				okArgs = true
			}
			c.check(okArgs, "C02-ORD", "CallExprInstr.Execute", "passes the argument expressions on", f.Pos(), "CallResolved receives the unevaluated argument list", "CallResolved is not given the argument list")
		}
	}
	if f := c.mustFn("C02-ORD", "Zlisp.CallResolved"); f != nil {
		wrappers, direct := c.argPreparers(f)
		isPrep := map[*ssa.Function]bool{}
		for _, g := range append(append([]*ssa.Function{}, wrappers...), direct...) {
			isPrep[g] = true
		}
		cf := c.fn("Zlisp.CallFunction")
		cu := c.fn("Zlisp.CallUserFunction")
		var preps []ssa.Instruction
		eachInstr(f, func(b *ssa.BasicBlock, i int, in ssa.Instruction) {
			if call, ok := in.(*ssa.Call); ok && call.Call.StaticCallee() != nil && isPrep[call.Call.StaticCallee()] {
				preps = append(preps, in)
			}
		})
		n := 0
		okAll := len(preps) >= 3
		for _, g := range []*ssa.Function{cf, cu} {
			for _, ci := range callsOf(f, g) {
				n++
				dom := false
				for _, p := range preps {
					if dominatesInstr(p, ci.(ssa.Instruction)) {
						dom = true
					}
				}
				if !dom {
					okAll = false
				}
			}
		}
		c.check(okAll && n >= 4, "C02-ORD", "Zlisp.CallResolved", "arguments marshalled before the call", f.Pos(), "every call of a function is dominated by the argument preparation", "a function is entered before its arguments are evaluated and pushed")
		// prepare delegates to PrepareCallExprArgs, which ranges over args (ascending) — see C16-SITES for the once-per-position rule
		pcea := c.fn("Zlisp.PrepareCallExprArgs")
		okOne := pcea != nil && len(wrappers)+len(direct) > 0
		for _, w := range wrappers {
			if len(callsOf(w, pcea)) != 1 {
				okOne = false
			}
		}
		c.check(okOne, "C02-ORD", "Zlisp.CallResolved", "uses PrepareCallExprArgs", f.Pos(), "arguments are evaluated by the one marshalling routine", "argument preparation no longer goes through PrepareCallExprArgs")
	}
	if f := c.mustFn("C02-ORD", "Zlisp.PrepareCallExprArgs"); f != nil {
		// ascending order: a range loop over args whose index feeds nothing but IsLazyCallArg; one push per iteration on every non-error path
		memo := map[*ssa.Function]*stackSummary{}
		_ = memo
		ev := c.fn("Zlisp.EvalCallExpression")
		pushes := 0
		eachInstr(f, func(b *ssa.BasicBlock, i int, in ssa.Instruction) {
			if ci, ok := in.(ssa.CallInstruction); ok && ci.Common().StaticCallee() != nil && ci.Common().StaticCallee().Name() == "PushExpr" {
				pushes++
			}
		})
		c.check(len(callsOf(f, ev)) == 1 && pushes == 2, "C02-ORD", "Zlisp.PrepareCallExprArgs", "one evaluation and one push per argument", f.Pos(), "each argument is evaluated once (or wrapped) and pushed once, in slice order", "the argument marshalling loop no longer evaluates and pushes each argument exactly once")
	}
	// ---- C02-VAR
	if f := c.mustFn("C02-VAR", "Zlisp.wrangleOptargs"); f != nil {
		idx := errResultIndex(f.Signature)
		okVar := true
		nSucc := 0
		var walk func(b *ssa.BasicBlock, pushes int, seen map[*ssa.BasicBlock]bool)
		walk = func(b *ssa.BasicBlock, pushes int, seen map[*ssa.BasicBlock]bool) {
			if seen[b] {
				return
			}
			seen[b] = true
			defer delete(seen, b)
			for _, in := range b.Instrs {
				if ci, ok := in.(ssa.CallInstruction); ok && ci.Common().StaticCallee() != nil && ci.Common().StaticCallee().Name() == "PushExpr" {
					pushes++
				}
				if r, ok := in.(*ssa.Return); ok && !isErrorReturn(r, idx) {
					nSucc++
					if pushes != 1 {
						okVar = false
					}
				}
			}
			for _, s := range b.Succs {
				walk(s, pushes, seen)
			}
		}
		walk(f.Blocks[0], 0, map[*ssa.BasicBlock]bool{})
		// too few arguments is an error: a comparison nargs < fnargs guarding an error return
		guard := false
		eachInstr(f, func(b *ssa.BasicBlock, i int, in ssa.Instruction) {
			if bo, ok := in.(*ssa.BinOp); ok && bo.Op == token.LSS && bo.X == ssa.Value(f.Params[2]) && bo.Y == ssa.Value(f.Params[1]) {
				guard = true
			}
		})
		c.check(okVar && nSucc >= 2 && guard, "C02-VAR", "Zlisp.wrangleOptargs", "one rest value; too few is an error", f.Pos(), "every success path pushes exactly one rest value (a list or nil) and nargs < fnargs is rejected",
			"variadic packing does not push exactly one rest value on every success path, or no longer rejects too few arguments")
	}
}

// checkStackmarkIdentity: the two instructions that unwind the data stack to
// a loop's stack mark must recognise *their* mark (same symbol), not just any
// mark: a labelled break of an outer loop crosses the inner loop's mark.
func (c *Ctx) checkStackmarkIdentity(rule string) {
	num := c.field("SexpSymbol", "number")
	markSym := c.field("SexpStackmark", "sym")
	if num == nil || markSym == nil {
		c.undecided(rule, "SexpStackmark", "sym / number", token.NoPos, "anchor fields not found")
		return
	}
	for _, name := range []string{"PopUntilStackmarkInstr.Execute", "ClearStackmarkInstr.Execute"} {
		f := c.mustFn(rule, name)
		if f == nil {
			continue
		}
		// an equality test between the popped mark's symbol and the instruction's own symbol
		var test *ssa.BinOp
		eachInstr(f, func(b *ssa.BasicBlock, i int, in ssa.Instruction) {
			bo, ok := in.(*ssa.BinOp)
			if !ok || bo.Op != token.EQL && bo.Op != token.NEQ {
				return
			}
			side := func(v ssa.Value) string {
				// number of a symbol, or the symbol pointer itself
				if base, ok := loadOfField(v, num); ok {
					v = base
				}
				if base, ok := loadOfField(v, markSym); ok {
					_ = base
					return "mark"
				}
				if fl, ok := v.(*ssa.Field); ok && fl.X.Type() == f.Params[0].Type() {
					return "self"
				}
				if ld, ok := v.(*ssa.UnOp); ok && ld.Op == token.MUL {
					if fa, ok := ld.X.(*ssa.FieldAddr); ok {
						if al, ok := fa.X.(*ssa.Alloc); ok {
							_ = al
							return "self" // the receiver spilled to a local
						}
					}
				}
				return ""
			}
			a, b2 := side(bo.X), side(bo.Y)
			if (a == "mark" && b2 == "self") || (a == "self" && b2 == "mark") {
				test = bo
			}
		})
		if test == nil {
			c.bad(rule, name, "stops at its own mark", f.Pos(), "the unwinding loop never compares the mark it popped with the instruction's own symbol: it stops at the first mark of any loop, so a labelled break or continue of an outer loop leaves the outer mark (and what is below it) on the data stack")
			continue
		}
		// every successful return is reached only through the `equal` outcome of that test
		okAll := true
		for _, r := range returnsOf(f) {
			if len(r.Results) == 1 && isNilConst(r.Results[0]) {
				g := guardedBy(r.Block(), func(cond ssa.Value) (bool, bool) {
					if cond == ssa.Value(test) {
						return true, test.Op == token.EQL
					}
					return false, false
				})
				if !g {
					okAll = false
				}
			}
		}
		c.check(okAll, rule, name, "stops at its own mark", test.Pos(),
			"the loop is left successfully only when the popped mark carries the instruction's own symbol",
			"the unwinding loop can end successfully without having met its own mark")
	}
}

// checkMapOrder: map applies the function to the elements in order
// (observable through side effects and through which error is raised first).
func (c *Ctx) checkMapOrder(rule string) {
	apply := c.mustFn(rule, "Zlisp.Apply")
	if apply == nil {
		return
	}
	if f := c.mustFn(rule, "MapList"); f != nil {
		ap := callsOf(f, apply)
		rec := callsOf(f, f)
		switch {
		case len(ap) == 0:
			c.bad(rule, "MapList", "head before tail", f.Pos(), "map over a list no longer applies the function")
		case len(rec) == 0:
			// iterative form: a singly linked list can only be walked front to back
			inLoop := loopOf(ap[0].Block()) != nil
			why := "map over a list applies the function once only"
			if inLoop {
				inLoop, why = c.appliedFrontToBack(ap[0])
			}
			c.check(inLoop, rule, "MapList", "head before tail", ap[0].Pos(), "the function is applied to the head of the pair the loop stands on, and the loop moves on by taking the tail: front to back", why)
		default:
			ok := true
			for _, r := range rec {
				dominated := false
				for _, a := range ap {
					if dominatesInstr(a.(ssa.Instruction), r.(ssa.Instruction)) {
						dominated = true
					}
				}
				if !dominated {
					ok = false
				}
			}
			c.check(ok, rule, "MapList", "head before tail", rec[0].Pos(),
				"the function is applied to the head before the rest of the list is mapped",
				"the rest of the list is mapped before the function is applied to the head: side effects run back to front and the error reported is the last failing element's")
		}
	}
	if f := c.mustFn(rule, "MapArray"); f != nil {
		ap := callsOf(f, apply)
		ok := len(ap) == 1
		if ok {
			// the element slice handed to Apply is indexed by a counter that starts at 0 and goes up (or a range loop)
			ok = false
			if sl, isSl := ap[0].Common().Args[2].(*ssa.Slice); isSl && sl.Low != nil {
				idx := sl.Low
				if bo, isBo := idx.(*ssa.BinOp); isBo && bo.Op == token.ADD { // rangeindex + 1
					idx = bo
				}
				for _, leaf := range phiLeavesThroughAdd(idx) {
					if k, isK := constIntOf(leaf); isK && (k == 0 || k == -1) {
						ok = true
					}
				}
				if ok {
					// ascending: the phi's back edge adds +1
					ok = ascending(idx)
				}
			}
		}
		pos := f.Pos()
		if len(ap) > 0 {
			pos = ap[0].Pos()
		}
		c.check(ok, rule, "MapArray", "ascending index", pos, "the function is applied to elements 0,1,2,… in that order", "map over an array does not visit the elements in ascending order")
	}
}

// appliedFrontToBack: in a loop over a list, the value handed to Apply is the
// Head of the pair a loop variable holds, and that variable moves on to the
// pair's Tail; or it is an element of a slice taken at an index that starts at
// 0 and goes up.
func (c *Ctx) appliedFrontToBack(ap ssa.CallInstruction) (bool, string) {
	headF, tailF := c.field("SexpPair", "Head"), c.field("SexpPair", "Tail")
	call, ok := ap.(*ssa.Call)
	if !ok || headF == nil || tailF == nil {
		return false, "the call that applies the function is not an ordinary call"
	}
	args := variadicLiteral(call.Call.Args[len(call.Call.Args)-1])
	if len(args) != 1 {
		return false, "the arguments handed to the function are not a one-element literal: the order of application cannot be read off"
	}
	v := args[0]
	pairOf := func(x ssa.Value) ssa.Value { // the variable a pair value was taken from
		for depth := 0; depth < 5; depth++ {
			switch y := x.(type) {
			case *ssa.TypeAssert:
				x = y.X
			case *ssa.Extract:
				x = y.Tuple
			default:
				return x
			}
		}
		return x
	}
	if u, isLoad := v.(*ssa.UnOp); isLoad && u.Op == token.MUL {
		switch a := u.X.(type) {
		case *ssa.FieldAddr:
			if faField(a) != headF {
				return false, "the value applied is not the head of a pair"
			}
			loopVar, isPhi := pairOf(a.X).(*ssa.Phi)
			if !isPhi {
				return false, "the pair whose head is applied is not the loop's current pair"
			}
			for _, e := range loopVar.Edges {
				if eu, ok := e.(*ssa.UnOp); ok && eu.Op == token.MUL {
					if efa, ok := eu.X.(*ssa.FieldAddr); ok && faField(efa) == tailF && pairOf(efa.X) == ssa.Value(loopVar) {
						return true, ""
					}
				}
			}
			return false, "the loop does not move on by taking the tail of the pair whose head it applied the function to"
		case *ssa.IndexAddr:
			starts := false
			for _, leaf := range phiLeavesThroughAdd(a.Index) {
				if k, isK := constIntOf(leaf); isK && k == 0 {
					starts = true
				}
			}
			if starts && ascending(a.Index) {
				return true, ""
			}
			return false, "the function is applied to collected elements at an index that does not start at 0 and go up: side effects run out of order (back to front), and the error reported is not the first failing element's"
		}
	}
	return false, "the value the function is applied to is neither the head of the loop's current pair nor a collected element at an ascending index"
}

// variadicLiteral: the values stored into the array behind a slice literal.
func variadicLiteral(v ssa.Value) []ssa.Value {
	sl, ok := v.(*ssa.Slice)
	if !ok {
		return nil
	}
	al, ok := sl.X.(*ssa.Alloc)
	if !ok || al.Referrers() == nil {
		return nil
	}
	byIdx := map[int64]ssa.Value{}
	max := int64(-1)
	for _, r := range *al.Referrers() {
		ia, ok := r.(*ssa.IndexAddr)
		if !ok || ia.Referrers() == nil {
			continue
		}
		idx, ok := constIntOf(ia.Index)
		if !ok {
			continue
		}
		for _, r2 := range *ia.Referrers() {
			if st, ok := r2.(*ssa.Store); ok {
				byIdx[idx] = st.Val
				if idx > max {
					max = idx
				}
			}
		}
	}
	var out []ssa.Value
	for i := int64(0); i <= max; i++ {
		out = append(out, byIdx[i])
	}
	return out
}

func phiLeavesThroughAdd(v ssa.Value) []ssa.Value {
	seen := map[ssa.Value]bool{}
	var out []ssa.Value
	var walk func(ssa.Value)
	walk = func(x ssa.Value) {
		if seen[x] {
			return
		}
		seen[x] = true
		switch y := x.(type) {
		case *ssa.Phi:
			for _, e := range y.Edges {
				walk(e)
			}
		case *ssa.BinOp:
			if y.Op == token.ADD {
				walk(y.X)
				return
			}
			out = append(out, x)
		default:
			out = append(out, x)
		}
	}
	walk(v)
	return out
}

// ascending: v is (an increment of) a loop counter whose back edge adds a positive constant.
func ascending(v ssa.Value) bool {
	seen := map[ssa.Value]bool{}
	var phi *ssa.Phi
	var find func(ssa.Value)
	find = func(x ssa.Value) {
		if seen[x] || phi != nil {
			return
		}
		seen[x] = true
		switch y := x.(type) {
		case *ssa.Phi:
			phi = y
		case *ssa.BinOp:
			find(y.X)
		}
	}
	find(v)
	if phi == nil {
		return false
	}
	for _, e := range phi.Edges {
		if bo, ok := e.(*ssa.BinOp); ok && bo.X == ssa.Value(phi) {
			k, isK := constIntOf(bo.Y)
			if bo.Op == token.ADD && isK && k > 0 {
				return true
			}
			return false
		}
	}
	return false
}

// checkSelfNameShadowing: the tail path is chosen by comparing the callee's name with
// the name of the function being compiled. Wherever the generator brings a name into
// scope inside a function body (let / letseq bindings, parameters) it must compare
// that name with the current function name and, on a match, stop treating calls of
// it as self calls (it clears the current function name for the extent of the scope).
func (c *Ctx) checkSelfNameShadowing(rule string) {
	fn := c.field("Generator", "funcname")
	symName := c.field("SexpSymbol", "name")
	if fn == nil || symName == nil {
		c.undecided(rule, "Generator", "funcname", token.NoPos, "Generator.funcname / SexpSymbol.name not found")
		return
	}
	for _, name := range []string{"Generator.GenerateLet", "buildSexpFun"} {
		f := c.mustFn(rule, name)
		if f == nil {
			continue
		}
		ok := false
		for _, g := range withClosures(f) {
			eachInstr(g, func(b *ssa.BasicBlock, i int, in ssa.Instruction) {
				bo, isBo := in.(*ssa.BinOp)
				if !isBo || (bo.Op != token.EQL && bo.Op != token.NEQ) {
					return
				}
				_, xs := loadOfField(bo.X, symName)
				_, yf := loadOfField(bo.Y, fn)
				_, ys := loadOfField(bo.Y, symName)
				_, xf := loadOfField(bo.X, fn)
				if !((xs && yf) || (ys && xf)) {
					return
				}
				// on the equal side the current function name is overwritten
				cond, t, e := condBranch(b)
				if cond != ssa.Value(bo) {
					return
				}
				eq := t
				if bo.Op == token.NEQ {
					eq = e
				}
				for blk := range reachableAvoiding(eq, func(x *ssa.BasicBlock) bool { return false }) {
					for _, in2 := range blk.Instrs {
						if st, isSt := in2.(*ssa.Store); isSt {
							if fa, isFa := st.Addr.(*ssa.FieldAddr); isFa && faField(fa) == fn {
								ok = true
							}
						}
					}
				}
				for _, in2 := range eq.Instrs {
					if st, isSt := in2.(*ssa.Store); isSt {
						if fa, isFa := st.Addr.(*ssa.FieldAddr); isFa && faField(fa) == fn {
							ok = true
						}
					}
				}
			})
		}
		c.check(ok, rule, name, "a binding named like the function ends self-call recognition", f.Pos(),
			"the names brought into scope here are compared with the current function name, which is cleared on a match",
			"names are brought into scope here without being compared with the name of the function being compiled: a let binding or parameter that shadows the function is still taken for the function itself, and a call of it in tail position becomes a jump to the start of the enclosing function (which can loop for ever)")
	}
}

// checkTailSelf: the generator picks the tail jump because the callee is
// spelled like the function being compiled. Whether that name is bound to the
// running function is a run-time fact (def/defn/set of the name, the function
// running under another name, a builtin of that name): the instruction that
// prepares the jump must compare the resolved callee with the running function,
// report "self" only under that comparison, and make the ordinary call otherwise.
func (c *Ctx) checkTailSelf(rule string) {
	prep := c.mustFn(rule, "PrepareCallInstr.execute")
	exec := c.mustFn(rule, "PrepareCallInstr.Execute")
	callExec := c.mustFn(rule, "CallInstr.Execute")
	cur := c.mustField(rule, "Zlisp", "curfunc")
	sfn := c.named("SexpFunction")
	if prep == nil || exec == nil || callExec == nil || cur == nil || sfn == nil {
		return
	}
	isSelfCmp := func(cond ssa.Value) (bool, bool) {
		bo, ok := cond.(*ssa.BinOp)
		if !ok || (bo.Op != token.EQL && bo.Op != token.NEQ) {
			return false, false
		}
		_, lx := loadOfField(bo.X, cur)
		_, ly := loadOfField(bo.Y, cur)
		if !lx && !ly {
			return false, false
		}
		other := bo.X
		if lx {
			other = bo.Y
		}
		if nm, ok := derefNamed(other.Type()); !ok || nm != sfn {
			return false, false
		}
		return true, bo.Op == token.EQL
	}
	res := prep.Signature.Results()
	if res.Len() < 1 || !types.Identical(res.At(0).Type(), types.Typ[types.Bool]) {
		c.bad(rule, "PrepareCallInstr.execute", "reports whether the callee is the running function", prep.Pos(),
			"the instruction that prepares the tail jump does not report whether the name is bound to the running function: the jump re-enters the compiled body whatever the name refers to at the time of the call")
		return
	}
	nSelf, bad := 0, token.NoPos
	for _, r := range returnsOf(prep) {
		if k, ok := r.Results[0].(*ssa.Const); ok && !constant.BoolVal(k.Value) {
			continue
		}
		nSelf++
		if !guardedBy(r.Block(), isSelfCmp) {
			bad = r.Pos()
		}
	}
	c.check(nSelf > 0 && !bad.IsValid(), rule, "PrepareCallInstr.execute", "self only when the resolved callee is the running function", orPos(bad, prep.Pos()),
		fmt.Sprintf("each of the %d returns that report a self call is reached only when the function the name resolves to is env.curfunc", nSelf),
		"a path reports a self call without comparing the function the name resolves to with the running function: after (def f ...), (set f ...) or a re-defn inside the body, or when the function runs under another name, the tail call jumps back into the old body instead of calling what the name is bound to")
	sites := callsOf(exec, callExec)
	c.check(len(sites) >= 1, rule, "PrepareCallInstr.Execute", "ordinary call when the callee is not the running function", exec.Pos(),
		"the not-self path makes the call through CallInstr.Execute", "there is no ordinary call on the not-self path of the tail-call preparation")
}

func orPos(p, q token.Pos) token.Pos {
	if p.IsValid() {
		return p
	}
	return q
}

// checkAppendSharing: C02-SHARE. Go's append writes into the spare capacity of
// its first operand. When that operand is the storage of one script array and
// the result becomes the storage of another, the two arrays share one backing
// array: (def a (append [1 2] 3)) (def b (append a 4)) (def c (append a 5))
// leaves b == c. The value of a variable must not change when nothing assigns
// to it. Growing an array in place (x.Val = append(x.Val, ...)) is not
// sharing; neither is appending to storage made in the same function or cut
// with a full slice expression s[:n:n].
func (c *Ctx) checkAppendSharing(rule string) {
	val := c.mustField(rule, "SexpArray", "Val")
	if val == nil {
		return
	}
	// owner of a storage value: the array object whose Val it was loaded from
	var ownerOf func(v ssa.Value, depth int) (ssa.Value, bool)
	ownerOf = func(v ssa.Value, depth int) (ssa.Value, bool) {
		if depth > 6 {
			return nil, false
		}
		if base, ok := loadOfField(v, val); ok {
			// a local array whose storage was copied from another array's field
			if al, isAlloc := base.(*ssa.Alloc); isAlloc {
				for _, r := range *al.Referrers() {
					fa, ok := r.(*ssa.FieldAddr)
					if !ok || faField(fa) != val {
						continue
					}
					for _, r2 := range *fa.Referrers() {
						if st, ok := r2.(*ssa.Store); ok && st.Addr == ssa.Value(fa) {
							if o, ok := ownerOf(st.Val, depth+1); ok && o != base {
								return o, true
							}
						}
					}
				}
			}
			return base, true
		}
		switch x := v.(type) {
		case *ssa.Slice:
			if x.Max != nil {
				return nil, false // full slice expression: append must reallocate
			}
			return ownerOf(x.X, depth+1)
		case *ssa.Phi:
			for _, e := range x.Edges {
				if o, ok := ownerOf(e, depth+1); ok {
					return o, true
				}
			}
		}
		return nil, false
	}
	n := 0
	for _, f := range c.zygoFuncs() {
		eachInstr(f, func(b *ssa.BasicBlock, i int, in ssa.Instruction) {
			call, ok := in.(*ssa.Call)
			if !ok {
				return
			}
			bi, ok := call.Call.Value.(*ssa.Builtin)
			if !ok || bi.Name() != "append" || len(call.Call.Args) < 2 {
				return
			}
			owner, ok := ownerOf(call.Call.Args[0], 0)
			if !ok {
				return
			}
			n++
			// where the result goes: the Val field of which object
			for _, r := range *call.Referrers() {
				st, ok := r.(*ssa.Store)
				if !ok || st.Val != ssa.Value(call) {
					continue
				}
				fa, ok := st.Addr.(*ssa.FieldAddr)
				if !ok || faField(fa) != val {
					continue
				}
				target := fa.X
				same := target == owner
				if !same {
					// the same object reached through two loads of one variable
					if l1, ok := target.(*ssa.UnOp); ok {
						if l2, ok := owner.(*ssa.UnOp); ok && l1.X == l2.X {
							same = true
						}
					}
				}
				if same {
					// grown in place; but not if the object's storage was itself taken from another array
					if o2, ok := ownerOf(call.Call.Args[0], 0); ok && o2 == target {
						c.ok(rule, fnName(f), "append grows an array in place", call.Pos(), "the result of append is stored back into the array whose storage was appended to")
						continue
					}
				}
				c.bad(rule, fnName(f), "append to one array's storage becomes another array's storage", call.Pos(),
					"append writes into the spare capacity of the first array's storage and the result is kept as the storage of a second array: two arrays made from the same prefix share the appended slots, so (def b (append a 4)) (def c (append a 5)) leaves b equal to c; a variable changes although nothing assigned to it")
			}
		})
	}
	c.check(n >= 3, rule, "package", "appends to array storage examined", token.NoPos,
		fmt.Sprintf("%d append calls on the storage of a script array examined", n), fmt.Sprintf("only %d append calls on script array storage found", n))
}

// checkLastFormKeepsTail: C09-LAST. ES-T decides that the tail flag is not set where it must not
// be; this rule is the other half: where the property promises constant space -- the last form of a
// begin, let, letseq or newScope body -- the last sub-form is compiled with the flag the form itself
// was entered with. In the abstract interpreter the flag is "definitely false" or "possibly true";
// the only sources of "possibly true" inside a generator are the value it was entered with (or a
// saved copy of it), so the last sub-form segment of every emission sequence of these generators
// must carry "possibly true". A form that clears the flag for its body and restores it afterwards
// compiles its tail call as an ordinary call: right value, stack growing with the depth.
func (c *Ctx) checkLastFormKeepsTail(rule string) {
	es := c.runES()
	n := 0
	for _, fn := range []string{"Generator.GenerateBegin", "Generator.GenerateLet", "Generator.GenerateNewScope", "Generator.GenerateCond", "Generator.GenerateShortCircuit"} {
		seen := map[string]bool{}
		found := false
		for _, t := range es.templates {
			if t.fn != fn || t.what != "return" {
				continue
			}
			var last *atom
			for _, a := range t.seq {
				if a.kind == "Seg" {
					last = a
				}
				if a.kind == "Rep" || a.kind == "Alt" {
					// a trailing loop over the forms: not the shape of these generators' last form
					last = nil
				}
			}
			if last == nil || seen[seqString(t.seq)] {
				continue
			}
			seen[seqString(t.seq)] = true
			found = true
			n++
			c.check(last.tail == tailT || last.tailEnd, rule, fn, "last form compiled with the incoming tail flag", last.pos,
				"the last sub-form of the body is compiled with the tail flag the form was entered with",
				"the last form of the body is compiled with the tail flag cleared: a self call there is an ordinary call, so recursion through this form uses address, scope and data stack in proportion to its depth instead of running in constant space: "+seqString(t.seq))
		}
		if !found {
			c.undecided(rule, fn, "last form compiled with the incoming tail flag", token.NoPos, "no emission sequence with a last sub-form derived for "+fn)
		}
	}
	_ = n
	if os.Getenv("ZY_ES_DUMP") != "" {
		for _, t := range es.templates {
			if strings.Contains(t.fn, os.Getenv("ZY_ES_DUMP")) && t.what == "return" {
				fmt.Fprintf(os.Stderr, "TEMPLATE %s: %s\n", t.fn, seqString(t.seq))
			}
		}
	}
}

// checkIdleGrowth: C04-GROW. "An idle interpreter does not grow with the number
// of evaluations it has served." Three structural places where it did:
//
//   - the code of every text ever loaded stayed in the main function: the
//     loader appends to mainfunc.fun. The routine that appends must, when the
//     interpreter is at rest (the test goes through ReachedEnd), start the main
//     function afresh before it appends.
//   - a builder bound every anonymous function under a generated name in the
//     scope it ran in: a name made by GenSymbol is bound (LexicalBindSymbol)
//     only on a path that a test has shown not to be the anonymous case.
//   - every compilation of fn / for / package / range interns a fresh symbol
//     (GenSymbol in the generator and the infix expander), and nothing ever
//     leaves the symbol tables: reported per routine (recorded findings).
func (c *Ctx) checkIdleGrowth(rule string) {
	mainF := c.mustField(rule, "Zlisp", "mainfunc")
	funF := c.mustField(rule, "SexpFunction", "fun")
	reached := c.mustFn(rule, "Zlisp.ReachedEnd")
	if mainF == nil || funF == nil || reached == nil {
		return
	}
	n := 0
	for _, f := range c.zygoFuncs() {
		eachInstr(f, func(b *ssa.BasicBlock, i int, in ssa.Instruction) {
			st, ok := in.(*ssa.Store)
			if !ok {
				return
			}
			fa, ok := st.Addr.(*ssa.FieldAddr)
			if !ok || faField(fa) != funF {
				return
			}
			if _, isMain := loadOfField(fa.X, mainF); !isMain {
				return
			}
			call, ok := st.Val.(*ssa.Call)
			if !ok {
				return
			}
			if bi, ok := call.Call.Value.(*ssa.Builtin); !ok || bi.Name() != "append" {
				return
			}
			n++
			// a store of a new main function, under a test that asks ReachedEnd, on the way to the append
			fresh := false
			eachInstr(f, func(b2 *ssa.BasicBlock, j int, x ssa.Instruction) {
				st2, ok := x.(*ssa.Store)
				if !ok {
					return
				}
				fa2, ok := st2.Addr.(*ssa.FieldAddr)
				if !ok || faField(fa2) != mainF {
					return
				}
				if !(b2 == b || blockReaches(b2, b)) {
					return
				}
				atRest := guardedBy(b2, func(cond ssa.Value) (bool, bool) {
					if cl, ok := cond.(*ssa.Call); ok && cl.Call.StaticCallee() == reached {
						return true, true
					}
					return false, false
				})
				if atRest {
					fresh = true
				}
			})
			c.check(fresh, rule, fnName(f), "finished code dropped before more is appended", in.Pos(),
				"when the interpreter is at rest the main function is started afresh before the new code is appended",
				"the code of every text is appended to the main function and nothing but Clear ever removes it: an idle interpreter keeps the instructions and constants of every evaluation it has served")
		})
	}
	if n == 0 {
		c.undecided(rule, "package", "appends to the main function", token.NoPos, "no append to mainfunc.fun found (LoadExpressions confirmed by reading)")
	}
	gensym := c.fn("Zlisp.GenSymbol")
	bind := c.fn("Zlisp.LexicalBindSymbol")
	genT := c.named("Generator")
	if gensym == nil || bind == nil {
		return
	}
	for _, f := range c.zygoFuncs() {
		gs := callsOf(f, gensym)
		if len(gs) == 0 {
			continue
		}
		// (b) a generated name that is bound
		for _, bs := range callsOf(f, bind) {
			args := bs.Common().Args
			if len(args) < 2 {
				continue
			}
			fromGen := false
			for _, leaf := range phiLeaves(args[1]) {
				if cl, ok := leaf.(*ssa.Call); ok && cl.Call.StaticCallee() == gensym {
					fromGen = true
				}
			}
			if !fromGen {
				continue
			}
			// guarded by a boolean that is true exactly on the paths that made the name up? accept any test of a
			// phi of constants whose generated-name edge is excluded: simply, the bind is not reachable from the
			// GenSymbol call without passing a conditional that separates the two
			sep := false
			for _, g := range gs {
				if !blockReaches(g.Block(), bs.Block()) && g.Block() != bs.Block() {
					sep = true
					continue
				}
				if guardedBy(bs.Block(), func(cond ssa.Value) (bool, bool) {
					// a flag set to true next to the GenSymbol call
					for _, leaf := range phiLeaves(cond) {
						if k, ok := leaf.(*ssa.Const); ok && k.Value != nil && k.Value.String() == "true" {
							if ph, ok := cond.(*ssa.Phi); ok {
								for ei, e := range ph.Edges {
									if e == leaf && ei < len(ph.Block().Preds) && (ph.Block().Preds[ei] == g.Block() || blockReaches(g.Block(), ph.Block().Preds[ei])) {
										return true, false
									}
								}
							}
						}
					}
					return false, false
				}) {
					sep = true
				}
			}
			c.check(sep, rule, fnName(f), "a generated name is not bound", bs.Pos(),
				"the binding is made only on the paths on which the name was given, not generated",
				"a name made up by GenSymbol for an anonymous function is bound in the scope the builder runs in, where nothing can refer to it and nothing removes it: every evaluation of an anonymous (func ...) leaves one more binding behind")
		}
		// (c) fresh symbols per compilation
		// (a symbol the script asked for -- the gensym builtin hands it back as its result -- is the script's business)
		asked := false
		for _, r := range returnsOf(f) {
			for _, leaf := range phiLeaves(r.Results[0]) {
				if mi, ok := leaf.(*ssa.MakeInterface); ok {
					leaf = mi.X
				}
				if cl, ok := leaf.(*ssa.Call); ok && cl.Call.StaticCallee() == gensym {
					asked = true
				}
			}
		}
		_ = genT
		if !asked {
			c.bad(rule, fnName(f), "interns a fresh symbol per compilation", gs[0].Pos(),
				"each compilation of this form interns a new generated symbol, and nothing ever leaves the symbol tables: the interpreter grows with the number of evaluations (arguments are compiled every time a call runs, so a loop that passes a (fn ...) interns one symbol per iteration)")
		}
	}
}
