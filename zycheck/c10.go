package main

// C10 — records convert to Go structs and back without loss.

import (
	"fmt"
	"go/ast"
	"go/constant"
	"go/token"
	"go/types"
	"sort"
	"strings"

	"golang.org/x/tools/go/ssa"
)

// mainTypeSwitch returns the first type switch in fd whose subject is one of the named identifiers.
func (c *Ctx) mainTypeSwitch(fd *ast.FuncDecl, subjects ...string) *ast.TypeSwitchStmt {
	var found *ast.TypeSwitchStmt
	ast.Inspect(fd.Body, func(n ast.Node) bool {
		ts, ok := n.(*ast.TypeSwitchStmt)
		if !ok || found != nil {
			return found == nil
		}
		var x ast.Expr
		switch a := ts.Assign.(type) {
		case *ast.AssignStmt:
			x = a.Rhs[0].(*ast.TypeAssertExpr).X
		case *ast.ExprStmt:
			x = a.X.(*ast.TypeAssertExpr).X
		}
		if id, ok := x.(*ast.Ident); ok {
			for _, s := range subjects {
				if id.Name == s {
					found = ts
				}
			}
		}
		return found == nil
	})
	return found
}

// endsInFailure: the statement list ends in panic(...) or in a return whose last result is not nil.
func endsInFailure(stmts []ast.Stmt) bool {
	if len(stmts) == 0 {
		return false
	}
	switch s := stmts[len(stmts)-1].(type) {
	case *ast.ExprStmt:
		if call, ok := s.X.(*ast.CallExpr); ok {
			if id, ok := call.Fun.(*ast.Ident); ok && (id.Name == "panic" || id.Name == "panicOn") {
				return true
			}
		}
	case *ast.ReturnStmt:
		if len(s.Results) == 1 {
			// a function whose only result is the error
			switch r := s.Results[0].(type) {
			case *ast.CallExpr:
				fn := exprShort(r.Fun)
				return fn == "fmt.Errorf" || fn == "errors.New"
			case *ast.Ident:
				return r.Name == "err"
			}
			return false
		}
		if len(s.Results) >= 2 {
			if id, ok := s.Results[len(s.Results)-1].(*ast.Ident); ok && id.Name == "nil" {
				return false
			}
			return true
		}
	}
	return false
}

func checkC10(c *Ctx) {
	c.explainf("C10 decides the shape of the two converters' case tables: in the record->Go converters and the Go->record converters the arm for a value kind that has no conversion ends in an error or a panic (inside the builtin barrier) instead of printing and succeeding; for every field type of the registered demo structs the Go->record direction has an arm (the gaps are recorded findings); every recursive conversion call passes on the same dedup cache, which is read before converting a record and written on success; an unknown record field ends in a panic that reaches the script as an error; the converters are reachable only behind the recover barrier. Numbers are stored into Go fields only after a width, range or exactness test (C10-RANGE) and fields are reached through their embed path in both directions (C10-EMBED). It does not decide equality of values after a trip or shared-object identity.")

	// ---- C10-EXH
	type conv struct {
		fn       string
		subjects []string
	}
	for _, cv := range []conv{{"SexpToGoStructs", []string{"sexp"}}, {"SexpToGo", []string{"sexp"}}, {"fillHashHelper", []string{"r"}}, {"decodeGoToSexpHelper", []string{"r"}}} {
		fd := c.funcDecl(cv.fn)
		if fd == nil {
			c.undecided("C10-EXH", cv.fn, "anchor", token.NoPos, "converter not found")
			continue
		}
		ts := c.mainTypeSwitch(fd, cv.subjects...)
		if ts == nil {
			c.undecided("C10-EXH", cv.fn, "type switch", fd.Pos(), "no type switch over the value being converted")
			continue
		}
		var def *ast.CaseClause
		nArms := 0
		for _, cl := range ts.Body.List {
			cc := cl.(*ast.CaseClause)
			if cc.List == nil {
				def = cc
			} else {
				nArms += len(cc.List)
			}
		}
		okDef := def != nil && endsInFailure(def.Body)
		pos := ts.Pos()
		if def != nil {
			pos = def.Pos()
		}
		c.check(okDef, "C10-EXH", cv.fn, "kind without a conversion", pos,
			fmt.Sprintf("the default arm (after %d kinds) ends in an error/panic", nArms),
			"a value of a kind the converter has no arm for is dropped silently: the default arm does not end in an error or panic (it prints, or falls through to a success return)")
	}

	// ---- C10-AGREE: Go->record arms cover the field types of the registered demo structs
	c.checkAgree()
	c.checkNumericRange("C10-RANGE")
	c.checkEmbedWalk("C10-EMBED")

	// ---- C10-DEDUP
	for _, name := range []string{"SexpToGoStructs", "SexpToGo"} {
		f := c.mustFn("C10-DEDUP", name)
		if f == nil {
			continue
		}
		var dedupParam *ssa.Parameter
		for _, p := range f.Params {
			if p.Name() == "dedup" {
				dedupParam = p
			}
		}
		if dedupParam == nil {
			c.undecided("C10-DEDUP", name, "dedup parameter", f.Pos(), "no parameter named dedup")
			continue
		}
		isOwnDedup := func(v ssa.Value) bool {
			seen := map[ssa.Value]bool{}
			var ok func(v ssa.Value) bool
			ok = func(v ssa.Value) bool {
				if seen[v] {
					return true
				}
				seen[v] = true
				switch x := v.(type) {
				case *ssa.Parameter:
					return x == dedupParam
				case *ssa.MakeMap:
					return true // the nil-initialised cache of the top-level call
				case *ssa.Phi:
					for _, e := range x.Edges {
						if !ok(e) {
							return false
						}
					}
					return true
				case *ssa.UnOp:
					// spilled into a cell because the deferred closure captures it
					if al, isAl := x.X.(*ssa.Alloc); isAl {
						for _, r := range nonDebugRefs(al) {
							if st, isSt := r.(*ssa.Store); isSt && st.Addr == ssa.Value(al) && !ok(st.Val) {
								return false
							}
						}
						return true
					}
				}
				return false
			}
			return ok(v)
		}
		targets := map[*ssa.Function]int{}
		for _, n2 := range []string{"SexpToGoStructs", "SexpToGo"} {
			if g := c.fn(n2); g != nil {
				for i, p := range g.Params {
					if p.Name() == "dedup" {
						targets[g] = i
					}
				}
			}
		}
		n := 0
		for _, g := range withClosures(f) {
			eachInstr(g, func(b *ssa.BasicBlock, i int, in ssa.Instruction) {
				ci, ok := in.(ssa.CallInstruction)
				if !ok {
					return
				}
				callee := ci.Common().StaticCallee()
				idx, isConv := targets[callee]
				if !isConv || g != f {
					return
				}
				n++
				arg := ci.Common().Args[idx]
				c.check(isOwnDedup(arg), "C10-DEDUP", name, "recursive "+fnName(callee), in.Pos(), "the shared-object cache is passed on",
					"a nested conversion gets a different (or no) dedup cache: a record referenced twice becomes two Go objects")
			})
		}
		if n == 0 {
			c.undecided("C10-DEDUP", name, "recursive calls", f.Pos(), "no recursive conversion calls found")
		}
		// cache read: a comma-ok lookup on the cache; cache write: a map update on it (in the function or its deferred closure)
		reads, writes := 0, 0
		for _, g := range withClosures(f) {
			eachInstr(g, func(b *ssa.BasicBlock, i int, in ssa.Instruction) {
				switch x := in.(type) {
				case *ssa.Lookup:
					if mt, ok := x.X.Type().Underlying().(*types.Map); ok && x.CommaOk && strings.Contains(mt.Key().String(), "SexpHash") {
						reads++
					}
				case *ssa.MapUpdate:
					if mt, ok := x.Map.Type().Underlying().(*types.Map); ok && strings.Contains(mt.Key().String(), "SexpHash") {
						writes++
					}
				}
			})
		}
		c.check(reads >= 1 && writes >= 1, "C10-DEDUP", name, "cache read and written", f.Pos(), "a record already converted is looked up, a fresh conversion is recorded", fmt.Sprintf("the dedup cache is read %d and written %d times", reads, writes))
	}

	// ---- C10-UNK: unknown field ends in a panic
	if f := c.mustFn("C10-UNK", "SexpToGoStructs"); f != nil {
		tagMap := c.mustField("C10-UNK", "SexpHash", "JsonTagMap")
		n := 0
		if tagMap != nil {
			eachInstr(f, func(b *ssa.BasicBlock, i int, in ssa.Instruction) {
				iff, ok := in.(*ssa.If)
				if !ok {
					return
				}
				ex, ok := stripNotV(iff.Cond).(*ssa.Extract)
				if !ok || ex.Index != 1 {
					return
				}
				lk, ok := ex.Tuple.(*ssa.Lookup)
				if !ok || !derivesFromField(lk.X, tagMap, 0) {
					return
				}
				n++
				miss := b.Succs[1]
				if _, neg := stripNot(iff.Cond); neg {
					miss = b.Succs[0]
				}
				// walk from the miss edge: must hit another tag lookup or a panic before leaving
				okMiss := true
				seen := map[*ssa.BasicBlock]bool{}
				var walk func(x *ssa.BasicBlock)
				walk = func(x *ssa.BasicBlock) {
					if seen[x] || !okMiss {
						return
					}
					seen[x] = true
					for _, y := range x.Instrs {
						if l2, ok := y.(*ssa.Lookup); ok && derivesFromField(l2.X, tagMap, 0) {
							return
						}
						if _, ok := y.(*ssa.Panic); ok {
							return
						}
						if r, ok := y.(*ssa.Return); ok {
							if len(r.Results) == 2 && isNilConst(r.Results[1]) {
								okMiss = false
							}
							return
						}
					}
					if x.Dominates(b) && x != miss {
						okMiss = false // back at the loop head: the field was skipped
						return
					}
					for _, s := range x.Succs {
						walk(s)
					}
				}
				walk(miss)
				c.check(okMiss, "C10-UNK", "SexpToGoStructs", "field not in the struct", iff.Pos(), "a record field the struct does not have leads to a retry with the capitalised name or to a panic (an error for the script)",
					"a record field that the Go struct does not have is skipped silently")
			})
		}
		if n < 2 {
			c.undecided("C10-UNK", "SexpToGoStructs", "field lookups", f.Pos(), "expected two field-name lookups (tag, then capitalised name)")
		}
	}

	// ---- C10-ALIAS: no retained append on a loop-invariant base; one target per converted element
	c.checkAppendAliasing()
	c.checkFreshTargets()

	// ---- C10-ATTACH: the Go value is attached to the record only after it was filled without error
	if f := c.mustFn("C10-ATTACH", "toGoHelper"); f != nil {
		conv := c.fn("SexpToGoStructs")
		shadowSet := c.field("SexpHash", "ShadowSet")
		n := 0
		if conv != nil && shadowSet != nil {
			eachInstr(f, func(b *ssa.BasicBlock, i int, in ssa.Instruction) {
				st, ok := in.(*ssa.Store)
				if !ok {
					return
				}
				fa, ok := st.Addr.(*ssa.FieldAddr)
				if !ok || faField(fa) != shadowSet {
					return
				}
				n++
				after := false
				for _, ci := range callsOf(f, conv) {
					call, ok := ci.(*ssa.Call)
					if !ok || !dominatesInstr(call, st) {
						continue
					}
					if guardedBy(b, func(cond ssa.Value) (bool, bool) {
						bo, ok := cond.(*ssa.BinOp)
						if !ok || (bo.Op != token.NEQ && bo.Op != token.EQL) || !isNilConst(bo.Y) {
							return false, false
						}
						ex, ok := bo.X.(*ssa.Extract)
						if !ok || ex.Tuple != ssa.Value(call) {
							return false, false
						}
						return true, bo.Op == token.EQL
					}) {
						after = true
					}
				}
				c.check(after, "C10-ATTACH", "toGoHelper", "shadow attached after a successful fill", st.Pos(),
					"the record is marked as carrying its Go value only after SexpToGoStructs returned without error",
					"the record is marked as carrying its Go value before the conversion has succeeded: when the conversion fails (wrong kind, undeclared field) the record keeps a half-filled Go value, and the next method call on it skips the conversion and silently works on that value")
			})
		}
		if n == 0 {
			c.undecided("C10-ATTACH", "toGoHelper", "shadow attached after a successful fill", f.Pos(), "no store of the shadow flag found in toGoHelper")
		}
	}

	// ---- C10-BAR: converters run behind the barrier
	br := c.newBR(c.entryRoots(true), c.tableCut("C01-BAR"))
	for _, name := range []string{"SexpToGoStructs", "ToGoFunction", "CallGoMethodFunction", "fillHashHelper"} {
		f := c.mustFn("C10-BAR", name)
		if f == nil {
			continue
		}
		o := c.check(!br.unprotected(f), "C10-BAR", name, "behind the recover barrier", f.Pos(), "its panics (wrong target, unknown field) come back to the script as errors",
			"the converter is reachable outside the builtin recover barrier: its panics would leave the library instead of being reported to the script")
		if o.Status == StViolation {
			o.Path = br.unprot.pathTo(c, f)
		}
	}
}

// checkAgree compares the Go->record arms with the field types of the demo structs.
func (c *Ctx) checkAgree() {
	// registered struct types: &T{} literals returned by factory closures in RegisterDemoStructs / ImportDemoData
	structs := map[*types.Named]bool{}
	for _, fn := range []string{"RegisterDemoStructs", "Zlisp.ImportDemoData"} {
		fd := c.funcDecl(fn)
		if fd == nil {
			c.undecided("C10-AGREE", fn, "anchor", token.NoPos, "registration function not found")
			continue
		}
		ast.Inspect(fd.Body, func(n ast.Node) bool {
			u, ok := n.(*ast.UnaryExpr)
			if !ok || u.Op != token.AND {
				return true
			}
			cl, ok := u.X.(*ast.CompositeLit)
			if !ok {
				return true
			}
			if t, ok := c.Zygo.TypesInfo.TypeOf(cl).(*types.Named); ok {
				if _, isStruct := t.Underlying().(*types.Struct); isStruct && t.Obj().Pkg() == c.Zygo.Types && t.Obj().Name() != "RegisteredType" {
					structs[t] = true
				}
			}
			return true
		})
	}
	if len(structs) < 5 {
		c.undecided("C10-AGREE", "RegisterDemoStructs", "registered structs", token.NoPos, fmt.Sprintf("only %d registered struct types found", len(structs)))
	}
	// arms of fillHashHelper
	fd := c.funcDecl("fillHashHelper")
	if fd == nil {
		return
	}
	arms := map[string]bool{}
	if ts := c.mainTypeSwitch(fd, "r"); ts != nil {
		for _, cl := range ts.Body.List {
			for _, e := range cl.(*ast.CaseClause).List {
				if t := c.Zygo.TypesInfo.TypeOf(e); t != nil {
					arms[types.TypeString(t, func(*types.Package) string { return "" })] = true
				} else {
					arms["nil"] = true
				}
			}
		}
	}
	// leaf field types
	leaf := map[string]string{} // type string -> example field
	var walkStruct func(t *types.Named, seen map[*types.Named]bool)
	var walkType func(t types.Type, where string, seen map[*types.Named]bool)
	walkType = func(t types.Type, where string, seen map[*types.Named]bool) {
		ts := types.TypeString(t, func(*types.Package) string { return "" })
		switch x := t.(type) {
		case *types.Pointer:
			if n, ok := x.Elem().(*types.Named); ok && structs[n] {
				walkStruct(n, seen)
				return // pointers to registered structs are handled by the registry scan
			}
		case *types.Named:
			if _, isIface := x.Underlying().(*types.Interface); isIface {
				return // interface fields hold pointers to registered structs
			}
			if st, ok := x.Underlying().(*types.Struct); ok && x.Obj().Pkg() == c.Zygo.Types {
				_ = st
				// embedded / nested struct by value
				if structs[x] {
					walkStruct(x, seen)
				}
			}
		}
		if _, ok := leaf[ts]; !ok {
			leaf[ts] = where
		}
	}
	walkStruct = func(t *types.Named, seen map[*types.Named]bool) {
		if seen[t] {
			return
		}
		seen[t] = true
		st := t.Underlying().(*types.Struct)
		for i := 0; i < st.NumFields(); i++ {
			f := st.Field(i)
			if f.Embedded() {
				if n, ok := f.Type().(*types.Named); ok {
					if _, isStruct := n.Underlying().(*types.Struct); isStruct {
						walkStruct(n, seen) // embedded structs are flattened by the field map
						continue
					}
				}
			}
			walkType(f.Type(), t.Obj().Name()+"."+f.Name(), seen)
		}
	}
	var names []*types.Named
	for t := range structs {
		names = append(names, t)
	}
	sort.Slice(names, func(i, j int) bool { return names[i].Obj().Name() < names[j].Obj().Name() })
	for _, t := range names {
		walkStruct(t, map[*types.Named]bool{})
	}
	// record->Go: every field kind of the demo structs needs the arm of the Sexp type that carries it
	toGo := map[string]bool{}
	if fd2 := c.funcDecl("SexpToGoStructs"); fd2 != nil {
		if ts := c.mainTypeSwitch(fd2, "sexp"); ts != nil {
			for _, cl := range ts.Body.List {
				for _, e := range cl.(*ast.CaseClause).List {
					toGo[exprShort(e)] = true
				}
			}
		}
	}
	carrier := func(ts string) string {
		switch {
		case ts == "bool":
			return "*SexpBool"
		case ts == "string":
			return "*SexpStr"
		case ts == "[]byte" || ts == "[]uint8":
			return "*SexpRaw"
		case ts == "Time":
			return "*SexpTime"
		case strings.HasPrefix(ts, "int") || strings.HasPrefix(ts, "uint"):
			return "*SexpInt"
		case strings.HasPrefix(ts, "float"):
			return "*SexpFloat"
		case strings.HasPrefix(ts, "[]"):
			return "*SexpArray"
		}
		return "*SexpHash"
	}
	need := map[string]string{}
	for ts, where := range leaf {
		need[carrier(ts)] = where + " (" + ts + ")"
	}
	need["*SexpHash"] = "nested records"
	need["*SexpSentinel"] = "nil fields"
	var carriers []string
	for k := range need {
		carriers = append(carriers, k)
	}
	sort.Strings(carriers)
	for _, k := range carriers {
		c.check(toGo[k], "C10-AGREE", "SexpToGoStructs", "arm "+k, fd.Pos(), "record->Go has the arm that fills fields such as "+need[k],
			"record->Go has no "+k+" arm, needed to fill fields such as "+need[k]+": such fields cannot be filled")
	}
	var lts []string
	for ts := range leaf {
		lts = append(lts, ts)
	}
	sort.Strings(lts)
	for _, ts := range lts {
		handled := arms[ts]
		c.check(handled, "C10-AGREE", "fillHashHelper", "Go type "+ts, fd.Pos(),
			"the Go->record converter has an arm for this field type (e.g. "+leaf[ts]+")",
			"registered structs have fields of Go type "+ts+" (e.g. "+leaf[ts]+") but the Go->record converter has no arm for it: such a field comes back to the script as nil, silently")
	}
}

// loopOf: the blocks that lie on a cycle through b (empty if b is not in a loop).
func loopOf(b *ssa.BasicBlock) map[*ssa.BasicBlock]bool {
	fwd := map[*ssa.BasicBlock]bool{}
	var walk func(x *ssa.BasicBlock)
	walk = func(x *ssa.BasicBlock) {
		for _, s := range x.Succs {
			if !fwd[s] {
				fwd[s] = true
				walk(s)
			}
		}
	}
	walk(b)
	if !fwd[b] {
		return nil
	}
	out := map[*ssa.BasicBlock]bool{}
	for x := range fwd {
		if blockReaches(x, b) {
			out[x] = true
		}
	}
	out[b] = true
	return out
}

func definedOutside(v ssa.Value, loop map[*ssa.BasicBlock]bool) bool {
	switch x := v.(type) {
	case *ssa.Parameter, *ssa.FreeVar, *ssa.Global:
		return true
	case *ssa.Const:
		return false // append(nil, ...) allocates
	case ssa.Instruction:
		return !loop[x.Block()]
	}
	return false
}

// escapes: the slice value is retained somewhere other than a local that is
// overwritten by the next iteration: stored into a field, element or global,
// or handed to a call.
func escapes(v ssa.Value, depth int) bool {
	if depth > 4 {
		return false
	}
	refs := v.Referrers()
	if refs == nil {
		return false
	}
	for _, ref := range *refs {
		switch x := ref.(type) {
		case *ssa.Store:
			if x.Val != v {
				continue
			}
			switch x.Addr.(type) {
			case *ssa.FieldAddr, *ssa.IndexAddr, *ssa.Global:
				return true
			}
		case *ssa.MapUpdate:
			if x.Value == v {
				return true
			}
		case ssa.CallInstruction:
			if _, isBuiltin := x.Common().Value.(*ssa.Builtin); !isBuiltin {
				return true
			}
		case *ssa.MakeInterface:
			if escapes(x, depth+1) {
				return true
			}
		case *ssa.Phi:
			if escapes(x, depth+1) {
				return true
			}
		}
	}
	return false
}

// checkAppendAliasing: C10-ALIAS. `r = append(base, x)` inside a loop, with
// base the same value on every iteration and r retained, makes the retained
// slices share base's spare capacity: a later iteration overwrites the element
// an earlier one appended. The same holds across the sibling calls of a
// recursion that passes r down as the next base.
func (c *Ctx) checkAppendAliasing() {
	n := 0
	for _, f := range c.zygoFuncs() {
		eachInstr(f, func(b *ssa.BasicBlock, i int, in ssa.Instruction) {
			call, ok := in.(*ssa.Call)
			if !ok {
				return
			}
			bi, ok := call.Call.Value.(*ssa.Builtin)
			if !ok || bi.Name() != "append" || len(call.Call.Args) < 2 {
				return
			}
			loop := loopOf(b)
			if loop == nil {
				return
			}
			n++
			base := call.Call.Args[0]
			if !definedOutside(base, loop) || !escapes(call, 0) {
				return
			}
			// `base = append(base, x)` through a variable spilled to memory shows up as a load inside the loop, not here
			c.bad("C10-ALIAS", fnName(f), "append on a loop-invariant slice, result retained", call.Pos(),
				"every iteration appends to the same slice value and keeps the result: as soon as that slice has spare capacity the results share one backing array and the element appended by one iteration is overwritten by the next (field paths / element lists of siblings collapse onto the last one)")
		})
	}
	c.note("appends_in_loops_examined", n)
	c.check(n >= 20, "C10-ALIAS", "package", "appends inside loops examined", token.NoPos,
		fmt.Sprintf("%d append calls inside loops examined: none keeps the result of appending to a loop-invariant slice", n),
		fmt.Sprintf("only %d append calls inside loops found", n))
}

// checkFreshTargets: C10-ALIAS. The converter caches record -> target in its
// dedup map and appends *target to slices, so the target handed to a recursive
// conversion inside a loop must be allocated in that iteration.
func (c *Ctx) checkFreshTargets() {
	f := c.mustFn("C10-ALIAS", "SexpToGoStructs")
	if f == nil {
		return
	}
	n := 0
	for _, g := range withClosures(f) {
		eachInstr(g, func(b *ssa.BasicBlock, i int, in ssa.Instruction) {
			call, ok := in.(*ssa.Call)
			if !ok || call.Call.StaticCallee() != f || len(call.Call.Args) < 2 {
				return
			}
			loop := loopOf(b)
			if loop == nil {
				return
			}
			// walk the target argument back to an allocation
			v := call.Call.Args[1]
			var alloc *ssa.Call
			for depth := 0; depth < 8 && v != nil; depth++ {
				switch x := v.(type) {
				case *ssa.MakeInterface:
					v = x.X
					continue
				case *ssa.Call:
					callee := x.Call.StaticCallee()
					if callee != nil && fnPkgPath(callee) == "reflect" {
						if callee.Name() == "New" {
							alloc = x
							v = nil
							continue
						}
						if len(x.Call.Args) > 0 { // method on a reflect.Value: follow the receiver
							v = x.Call.Args[0]
							continue
						}
					}
				}
				v = nil
			}
			if alloc == nil {
				return // a projection of the parent's target (field, element): distinct per iteration by construction
			}
			n++
			c.check(loop[alloc.Block()], "C10-ALIAS", fnName(g), "one target per converted element", call.Pos(),
				"the target of the recursive conversion is allocated inside the loop: every element gets its own Go value",
				"the target handed to the recursive conversion is allocated once, outside the loop: every element is written into the same Go value, and the record->target cache hands that shared value out for repeated records")
		})
	}
	if n == 0 {
		c.undecided("C10-ALIAS", "SexpToGoStructs", "one target per converted element", f.Pos(), "no recursive conversion of slice elements with an allocated target found")
	}
}

// checkNumericRange: C10-RANGE. reflect.Value.SetInt cuts its argument down to
// the width of the field without a word, int64(f) of a float outside the int64
// range is an arbitrary value, float64(i) of an integer above 2^53 is another
// integer. Where the record -> Go converter stores a script number into a Go
// field through one of these, a test that the value fits must come first (or
// the field is known to be an int64 / float64 from the type-switch arm).
func (c *Ctx) checkNumericRange(rule string) {
	f := c.mustFn(rule, "SexpToGoStructs")
	intVal := c.field("SexpInt", "Val")
	fltVal := c.field("SexpFloat", "Val")
	if f == nil || intVal == nil || fltVal == nil {
		return
	}
	isReflectMethod := func(in ssa.Instruction, name string) (*ssa.Call, bool) {
		call, ok := in.(*ssa.Call)
		if !ok {
			return nil, false
		}
		g := call.Call.StaticCallee()
		if g == nil || fnPkgPath(g) != "reflect" || g.Name() != name {
			return nil, false
		}
		return call, true
	}
	// the arm is entered only after the target was asserted to have the exact basic type
	inArmOf := func(b *ssa.BasicBlock, kind types.BasicKind) bool {
		return guardedBy(b, func(cond ssa.Value) (bool, bool) {
			ex, ok := cond.(*ssa.Extract)
			if !ok || ex.Index != 1 {
				return false, false
			}
			ta, ok := ex.Tuple.(*ssa.TypeAssert)
			if !ok {
				return false, false
			}
			bt, ok := ta.AssertedType.(*types.Basic)
			if !ok || bt.Kind() != kind {
				return false, false
			}
			return true, true
		})
	}
	dominatedByCall := func(in ssa.Instruction, name string) bool {
		found := false
		eachInstr(in.Parent(), func(b *ssa.BasicBlock, i int, x ssa.Instruction) {
			if call, ok := isReflectMethod(x, name); ok && dominatesInstr(call, in) {
				// its verdict is branched on
				for _, r := range *call.Referrers() {
					if _, ok := r.(*ssa.If); ok {
						found = true
					}
					if bo, ok := r.(*ssa.BinOp); ok && bo.Referrers() != nil {
						found = true
					}
				}
			}
		})
		return found
	}
	n := 0
	for _, g := range withClosures(f) {
		eachInstr(g, func(b *ssa.BasicBlock, i int, in ssa.Instruction) {
			// (a) SetInt
			if call, ok := isReflectMethod(in, "SetInt"); ok {
				n++
				okFit := inArmOf(b, types.Int64) || dominatedByCall(in, "OverflowInt") || refusedBefore(in, "OverflowInt", isReflectMethod)
				c.check(okFit, rule, fnName(g), "SetInt after a width test", call.Pos(),
					"the field is an int64 by the type-switch arm, or OverflowInt is asked first",
					"an integer is stored with reflect.Value.SetInt into a field whose width is not known, and OverflowInt is not consulted: SetInt truncates silently, so 300 stored into an int8 field becomes 44 and no error reaches the script")
			}
			// (b) float -> int64 conversion of a script float
			if cv, ok := in.(*ssa.Convert); ok {
				from, okF := cv.X.Type().Underlying().(*types.Basic)
				to, okT := cv.Type().Underlying().(*types.Basic)
				if okF && okT && from.Info()&types.IsFloat != 0 && to.Info()&types.IsInteger != 0 {
					if _, isScript := loadOfField(cv.X, fltVal); isScript {
						n++
						lo, hi := false, false
						for _, bb := range g.Blocks {
							cond, t, e := condBranch(bb)
							bo, ok := cond.(*ssa.BinOp)
							if !ok {
								continue
							}
							k, isK := bo.Y.(*ssa.Const)
							if !isK || k.Value == nil || k.Value.Kind() != constant.Float && k.Value.Kind() != constant.Int {
								continue
							}
							if _, same := loadOfField(bo.X, fltVal); !same {
								continue
							}
							kv, _ := constant.Float64Val(constant.ToFloat(k.Value))
							// the conversion runs only on the side where the bound holds
							var okSide *ssa.BasicBlock
							switch {
							case (bo.Op == token.LSS || bo.Op == token.LEQ) && kv <= -9.2e18:
								okSide = e
								if okSide.Dominates(b) || pathOnlyThrough(bb, okSide, t, b) {
									lo = true
								}
							case (bo.Op == token.GEQ || bo.Op == token.GTR) && kv >= 9.2e18:
								okSide = e
								if okSide.Dominates(b) || pathOnlyThrough(bb, okSide, t, b) {
									hi = true
								}
							}
						}
						c.check(lo && hi, rule, fnName(g), "float to integer field after a range test", cv.Pos(),
							"the float is compared with both ends of the int64 range before it is converted",
							"a script float is converted with int64(f) for an integer field without a test against the int64 range: a whole float outside it (1e30, +Inf) is stored as an arbitrary integer (MinInt64) and no error reaches the script")
					}
				}
				// (c) int64 -> float64 of a script integer
				if okF && okT && from.Info()&types.IsInteger != 0 && to.Info()&types.IsFloat != 0 {
					if _, isScript := loadOfField(cv.X, intVal); isScript {
						n++
						back := false
						for _, r := range *cv.Referrers() {
							if c2, ok := r.(*ssa.Convert); ok {
								if tb, ok := c2.Type().Underlying().(*types.Basic); ok && tb.Info()&types.IsInteger != 0 {
									for _, r2 := range *c2.Referrers() {
										if bo, ok := r2.(*ssa.BinOp); ok && (bo.Op == token.NEQ || bo.Op == token.EQL) {
											back = true
										}
									}
								}
							}
						}
						c.check(back, rule, fnName(g), "integer to float field after an exactness test", cv.Pos(),
							"the float is converted back and compared with the integer before it is stored",
							"a script integer is stored into a float field as float64(i) with no test that the conversion is exact: above 2^53 the field holds a different integer and no error reaches the script")
					}
				}
			}
		})
	}
	if n < 4 {
		c.undecided(rule, "SexpToGoStructs", "numeric stores", f.Pos(), fmt.Sprintf("only %d numeric stores found in the converter (5 confirmed by reading)", n))
	}
}

// pathOnlyThrough: after the branch in bb, the block target is reached only through side (the other side leaves the function).
func pathOnlyThrough(bb, side, other, target *ssa.BasicBlock) bool {
	if side == other {
		return false
	}
	if !blockReaches(side, target) && side != target {
		return false
	}
	return !(other == target || blockReaches(other, target))
}

// refusedBefore: some call of the named reflect test can reach `in`, and the
// branch on which the test says "does not fit" cannot: the store happens only
// for values that passed the test or for kinds the test does not apply to
// (where the reflect setter itself refuses with a panic).
func refusedBefore(in ssa.Instruction, name string, isReflectMethod func(ssa.Instruction, string) (*ssa.Call, bool)) bool {
	ok := false
	eachInstr(in.Parent(), func(b *ssa.BasicBlock, i int, x ssa.Instruction) {
		call, is := isReflectMethod(x, name)
		if !is || !(b == in.Block() || blockReaches(b, in.Block())) {
			return
		}
		for _, r := range *call.Referrers() {
			iff, isIf := r.(*ssa.If)
			if !isIf {
				continue
			}
			overflowSide := iff.Block().Succs[0]
			if overflowSide != in.Block() && !blockReaches(overflowSide, in.Block()) {
				ok = true
			}
		}
	})
	return ok
}

// checkEmbedWalk: C10-EMBED. The field table of a registered struct is flat:
// fields promoted from embedded structs are listed next to the struct's own.
// HashFieldDet.FieldNum is the field's index inside the struct that declares
// it; only EmbedPath (a ChildFieldNum per level, from the top) leads from the
// outer struct to the field. Both directions of the conversion must reach a
// field through EmbedPath; reflect.Value.Field(det.FieldNum) on the outer
// struct reads or writes another field for every promoted one.
func (c *Ctx) checkEmbedWalk(rule string) {
	fnum := c.mustField(rule, "HashFieldDet", "FieldNum")
	child := c.mustField(rule, "EmbedPath", "ChildFieldNum")
	if fnum == nil || child == nil {
		return
	}
	nPath := 0
	for _, f := range c.zygoFuncs() {
		eachInstr(f, func(b *ssa.BasicBlock, i int, in ssa.Instruction) {
			call, ok := in.(*ssa.Call)
			if !ok {
				return
			}
			g := call.Call.StaticCallee()
			if g == nil || fnPkgPath(g) != "reflect" || g.Name() != "Field" || len(call.Call.Args) < 2 {
				return
			}
			idx := call.Call.Args[len(call.Call.Args)-1]
			if _, viaNum := loadOfField(idx, fnum); viaNum {
				c.bad(rule, fnName(f), "field reached by its index in the declaring struct", call.Pos(),
					"reflect.Value.Field is given HashFieldDet.FieldNum, the index inside the struct that declares the field, on the outer struct: for a field promoted from an embedded struct that is another field, so its value is lost or swapped with a neighbour's (and an index past the end panics)")
				return
			}
			if _, viaPath := loadOfField(idx, child); viaPath {
				nPath++
				c.ok(rule, fnName(f), "field reached through its embed path", call.Pos(), "reflect.Value.Field walks EmbedPath level by level")
			}
		})
	}
	if nPath < 2 {
		c.undecided(rule, "package", "embed-path walks", token.NoPos, fmt.Sprintf("only %d walks of EmbedPath found (one per direction of the conversion confirmed by reading)", nPath))
	}
}
