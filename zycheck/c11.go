package main

// C11 — JSON and msgpack encodings round-trip and are well-formed.

import (
	"fmt"
	"go/ast"
	"go/constant"
	"go/token"
	"go/types"
	"sort"
	"strings"

	"golang.org/x/tools/go/ssa"
)

func checkC11(c *Ctx) {
	c.explainf("C11 decides: every piece of text that the JSON encoder concatenates into its output is a string constant of the encoder, the result of the JSON string quoter, the result of a recursive encoder call, or the printed form of a scalar whose printer is JSON-compatible; strings, symbols, hash keys, key-order entries and the type name go through the quoter, which is encoding/json; nil is written as null; the reserved keys written by the encoders are exactly the ones the decoders look for; decoders walk maps sorted and restore the order from the key list when one was found; both codec handles are canonical; msgpack is produced from that JSON. User keys are compared with the reserved names before they are written (C11-RESV), number types without an encoder arm print digits only, and no hash is given the order list or buckets of another hash (C11-SHARE). It does not decide value equality after the round trip or number formatting.")
	// the encoders walk the order list: it has to list the map's keys, which a shared order list does not
	c.checkHashStorageNotShared("C11-SHARE")
	enc := []string{"SexpToJson", "SexpHash.jsonHashHelper", "SexpArray.jsonArrayHelper"}
	quote := c.mustFn("C11-ESC", "jsonQuote")
	if quote == nil {
		c.bad("C11-ESC", "SexpToJson", "string quoter", token.NoPos, "no JSON string quoter (jsonQuote) exists: strings reach the JSON text through the language printer or raw")
	}
	encSet := map[*ssa.Function]bool{}
	for _, n := range enc {
		if f := c.mustFn("C11-ESC", n); f != nil {
			encSet[f] = true
		}
	}
	// the quoter is encoding/json
	if quote != nil {
		usesJSON := false
		eachInstr(quote, func(b *ssa.BasicBlock, i int, in ssa.Instruction) {
			if call, ok := in.(*ssa.Call); ok {
				if g := call.Call.StaticCallee(); g != nil && fnPkgPath(g) == "encoding/json" && g.Name() == "Marshal" {
					usesJSON = true
				}
			}
		})
		c.check(usesJSON, "C11-ESC", "jsonQuote", "uses encoding/json", quote.Pos(), "strings are quoted by encoding/json.Marshal", "the JSON string quoter is not encoding/json: its escapes are not known to be JSON")
	}
	// provenance of every concatenation operand and returned string
	okOrigin := func(v ssa.Value, f *ssa.Function) (bool, string) {
		var visit func(v ssa.Value, depth int, seen map[ssa.Value]bool) (bool, string)
		visit = func(v ssa.Value, depth int, seen map[ssa.Value]bool) (bool, string) {
			if seen[v] || depth > 12 {
				return true, ""
			}
			seen[v] = true
			switch x := v.(type) {
			case *ssa.Const:
				return true, ""
			case *ssa.BinOp:
				if x.Op == token.ADD {
					if ok, why := visit(x.X, depth+1, seen); !ok {
						return false, why
					}
					return visit(x.Y, depth+1, seen)
				}
			case *ssa.Phi:
				for _, e := range x.Edges {
					if ok, why := visit(e, depth+1, seen); !ok {
						return false, why
					}
				}
				return true, ""
			case *ssa.Slice:
				return visit(x.X, depth+1, seen)
			case *ssa.Convert:
				return visit(x.X, depth+1, seen)
			case *ssa.UnOp:
				if x.Op == token.MUL {
					// load of a local accumulator: all stores into it must be fine
					if al, ok := x.X.(*ssa.Alloc); ok {
						for _, r := range nonDebugRefs(al) {
							if st, ok := r.(*ssa.Store); ok && st.Addr == ssa.Value(al) {
								if ok, why := visit(st.Val, depth+1, seen); !ok {
									return false, why
								}
							}
						}
						return true, ""
					}
					// element of the local key-text list (ko) filled from quoted-later key texts
					if ia, ok := x.X.(*ssa.IndexAddr); ok {
						_ = ia
						return false, "a list element is spliced in without quoting: " + x.String()
					}
				}
			case *ssa.Call:
				g := x.Call.StaticCallee()
				if g != nil && (g == quote || encSet[g]) {
					return true, ""
				}
				if x.Call.IsInvoke() && x.Call.Method.Name() == "SexpString" {
					return true, "printer"
				}
				// decimal integer formatters write digits and a sign only: a JSON number for every argument
				if g != nil && fnPkgPath(g) == "strconv" {
					switch g.Name() {
					case "Itoa":
						return true, ""
					case "FormatInt", "FormatUint":
						if base, ok := constIntOf(x.Call.Args[len(x.Call.Args)-1]); ok && base == 10 {
							return true, ""
						}
					}
				}
				if g != nil {
					return false, "result of " + fnName(g) + " is spliced into the JSON text without quoting"
				}
			}
			return false, "value " + v.String() + " (" + v.Type().String() + ") is spliced into the JSON text without quoting"
		}
		return visit(v, 0, map[ssa.Value]bool{})
	}
	nOps := 0
	for f := range encSet {
		eachInstr(f, func(b *ssa.BasicBlock, i int, in ssa.Instruction) {
			r, ok := in.(*ssa.Return)
			if !ok || len(r.Results) != 1 {
				return
			}
			nOps++
			good, why := okOrigin(r.Results[0], f)
			if why == "printer" {
				good = true
			}
			c.check(good, "C11-ESC", fnName(f), "text returned", r.Pos(), "built only from encoder constants, quoted strings and recursive encodings", "unquoted text reaches the JSON output: "+why)
		})
	}
	if nOps < 5 {
		c.undecided("C11-ESC", "SexpToJson", "returns", token.NoPos, fmt.Sprintf("only %d encoder returns examined", nOps))
	}
	// scalar arms of SexpToJson (AST)
	if fd := c.funcDecl("SexpToJson"); fd != nil {
		cases, ok := c.typeSwitchCases(fd, "exp")
		if !ok {
			c.undecided("C11-ESC", "SexpToJson", "type switch", fd.Pos(), "no type switch over the value")
		} else {
			armCalls := func(t string, fn string) bool {
				cc := cases[t]
				if cc == nil {
					return false
				}
				found := false
				ast.Inspect(cc, func(n ast.Node) bool {
					if call, ok := n.(*ast.CallExpr); ok {
						if id, ok := call.Fun.(*ast.Ident); ok && id.Name == fn {
							found = true
						}
					}
					return true
				})
				return found
			}
			c.check(armCalls("*SexpStr", "jsonQuote"), "C11-ESC", "SexpToJson", "scalar *SexpStr", fd.Pos(), "strings are JSON-quoted", "strings are not JSON-quoted: quotes, backslashes and control characters in a string break the JSON text (the language printer's escapes are not JSON)")
			c.check(armCalls("*SexpSymbol", "jsonQuote"), "C11-ESC", "SexpToJson", "scalar *SexpSymbol", fd.Pos(), "symbols are JSON-quoted", "symbol names are spliced between quotes unescaped")
			nullOK := false
			if cc := cases["*SexpSentinel"]; cc != nil {
				ast.Inspect(cc, func(n ast.Node) bool {
					if lit, ok := n.(*ast.BasicLit); ok && lit.Value == `"null"` {
						nullOK = true
					}
					return true
				})
			}
			c.check(nullOK, "C11-ESC", "SexpToJson", "scalar nil", fd.Pos(), "nil is written as null", "nil is not written as JSON null (the printer's `nil` is not JSON)")
			// numbers and booleans fall to the printer: check the printers
			c.checkJSONCompatiblePrinters()
		}
	}
	// keys in jsonHashHelper are quoted
	if fd := c.funcDecl("SexpHash.jsonHashHelper"); fd != nil {
		n := 0
		ast.Inspect(fd.Body, func(m ast.Node) bool {
			if call, ok := m.(*ast.CallExpr); ok {
				if id, ok := call.Fun.(*ast.Ident); ok && id.Name == "jsonQuote" {
					n++
				}
			}
			return true
		})
		c.check(n >= 3, "C11-ESC", "SexpHash.jsonHashHelper", "type name, keys and key-order entries quoted", fd.Pos(), fmt.Sprintf("%d quoting calls", n), "the hash encoder does not quote all of: type name, keys, key-order entries")
	}

	// ---- C11-KEYS
	reserved := func(fn string, writer bool) map[string]bool {
		out := map[string]bool{}
		fd := c.funcDecl(fn)
		if fd == nil {
			c.undecided("C11-KEYS", fn, "anchor", token.NoPos, "function not found")
			return out
		}
		// literals that are only compared with (a test of a user key against a reserved name) are neither written nor consumed
		compared := map[*ast.BasicLit]bool{}
		ast.Inspect(fd.Body, func(n ast.Node) bool {
			if be, ok := n.(*ast.BinaryExpr); ok && writer && (be.Op == token.EQL || be.Op == token.NEQ) {
				for _, e := range []ast.Expr{be.X, be.Y} {
					if bl, ok := e.(*ast.BasicLit); ok {
						compared[bl] = true
					}
				}
			}
			return true
		})
		ast.Inspect(fd.Body, func(n ast.Node) bool {
			lit, ok := n.(*ast.BasicLit)
			if !ok || lit.Kind != token.STRING || compared[lit] {
				return true
			}
			tv := c.Zygo.TypesInfo.Types[lit]
			if tv.Value == nil {
				return true
			}
			s := constant.StringVal(tv.Value)
			for _, k := range []string{"Atype", "zKeyOrder"} {
				if strings.Contains(s, `"`+k+`"`) || s == k {
					out[k] = true
				}
			}
			return true
		})
		return out
	}
	for _, pair := range [][2]string{{"SexpHash.jsonHashHelper", "decodeGoToSexpHelper"}, {"SexpToGo", "fillHashHelper"}, {"SexpHash.jsonHashHelper", "fillHashHelper"}, {"SexpToGo", "decodeGoToSexpHelper"}} {
		w, r := reserved(pair[0], true), reserved(pair[1], false)
		c.check(len(w) == 2 && len(r) == 2, "C11-KEYS", pair[0]+"→"+pair[1], "reserved keys agree", token.NoPos,
			"encoder writes and decoder consumes Atype and zKeyOrder", fmt.Sprintf("reserved keys differ: encoder %v, decoder %v: type names or field order are lost or appear as data", keys(w), keys(r)))
	}

	// ---- C11-RESV: the encoding keeps the type name and the key order in-band, under two reserved
	// names, next to the user's fields. A field with one of these names is written twice in one JSON
	// object and read back as metadata. The encoder has to compare each user key with the reserved
	// names (and then refuse or escape it) before it writes the key.
	if f := c.mustFn("C11-RESV", "SexpHash.jsonHashHelper"); f != nil {
		keyText := c.fn("jsonKeyText")
		compared := map[string]bool{}
		eachInstr(f, func(b *ssa.BasicBlock, i int, in ssa.Instruction) {
			bo, ok := in.(*ssa.BinOp)
			if !ok || (bo.Op != token.EQL && bo.Op != token.NEQ) {
				return
			}
			for _, pair := range [][2]ssa.Value{{bo.X, bo.Y}, {bo.Y, bo.X}} {
				k, isK := pair[1].(*ssa.Const)
				if !isK || k.Value == nil || k.Value.Kind() != constant.String {
					continue
				}
				// the other side is the key's text
				isKey := false
				if call, ok := pair[0].(*ssa.Call); ok && keyText != nil && call.Call.StaticCallee() == keyText {
					isKey = true
				}
				if isKey {
					compared[constant.StringVal(k.Value)] = true
				}
			}
		})
		c.check(compared["Atype"] && compared["zKeyOrder"], "C11-RESV", "SexpHash.jsonHashHelper", "user keys tested against the reserved names", f.Pos(),
			"each key's text is compared with Atype and zKeyOrder before it is written",
			"the encoder writes every user key with its own text and never compares it with the reserved names Atype / zKeyOrder: (json (hash Atype:\"ranch\" x:1)) contains the key Atype twice, and decoding turns the plain hash into a record of type ranch with the field gone")
	}

	// ---- C11-ORD
	sorter := c.fn("makeSortedSlicesFromMap")
	setOrder := c.fn("SetHashKeyOrder")
	for _, n := range []string{"decodeGoToSexpHelper", "fillHashHelper"} {
		f := c.mustFn("C11-ORD", n)
		if f == nil || sorter == nil || setOrder == nil {
			continue
		}
		c.check(len(callsOf(f, sorter)) >= 1, "C11-ORD", n, "maps walked sorted", f.Pos(), "decoded maps are walked in sorted key order", "the decoder walks a Go map without sorting its keys")
		cs := callsOf(f, setOrder)
		okO := len(cs) == 1
		if okO {
			// guarded by a flag that is set where the key list was found
			okO = guardedBy(cs[0].(ssa.Instruction).Block(), func(cond ssa.Value) (bool, bool) {
				_, isPhi := cond.(*ssa.Phi)
				return isPhi, true
			})
		}
		c.check(okO, "C11-ORD", n, "order restored from the key list", f.Pos(), "SetHashKeyOrder is applied when a key list was found", "field order is not restored from zKeyOrder")
	}
	// ---- C11-MSGP: the msgpack encoder is fed only what the JSON decoder produced (one normalisation for both formats)
	if gtm := c.fn("GoToMsgpack"); gtm != nil {
		jtg := c.fn("JsonToGo")
		n := 0
		for _, f := range c.zygoFuncs() {
			for _, ci := range callsOf(f, gtm) {
				n++
				arg := ci.Common().Args[0]
				okArg := false
				if jtg != nil {
					for _, leaf := range phiLeaves(arg) {
						if ex, ok := leaf.(*ssa.Extract); ok && ex.Index == 0 {
							if call, ok := ex.Tuple.(*ssa.Call); ok && call.Call.StaticCallee() == jtg {
								okArg = true
							}
						}
					}
				}
				c.check(okArg, "C11-MSGP", fnName(f), "msgpack encodes the JSON-normalised value", ci.Pos(),
					"GoToMsgpack receives the result of JsonToGo: both formats carry the same normalised data (nil, records, key order)",
					"GoToMsgpack is handed a Go value that did not come from JsonToGo: values the JSON printer normalises (nil, records with their reserved keys, raw bytes) are encoded in whatever form the other converter leaves them, e.g. nil as the Go struct {Val:0}")
			}
		}
		if n == 0 {
			c.undecided("C11-MSGP", "GoToMsgpack", "callers", token.NoPos, "no caller of the msgpack encoder found")
		}
	}

	// ---- C11-OWN: encoded bytes handed to the caller are not a view into a buffer that the next encoding reuses
	{
		n := 0
		for _, f := range c.filesFuncs("jsonmsgp.go") {
			res := f.Signature.Results()
			if res.Len() == 0 {
				continue
			}
			sl, ok := res.At(0).Type().Underlying().(*types.Slice)
			if !ok {
				continue
			}
			if b, ok := sl.Elem().Underlying().(*types.Basic); !ok || b.Kind() != types.Byte {
				continue
			}
			for _, r := range returnsOf(f) {
				for _, leaf := range phiLeaves(r.Results[0]) {
					call, ok := leaf.(*ssa.Call)
					if !ok {
						continue
					}
					g := call.Call.StaticCallee()
					if g == nil || fnPkgPath(g) != "bytes" || g.Name() != "Bytes" || len(call.Call.Args) == 0 {
						continue
					}
					n++
					_, local := call.Call.Args[0].(*ssa.Alloc)
					c.check(local, "C11-OWN", fnName(f), "returned bytes come from a buffer of this call", r.Pos(),
						"the buffer whose bytes are returned is a local of this call",
						"the bytes returned are the contents of a buffer that outlives the call (a field or package-level helper): the next encoding overwrites them, so two encodings held at once decode to the same (or a garbled) value")
				}
			}
		}
		if n == 0 {
			c.undecided("C11-OWN", "jsonmsgp.go", "returned bytes come from a buffer of this call", token.NoPos, "no encoder returning the bytes of a buffer found")
		}
	}

	// ---- C11-ALL: the loop over the entries of a decoded map visits every entry
	for _, n := range []string{"decodeGoToSexpHelper", "fillHashHelper"} {
		f := c.fn(n)
		if f == nil {
			continue
		}
		found := 0
		seenLoop := map[*ssa.BasicBlock]bool{}
		eachInstr(f, func(b *ssa.BasicBlock, i int, in ssa.Instruction) {
			bo, ok := in.(*ssa.BinOp)
			if !ok || bo.Op != token.EQL {
				return
			}
			k, ok := bo.Y.(*ssa.Const)
			if !ok || k.Value == nil || k.Value.Kind() != constant.String || constant.StringVal(k.Value) != "zKeyOrder" {
				return
			}
			loop := loopOf(b)
			if loop == nil {
				return
			}
			// the loop header: the loop block that dominates all others
			var header *ssa.BasicBlock
			for x := range loop {
				all := true
				for y := range loop {
					if !x.Dominates(y) && x != y {
						all = false
					}
				}
				if all {
					header = x
				}
			}
			if header == nil || seenLoop[header] {
				return
			}
			seenLoop[header] = true
			found++
			early := token.NoPos
			okLoop := true
			for x := range loop {
				for _, s := range x.Succs {
					if loop[s] || x == header {
						continue
					}
					// leaving from inside the body: allowed only towards a return / panic
					last := s.Instrs[len(s.Instrs)-1]
					switch last.(type) {
					case *ssa.Return, *ssa.Panic:
						continue
					}
					okLoop = false
					early = blkPos(x)
				}
			}
			pos := bo.Pos()
			if !okLoop && early.IsValid() {
				pos = early
			}
			c.check(okLoop, "C11-ALL", n, "every entry of a decoded map is visited", pos,
				"the loop over the sorted entries is left only when the entries are exhausted (or with an error)",
				"the loop over the entries of a decoded map can be left early: the entries that sort after the point of exit (keys above `zKeyOrder` in byte order, e.g. zip, zone, non-ASCII names) are silently dropped")
		})
		if found == 0 {
			c.undecided("C11-ALL", n, "every entry of a decoded map is visited", f.Pos(), "the loop that recognises the reserved key zKeyOrder was not found")
		}
	}
	if sorter != nil {
		sorts := false
		eachInstr(sorter, func(b *ssa.BasicBlock, i int, in ssa.Instruction) {
			if call, ok := in.(*ssa.Call); ok {
				if g := call.Call.StaticCallee(); g != nil && fnPkgPath(g) == "sort" {
					sorts = true
				}
			}
		})
		c.check(sorts, "C11-ORD", "makeSortedSlicesFromMap", "sorts", sorter.Pos(), "the key/value slices are sorted by key", "makeSortedSlicesFromMap no longer sorts: decoded fields arrive in Go map order")
	}
	// Canonical handles
	nCanon := 0
	for _, f := range c.zygoFuncs() {
		eachInstr(f, func(b *ssa.BasicBlock, i int, in ssa.Instruction) {
			st, ok := in.(*ssa.Store)
			if !ok {
				return
			}
			fa, ok := st.Addr.(*ssa.FieldAddr)
			if !ok {
				return
			}
			fld := faField(fa)
			if fld != nil && fld.Name() == "Canonical" && fld.Pkg() != nil && strings.Contains(fld.Pkg().Path(), "ugorji") {
				if k, ok := st.Val.(*ssa.Const); ok && k.Value != nil && k.Value.String() == "true" {
					nCanon++
				} else {
					c.bad("C11-ORD", fnName(f), "Canonical", in.Pos(), "a codec handle is configured non-canonical: encoded maps are written in Go map order")
				}
			}
		})
	}
	c.check(nCanon >= 2, "C11-ORD", "codec handles", "Canonical = true", token.NoPos, "both the msgpack and the JSON handle sort maps before writing", fmt.Sprintf("only %d codec handles are set canonical", nCanon))

	// ---- C11-MSGP: msgpack is produced from the JSON text
	if f := c.mustFn("C11-MSGP", "SexpToMsgpack"); f != nil {
		toJson := c.fn("SexpToJson")
		reach := staticReach(f)
		c.check(toJson != nil && reach[toJson], "C11-MSGP", "SexpToMsgpack", "via SexpToJson", f.Pos(), "msgpack is produced by decoding the JSON text and re-encoding, so it inherits the JSON rules", "msgpack encoding no longer goes through SexpToJson; its own escaping is not analysed")
	}
	_ = types.Typ
	_ = sort.Strings
}

// checkJSONCompatiblePrinters: the printers of the scalar types in the
// property's domain that fall through to SexpString produce JSON tokens.
func (c *Ctx) checkJSONCompatiblePrinters() {
	c.checkNumberPrintersPlain()
	// SexpInt: strconv.Itoa; SexpBool: "true"/"false"; SexpFloat: FormatFloat ('e'/'f') — NaN and Inf are not JSON
	type pr struct{ fn, want string }
	for _, p := range []pr{{"SexpInt.SexpString", "Itoa"}, {"SexpFloat.SexpString", "FormatFloat"}} {
		f := c.mustFn("C11-ESC", p.fn)
		if f == nil {
			continue
		}
		uses := false
		eachInstr(f, func(b *ssa.BasicBlock, i int, in ssa.Instruction) {
			if call, ok := in.(*ssa.Call); ok {
				if g := call.Call.StaticCallee(); g != nil && fnPkgPath(g) == "strconv" && g.Name() == p.want {
					uses = true
				}
			}
		})
		c.check(uses, "C11-ESC", p.fn, "number printer", f.Pos(), "numbers are printed by strconv."+p.want+" (JSON number syntax for finite values)", "the number printer changed; its output is not known to be a JSON number")
	}
	if f := c.fn("SexpFloat.SexpString"); f != nil {
		// NaN / Inf: no JSON token exists; reported unless the printer or the encoder handles them
		handles := false
		for _, g := range []*ssa.Function{f, c.fn("SexpToJson")} {
			if g == nil {
				continue
			}
			eachInstr(g, func(b *ssa.BasicBlock, i int, in ssa.Instruction) {
				if call, ok := in.(*ssa.Call); ok {
					if h := call.Call.StaticCallee(); h != nil && fnPkgPath(h) == "math" && (h.Name() == "IsNaN" || h.Name() == "IsInf") {
						handles = true
					}
				}
			})
		}
		c.check(handles, "C11-ESC", "SexpToJson", "scalar non-finite float", f.Pos(), "NaN and Inf are treated specially", "NaN and ±Inf are written with the language printer (NaN, +Inf), which is not JSON: a value holding one cannot be decoded")
	}
}

// checkNumberPrintersPlain: a number type that has no arm of its own in the
// JSON encoder is written with its language printer. That is a JSON number
// only if the printer returns what strconv produced and nothing else; a
// printer that appends a type suffix (1ULL) does not. The number printers are
// derived: every SexpString method that calls a strconv number formatter.
func (c *Ctx) checkNumberPrintersPlain() {
	enc := c.funcDecl("SexpToJson")
	if enc == nil {
		return
	}
	arms := map[string]bool{}
	if ts := c.mainTypeSwitch(enc, "exp"); ts != nil {
		for _, cl := range ts.Body.List {
			for _, e := range cl.(*ast.CaseClause).List {
				arms[exprShort(e)] = true
			}
		}
	}
	n := 0
	for _, f := range c.zygoFuncs() {
		if f.Parent() != nil || f.Name() != "SexpString" || f.Signature.Recv() == nil {
			continue
		}
		formats := false
		eachInstr(f, func(b *ssa.BasicBlock, i int, in ssa.Instruction) {
			if call, ok := in.(*ssa.Call); ok {
				if g := call.Call.StaticCallee(); g != nil && fnPkgPath(g) == "strconv" {
					switch g.Name() {
					case "Itoa", "FormatInt", "FormatUint", "FormatFloat":
						formats = true
					}
				}
			}
		})
		if !formats {
			continue
		}
		recv := strings.SplitN(fnName(f), ".", 2)[0]
		if arms["*"+recv] {
			continue // the encoder writes this type itself
		}
		n++
		suffix := ""
		eachInstr(f, func(b *ssa.BasicBlock, i int, in ssa.Instruction) {
			bo, ok := in.(*ssa.BinOp)
			if !ok || bo.Op != token.ADD {
				return
			}
			for _, v := range []ssa.Value{bo.X, bo.Y} {
				if k, ok := v.(*ssa.Const); ok && k.Value != nil && k.Value.Kind() == constant.String {
					for _, r := range constant.StringVal(k.Value) {
						if (r >= 'a' && r <= 'z') || (r >= 'A' && r <= 'Z') {
							suffix = constant.StringVal(k.Value)
						}
					}
				}
			}
		})
		c.check(suffix == "", "C11-ESC", fnName(f), "number printer used by the JSON encoder adds no letters", f.Pos(),
			"this number type has no arm in SexpToJson and its printer returns the formatted digits without a letter suffix",
			fmt.Sprintf("values of type %s have no arm in SexpToJson and are written with the language printer, which appends %q: the output is not a JSON number ((json [1ULL]) gives [1ULL])", recv, suffix))
	}
	if n == 0 {
		c.undecided("C11-ESC", "SexpToJson", "number printers", enc.Pos(), "no number printer falls through to the encoder's default arm")
	}
}
