package main

// C12 — printed data reads back as the same data.

import (
	"fmt"
	"go/ast"
	"go/constant"
	"go/token"
	"go/types"
	"regexp"
	"sort"
	"strings"

	"golang.org/x/tools/go/ssa"
)

func checkC12(c *Ctx) {
	c.explainf("C12 decides agreement of the printer's and the reader's tables: the escape sequences the string and char printers can emit (the documented output alphabet of strconv.Quote / QuoteRune, which they call) are all accepted by the reader's escape switch; the literal-decoding path never turns one byte of a string into a rune; the float printer never returns a bare shortest-'f' text, which for whole values is an integer literal; every token kind the atom classifier produces has an arm in the expression parser and the numeric arms parse with the base that matches the prefix the lexer strips; the end-of-text path flushes the last atom. No data printer pastes the raw text of a string value into its output (C12-RAW). Reader-made symbol names match the lexer's own symbol pattern (C12-SYMNAME), the words printed for nil and booleans have a literal in the reader (C12-WORD), and a point after a minus sign is looked at separately when the number patterns accept -.5 (C12-SIGNFRAC): constant patterns of the package are compiled and matched in the checker. It does not decide float text round trip, the regex cascade as a whole, or equality of read-back values.")

	c.checkReaderSymbolsReadable("C12-SYMNAME")
	c.checkPrintedWordsAreLiterals("C12-WORD")
	c.checkSignedFraction("C12-SIGNFRAC")

	// ---- C12-ESC
	printers := map[string]string{"SexpStr.SexpString": "Quote", "SexpChar.SexpString": "QuoteRune"}
	var pnames []string
	for n := range printers {
		pnames = append(pnames, n)
	}
	sort.Strings(pnames)
	usesQuote := true
	for _, n := range pnames {
		f := c.mustFn("C12-ESC", n)
		if f == nil {
			usesQuote = false
			continue
		}
		found := false
		eachInstr(f, func(b *ssa.BasicBlock, i int, in ssa.Instruction) {
			if call, ok := in.(*ssa.Call); ok {
				if g := call.Call.StaticCallee(); g != nil && fnPkgPath(g) == "strconv" && g.Name() == printers[n] {
					found = true
				}
			}
		})
		if !found {
			usesQuote = false
			c.undecided("C12-ESC", n, "printer", f.Pos(), "the printer no longer uses strconv."+printers[n]+"; its output alphabet is not known to the checker")
		} else {
			c.ok("C12-ESC", n, "printer", f.Pos(), "prints with strconv."+printers[n])
		}
	}
	// reader side: cases of EscapeChar
	accepted := map[string]bool{}
	if fd := c.funcDecl("EscapeChar"); fd != nil {
		ast.Inspect(fd.Body, func(n ast.Node) bool {
			cc, ok := n.(*ast.CaseClause)
			if !ok {
				return true
			}
			for _, e := range cc.List {
				if tv := c.Zygo.TypesInfo.Types[e]; tv.Value != nil && tv.Value.Kind() == constant.Int {
					v, _ := constant.Int64Val(tv.Value)
					// the arm must return a nil error
					okArm := false
					for _, st := range cc.Body {
						if rs, ok := st.(*ast.ReturnStmt); ok && len(rs.Results) == 2 {
							if id, ok := rs.Results[1].(*ast.Ident); ok && id.Name == "nil" {
								okArm = true
							}
						}
					}
					if okArm {
						accepted[string(rune(v))] = true
					}
				}
			}
			return true
		})
	} else {
		c.undecided("C12-ESC", "EscapeChar", "anchor", token.NoPos, "EscapeChar not found")
	}
	if usesQuote {
		// strconv.Quote: \a \b \f \n \r \t \v \\ \" ; QuoteRune additionally \' ; both \xNN \uNNNN \UNNNNNNNN
		emitted := []string{"a", "b", "f", "n", "r", "t", "v", "\\", "\"", "'", "x", "u", "U"}
		for _, e := range emitted {
			what := "\\" + e
			detail := "printer can emit " + what + " (strconv.Quote/QuoteRune output alphabet)"
			c.check(accepted[e], "C12-ESC", "EscapeChar", "escape "+what, token.NoPos, detail+"; the reader accepts it",
				detail+", but the reader's escape switch has no arm for it: a printed string or char holding such a character does not read back")
		}
	}

	// ---- C12-RUNE
	nConv := 0
	for _, f := range c.filesFuncs("lexer.go", "parser.go") {
		eachInstr(f, func(b *ssa.BasicBlock, i int, in ssa.Instruction) {
			cv, ok := in.(*ssa.Convert)
			if !ok {
				return
			}
			bt, ok := cv.Type().Underlying().(*types.Basic)
			if !ok || bt.Kind() != types.Int32 {
				return
			}
			nConv++
			// operand: a byte read out of a string
			fromString := false
			switch x := cv.X.(type) {
			case *ssa.Lookup:
				if st, ok := x.X.Type().Underlying().(*types.Basic); ok && st.Info()&types.IsString != 0 {
					fromString = true
				}
			case *ssa.Index:
				if st, ok := x.X.Type().Underlying().(*types.Basic); ok && st.Info()&types.IsString != 0 {
					fromString = true
				}
			case *ssa.UnOp:
				if ia, ok := x.X.(*ssa.IndexAddr); ok {
					if sl, ok := ia.X.Type().Underlying().(*types.Slice); ok {
						if eb, ok := sl.Elem().Underlying().(*types.Basic); ok && eb.Kind() == types.Uint8 {
							fromString = true
						}
					}
				}
			}
			if fromString {
				c.bad("C12-RUNE", fnName(f), "rune(byte of string)", in.Pos(), "a single byte of UTF-8 text is converted to a rune: characters beyond ASCII are mangled when a literal is decoded")
			}
		})
	}
	c.ok("C12-RUNE", "lexer.go+parser.go", "no byte-to-rune conversion", token.NoPos, fmt.Sprintf("%d conversions to rune examined", nConv))

	// ---- C12-FLT
	if f := c.mustFn("C12-FLT", "SexpFloat.SexpString"); f != nil {
		n := 0
		eachInstr(f, func(b *ssa.BasicBlock, i int, in ssa.Instruction) {
			call, ok := in.(*ssa.Call)
			if !ok {
				return
			}
			g := call.Call.StaticCallee()
			if g == nil || fnPkgPath(g) != "strconv" || g.Name() != "FormatFloat" {
				return
			}
			n++
			fmtc, ok := constIntOf(call.Call.Args[1])
			if !ok {
				c.undecided("C12-FLT", "SexpFloat.SexpString", "FormatFloat format", in.Pos(), "format byte is not a constant")
				return
			}
			if fmtc != 'f' {
				c.ok("C12-FLT", "SexpFloat.SexpString", "FormatFloat '"+string(rune(fmtc))+"'", in.Pos(), "exponent formats always contain e, which the reader classifies as a float")
				return
			}
			// 'f': the text must be inspected before it is returned
			onlyReturned := true
			for _, r := range nonDebugRefs(call) {
				switch r.(type) {
				case *ssa.Return, *ssa.Phi:
				default:
					onlyReturned = false
				}
			}
			c.check(!onlyReturned, "C12-FLT", "SexpFloat.SexpString", "FormatFloat 'f'", in.Pos(), "the fixed-point text is post-processed before it is returned (a fraction is added to whole values)",
				"the shortest fixed-point text is returned as is: a whole float prints as an integer literal (3.0 -> 3 reads back as an int; 1.5e30 -> a digit string the reader rejects)")
		})
		if n == 0 {
			c.undecided("C12-FLT", "SexpFloat.SexpString", "FormatFloat", f.Pos(), "the float printer no longer uses strconv.FormatFloat")
		}
		// the `.0` is appended only to finite whole values: decided on the text (no '.', 'e', 'I'nf, 'N'aN in it)
		// or behind explicit IsInf / IsNaN tests
		nApp := 0
		eachInstr(f, func(b *ssa.BasicBlock, i int, in ssa.Instruction) {
			bo, ok := in.(*ssa.BinOp)
			if !ok || bo.Op != token.ADD {
				return
			}
			k, ok := bo.Y.(*ssa.Const)
			if !ok || k.Value == nil || k.Value.Kind() != constant.String || constant.StringVal(k.Value) != ".0" {
				return
			}
			nApp++
			byText := guardedBy(b, func(cond ssa.Value) (bool, bool) {
				call, ok := cond.(*ssa.Call)
				if !ok {
					return false, false
				}
				g := call.Call.StaticCallee()
				if g == nil || fnPkgPath(g) != "strings" || g.Name() != "ContainsAny" || len(call.Call.Args) != 2 {
					return false, false
				}
				set, ok := call.Call.Args[1].(*ssa.Const)
				if !ok || set.Value == nil || set.Value.Kind() != constant.String {
					return false, false
				}
				chars := constant.StringVal(set.Value)
				for _, need := range ".eIN" {
					if !strings.ContainsRune(chars, need) {
						return false, false
					}
				}
				return true, false
			})
			notInf := guardedBy(b, func(cond ssa.Value) (bool, bool) {
				call, ok := cond.(*ssa.Call)
				if !ok {
					return false, false
				}
				g := call.Call.StaticCallee()
				return g != nil && fnPkgPath(g) == "math" && g.Name() == "IsInf", false
			})
			notNaN := guardedBy(b, func(cond ssa.Value) (bool, bool) {
				call, ok := cond.(*ssa.Call)
				if !ok {
					return false, false
				}
				g := call.Call.StaticCallee()
				return g != nil && fnPkgPath(g) == "math" && g.Name() == "IsNaN", false
			})
			c.check(byText || (notInf && notNaN), "C12-FLT", "SexpFloat.SexpString", "fraction appended to finite whole values only", bo.Pos(),
				"`.0` is appended only when the text has no '.', 'e', 'I' or 'N' (or behind IsInf/IsNaN tests)",
				"`.0` can be appended to the text of an infinity or NaN: +Inf prints as +Inf.0, which reads back as the symbol + followed by the symbol Inf.0")
		})
		if nApp == 0 {
			c.undecided("C12-FLT", "SexpFloat.SexpString", "fraction appended to finite whole values only", f.Pos(), "the place where a fraction is appended to whole values was not found")
		}
	}

	// ---- C12-BT: the raw (backtick) printing mode is set only by the reader, never copied to another string
	{
		strT := c.named("SexpStr")
		bt := c.field("SexpStr", "backtick")
		n := 0
		if strT != nil && bt != nil {
			parserT := c.named("Parser")
			for _, f := range c.zygoFuncs() {
				eachInstr(f, func(b *ssa.BasicBlock, i int, in ssa.Instruction) {
					st, ok := in.(*ssa.Store)
					if !ok {
						return
					}
					// explicit store to the flag
					if fa, ok := st.Addr.(*ssa.FieldAddr); ok && faField(fa) == bt {
						n++
						okWriter := parserT != nil && isMethodOf(f, parserT)
						if k, ok := st.Val.(*ssa.Const); ok && k.Value != nil && k.Value.String() == "false" {
							okWriter = true
						}
						c.check(okWriter, "C12-BT", fnName(f), "raw-printing flag set by the reader only", st.Pos(),
							"the backtick flag is set where a backtick literal was read", "the backtick flag of a string is set outside the reader: a string that may contain a backtick is printed raw between backticks and does not read back")
						return
					}
					// whole-struct copy of a string value
					if nm, ok := st.Val.Type().(*types.Named); ok && nm == strT {
						if ld, ok := st.Val.(*ssa.UnOp); ok && ld.Op == token.MUL {
							n++
							c.bad("C12-BT", fnName(f), "string value copied wholesale", st.Pos(),
								"a SexpStr is copied as a whole (`*str`), which carries the reader's private backtick flag to a string whose text is then changed: if the new text contains a backtick it is printed raw between backticks and the printed form is rejected or read back as different data")
						}
					}
				})
			}
		}
		if n == 0 {
			c.undecided("C12-BT", "SexpStr", "backtick flag", token.NoPos, "no write of the backtick flag found")
		}
	}

	// ---- C12-RAW: the text of a string reaches printed output only through the string printer
	{
		strS := c.field("SexpStr", "S")
		n, nRaw := 0, 0
		if strS != nil {
			for _, f := range c.zygoFuncs() {
				if topFn(f).Name() != "SexpString" {
					continue
				}
				// the printers of the data values the property names; the
				// string printer itself is where the escaping happens
				// (C12-ESC), and a struct's field declaration is not data
				recv := strings.SplitN(fnName(topFn(f)), ".", 2)[0]
				if !c12DataPrinters[recv] {
					continue
				}
				eachInstr(f, func(b *ssa.BasicBlock, i int, in ssa.Instruction) {
					bo, ok := in.(*ssa.BinOp)
					if !ok || bo.Op != token.ADD {
						return
					}
					if bt, ok := bo.Type().Underlying().(*types.Basic); !ok || bt.Info()&types.IsString == 0 {
						return
					}
					n++
					for _, op := range []ssa.Value{bo.X, bo.Y} {
						if _, isRaw := loadOfField(op, strS); isRaw {
							nRaw++
							c.bad("C12-RAW", fnName(f), "raw string text concatenated into printed output", bo.Pos(),
								"the text of a string value is pasted into a printed form without going through the string printer: quotes, backslashes and control characters in it are not escaped, so the printed form is rejected by the reader or reads back as different data")
						}
					}
				})
			}
		}
		if nRaw == 0 {
			c.check(n >= 10, "C12-RAW", "printers", "raw string text concatenated into printed output", token.NoPos,
				fmt.Sprintf("%d string concatenations in the printers examined: none pastes the raw text of a string value", n),
				fmt.Sprintf("only %d string concatenations found in the printers", n))
		}
	}

	// ---- C12-SEEN: a container printer marks the container as seen while its elements are printed (C01-REC) and
	// forgets it afterwards, so that only a container met inside itself prints as [...]. If one exit of the printer
	// skips the forgetting, the container stays marked for the rest of the print: the same (acyclic) array met a
	// second time, e.g. one empty array shared by two fields, prints as [...] and no longer reads back.
	{
		setSeen, unsee := c.fn("PrintState.SetSeen"), c.fn("PrintState.Unsee")
		nP := 0
		if setSeen != nil && unsee != nil {
			for _, f := range c.zygoFuncs() {
				if f.Parent() != nil {
					continue
				}
				sets := callsOf(f, setSeen)
				if len(sets) == 0 {
					continue
				}
				// does this printer forget at all? (dumps of scopes and stacks keep their marks on purpose)
				deferred := false
				var explicit []ssa.Instruction
				for _, g := range withClosures(f) {
					eachInstr(g, func(b *ssa.BasicBlock, i int, in ssa.Instruction) {
						switch x := in.(type) {
						case *ssa.Defer:
							if x.Call.StaticCallee() == unsee {
								deferred = true
							}
						case *ssa.Call:
							if x.Call.StaticCallee() == unsee && g == f {
								explicit = append(explicit, in)
							}
						}
					})
				}
				if !deferred && len(explicit) == 0 {
					continue
				}
				nP++
				okAll := true
				var at token.Pos
				if !deferred {
					unseeBlocks := map[*ssa.BasicBlock]bool{}
					for _, e := range explicit {
						unseeBlocks[e.Block()] = true
					}
					for _, st := range sets {
						reach := reachableAvoiding(st.Block(), func(b *ssa.BasicBlock) bool { return unseeBlocks[b] && b != st.Block() })
						for b := range reach {
							if unseeBlocks[b] {
								continue
							}
							for _, in := range b.Instrs {
								if r, ok := in.(*ssa.Return); ok {
									okAll, at = false, r.Pos()
								}
							}
						}
					}
				}
				c.check(okAll, "C12-SEEN", fnName(f), "container forgotten on every exit of its printer", orPos(at, f.Pos()),
					"the mark set for the container is removed on every way out (deferred, or before each return)",
					"the printer marks the container as seen but one of its exits returns without forgetting it: the container stays marked for the rest of the print, so a second occurrence of the same array or hash (not a cycle) prints as [...] / {...} and the printed form no longer reads back as the value")
			}
		}
		if nP < 2 {
			c.undecided("C12-SEEN", "printers", "mark and forget", token.NoPos, fmt.Sprintf("only %d printers that mark and forget a container found (array, hash and field printers confirmed by reading)", nP))
		}
	}

	// ---- C12-NUM
	c.checkTokenArms()

	// ---- C12-RING: the lexer's look-back ring (it decides whether +/- continues a float exponent)
	c.checkLookbackRing("C12-RING")
	c.checkCommentAutomaton("C12-CMT")

	// ---- C12-FLUSH
	if lexerT := c.named("Lexer"); lexerT != nil {
		before := len(c.obs)
		checkC13End(c, lexerT, "C12")
		// keep only the FLUSH obligations under C12
		kept := c.obs[:before]
		for _, o := range c.obs[before:] {
			if strings.HasPrefix(o.Rule, "C12-FLUSH") {
				kept = append(kept, o)
			}
		}
		c.obs = kept
	}
}

// checkTokenArms: token kinds produced by DecodeAtom ⊆ arms of ParseExpression;
// numeric arms use the base matching the stripped prefix.
func (c *Ctx) checkTokenArms() {
	da := c.funcDecl("Lexer.DecodeAtom")
	pe := c.funcDecl("Parser.ParseExpression")
	if da == nil || pe == nil {
		c.undecided("C12-NUM", "DecodeAtom/ParseExpression", "anchor", token.NoPos, "function not found")
		return
	}
	produced := map[string]token.Pos{}
	stripped := map[string]string{} // token kind -> text expression handed over
	ast.Inspect(da.Body, func(n ast.Node) bool {
		call, ok := n.(*ast.CallExpr)
		if !ok {
			return true
		}
		sel, ok := call.Fun.(*ast.SelectorExpr)
		if !ok || sel.Sel.Name != "Token" || len(call.Args) != 2 {
			return true
		}
		if id, ok := call.Args[0].(*ast.Ident); ok && strings.HasPrefix(id.Name, "Token") {
			produced[id.Name] = call.Pos()
			stripped[id.Name] = exprShort(call.Args[1])
		}
		return true
	})
	arms := map[string]*ast.CaseClause{}
	ast.Inspect(pe.Body, func(n ast.Node) bool {
		sw, ok := n.(*ast.SwitchStmt)
		if !ok || exprShort(sw.Tag) != "tok.typ" {
			return true
		}
		for _, cl := range sw.Body.List {
			cc := cl.(*ast.CaseClause)
			for _, e := range cc.List {
				if id, ok := e.(*ast.Ident); ok {
					arms[id.Name] = cc
				}
			}
		}
		return false
	})
	var kinds []string
	for k := range produced {
		kinds = append(kinds, k)
	}
	sort.Strings(kinds)
	if len(kinds) < 10 {
		c.undecided("C12-NUM", "Lexer.DecodeAtom", "token kinds", da.Pos(), fmt.Sprintf("only %d token kinds found in the atom classifier", len(kinds)))
	}
	for _, k := range kinds {
		_, ok := arms[k]
		c.check(ok, "C12-NUM", "Parser.ParseExpression", "arm "+k, produced[k], "the parser has an arm for this atom kind",
			"the atom classifier produces "+k+" but the expression parser has no arm for it: such literals cannot be read")
	}
	// bases
	wantBase := map[string]string{"TokenDecimal": "10", "TokenHex": "16", "TokenOct": "8", "TokenBinary": "2"}
	wantStrip := map[string]string{"TokenDecimal": "atom", "TokenHex": "atom[2:]", "TokenOct": "atom[2:]", "TokenBinary": "atom[2:]"}
	var bk []string
	for k := range wantBase {
		bk = append(bk, k)
	}
	sort.Strings(bk)
	for _, k := range bk {
		cc := arms[k]
		if cc == nil {
			continue
		}
		base := ""
		ast.Inspect(cc, func(n ast.Node) bool {
			if call, ok := n.(*ast.CallExpr); ok {
				if sel, ok := call.Fun.(*ast.SelectorExpr); ok && sel.Sel.Name == "ParseInt" && len(call.Args) == 3 {
					if tv := c.Zygo.TypesInfo.Types[call.Args[1]]; tv.Value != nil {
						base = tv.Value.ExactString()
					}
				}
			}
			return true
		})
		c.check(base == wantBase[k] && stripped[k] == wantStrip[k], "C12-NUM", "Parser.ParseExpression", "base of "+k, cc.Pos(),
			"parsed with base "+wantBase[k]+" from "+wantStrip[k],
			fmt.Sprintf("%s literals are parsed with base %q from %q (want base %s from %s): the literal denotes another number", k, base, stripped[k], wantBase[k], wantStrip[k]))
	}
}

// checkLookbackRing: Lexer.priorRune is a ring written at priori, which then
// advances modulo the ring length. A reader that looks k runes back must index
// (priori - k) mod N: either priori-k, or priori-k+N on the negative side.
func (c *Ctx) checkLookbackRing(rule string) {
	ring := c.field("Lexer", "priorRune")
	cur := c.field("Lexer", "priori")
	if ring == nil || cur == nil {
		c.undecided(rule, "Lexer", "priorRune / priori", token.NoPos, "look-back ring fields not found")
		return
	}
	arr, ok := ring.Type().Underlying().(*types.Array)
	if !ok {
		c.undecided(rule, "Lexer", "priorRune", ring.Pos(), "the look-back buffer is no longer a fixed-size array")
		return
	}
	N := arr.Len()
	n := 0
	for _, f := range c.zygoFuncs() {
		eachInstr(f, func(b *ssa.BasicBlock, i int, in ssa.Instruction) {
			ia, ok := in.(*ssa.IndexAddr)
			if !ok {
				return
			}
			fa, ok := ia.X.(*ssa.FieldAddr)
			if !ok || faField(fa) != ring {
				return
			}
			// written or read?
			isWrite := false
			for _, ref := range *ia.Referrers() {
				if st, ok := ref.(*ssa.Store); ok && st.Addr == ssa.Value(ia) {
					isWrite = true
				}
			}
			n++
			if isWrite {
				_, isCur := loadOfField(ia.Index, cur)
				c.check(isCur, rule, fnName(f), "writes the slot at the cursor", ia.Pos(), "the rune is stored at priori", "the look-back ring is written at an index other than the cursor")
				return
			}
			// reader: every value the index can take is priori-k or priori-k+N for one k in 1..N-1
			ks := map[int64]bool{}
			okIdx := true
			sawPlain, sawWrapped, sawMod := false, false, false
			for _, leaf := range phiLeaves(ia.Index) {
				if rem, ok := leaf.(*ssa.BinOp); ok && rem.Op == token.REM {
					if m, isK := constIntOf(rem.Y); isK && m == N {
						base, off := linearOf(rem.X)
						if _, isCur := loadOfField(base, cur); isCur && off > 0 && off < N {
							ks[N-off] = true
							sawMod = true
							continue
						}
					}
					okIdx = false
					continue
				}
				base, off := linearOf(leaf)
				// N + (priori - k) is represented as const + x
				if bo, ok := base.(*ssa.BinOp); ok && bo.Op == token.ADD {
					if kx, isK := constIntOf(bo.X); isK {
						b2, o2 := linearOf(bo.Y)
						base, off = b2, off+o2+kx
					}
				}
				if _, isCur := loadOfField(base, cur); !isCur {
					okIdx = false
					continue
				}
				switch {
				case off < 0 && -off < N:
					ks[-off] = true
					sawPlain = true
				case off > 0 && off < N:
					ks[N-off] = true
					sawWrapped = true
				default:
					okIdx = false
				}
			}
			covers := sawMod || (sawPlain && sawWrapped)
			c.check(okIdx && len(ks) == 1 && covers, rule, fnName(f), "reads a fixed distance behind the cursor", ia.Pos(),
				fmt.Sprintf("the index is (priori - k) modulo %d for a single k", N),
				fmt.Sprintf("the look-back index is not (priori - k) modulo %d for a single k on every path (both the plain and the wrapped case must be read from the ring): near the wrap-around the lexer looks at the wrong rune, so whether a + or - continues a float exponent depends on the position of the literal in the text", N))
		})
	}
	if n < 2 {
		c.undecided(rule, "Lexer", "ring accesses", token.NoPos, fmt.Sprintf("only %d accesses of the look-back ring found", n))
	}
}

var c12DataPrinters = map[string]bool{"SexpInt": true, "SexpUint64": true, "SexpFloat": true, "SexpBool": true, "SexpChar": true,
	"SexpSentinel": true, "SexpSymbol": true, "SexpPair": true, "SexpArray": true, "SexpHash": true, "SexpRaw": true}

// checkReaderSymbolsReadable: C12-SYMNAME. "Symbols ... read back": the reader
// itself makes symbols -- the heads of the lists it builds for ' % ^ ~ ~@ and
// the like -- and a symbol prints as its bare name. A name that the symbol
// pattern of the lexer does not accept cannot be read back: printed inside a
// quoted list it comes back as several tokens. Every constant name that a
// method of the parser hands to MakeSymbol is matched here, in the checker,
// against the package's SymbolRegex (a constant pattern).
func (c *Ctx) checkReaderSymbolsReadable(rule string) {
	parserT := c.named("Parser")
	mk := c.mustFn(rule, "Zlisp.MakeSymbol")
	if parserT == nil || mk == nil {
		return
	}
	// the pattern: SymbolRegex = regexp.MustCompile(<constant>) in the package initialiser
	pattern := ""
	if g := c.SZygo.Var("SymbolRegex"); g != nil {
		var inits []*ssa.Function
		if f := c.SZygo.Func("init"); f != nil {
			inits = append(inits, f) // the package initialiser (variable initialisers live here)
		}
		for _, f := range c.zygoFuncs() {
			if strings.HasPrefix(f.Name(), "init#") {
				inits = append(inits, f)
			}
		}
		for _, f := range inits {
			eachInstr(f, func(b *ssa.BasicBlock, i int, in ssa.Instruction) {
				st, ok := in.(*ssa.Store)
				if !ok || st.Addr != ssa.Value(g) {
					return
				}
				if call, ok := st.Val.(*ssa.Call); ok && len(call.Call.Args) == 1 {
					if k, ok := call.Call.Args[0].(*ssa.Const); ok && k.Value != nil && k.Value.Kind() == constant.String {
						pattern = constant.StringVal(k.Value)
					}
				}
			})
		}
	}
	if pattern == "" {
		c.undecided(rule, "Lexer", "symbol pattern", token.NoPos, "the constant pattern of SymbolRegex was not found in the package initialiser")
		return
	}
	re, err := regexp.Compile(pattern)
	if err != nil {
		c.undecided(rule, "Lexer", "symbol pattern", token.NoPos, "SymbolRegex does not compile: "+err.Error())
		return
	}
	n := 0
	seen := map[string]bool{}
	for _, f := range c.zygoFuncs() {
		if !isMethodOf(topFn(f), parserT) {
			continue
		}
		eachInstr(f, func(b *ssa.BasicBlock, i int, in ssa.Instruction) {
			call, ok := in.(*ssa.Call)
			if !ok || call.Call.StaticCallee() != mk || len(call.Call.Args) < 2 {
				return
			}
			k, ok := call.Call.Args[1].(*ssa.Const)
			if !ok || k.Value == nil || k.Value.Kind() != constant.String {
				return
			}
			name := constant.StringVal(k.Value)
			if seen[name] {
				return
			}
			seen[name] = true
			n++
			c.check(re.MatchString(name), rule, fnName(f), "reader-made symbol `"+name+"` is a readable name", call.Pos(),
				"the lexer's symbol pattern accepts the name", "the reader makes the symbol `"+name+"`, which the lexer's own symbol pattern does not accept: printed (a symbol prints as its name) it reads back as something else -- `(a ~@b)` quoted, printed and read again has a four-element list where the splice was")
		})
	}
	if n < 3 {
		c.undecided(rule, "Parser", "reader-made symbols", token.NoPos, fmt.Sprintf("only %d constant symbol names made by the parser found", n))
	}
}

// checkPrintedWordsAreLiterals: C12-WORD. Values that print as a bare word --
// nil, true, false -- read back as data only when the reader has a literal for
// that word; otherwise the word is an ordinary symbol and (== x (read (str x)))
// is false for every list that holds the value. The words are taken from the
// printers (the constant that SexpSentinel.SexpString returns for the nil
// value, the constants SexpBool.SexpString returns), and each must be compared
// with by the expression parser or the atom classifier, or be accepted by a
// constant pattern of the lexer that is not one of the symbol patterns.
func (c *Ctx) checkPrintedWordsAreLiterals(rule string) {
	words := map[string]string{} // word -> printer
	nullVar := c.SZygo.Var("SexpNull")
	if sp := c.fn("SexpSentinel.SexpString"); sp != nil && nullVar != nil {
		for _, r := range returnsOf(sp) {
			k, ok := r.Results[0].(*ssa.Const)
			if !ok || k.Value == nil || k.Value.Kind() != constant.String {
				continue
			}
			underNull := guardedBy(r.Block(), func(cond ssa.Value) (bool, bool) {
				bo, ok := cond.(*ssa.BinOp)
				if !ok || (bo.Op != token.EQL && bo.Op != token.NEQ) {
					return false, false
				}
				for _, side := range []ssa.Value{bo.X, bo.Y} {
					if u, ok := side.(*ssa.UnOp); ok && u.Op == token.MUL && u.X == ssa.Value(nullVar) {
						return true, bo.Op == token.EQL
					}
				}
				return false, false
			})
			if underNull {
				words[constant.StringVal(k.Value)] = "SexpSentinel.SexpString"
			}
		}
	}
	if bp := c.fn("SexpBool.SexpString"); bp != nil {
		for _, r := range returnsOf(bp) {
			for _, leaf := range phiLeaves(r.Results[0]) {
				if k, ok := leaf.(*ssa.Const); ok && k.Value != nil && k.Value.Kind() == constant.String {
					words[constant.StringVal(k.Value)] = "SexpBool.SexpString"
				}
			}
		}
	}
	if len(words) < 3 {
		c.undecided(rule, "printers", "bare words", token.NoPos, fmt.Sprintf("only %d bare words found in the printers of nil and booleans (nil, true, false confirmed by reading)", len(words)))
	}
	compared := map[string]bool{}
	for _, n := range []string{"Parser.ParseExpression", "Lexer.DecodeAtom"} {
		if f := c.fn(n); f != nil {
			for w := range stringsComparedIn(f) {
				compared[w] = true
			}
		}
	}
	// constant patterns of the lexer other than the symbol patterns
	var pats []*regexp.Regexp
	if init := c.SZygo.Func("init"); init != nil {
		eachInstr(init, func(b *ssa.BasicBlock, i int, in ssa.Instruction) {
			st, ok := in.(*ssa.Store)
			if !ok {
				return
			}
			g, ok := st.Addr.(*ssa.Global)
			if !ok || strings.Contains(g.Name(), "Symbol") || strings.Contains(g.Name(), "Dot") {
				return
			}
			call, ok := st.Val.(*ssa.Call)
			if !ok || call.Call.StaticCallee() == nil || call.Call.StaticCallee().Name() != "MustCompile" || len(call.Call.Args) != 1 {
				return
			}
			if k, ok := call.Call.Args[0].(*ssa.Const); ok && k.Value != nil && k.Value.Kind() == constant.String {
				src := constant.StringVal(k.Value)
				if !strings.HasPrefix(src, "^") || !strings.HasSuffix(src, "$") {
					return // not a pattern for a whole atom
				}
				if re, err := regexp.Compile(src); err == nil {
					pats = append(pats, re)
				}
			}
		})
	}
	var ws []string
	for w := range words {
		ws = append(ws, w)
	}
	sort.Strings(ws)
	for _, w := range ws {
		ok := compared[w]
		for _, re := range pats {
			if re.MatchString(w) {
				ok = true
			}
		}
		c.check(ok, rule, words[w], "the word `"+w+"` has a literal in the reader", token.NoPos,
			"the reader compares an atom with `"+w+"` (or a literal pattern of the lexer accepts it): the printed value reads back as the value",
			"the value prints as the bare word `"+w+"`, and the reader has no literal for it: read back as data it is the symbol `"+w+"`, so a list or array that holds the value does not read back equal")
	}
}

// checkSignedFraction: C12-SIGNFRAC. "Numeric literals in every supported
// notation (... fraction ... signed ...) denote their exact value." The number
// patterns of the lexer (constants, matched here in the checker) accept the
// signed fraction -.5. The lexer decides "negative number or minus operator"
// on the sign and the ONE rune after it, by matching those two runes against
// the same patterns -- and no pattern accepts "-." by itself. So if the
// patterns accept "-.5", the operator state must treat the point after a
// minus sign specially: a comparison of the incoming rune with '.', made where
// the previous rune is known to be '-'.
func (c *Ctx) checkSignedFraction(rule string) {
	lnr := c.mustFn(rule, "Lexer.LexNextRune")
	prevF := c.field("Lexer", "prevrune")
	if lnr == nil || prevF == nil {
		c.undecided(rule, "Lexer", "previous rune", token.NoPos, "Lexer.prevrune not found")
		return
	}
	accepts := false
	twoRunes := false
	if init := c.SZygo.Func("init"); init != nil {
		eachInstr(init, func(b *ssa.BasicBlock, i int, in ssa.Instruction) {
			st, ok := in.(*ssa.Store)
			if !ok {
				return
			}
			g, ok := st.Addr.(*ssa.Global)
			if !ok || (g.Name() != "FloatRegex" && g.Name() != "DecimalRegex") {
				return
			}
			call, ok := st.Val.(*ssa.Call)
			if !ok || len(call.Call.Args) != 1 {
				return
			}
			if k, ok := call.Call.Args[0].(*ssa.Const); ok && k.Value != nil && k.Value.Kind() == constant.String {
				if re, err := regexp.Compile(constant.StringVal(k.Value)); err == nil {
					if re.MatchString("-.5") {
						accepts = true
					}
					if re.MatchString("-.") {
						twoRunes = true
					}
				}
			}
		})
	}
	if !accepts {
		c.ok(rule, "Lexer", "signed fraction", token.NoPos, "the number patterns do not accept -.5: the notation is not supported, nothing to keep together")
		return
	}
	if twoRunes {
		c.ok(rule, "Lexer", "signed fraction", token.NoPos, "the number patterns accept the two-rune prefix `-.` themselves")
		return
	}
	found := false
	eachInstr(lnr, func(b *ssa.BasicBlock, i int, in ssa.Instruction) {
		bo, ok := in.(*ssa.BinOp)
		if !ok || bo.Op != token.EQL && bo.Op != token.NEQ {
			return
		}
		if _, isP := bo.X.(*ssa.Parameter); !isP {
			return
		}
		if k, ok := constIntOf(bo.Y); !ok || k != '.' {
			return
		}
		underMinus := guardedBy(b, func(cond ssa.Value) (bool, bool) {
			c2, ok := cond.(*ssa.BinOp)
			if !ok || (c2.Op != token.EQL && c2.Op != token.NEQ) {
				return false, false
			}
			if _, isPrev := loadOfField(c2.X, prevF); !isPrev {
				return false, false
			}
			if k, ok := constIntOf(c2.Y); !ok || k != '-' {
				return false, false
			}
			return true, c2.Op == token.EQL
		})
		if underMinus {
			found = true
		}
	})
	c.check(found, rule, "Lexer.LexNextRune", "signed fraction kept together", lnr.Pos(),
		"after a minus sign in a sign context the lexer looks at a following point separately (the two runes `-.` match no number pattern by themselves)",
		"the number patterns accept -.5, but the lexer decides on the two runes `-.`, which match no pattern, and nothing treats the point after a minus sign specially: -.5 is read as the operator - followed by 0.5, so [1 -.5] has three elements")
}
