package main

// C13 — parsing depends only on the text: not on chunking, not on history.

import (
	"fmt"
	"go/ast"
	"go/token"
	"go/types"
	"sort"
	"strings"

	"golang.org/x/tools/go/ssa"
)

func isContentMutator(name string) bool {
	return strings.HasPrefix(name, "Write") || name == "Reset" || name == "Truncate" || name == "ReadFrom" || name == "UnreadRune" || name == "UnreadByte"
}

func checkC13(c *Ctx) {
	c.explainf("C13 decides: every field of the lexer and of the parser that some lexing/parsing routine writes and some routine reads is re-initialised by the reset routine(s), which agree with each other; lexer residue is written only by the lexer's own methods, and queuing more input touches only the stream queue; each recursive-descent routine that can meet the end of the available input stores the more-input request, yields, and loops back to peek again; each lexer state that means `inside an unfinished literal or comment` is either announced to the parser by a begin token or consulted on the end-of-text path; the end-of-text path at depth 0 flushes the lexer's pending atom; taking a token removes exactly one token and peeking removes none. The yielding look-ahead is taken by the expression parser only where something is open (C13-TOPEND), nested expressions are read only by routines that wait for a token (C13-OPERAND), and every direct look-ahead inside an open construct tests for the end of input (C13-PEEKEND). flushAtEnd, entered in any state in which LexNextRune holds a token back (the set is derived), lexes a terminator or asks for more input (C13-FLUSHALL), and a routine that discards comments does not flush a pending line comment (C13-FLUSHCMT). It does not decide equality of pieced and whole parses on actual texts.")
	lexerT := c.named("Lexer")
	parserT := c.named("Parser")
	if lexerT == nil || parserT == nil {
		c.undecided("C13-RESET", "Lexer/Parser", "anchor", token.NoPos, "types Lexer/Parser not found")
		return
	}
	lexReset := c.mustFn("C13-RESET", "Lexer.Reset")
	newLexer := c.mustFn("C13-RESET", "NewLexer")
	pReset := c.mustFn("C13-RESET", "Parser.Reset")
	pResetAdd := c.mustFn("C13-RESET", "Parser.ResetAddNewInput")
	newParser := c.mustFn("C13-RESET", "Zlisp.NewParser")
	if lexReset == nil || newLexer == nil || pReset == nil || pResetAdd == nil || newParser == nil {
		return
	}

	type spec struct {
		T      *types.Named
		resets []*ssa.Function
		ctors  []*ssa.Function
	}
	specs := []spec{
		{lexerT, []*ssa.Function{lexReset}, []*ssa.Function{newLexer}},
		{parserT, []*ssa.Function{pReset, pResetAdd}, []*ssa.Function{newParser}},
	}
	for _, sp := range specs {
		skip := map[*ssa.Function]bool{}
		for _, f := range append(append([]*ssa.Function{}, sp.resets...), sp.ctors...) {
			skip[f] = true
		}
		tname := sp.T.Obj().Name()
		for _, fld := range structFields(sp.T) {
			// writers outside reset/constructor
			var writers []string
			for _, w := range c.fieldWrites(fld) {
				if !skip[w.fn] {
					writers = append(writers, fnName(w.fn))
				}
			}
			contentField := false
			if _, isPtr := fld.Type().Underlying().(*types.Pointer); isPtr {
				for _, f := range c.zygoFuncs() {
					if skip[f] {
						continue
					}
					for _, ci := range methodCallsOnField(f, fld) {
						if callee := ci.Common().StaticCallee(); callee != nil && fnPkgPath(callee) != zygoPath && isContentMutator(callee.Name()) {
							writers = append(writers, fnName(f)+"→"+callee.Name())
							contentField = true
						}
					}
				}
			}
			// content writes through a pointer field to one of our own structs (p.sendMe.Expr = ...)
			if pt, isPtr := fld.Type().Underlying().(*types.Pointer); isPtr {
				if _, isStruct := pt.Elem().Underlying().(*types.Struct); isStruct {
					for _, f := range c.zygoFuncs() {
						if skip[f] {
							continue
						}
						eachInstr(f, func(b *ssa.BasicBlock, i int, in ssa.Instruction) {
							if st, ok := in.(*ssa.Store); ok {
								if fa, ok := st.Addr.(*ssa.FieldAddr); ok {
									if _, ok := loadOfField(fa.X, fld); ok {
										writers = append(writers, fnName(f)+"→."+faField(fa).Name())
									}
								}
							}
						})
					}
				}
			}
			if len(writers) == 0 {
				continue // set once at construction: not residue
			}
			sort.Strings(writers)
			writers = uniq(writers)
			resetSet := map[*ssa.Function]bool{}
			for _, r := range sp.resets {
				resetSet[r] = true
			}
			reads := c.fieldReads(fld, resetSet)
			// a read that only feeds a mutator call on a content field counts as a write, not a read
			nReads := 0
			var readers []string
			for _, r := range reads {
				if contentField && onlyFeedsMutators(r.in) {
					continue
				}
				nReads++
				readers = append(readers, fnName(r.fn))
			}
			readers = uniq(readers)
			if nReads == 0 {
				c.ok("C13-RESET", tname, fld.Name(), fld.Pos(), "written by "+strings.Join(writers, ",")+" but never read: cannot influence a later parse").Trivial = true
				continue
			}
			for _, r := range sp.resets {
				reset := false
				// the reset routine together with the methods of the same type it delegates to
				closure := methodClosure(r, sp.T)
				for _, w := range c.fieldWrites(fld) {
					if closure[w.fn] && w.kind == "store" {
						reset = true
					}
				}
				for g := range closure {
					for _, ci := range methodCallsOnField(g, fld) {
						if callee := ci.Common().StaticCallee(); callee != nil && (callee.Name() == "Reset" || callee.Name() == "Truncate") {
							reset = true
						}
					}
				}
				c.check(reset, "C13-RESET", fnName(r), tname+"."+fld.Name(), r.Pos(),
					"re-initialised by the reset routine",
					fmt.Sprintf("%s.%s is written by %s and read by %s, but %s does not re-initialise it: what was lexed/parsed earlier changes how a later text is read",
						tname, fld.Name(), strings.Join(writers, ","), strings.Join(firstN(readers, 4), ","), fnName(r)))
			}
		}
	}
	// parser resets must reset the lexer too
	for _, r := range []*ssa.Function{pReset, pResetAdd} {
		calls := false
		for g := range methodClosure(r, parserT) {
			if len(callsOf(g, lexReset)) > 0 {
				calls = true
			}
		}
		c.check(calls, "C13-RESET", fnName(r), "calls Lexer.Reset", r.Pos(), "parser reset resets its lexer",
			"the parser reset routine does not reset the lexer")
	}
	// ResetAddNewInput must queue the stream after the reset, not before
	if addNext := c.mustFn("C13-RESET", "Lexer.AddNextStream"); addNext != nil {
		// the reset may be delegated to another Parser method (p.Reset()): any call that leads to Lexer.Reset counts
		var cr []ssa.CallInstruction
		eachInstr(pResetAdd, func(b *ssa.BasicBlock, i int, in ssa.Instruction) {
			if ci, ok := in.(ssa.CallInstruction); ok {
				if g := ci.Common().StaticCallee(); g != nil {
					if g == lexReset {
						cr = append(cr, ci)
					} else if isMethodOf(g, parserT) {
						for h := range methodClosure(g, parserT) {
							if len(callsOf(h, lexReset)) > 0 {
								cr = append(cr, ci)
								break
							}
						}
					}
				}
			}
		})
		ca := callsOf(pResetAdd, addNext)
		okOrder := len(cr) >= 1 && len(ca) == 1
		for _, r := range cr {
			if !dominatesInstr(r.(ssa.Instruction), ca[0].(ssa.Instruction)) {
				okOrder = false
			}
		}
		c.check(okOrder, "C13-RESET", "Parser.ResetAddNewInput", "Reset before AddNextStream", pResetAdd.Pos(), "the new stream is queued after the reset", "the new input is not queued after the lexer reset (it would be discarded, or old residue kept)")
	}

	// ---- C13-STATE: lexer residue is written by the lexer's own methods only
	lexFields := structFields(lexerT)
	for _, fld := range lexFields {
		for _, w := range c.fieldWrites(fld) {
			if isMethodOf(w.fn, lexerT) || w.fn == newLexer {
				continue
			}
			c.bad("C13-STATE", fnName(w.fn), w.kind+" Lexer."+fld.Name(), w.in.Pos(),
				"lexer residue is modified outside the lexer's own methods: a pause between pieces of input can disturb a half-read token")
		}
	}
	streamFields := map[string]bool{"stream": true, "next": true}
	for _, name := range []string{"Lexer.AddNextStream", "Lexer.PromoteNextStream"} {
		f := c.mustFn("C13-STATE", name)
		if f == nil {
			continue
		}
		clean := true
		for _, fld := range lexFields {
			for _, w := range c.fieldWrites(fld) {
				if w.fn == f && !streamFields[fld.Name()] {
					clean = false
					c.bad("C13-STATE", name, w.kind+" Lexer."+fld.Name(), w.in.Pos(), "queuing more input changes lexer residue other than the stream queue: a token split across two pieces is read differently from the whole text")
				}
			}
			if _, isPtr := fld.Type().Underlying().(*types.Pointer); isPtr {
				for _, ci := range methodCallsOnField(f, fld) {
					if callee := ci.Common().StaticCallee(); callee != nil && isContentMutator(callee.Name()) {
						clean = false
						c.bad("C13-STATE", name, "call "+callee.Name()+" on Lexer."+fld.Name(), ci.Pos(), "queuing more input changes the pending-atom buffer")
					}
				}
			}
		}
		// calls to other lexer methods that write residue
		for g := range staticReach(f) {
			if g == f || !isMethodOf(g, lexerT) {
				continue
			}
			for _, fld := range lexFields {
				for _, w := range c.fieldWrites(fld) {
					if w.fn == g && !streamFields[fld.Name()] {
						clean = false
						c.bad("C13-STATE", name, "via "+fnName(g)+" Lexer."+fld.Name(), w.in.Pos(), "queuing more input reaches a routine that changes lexer residue")
					}
				}
			}
		}
		if clean {
			c.ok("C13-STATE", name, "touches only stream queue", f.Pos(), "writes only stream/next")
		}
	}

	// ---- C13-YIELD
	peek := c.mustFn("C13-YIELD", "Lexer.PeekNextToken")
	yieldF := c.mustField("C13-YIELD", "Parser", "yield")
	errF := c.mustField("C13-YIELD", "ParserReply", "Err")
	typF := c.mustField("C13-YIELD", "Token", "typ")
	var tokenEnd int64 = -1
	if k, ok := c.Zygo.Types.Scope().Lookup("TokenEnd").(*types.Const); ok {
		tokenEnd, _ = constInt64(k)
	}
	moreVar := c.SZygo.Var("ErrMoreInputNeeded")
	if peek != nil && yieldF != nil && errF != nil && typF != nil && tokenEnd >= 0 && moreVar != nil {
		// the routines confirmed by reading, plus every other parser routine that peeks the lexer directly:
		// each of them must run the more-input protocol itself
		// (derived, not listed: a routine that hands the waiting to a helper no longer peeks itself, and the
		// helper, which does, is examined in its place)
		names := []string{}
		have := map[string]bool{}
		// a direct peek taken only when the nesting depth is 0 needs no protocol: nothing is open there,
		// and the end of the text after a complete top-level token is a legitimate end
		atDepthZero := func(g *ssa.Function, site ssa.CallInstruction) bool {
			return guardedBy(site.Block(), func(cond ssa.Value) (bool, bool) {
				bo, ok := cond.(*ssa.BinOp)
				if !ok || (bo.Op != token.EQL && bo.Op != token.NEQ) {
					return false, false
				}
				p, isParam := bo.X.(*ssa.Parameter)
				k, isConst := constIntOf(bo.Y)
				if !isParam || !isConst || k != 0 || !isDepthParam(p) {
					return false, false
				}
				return true, bo.Op == token.EQL
			})
		}
		for _, g := range c.zygoFuncs() {
			if g.Parent() == nil && isMethodOf(g, parserT) && len(callsOf(g, peek)) > 0 && !have[fnName(g)] {
				open := 0
				for _, site := range callsOf(g, peek) {
					if !atDepthZero(g, site) {
						open++
					}
				}
				if open == 0 {
					c.ok("C13-YIELD", fnName(g), "direct look-ahead only at depth 0", g.Pos(), "every direct peek of the lexer in this routine is taken only when the nesting depth is 0, where the end of the text is a legitimate end")
					continue
				}
				names = append(names, fnName(g))
				have[fnName(g)] = true
			}
		}
		if len(names) < 4 {
			c.undecided("C13-YIELD", "Parser", "routines that peek the lexer inside an open construct", token.NoPos, fmt.Sprintf("only %d found (%s); six confirmed by reading", len(names), strings.Join(names, ", ")))
		}
		for _, name := range names {
			f := c.mustFn("C13-YIELD", name)
			if f == nil {
				continue
			}
			found := false
			why := "no call of the yield function found"
			eachInstr(f, func(b *ssa.BasicBlock, i int, in ssa.Instruction) {
				call, ok := in.(*ssa.Call)
				if !ok || found {
					return
				}
				if _, ok := loadOfField(call.Call.Value, yieldF); !ok {
					return
				}
				// (1) more-input request stored before the yield in the same block
				stored := false
				for _, p := range b.Instrs[:i] {
					if st, ok := p.(*ssa.Store); ok {
						if fa, ok := st.Addr.(*ssa.FieldAddr); ok && faField(fa) == errF {
							if mi, ok := st.Val.(*ssa.MakeInterface); ok {
								if u, ok := mi.X.(*ssa.UnOp); ok && u.X == ssa.Value(moreVar) {
									stored = true
								}
							}
						}
					}
				}
				if !stored {
					why = "the yield is not preceded by storing ErrMoreInputNeeded as the reply's error"
					return
				}
				// (2) guarded by tok.typ == TokenEnd
				guarded := guardedBy(b, func(cond ssa.Value) (bool, bool) {
					bo, ok := cond.(*ssa.BinOp)
					if !ok || (bo.Op != token.EQL && bo.Op != token.NEQ) {
						return false, false
					}
					k, ok := constIntOf(bo.Y)
					if !ok || k != tokenEnd {
						return false, false
					}
					if !valueIsField(bo.X, typF) {
						return false, false
					}
					return true, bo.Op == token.EQL
				})
				if !guarded {
					why = "the yield is not on the branch where the peeked token is TokenEnd"
					return
				}
				// (3) after a successful yield control returns to a peek
				back := false
				for _, r := range *call.Referrers() {
					if iff, ok := r.(*ssa.If); ok {
						okSucc := iff.Block().Succs[0]
						if cnd, neg := stripNot(iff.Cond); cnd == ssa.Value(call) && neg {
							okSucc = iff.Block().Succs[1]
						}
						reach := reachableAvoiding(okSucc, func(*ssa.BasicBlock) bool { return false })
						for rb := range reach {
							for _, x := range rb.Instrs {
								if ci, ok := x.(ssa.CallInstruction); ok && ci.Common().StaticCallee() == peek {
									back = true
								}
							}
						}
					}
				}
				if !back {
					why = "after the yield returns true the routine does not peek again"
					return
				}
				found = true
			})
			c.check(found, "C13-YIELD", name, "more-input request at end of input", f.Pos(),
				"on TokenEnd: stores ErrMoreInputNeeded, yields, peeks again", "unfinished construct does not ask for more input: "+why)
		}
	}

	// ---- C13-PEEKEND: inside the parser routines, the end of the available tokens is not a token. Every direct
	// look-ahead of the lexer either tests what it got for TokenEnd (and then runs the more-input protocol), or is
	// taken only at nesting depth 0. A look-ahead that compares the token with some other type only (is it a
	// backslash? is it the closing paren?) reads "the rest has not arrived yet" as "no".
	if peek != nil && typF != nil && tokenEnd >= 0 {
		nPeek := 0
		for _, g := range c.zygoFuncs() {
			if g.Parent() != nil || !isMethodOf(g, parserT) {
				continue
			}
			for _, site := range callsOf(g, peek) {
				nPeek++
				if atDepthZeroSite(site) {
					c.ok("C13-PEEKEND", fnName(g), "direct look-ahead tested for the end of input", site.Pos(), "taken only at nesting depth 0")
					continue
				}
				v, _ := site.(ssa.Value)
				tested := v != nil && tokenComparedWith(v, typF, tokenEnd)
				c.check(tested, "C13-PEEKEND", fnName(g), "direct look-ahead tested for the end of input", site.Pos(),
					"the token this look-ahead returns is compared with TokenEnd",
					"a direct look-ahead of the lexer inside an open construct is never compared with TokenEnd: when the rest of the construct has not arrived yet (the text comes in pieces) the end marker is taken for an ordinary token of another type, so a dotted pair split before its backslash or before its closing paren is a syntax error instead of a request for more input")
			}
		}
		if nPeek < 6 {
			c.undecided("C13-PEEKEND", "Parser", "direct look-aheads", token.NoPos, fmt.Sprintf("only %d direct look-aheads found in the parser", nPeek))
		}
	}

	c.checkOperandNotComment("C13-OPCMT") // derives the operand readers; also yields C13-OPDEPTH
	c.checkFlushStates()
	c.checkTakeAfterLook()
	// ---- C13-FLUSHTOP: terminating the lexer's pending atom "as a newline would" is right only where the
	// available text may really be the whole text: at nesting depth 0. Inside an open bracket the rest of the
	// atom may be in the next piece; flushing there cuts "(setq lst %al" + "pha beta)" into (quote al) pha.
	if fl := c.fn("Lexer.flushAtEnd"); fl != nil {
		nF := 0
		for _, g := range c.zygoFuncs() {
			for _, site := range callsOf(g, fl) {
				nF++
				okTop := false
				why := ""
				hasDepth := false
				for _, p := range g.Params {
					if isDepthParam(p) {
						hasDepth = true
					}
				}
				if hasDepth {
					okTop = atDepthZeroSite(site)
					why = "the routine is entered at any nesting depth and the flush is not under `depth == 0`"
				} else {
					// the top-level loop: it parses with the constant depth 0 and flushes when that returned the end marker
					pe := c.fn("Parser.ParseExpression")
					for _, ps := range callsOf(g, pe) {
						args := ps.Common().Args
						if k, ok := constIntOf(args[len(args)-1]); ok && k == 0 {
							okTop = true
						}
					}
					why = "the routine does not parse at the constant depth 0"
				}
				c.check(okTop, "C13-FLUSHTOP", fnName(g), "pending atom terminated only at depth 0", site.Pos(),
					"the lexer's pending atom is flushed only where nothing is open",
					"the lexer's pending atom is terminated although a bracket may be open ("+why+"): when a piece of text ends inside an atom, the atom is cut in two and its remainder becomes a separate element, so the pieces no longer read as the whole")
			}
		}
		if nF < 2 {
			c.undecided("C13-FLUSHTOP", "Lexer.flushAtEnd", "callers", fl.Pos(), fmt.Sprintf("only %d calls of flushAtEnd found (2 confirmed by reading)", nF))
		}
	}

	// ---- C13-OPERAND: a nested expression is read only by a routine that runs the more-input protocol
	// itself. ParseExpression answers a dry token stream with the end marker; a caller that has not
	// first waited for a token (the prefix operators % ^ ~ ~@ used to) wraps that marker as if it
	// were the operand: "(a %" + "b c)" read as (a (quote End) b c).
	if pe := c.mustFn("C13-OPERAND", "Parser.ParseExpression"); pe != nil && peek != nil && yieldF != nil {
		nCall := 0
		for _, g := range c.zygoFuncs() {
			sites := callsOf(g, pe)
			if len(sites) == 0 {
				continue
			}
			top := topFn(g)
			for _, site := range sites {
				nCall++
				// the caller peeks the lexer itself and yields, or tests the result against the end marker (the top-level loop)
				waits := len(callsOf(g, peek)) > 0 && callsYield(g, yieldF)
				testsEnd := false
				if v, ok := site.(ssa.Value); ok {
					testsEnd = resultComparedWithGlobal(v, "SexpEnd")
				}
				c.check(waits || testsEnd, "C13-OPERAND", fnName(g), "nested expression read after waiting for a token", site.Pos(),
					"the caller of ParseExpression waits for a token with the more-input protocol (or tests the result for the end marker)",
					"ParseExpression is called for a nested expression by a routine that neither waits for a token nor tests the result for the end-of-input marker: when the operand has not arrived yet (the text is delivered in pieces, or ends without a delimiter) the end marker is wrapped as the operand and the real operand becomes a sibling")
			}
			_ = top
		}
		if nCall < 5 {
			c.undecided("C13-OPERAND", "Parser.ParseExpression", "callers", pe.Pos(), fmt.Sprintf("only %d calls of ParseExpression found", nCall))
		}
	}

	// ---- C13-TOPEND: the look-ahead that asks for more input (ParserPeekNextToken) is taken by the expression
	// parser only where something is open: in the arm of an opening token, or at a nesting depth above 0. After a
	// complete top-level token nothing is open; asking for more input there withholds the last token of the text.
	if pe, ypeek := c.mustFn("C13-TOPEND", "Parser.ParseExpression"), c.mustFn("C13-TOPEND", "Parser.ParserPeekNextToken"); pe != nil && ypeek != nil && typF != nil {
		openers := map[int64]string{}
		for _, nm := range []string{"TokenLParen", "TokenLSquare", "TokenLCurly", "TokenBeginBacktickString", "TokenBeginBlockComment"} {
			if k, ok := c.Zygo.Types.Scope().Lookup(nm).(*types.Const); ok {
				if v, ok := constInt64(k); ok {
					openers[v] = nm
				}
			}
		}
		nSites := 0
		for _, site := range callsOf(pe, ypeek) {
			nSites++
			blk := site.Block()
			inOpener := guardedBy(blk, func(cond ssa.Value) (bool, bool) {
				bo, ok := cond.(*ssa.BinOp)
				if !ok || bo.Op != token.EQL {
					return false, false
				}
				k, ok := constIntOf(bo.Y)
				if !ok || openers[k] == "" || !valueIsField(bo.X, typF) {
					return false, false
				}
				return true, true
			})
			nested := guardedBy(blk, func(cond ssa.Value) (bool, bool) {
				bo, ok := cond.(*ssa.BinOp)
				if !ok || (bo.Op != token.EQL && bo.Op != token.NEQ) {
					return false, false
				}
				p, isParam := bo.X.(*ssa.Parameter)
				k, isConst := constIntOf(bo.Y)
				if !isParam || !isConst || k != 0 || !isDepthParam(p) {
					return false, false
				}
				return true, bo.Op == token.NEQ
			})
			c.check(inOpener || nested, "C13-TOPEND", "Parser.ParseExpression", "more input requested only where something is open", site.Pos(),
				"the yielding look-ahead is taken in the arm of an opening token or at a nesting depth above 0",
				"the expression parser asks for more input after a complete token at nesting depth 0: a text that ends there (a top-level + or -, (f)-1 without a newline) is reported as unfinished and its last token is withheld")
		}
		if nSites < 5 {
			c.undecided("C13-TOPEND", "Parser.ParseExpression", "yielding look-ahead sites", pe.Pos(), fmt.Sprintf("only %d yielding look-ahead sites found in ParseExpression (7 confirmed by reading)", nSites))
		}
	}

	// ---- C13-UNFIN and C13-FLUSH: the end-of-text path at depth 0
	checkC13End(c, lexerT, "C13")

	// ---- C13-CONS
	tokensF := c.mustField("C13-CONS", "Lexer", "tokens")
	getTok := c.mustFn("C13-CONS", "Lexer.GetNextToken")
	if tokensF != nil && getTok != nil && peek != nil {
		n := 0
		okShape := true
		for _, w := range c.fieldWrites(tokensF) {
			if w.fn == getTok && w.kind == "store" {
				n++
				st := w.in.(*ssa.Store)
				sl, ok := st.Val.(*ssa.Slice)
				if !ok || !derivesFromField(sl.X, tokensF, 0) {
					okShape = false
					continue
				}
				lo, ok := constIntOf(sl.Low)
				if !ok || lo != 1 || sl.High != nil {
					okShape = false
				}
			}
			if w.fn == peek {
				c.bad("C13-CONS", "Lexer.PeekNextToken", w.kind+" tokens", w.in.Pos(), "peeking modifies the token queue")
			}
		}
		c.check(n == 1 && okShape, "C13-CONS", "Lexer.GetNextToken", "tokens = tokens[1:]", getTok.Pos(), "taking a token removes exactly the first token", "GetNextToken does not remove exactly one token from the front of the queue")
		c.ok("C13-CONS", "Lexer.PeekNextToken", "no removal", peek.Pos(), "peek leaves the queue unchanged")
	}
	c.checkParserStopOrder("C13-STOP")
	c.checkLexerTokenOrder("C13-ORDER")
	c.checkCommentAutomaton("C13-CMT")
	// the end-of-text flush feeds the rune that ends every pending construct it claims to end
	if f := c.fn("Lexer.flushAtEnd"); f != nil {
		lexNext := c.fn("Lexer.LexNextRune")
		n := 0
		if lexNext != nil {
			for _, ci := range callsOf(f, lexNext) {
				n++
				k, isK := constIntOf(ci.Common().Args[1])
				c.check(isK && k == '\n', "C13-FLUSH", "Lexer.flushAtEnd", "terminates the pending construct with a newline", ci.Pos(),
					"the final flush feeds a newline, which ends atoms, operators and line comments alike",
					"the final flush feeds a rune other than a newline: a line comment ends only at a newline, so a text or piece that ends inside one loses the comment (or keeps it open into the next piece), and pieced and whole parses differ")
			}
		}
		if n == 0 {
			c.undecided("C13-FLUSH", "Lexer.flushAtEnd", "terminating rune", f.Pos(), "the final flush no longer feeds a rune to the lexer")
		}
	}
	// the look-ahead helper never hands the end-of-input marker to its caller as a token
	{
		ok, why := c.peekContract()
		pos := token.NoPos
		if f := c.fn("Parser.ParserPeekNextToken"); f != nil {
			pos = f.Pos()
		}
		c.check(ok, "C13-YIELD", "Parser.ParserPeekNextToken", "asks for more input until a token arrives", pos,
			"a nil error is returned only with a token other than the end marker; at the end of the available input the request for more is stored, yielded, and the peek repeated",
			"the look-ahead can report success at the end of the available input: "+why+" — where a text is cut then decides how it is read")
	}
}

func constInt64(k *types.Const) (int64, bool) {
	v := k.Val()
	if v.Kind() != 3 {
		return 0, false
	}
	var n int64
	_, err := fmt.Sscanf(v.ExactString(), "%d", &n)
	return n, err == nil
}

// valueIsField: v is a load of field fld (through a FieldAddr on a local copy or a Field extract).
func valueIsField(v ssa.Value, fld *types.Var) bool {
	if _, ok := loadOfField(v, fld); ok {
		return true
	}
	if ph, ok := v.(*ssa.Phi); ok {
		for _, e := range ph.Edges {
			if !valueIsField(e, fld) {
				return false
			}
		}
		return len(ph.Edges) > 0
	}
	return false
}

func onlyFeedsMutators(in ssa.Instruction) bool {
	fa, ok := in.(*ssa.FieldAddr)
	if !ok {
		return false
	}
	for _, r := range *fa.Referrers() {
		u, ok := r.(*ssa.UnOp)
		if !ok {
			if _, isStore := r.(*ssa.Store); isStore {
				continue
			}
			return false
		}
		for _, r2 := range *u.Referrers() {
			ci, ok := r2.(ssa.CallInstruction)
			if !ok {
				return false
			}
			callee := ci.Common().StaticCallee()
			if callee == nil || !isContentMutator(callee.Name()) || len(ci.Common().Args) == 0 || ci.Common().Args[0] != ssa.Value(u) {
				return false
			}
		}
	}
	return true
}

func uniq(xs []string) []string {
	var out []string
	for i, x := range xs {
		if i == 0 || x != xs[i-1] {
			out = append(out, x)
		}
	}
	return out
}

func firstN(xs []string, n int) []string {
	if len(xs) > n {
		return xs[:n]
	}
	return xs
}

// checkC13End analyses the closure of ParsingIter: on the path where the
// top-level ParseExpression reports the end of the available text without
// error, (FLUSH) a lexer routine that can reach dumpBuffer must run before the
// reply is sent, and (UNFIN) every in-literal lexer state without a begin
// token must be consulted there.
func checkC13End(c *Ctx, lexerT *types.Named, pfx string) {
	pi := c.mustFn(pfx+"-FLUSH", "Parser.ParsingIter")
	dump := c.mustFn(pfx+"-FLUSH", "Lexer.dumpBuffer")
	lexNext := c.mustFn(pfx+"-UNFIN", "Lexer.LexNextRune")
	stateF := c.mustField(pfx+"-UNFIN", "Lexer", "state")
	appendTok := c.mustFn(pfx+"-UNFIN", "Lexer.AppendToken")
	if pi == nil || dump == nil || lexNext == nil || stateF == nil || appendTok == nil {
		return
	}
	if len(pi.AnonFuncs) != 1 {
		c.undecided(pfx+"-FLUSH", "Parser.ParsingIter", "closure", pi.Pos(), "expected exactly one closure in ParsingIter")
		return
	}
	cl := pi.AnonFuncs[0]
	// lexer methods called from the closure (directly) and what they reach
	var endCalls []*ssa.Function
	eachInstr(cl, func(b *ssa.BasicBlock, i int, in ssa.Instruction) {
		if ci, ok := in.(ssa.CallInstruction); ok {
			if callee := ci.Common().StaticCallee(); callee != nil && isMethodOf(callee, lexerT) {
				endCalls = append(endCalls, callee)
			}
		}
	})
	reach := map[*ssa.Function]bool{}
	for _, f := range endCalls {
		for g := range staticReach(f) {
			reach[g] = true
		}
	}
	c.check(reach[dump], pfx+"-FLUSH", "Parser.ParsingIter$1", "flush pending atom at end of text", cl.Pos(),
		"the end-of-text path calls a lexer routine that reaches dumpBuffer",
		"nothing on the top-level end-of-text path flushes the lexer's atom buffer: the last token of a text that does not end in a delimiter is lost")
	// after a flush that produced a token, the loop must parse again: the
	// flushing call's boolean result decides a branch whose true side reaches
	// the ParseExpression call without first sending the reply.
	if reach[dump] {
		parseExpr := c.fn("Parser.ParseExpression")
		again := false
		eachInstr(cl, func(b *ssa.BasicBlock, i int, in ssa.Instruction) {
			call, ok := in.(*ssa.Call)
			if !ok || call.Call.StaticCallee() == nil || !staticReach(call.Call.StaticCallee())[dump] {
				return
			}
			for _, r := range *call.Referrers() {
				ex, ok := r.(*ssa.Extract)
				if !ok || !types.Identical(ex.Type(), types.Typ[types.Bool]) {
					continue
				}
				for _, r2 := range *ex.Referrers() {
					iff, ok := r2.(*ssa.If)
					if !ok {
						continue
					}
					t := iff.Block().Succs[0]
					seen := reachableAvoiding(t, func(x *ssa.BasicBlock) bool {
						// stop at blocks that send the reply (dynamic call of the yield parameter)
						for _, y := range x.Instrs {
							if c2, ok := y.(*ssa.Call); ok && c2.Call.StaticCallee() == nil {
								if _, isBuiltin := c2.Call.Value.(*ssa.Builtin); !isBuiltin {
									return true
								}
							}
						}
						return false
					})
					for x := range seen {
						for _, y := range x.Instrs {
							if c2, ok := y.(*ssa.Call); ok && c2.Call.StaticCallee() == parseExpr {
								again = true
							}
						}
					}
				}
			}
		})
		c.check(again, pfx+"-FLUSH", "Parser.ParsingIter$1", "parse again after flush", cl.Pos(),
			"when the flush produced a token the loop parses it before replying",
			"the flushed token is never parsed: after the flush reports a token the loop does not return to ParseExpression")
	}

	// in-literal states: enumerate LexerState constants by the constructs they denote
	scope := c.Zygo.Types.Scope()
	lexState := c.named("LexerState")
	literalStates := map[int64]string{}
	for _, n := range scope.Names() {
		k, ok := scope.Lookup(n).(*types.Const)
		if !ok || lexState == nil || !types.Identical(k.Type(), lexState) {
			continue
		}
		v, _ := constInt64(k)
		ln := strings.ToLower(n)
		if strings.Contains(ln, "strlit") || strings.Contains(ln, "strescaped") || strings.Contains(ln, "runelit") || strings.Contains(ln, "runeescaped") ||
			strings.Contains(ln, "backtick") || strings.Contains(ln, "commentblock") {
			literalStates[v] = n
		}
	}
	if len(literalStates) < 6 {
		c.undecided(pfx+"-UNFIN", "LexerState", "in-literal states", token.NoPos, fmt.Sprintf("only %d in-literal lexer states recognised by name", len(literalStates)))
	}
	// states announced by a begin token: a store of the state constant in LexNextRune with AppendToken in the same block
	announced := map[int64]bool{}
	entered := map[int64]bool{}
	eachInstr(lexNext, func(b *ssa.BasicBlock, i int, in ssa.Instruction) {
		st, ok := in.(*ssa.Store)
		if !ok {
			return
		}
		fa, ok := st.Addr.(*ssa.FieldAddr)
		if !ok || faField(fa) != stateF {
			return
		}
		v, ok := constIntOf(st.Val)
		if !ok {
			return
		}
		entered[v] = true
		for _, x := range b.Instrs {
			if ci, ok := x.(ssa.CallInstruction); ok && ci.Common().StaticCallee() == appendTok {
				announced[v] = true
			}
		}
	})
	// states consulted on the end path: constants compared with / switched on a load of Lexer.state in reach
	consulted := map[int64]bool{}
	for g := range reach {
		if g == lexNext {
			continue // the rune state machine itself is not an end-of-text test
		}
		eachInstr(g, func(b *ssa.BasicBlock, i int, in ssa.Instruction) {
			bo, ok := in.(*ssa.BinOp)
			if !ok || (bo.Op != token.EQL && bo.Op != token.NEQ) {
				return
			}
			if _, ok := loadOfField(bo.X, stateF); !ok {
				return
			}
			if v, ok := constIntOf(bo.Y); ok {
				consulted[v] = true
			}
		})
	}
	// escaped/asterisk sub-states are entered only from their parent state; they inherit its announcement
	parentOf := func(name string) string {
		switch {
		case strings.Contains(name, "StrEscaped"):
			return "LexerStrLit"
		case strings.Contains(name, "RuneEscaped"):
			return "LexerRuneLit"
		case strings.Contains(name, "CommentBlockAsterisk"):
			return "LexerCommentBlock"
		}
		return ""
	}
	byName := map[string]int64{}
	for v, n := range literalStates {
		byName[n] = v
	}
	var vals []int64
	for v := range literalStates {
		vals = append(vals, v)
	}
	sort.Slice(vals, func(i, j int) bool { return vals[i] < vals[j] })
	for _, v := range vals {
		n := literalStates[v]
		ann := announced[v]
		if p := parentOf(n); p != "" && announced[byName[p]] {
			ann = true
		}
		switch {
		case ann:
			c.ok(pfx+"-UNFIN", "Lexer.LexNextRune", n, lexNext.Pos(), "entering the state appends a begin token, so the parser waits for the end token")
		case consulted[v]:
			c.ok(pfx+"-UNFIN", "Parser.ParsingIter$1", n, cl.Pos(), "the end-of-text path tests for this state")
		default:
			c.bad(pfx+"-UNFIN", "Lexer.LexNextRune", n, lexNext.Pos(),
				"the lexer can be inside an unfinished literal ("+n+") with nothing announcing it to the parser and nothing on the end-of-text path testing for it: the text so far is an unfinished prefix but no more-input request is made")
		}
	}
}

// checkParserStopOrder: a parked parser coroutine (iter.Pull's stop function
// held in Parser.stop) runs on while it unwinds. Every routine that stops it
// must do so before it installs the reply accumulator or the input of the
// next parse, otherwise the abandoned parse writes into / reads from the new
// one.
func (c *Ctx) checkParserStopOrder(rule string) {
	parserT := c.named("Parser")
	stopFld := c.field("Parser", "stop")
	sendMe := c.field("Parser", "sendMe")
	if parserT == nil || stopFld == nil || sendMe == nil {
		c.undecided(rule, "Parser", "stop / sendMe", token.NoPos, "anchor fields not found")
		return
	}
	addNext := c.fn("Lexer.AddNextStream")
	lexReset := c.fn("Lexer.Reset")
	yieldFld := c.field("Parser", "yield")
	var methods []*ssa.Function
	for _, f := range c.zygoFuncs() {
		if f.Parent() == nil && isMethodOf(f, parserT) {
			methods = append(methods, f)
		}
	}
	// stoppers / installers: direct, then through calls to other Parser methods
	directStop := func(in ssa.Instruction) bool {
		ci, ok := in.(ssa.CallInstruction)
		if !ok {
			return false
		}
		if ci.Common().StaticCallee() == nil && !ci.Common().IsInvoke() {
			if _, ok := loadOfField(ci.Common().Value, stopFld); ok {
				return true
			}
		}
		return false
	}
	directInstall := func(in ssa.Instruction) string {
		switch x := in.(type) {
		case *ssa.Store:
			if fa, ok := x.Addr.(*ssa.FieldAddr); ok && faField(fa) == sendMe {
				return "installs a new reply accumulator"
			}
			if fa, ok := x.Addr.(*ssa.FieldAddr); ok && yieldFld != nil && faField(fa) == yieldFld && isNilConst(x.Val) {
				return "clears the yield function the coroutine still calls while it unwinds"
			}
		case ssa.CallInstruction:
			if g := x.Common().StaticCallee(); g != nil {
				if g == addNext {
					return "queues the next input"
				}
				if g == lexReset {
					return "resets the lexer"
				}
			}
		}
		return ""
	}
	stops := map[*ssa.Function]bool{}
	installs := map[*ssa.Function]bool{}
	for changed := true; changed; {
		changed = false
		for _, f := range methods {
			eachInstr(f, func(b *ssa.BasicBlock, i int, in ssa.Instruction) {
				callee := (*ssa.Function)(nil)
				if ci, ok := in.(ssa.CallInstruction); ok {
					callee = ci.Common().StaticCallee()
				}
				if !stops[f] && (directStop(in) || (callee != nil && stops[callee])) {
					stops[f] = true
					changed = true
				}
				if !installs[f] && (directInstall(in) != "" || (callee != nil && installs[callee])) {
					installs[f] = true
					changed = true
				}
			})
		}
	}
	n := 0
	for _, f := range methods {
		if !stops[f] || !installs[f] {
			continue
		}
		var stopEvents []ssa.Instruction
		eachInstr(f, func(b *ssa.BasicBlock, i int, in ssa.Instruction) {
			if directStop(in) {
				stopEvents = append(stopEvents, in)
			} else if ci, ok := in.(ssa.CallInstruction); ok {
				if g := ci.Common().StaticCallee(); g != nil && stops[g] {
					stopEvents = append(stopEvents, in)
				}
			}
		})
		eachInstr(f, func(b *ssa.BasicBlock, i int, in ssa.Instruction) {
			what := directInstall(in)
			if what == "" {
				if ci, ok := in.(ssa.CallInstruction); ok {
					if g := ci.Common().StaticCallee(); g != nil && installs[g] && !stops[g] {
						what = "calls " + fnName(g) + ", which installs state of the next parse"
					}
				}
			}
			if what == "" {
				return
			}
			n++
			// a stop event must come first: it dominates the install, or sits in a
			// block all of whose paths rejoin before the install (if p.stop != nil { p.stop() })
			before := false
			for _, s := range stopEvents {
				if dominatesInstr(s, in) {
					before = true
					break
				}
				// guarded stop: the guard block dominates the install and the install is not reachable without passing the guard's join
				if s.Block() != in.Block() && len(s.Block().Preds) == 1 {
					guard := s.Block().Preds[0]
					if cond, _, _ := condBranch(guard); cond != nil {
						if bo, ok := cond.(*ssa.BinOp); ok && isNilConst(bo.Y) {
							if _, isStopFld := loadOfField(bo.X, stopFld); isStopFld {
								last := guard.Instrs[len(guard.Instrs)-1]
								if dominatesInstr(last, in) {
									if !blockReaches(in.Block(), s.Block()) {
										before = true
									}
								}
							}
						}
					}
				}
			}
			c.check(before, rule, fnName(f), what, in.Pos(),
				"the parked parser coroutine is stopped before this",
				"this routine "+what+" before it stops the parked parser coroutine: the abandoned parse, which runs on while it unwinds, appends its half-built expression to the new accumulator or consumes the new input")
		})
	}
	if n < 3 {
		c.undecided(rule, "Parser", "stop-before-install sites", token.NoPos, fmt.Sprintf("only %d install sites found in routines that stop the coroutine", n))
	}
}

// methodClosure: f and the methods of T that f reaches through static calls.
func methodClosure(f *ssa.Function, T *types.Named) map[*ssa.Function]bool {
	out := map[*ssa.Function]bool{f: true}
	work := []*ssa.Function{f}
	for len(work) > 0 {
		x := work[len(work)-1]
		work = work[:len(work)-1]
		eachInstr(x, func(b *ssa.BasicBlock, i int, in ssa.Instruction) {
			if ci, ok := in.(ssa.CallInstruction); ok {
				if g := ci.Common().StaticCallee(); g != nil && !out[g] && g.Parent() == nil && isMethodOf(g, T) {
					out[g] = true
					work = append(work, g)
				}
			}
		})
	}
	return out
}

// checkLexerTokenOrder: tokens reach the parser in text order. Wherever the
// lexer both flushes its pending atom (dumpBuffer) and queues a token for the
// construct that starts at the current rune, the flush comes first; otherwise
// the atom written before a comment opener / bracket arrives after it, inside
// the construct, where the parser does not expect it (it panics for comments).
func (c *Ctx) checkLexerTokenOrder(rule string) {
	lex := c.mustFn(rule, "Lexer.LexNextRune")
	dump := c.fn("Lexer.dumpBuffer")
	app := c.fn("Lexer.AppendToken")
	if lex == nil || dump == nil || app == nil {
		c.undecided(rule, "Lexer.LexNextRune", "flush before queueing", token.NoPos, "dumpBuffer / AppendToken not found")
		return
	}
	n := 0
	for _, a := range callsOf(lex, app) {
		for _, d := range callsOf(lex, dump) {
			ai, di := a.(ssa.Instruction), d.(ssa.Instruction)
			// same straight-line region: one dominates the other and the later one is reached before the function returns to the top
			if ai.Block() == di.Block() || (dominatesInstr(ai, di) && len(di.Block().Preds) == 1) || (dominatesInstr(di, ai) && len(ai.Block().Preds) == 1) {
				n++
				okOrder := dominatesInstr(di, ai)
				c.check(okOrder, rule, "Lexer.LexNextRune", "pending atom flushed before the next token is queued", ai.Pos(),
					"dumpBuffer precedes AppendToken on this path",
					"a token is queued before the pending atom is flushed: the atom written before it reaches the parser after it (an atom glued to a `/*` lands inside the block comment, where the parser panics)")
			}
		}
	}
	if n < 3 {
		c.undecided(rule, "Lexer.LexNextRune", "flush before queueing", lex.Pos(), fmt.Sprintf("only %d flush/queue pairs found", n))
	}
}

// checkIteratorStopsYielding: C01-ITER. ParsingIter is a push iterator: once
// the consumer's loop body has returned false, calling yield again is a run-time
// panic. The routines that pause in the middle of a parse all call p.yield and
// unwind through ParsingIter, which yields once more at the end; so the
// function stored in p.yield (and used by ParsingIter itself) must be a guard
// that remembers a false answer and never calls the raw yield again.
func (c *Ctx) checkIteratorStopsYielding(rule string) {
	iter := c.mustFn(rule, "Parser.ParsingIter")
	yieldF := c.field("Parser", "yield")
	if iter == nil || yieldF == nil || len(iter.AnonFuncs) == 0 {
		c.undecided(rule, "Parser.ParsingIter", "iterator body", token.NoPos, "ParsingIter's iterator closure not found")
		return
	}
	body := iter.AnonFuncs[0]
	if len(body.Params) == 0 {
		c.undecided(rule, "Parser.ParsingIter", "iterator body", body.Pos(), "the iterator closure has no yield parameter")
		return
	}
	raw := body.Params[0]
	// every call of the raw yield, in the body or in closures made by it
	type site struct {
		fn *ssa.Function
		in ssa.Instruction
	}
	var rawCalls []site
	var walk func(f *ssa.Function, rawIn map[ssa.Value]bool)
	walk = func(f *ssa.Function, rawIn map[ssa.Value]bool) {
		// values in f that denote the raw yield: the parameter itself, loads of cells that hold it, free variables bound to it
		isRaw := func(v ssa.Value) bool {
			if rawIn[v] {
				return true
			}
			if ld, ok := v.(*ssa.UnOp); ok && ld.Op == token.MUL && rawIn[ld.X] {
				return true
			}
			return false
		}
		// cells that only ever receive the raw yield
		for changed := true; changed; {
			changed = false
			eachInstr(f, func(b *ssa.BasicBlock, i int, in ssa.Instruction) {
				if st, ok := in.(*ssa.Store); ok && isRaw(st.Val) && !rawIn[st.Addr] {
					if al, ok := st.Addr.(*ssa.Alloc); ok {
						only := true
						for _, r := range *al.Referrers() {
							if s2, ok := r.(*ssa.Store); ok && s2.Addr == ssa.Value(al) && !isRaw(s2.Val) {
								only = false
							}
						}
						if only {
							rawIn[st.Addr] = true
							changed = true
						}
					}
				}
			})
		}
		eachInstr(f, func(b *ssa.BasicBlock, i int, in ssa.Instruction) {
			if ci, ok := in.(ssa.CallInstruction); ok && !ci.Common().IsInvoke() && ci.Common().StaticCallee() == nil && isRaw(ci.Common().Value) {
				rawCalls = append(rawCalls, site{f, in})
			}
			if mc, ok := in.(*ssa.MakeClosure); ok {
				g := mc.Fn.(*ssa.Function)
				inner := map[ssa.Value]bool{}
				for k, bnd := range mc.Bindings {
					if isRaw(bnd) || rawIn[bnd] {
						inner[g.FreeVars[k]] = true
					}
				}
				if len(inner) > 0 {
					walk(g, inner)
				}
			}
		})
	}
	bodyRaw := map[ssa.Value]bool{raw: true}
	walk(body, bodyRaw)
	if len(rawCalls) == 0 {
		c.undecided(rule, "Parser.ParsingIter", "calls of the consumer's yield", body.Pos(), "no call of the iterator's yield parameter found")
		return
	}
	for _, s := range rawCalls {
		// the call must be skipped once a flag says the consumer is gone, and a false answer must set that flag
		guarded := guardedBy(s.in.Block(), func(cond ssa.Value) (bool, bool) {
			_, isLoad := cond.(*ssa.UnOp)
			return isLoad, false
		})
		setsFlag := false
		if call, ok := s.in.(*ssa.Call); ok {
			// `if !raw(reply) { flag = true }`: on the false side of the call's result a bool cell is set to true
			for _, ref := range *call.Referrers() {
				if iff, ok := ref.(*ssa.If); ok {
					falseSide := iff.Block().Succs[1]
					for _, in2 := range falseSide.Instrs {
						if st, ok := in2.(*ssa.Store); ok {
							if k, ok := st.Val.(*ssa.Const); ok && k.Value != nil && k.Value.String() == "true" {
								setsFlag = true
							}
						}
					}
				}
			}
		}
		c.check(guarded && setsFlag && s.fn != body, rule, "Parser.ParsingIter", "the consumer's yield is called only through a guard that remembers `false`", s.in.Pos(),
			"the raw yield is called inside a wrapper that first tests a `consumer gone` flag and sets it when yield answers false",
			"the iterator (or a routine paused inside it) can call the consumer's yield again after it answered false: when the REPL or read leaves its loop while a parse is paused, the unwinding parse reports its end of input through yield and the Go runtime panics (`range function continued iteration after function for loop body returned false`), which kills the process from the REPL")
	}
	// and p.yield is that wrapper, not the raw parameter
	okField := false
	eachInstr(body, func(b *ssa.BasicBlock, i int, in ssa.Instruction) {
		if st, ok := in.(*ssa.Store); ok {
			if fa, ok := st.Addr.(*ssa.FieldAddr); ok && faField(fa) == yieldF {
				v := st.Val
				isRawV := bodyRaw[v]
				if ld, ok := v.(*ssa.UnOp); ok && ld.Op == token.MUL && bodyRaw[ld.X] {
					isRawV = true
				}
				okField = !isRawV
			}
		}
	})
	c.check(okField, rule, "Parser.ParsingIter", "paused routines get the guarded yield", body.Pos(),
		"Parser.yield is set to the guarding wrapper", "Parser.yield is the consumer's raw yield function: routines that were paused call it while they unwind after the consumer has gone")
}

// checkCommentAutomaton: inside a block comment, after an asterisk, another
// asterisk must keep the lexer in the "asterisk seen" state (the closing
// delimiter of `**/` starts at the second asterisk).
func (c *Ctx) checkCommentAutomaton(rule string) {
	fd := c.funcDecl("Lexer.LexNextRune")
	if fd == nil {
		c.undecided(rule, "Lexer.LexNextRune", "block comment states", token.NoPos, "function not found")
		return
	}
	found := false
	okStar := false
	ast.Inspect(fd.Body, func(n ast.Node) bool {
		cc, ok := n.(*ast.CaseClause)
		if !ok || len(cc.List) != 1 {
			return true
		}
		id, ok := cc.List[0].(*ast.Ident)
		if !ok || id.Name != "LexerCommentBlockAsterisk" {
			return true
		}
		found = true
		// does a path for r == '*' leave the clause without setting the state back to LexerCommentBlock?
		for _, st := range cc.Body {
			is, ok := st.(*ast.IfStmt)
			if !ok {
				continue
			}
			be, ok := is.Cond.(*ast.BinaryExpr)
			if !ok || be.Op != token.EQL {
				continue
			}
			tv := c.Zygo.TypesInfo.Types[be.Y]
			if tv.Value == nil || tv.Value.String() != "42" { // '*'
				continue
			}
			returns := false
			resets := false
			ast.Inspect(is.Body, func(m ast.Node) bool {
				switch x := m.(type) {
				case *ast.ReturnStmt:
					returns = true
				case *ast.AssignStmt:
					if len(x.Lhs) == 1 && exprShort(x.Lhs[0]) == "lexer.state" && exprShort(x.Rhs[0]) != "LexerCommentBlockAsterisk" {
						resets = true
					}
				}
				return true
			})
			if returns && !resets {
				okStar = true
			}
		}
		return false
	})
	if !found {
		c.undecided(rule, "Lexer.LexNextRune", "block comment states", fd.Pos(), "no `asterisk seen` state found in the lexer's state switch")
		return
	}
	c.check(okStar, rule, "Lexer.LexNextRune", "asterisk after asterisk keeps waiting for the slash", fd.Pos(),
		"inside a block comment a run of asterisks stays in the `asterisk seen` state",
		"after an asterisk inside a block comment another asterisk sends the lexer back to the plain comment state: `**/` does not close the comment and the rest of the text is swallowed")
}

func callsYield(g *ssa.Function, yieldF *types.Var) bool {
	found := false
	eachInstr(g, func(b *ssa.BasicBlock, i int, in ssa.Instruction) {
		if call, ok := in.(*ssa.Call); ok {
			if _, ok := loadOfField(call.Call.Value, yieldF); ok {
				found = true
			}
		}
	})
	return found
}

// resultComparedWithGlobal: the first result of the call (a tuple) is compared with the named package-level variable.
func resultComparedWithGlobal(call ssa.Value, global string) bool {
	var vals []ssa.Value
	if _, isTuple := call.Type().(*types.Tuple); isTuple {
		for _, r := range *call.Referrers() {
			if ex, ok := r.(*ssa.Extract); ok && ex.Index == 0 {
				vals = append(vals, ex)
			}
		}
	} else {
		vals = append(vals, call)
	}
	isGlobal := func(v ssa.Value) bool {
		for d := 0; d < 4; d++ {
			switch x := v.(type) {
			case *ssa.MakeInterface:
				v = x.X
			case *ssa.ChangeInterface:
				v = x.X
			case *ssa.UnOp:
				if g, ok := x.X.(*ssa.Global); ok && g.Name() == global {
					return true
				}
				return false
			default:
				return false
			}
		}
		return false
	}
	seen := map[ssa.Value]bool{}
	var walk func(v ssa.Value, depth int) bool
	walk = func(v ssa.Value, depth int) bool {
		if seen[v] || depth > 4 || v.Referrers() == nil {
			return false
		}
		seen[v] = true
		for _, r := range *v.Referrers() {
			switch x := r.(type) {
			case *ssa.BinOp:
				if (x.Op == token.EQL || x.Op == token.NEQ) && (isGlobal(x.X) || isGlobal(x.Y)) {
					return true
				}
			case *ssa.Phi:
				if walk(x, depth+1) {
					return true
				}
			case *ssa.Store:
				// spilled to a local: its loads
				if al, ok := x.Addr.(*ssa.Alloc); ok {
					for _, r2 := range *al.Referrers() {
						if ld, ok := r2.(*ssa.UnOp); ok && ld.Op == token.MUL && walk(ld, depth+1) {
							return true
						}
					}
				}
			}
		}
		return false
	}
	for _, v := range vals {
		if walk(v, 0) {
			return true
		}
	}
	return false
}

// isDepthParam: an int parameter that the routine hands down to the routines it
// calls, as it is or incremented by a constant -- the nesting depth of the
// recursive-descent parser (whatever it is called).
func isDepthParam(p *ssa.Parameter) bool {
	b, ok := p.Type().Underlying().(*types.Basic)
	if !ok || b.Kind() != types.Int || p.Referrers() == nil {
		return false
	}
	handed := func(v ssa.Value) bool {
		if v.Referrers() == nil {
			return false
		}
		for _, r := range *v.Referrers() {
			if ci, ok := r.(ssa.CallInstruction); ok {
				g := ci.Common().StaticCallee()
				if g == nil || fnPkgPath(g) != zygoPath {
					continue
				}
				for _, a := range ci.Common().Args {
					if a == v {
						return true
					}
				}
			}
		}
		return false
	}
	if handed(p) {
		return true
	}
	for _, r := range *p.Referrers() {
		if bo, ok := r.(*ssa.BinOp); ok && bo.Op == token.ADD && bo.X == ssa.Value(p) {
			if _, isK := constIntOf(bo.Y); isK && handed(bo) {
				return true
			}
		}
	}
	return false
}

func atDepthZeroSite(site ssa.CallInstruction) bool {
	return guardedBy(site.Block(), func(cond ssa.Value) (bool, bool) {
		bo, ok := cond.(*ssa.BinOp)
		if !ok || (bo.Op != token.EQL && bo.Op != token.NEQ) {
			return false, false
		}
		p, isParam := bo.X.(*ssa.Parameter)
		k, isConst := constIntOf(bo.Y)
		if !isParam || !isConst || k != 0 || !isDepthParam(p) {
			return false, false
		}
		return true, bo.Op == token.EQL
	})
}

// tokenComparedWith: the Token returned by the call (first result) has its typ field compared with the constant k.
func tokenComparedWith(call ssa.Value, typF *types.Var, k int64) bool {
	seen := map[ssa.Value]bool{}
	found := false
	var walk func(v ssa.Value, depth int)
	walk = func(v ssa.Value, depth int) {
		if seen[v] || depth > 8 || found || v.Referrers() == nil {
			return
		}
		seen[v] = true
		for _, r := range *v.Referrers() {
			switch x := r.(type) {
			case *ssa.Extract:
				if x.Index == 0 {
					walk(x, depth+1)
				}
			case *ssa.Phi:
				walk(x, depth+1)
			case *ssa.Field:
				if fField(x) == typF {
					walk(x, depth+1)
				}
			case *ssa.FieldAddr:
				if faField(x) == typF {
					for _, r2 := range *x.Referrers() {
						if ld, ok := r2.(*ssa.UnOp); ok && ld.Op == token.MUL {
							walk(ld, depth+1)
						}
					}
				}
			case *ssa.Store:
				if x.Val == v {
					// spilled to a local (named result, captured variable): its loads and field reads
					if al, ok := x.Addr.(*ssa.Alloc); ok {
						for _, r2 := range *al.Referrers() {
							switch y := r2.(type) {
							case *ssa.UnOp:
								if y.Op == token.MUL {
									walk(y, depth+1)
								}
							case *ssa.FieldAddr:
								if faField(y) == typF {
									for _, r3 := range *y.Referrers() {
										if ld, ok := r3.(*ssa.UnOp); ok && ld.Op == token.MUL {
											walk(ld, depth+1)
										}
									}
								}
							}
						}
					}
				}
			case *ssa.BinOp:
				// the comparison is made on the token of this look-ahead, not of an earlier one
				// kept in the same variable: it comes after the call
				if ci, ok := call.(ssa.Instruction); ok && !dominatesInstr(ci, x) {
					continue
				}
				if x.Op == token.EQL || x.Op == token.NEQ {
					if kv, ok := constIntOf(x.Y); ok && kv == k {
						found = true
					}
					if kv, ok := constIntOf(x.X); ok && kv == k {
						found = true
					}
				}
			}
		}
	}
	walk(call, 0)
	return found
}
