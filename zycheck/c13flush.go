package main

import (
	"fmt"
	"go/constant"
	"go/token"
	"go/types"
	"sort"
	"strings"

	"golang.org/x/tools/go/ssa"
)

// lexerStateConsts: value -> name of the constants of the lexer's state type.
func (c *Ctx) lexerStateConsts() (map[int64]string, *types.Var) {
	stateF := c.field("Lexer", "state")
	out := map[int64]string{}
	if stateF == nil {
		return out, nil
	}
	sc := c.Zygo.Types.Scope()
	for _, n := range sc.Names() {
		k, ok := sc.Lookup(n).(*types.Const)
		if !ok || !types.Identical(k.Type(), stateF.Type()) {
			continue
		}
		if v, exact := constant.Int64Val(k.Val()); exact {
			out[v] = n
		}
	}
	return out, stateF
}

// stateTest: cond compares the lexer's state field with a constant.
func stateTest(cond ssa.Value, stateF *types.Var) (k int64, eq bool, ok bool) {
	bo, isBo := cond.(*ssa.BinOp)
	if !isBo || (bo.Op != token.EQL && bo.Op != token.NEQ) {
		return 0, false, false
	}
	for _, pair := range [][2]ssa.Value{{bo.X, bo.Y}, {bo.Y, bo.X}} {
		u, isLoad := pair[0].(*ssa.UnOp)
		if !isLoad || u.Op != token.MUL {
			continue
		}
		fa, isFA := u.X.(*ssa.FieldAddr)
		if !isFA || faField(fa) != stateF {
			continue
		}
		if kv, isK := constIntOf(pair[1]); isK {
			return kv, bo.Op == token.EQL, true
		}
	}
	return 0, false, false
}

// reachesUnderState: with the lexer's state equal to k on entry and unchanged, can control get
// from `from` to a block for which goal is true? Comparisons of the state with constants are
// decided; every other branch is taken both ways. A store to the state field ends the knowledge.
func reachesUnderState(from *ssa.BasicBlock, stateF *types.Var, k int64, goal func(*ssa.BasicBlock) bool) bool {
	seen := map[*ssa.BasicBlock]bool{}
	var walk func(b *ssa.BasicBlock, known bool) bool
	walk = func(b *ssa.BasicBlock, known bool) bool {
		if goal(b) {
			return true
		}
		if seen[b] {
			return false
		}
		seen[b] = true
		for _, in := range b.Instrs {
			if st, ok := in.(*ssa.Store); ok {
				if fa, ok := st.Addr.(*ssa.FieldAddr); ok && faField(fa) == stateF {
					known = false
				}
			}
		}
		cond, t, e := condBranch(b)
		if cond != nil && known {
			if kv, eq, ok := stateTest(cond, stateF); ok {
				if (kv == k) == eq {
					return walk(t, known)
				}
				return walk(e, known)
			}
		}
		for _, s := range b.Succs {
			if walk(s, known) {
				return true
			}
		}
		return false
	}
	return walk(from, true)
}

// C13-FLUSHALL: "the last token of a text is never lost".
//
// The lexer emits some tokens one rune late: after `~`, `:`, `/`, an operator
// character or inside an atom it only changes state and waits for the next
// rune to decide. When the text ends there, flushAtEnd terminates the pending
// text "as a newline would". It has to do so in every state in which
// LexNextRune holds a token back: the set is derived from LexNextRune (the
// states whose handling dispatches the rune again after emitting what was
// pending), and for each of them flushAtEnd, entered in that state, must get
// to its call of LexNextRune, or answer that more input is needed (the token
// stays held back and nothing is lost). A look-ahead state that flushAtEnd treats as
// "nothing pending" loses the last token of a text: "(def a 1) ~" evaluated
// to 1 without a word about the tilde.
//
// C13-FLUSHCMT: a routine that discards comments must not flush a pending
// line comment and then pause. parseOperand skips comments between a prefix
// operator and its operand; when the text so far ends inside a line comment
// ("% // c" + "omment\n b") flushing terminates the comment, the comment is
// skipped, the routine asks for more input -- and the rest of the comment
// arrives as code. The call of flushAtEnd in a routine that tests parse
// results for *SexpComment runs only where the lexer is known not to be
// inside a line comment.
func (c *Ctx) checkFlushStates() {
	consts, stateF := c.lexerStateConsts()
	lnr := c.mustFn("C13-FLUSHALL", "Lexer.LexNextRune")
	fl := c.mustFn("C13-FLUSHALL", "Lexer.flushAtEnd")
	if lnr == nil || fl == nil || stateF == nil || len(consts) < 5 {
		c.undecided("C13-FLUSHALL", "Lexer", "state constants", token.NoPos, "lexer state field or constants not found")
		return
	}
	// the dispatch: the first block of LexNextRune (in dominance order) that compares the state
	var head *ssa.BasicBlock
	for _, b := range lnr.DomPreorder() {
		cond, _, _ := condBranch(b)
		if cond == nil {
			continue
		}
		if _, _, ok := stateTest(cond, stateF); ok {
			head = b
			break
		}
	}
	if head == nil {
		c.undecided("C13-FLUSHALL", "Lexer.LexNextRune", "state dispatch", lnr.Pos(), "no comparison of the lexer state found")
		return
	}
	// look-ahead states: handling them comes back to the dispatch (the rune is lexed again)
	var look []int64
	for k := range consts {
		k := k
		// the region entered when state == k: first block after the dispatch chain decided for k
		entered := false
		again := reachesUnderState(head, stateF, k, func(b *ssa.BasicBlock) bool {
			if b == head {
				if !entered {
					entered = true
					return false
				}
				return true
			}
			return false
		})
		if again {
			look = append(look, k)
		}
	}
	sort.Slice(look, func(i, j int) bool { return look[i] < look[j] })
	var names []string
	for _, k := range look {
		names = append(names, consts[k])
	}
	c.note("lookahead_states", names)
	if len(look) < 3 {
		c.undecided("C13-FLUSHALL", "Lexer.LexNextRune", "look-ahead states", lnr.Pos(), fmt.Sprintf("only %d states whose handling dispatches the rune again were found (%s); four confirmed by reading", len(look), strings.Join(names, ", ")))
		return
	}
	// the pending text is dealt with: a terminator is lexed, or the caller is told to ask for the rest
	moreInput := c.SZygo.Var("ErrMoreInputNeeded")
	callsLex := func(b *ssa.BasicBlock) bool {
		for _, in := range b.Instrs {
			if ci, ok := in.(ssa.CallInstruction); ok && ci.Common().StaticCallee() == lnr {
				return true
			}
			if r, ok := in.(*ssa.Return); ok && moreInput != nil {
				if idx := errResultIndex(fl.Signature); idx >= 0 && idx < len(r.Results) {
					v := r.Results[idx]
					for hop := 0; hop < 3; hop++ {
						switch x := v.(type) {
						case *ssa.MakeInterface:
							v = x.X
						case *ssa.ChangeInterface:
							v = x.X
						}
					}
					if u, ok := v.(*ssa.UnOp); ok && u.Op == token.MUL && u.X == ssa.Value(moreInput) {
						return true
					}
				}
			}
		}
		return false
	}
	for _, k := range look {
		ok := reachesUnderState(fl.Blocks[0], stateF, k, callsLex)
		c.check(ok, "C13-FLUSHALL", "Lexer.flushAtEnd", "terminates what is pending in state "+consts[k], fl.Pos(),
			"entered in "+consts[k]+", flushAtEnd lexes a terminator (the held-back token is emitted) or asks for the rest of the text",
			"LexNextRune holds a token back in state "+consts[k]+" (it emits it when the next rune arrives), but flushAtEnd, entered in that state, returns without lexing a terminator: a text that ends there loses its last token, silently")
	}

	// ---- C13-FLUSHCMT
	cmtT := c.named("SexpComment")
	cmtLine := int64(-1)
	for v, n := range consts {
		if n == "LexerCommentLine" {
			cmtLine = v
		}
	}
	if cmtT == nil || cmtLine < 0 {
		c.undecided("C13-FLUSHCMT", "package", "comment type / state", token.NoPos, "SexpComment or LexerCommentLine not found")
		return
	}
	// predicates of the lexer: a method whose result is a comparison of the state with the comment state
	isCmtPredicate := func(g *ssa.Function) (eq bool, ok bool) {
		if g == nil || len(g.Blocks) == 0 || fnPkgPath(g) != zygoPath {
			return false, false
		}
		for _, r := range returnsOf(g) {
			if len(r.Results) != 1 {
				return false, false
			}
			kv, e, isT := stateTest(r.Results[0], stateF)
			if !isT || kv != cmtLine {
				return false, false
			}
			eq, ok = e, true
		}
		return eq, ok
	}
	n := 0
	for _, g := range c.zygoFuncs() {
		sites := callsOf(g, fl)
		if len(sites) == 0 {
			continue
		}
		skips := false
		eachInstr(g, func(b *ssa.BasicBlock, i int, in ssa.Instruction) {
			if ta, ok := in.(*ssa.TypeAssert); ok {
				if pt, ok := ta.AssertedType.(*types.Pointer); ok && types.Identical(pt.Elem(), cmtT) {
					skips = true
				}
			}
		})
		if !skips {
			continue
		}
		for _, site := range sites {
			n++
			guarded := guardedBy(site.Block(), func(cond ssa.Value) (bool, bool) {
				if kv, eq, ok := stateTest(cond, stateF); ok && kv == cmtLine {
					return true, !eq
				}
				if call, ok := cond.(*ssa.Call); ok {
					if eq, ok := isCmtPredicate(call.Call.StaticCallee()); ok {
						return true, !eq
					}
				}
				return false, false
			})
			c.check(guarded, "C13-FLUSHCMT", fnName(g), "a pending line comment is not flushed", site.Pos(),
				"the flush runs only where the text so far does not end inside a line comment",
				"this routine discards comments and waits for more input when nothing else has arrived, and it flushes the lexer's pending text without asking whether that is a line comment: when a piece of text ends inside a comment after a prefix operator (\"% // c\" + \"omment\\n b\"), the comment is terminated and dropped, the routine pauses, and the rest of the comment is read as code")
		}
	}
	c.note("flush_sites_in_comment_skippers", n)
}

// C13-GETWAIT: a token is taken only after it has been seen.
//
// GetNextToken hands back the end marker when the queue is dry. Inside an
// open construct the rest of the text may simply not have arrived: a routine
// that takes "the closing paren" without having looked (and waited) first
// reads the end marker as a wrong token and reports a syntax error, where the
// whole text parses. Every direct call of Lexer.GetNextToken in a method of
// the parser must have, as the nearest call that dominates it and touches the
// token stream, a look-ahead (PeekNextToken / ParserPeekNextToken) -- not a
// routine that consumes tokens (another GetNextToken, or anything from which
// GetNextToken is reachable, such as the expression parser): after those the
// queue may be empty again.
func (c *Ctx) checkTakeAfterLook() {
	parserT := c.named("Parser")
	getTok := c.mustFn("C13-GETWAIT", "Lexer.GetNextToken")
	peek := c.fn("Lexer.PeekNextToken")
	ppeek := c.fn("Parser.ParserPeekNextToken")
	if parserT == nil || getTok == nil || peek == nil {
		return
	}
	typF := c.field("Token", "typ")
	var tokenEnd int64 = -1
	if k, ok := c.Zygo.Types.Scope().Lookup("TokenEnd").(*types.Const); ok {
		tokenEnd, _ = constInt64(k)
	}
	consumes := map[*ssa.Function]bool{}
	consumer := func(g *ssa.Function) bool {
		if g == nil || fnPkgPath(g) != zygoPath {
			return false
		}
		if g == getTok {
			return true
		}
		if g == peek || g == ppeek {
			return false
		}
		if v, ok := consumes[g]; ok {
			return v
		}
		consumes[g] = staticReach(g)[getTok]
		return consumes[g]
	}
	// a helper that only looks: reaches a peek, not GetNextToken
	looks := func(g *ssa.Function) bool {
		if g == nil {
			return false
		}
		if g == peek || g == ppeek {
			return true
		}
		if fnPkgPath(g) != zygoPath || consumer(g) {
			return false
		}
		r := staticReach(g)
		return r[peek] || (ppeek != nil && r[ppeek])
	}
	n := 0
	for _, f := range c.zygoFuncs() {
		if !isMethodOf(topFn(f), parserT) {
			continue
		}
		for _, site := range callsOf(f, getTok) {
			n++
			// what the token is compared with afterwards: a take that is itself tested for the end marker
			// is a look (the expression parser's first token; its callers wait)
			if call, isCall := site.(*ssa.Call); isCall && typF != nil && tokenEnd >= 0 && tokenComparedWith(call, typF, tokenEnd) {
				c.ok("C13-GETWAIT", fnName(f), "token taken after it was looked at", site.Pos(), "the token taken is itself tested for the end marker")
				continue
			}
			// going backwards from the take along every path: the first call that touches the token stream
			kinds := map[string]string{}
			seen := map[*ssa.BasicBlock]bool{}
			var back func(b *ssa.BasicBlock, from int)
			back = func(b *ssa.BasicBlock, from int) {
				for j := from - 1; j >= 0; j-- {
					ci, ok := b.Instrs[j].(ssa.CallInstruction)
					if !ok {
						continue
					}
					g := ci.Common().StaticCallee()
					if looks(g) {
						kinds["look"] = calleeName(ci.Common())
						return
					}
					if consumer(g) {
						kinds["consume"] = calleeName(ci.Common())
						return
					}
				}
				if len(b.Preds) == 0 {
					kinds["none"] = "the entry of the routine"
					return
				}
				for _, p := range b.Preds {
					if seen[p] {
						continue
					}
					seen[p] = true
					back(p, len(p.Instrs))
				}
			}
			back(site.Block(), instrIndex(site.(ssa.Instruction)))
			_, consumed := kinds["consume"]
			_, none := kinds["none"]
			ok := !consumed && !none && kinds["look"] != ""
			why := "on some path nothing that looks at the token stream comes before it"
			if consumed {
				why = "on some path the last call before it that touches the token stream is " + kinds["consume"] + ", which consumes tokens: the queue may be dry again"
			}
			c.check(ok, "C13-GETWAIT", fnName(f), "token taken after it was looked at", site.Pos(),
				"on every path the last call before it that touches the token stream is a look-ahead",
				"a token is taken from the lexer without having been looked at first ("+why+"): when the text arrives in pieces and a piece ends just before this token, the end marker is taken for a wrong token (\"extra value in dotted pair\") instead of a request for more input")
		}
	}
	if n < 5 {
		c.undecided("C13-GETWAIT", "Parser", "direct takes of a token", token.NoPos, fmt.Sprintf("only %d direct calls of GetNextToken in the parser found", n))
	}
}
