package main

// C14 — hashes behave as insertion-ordered maps.
// The three redundant pieces of a hash (bucket map, key order list, key count)
// must move together, on exactly the add / remove paths, and key equality must
// be `Compare == 0 without error` in set, get and delete alike.

import (
	"fmt"
	"go/token"
	"go/types"

	"golang.org/x/tools/go/ssa"
)

// compareMatch describes one `res, err := X.Compare(a, b)` call in a function
// together with the blocks that run only when err == nil && res == 0.
type compareMatch struct {
	call    *ssa.Call
	blocks  map[*ssa.BasicBlock]bool
	wellEq  bool   // res used only as `res == 0`, err only as `err == nil`
	why     string // when !wellEq
	errTest bool
}

// keyComparators: Compare itself and the thin wrappers over it that the hash
// routines may call: a function returning (int, error) that hands two of its
// own parameters to Compare (it may decide some pairs of kinds itself first,
// as the comparison of two symbol keys by number does).
func (c *Ctx) keyComparators(cmp *ssa.Function) map[*ssa.Function]bool {
	out := map[*ssa.Function]bool{cmp: true}
	for _, g := range c.zygoFuncs() {
		if g.Parent() != nil || g == cmp {
			continue
		}
		res := g.Signature.Results()
		if res.Len() != 2 || !isErrorType(res.At(1).Type()) {
			continue
		}
		if bt, ok := res.At(0).Type().Underlying().(*types.Basic); !ok || bt.Kind() != types.Int {
			continue
		}
		for _, site := range callsOf(g, cmp) {
			args := site.Common().Args
			nParam := 0
			for _, a := range args {
				if _, ok := a.(*ssa.Parameter); ok {
					nParam++
				}
			}
			if nParam >= 3 { // receiver and both operands
				out[g] = true
			}
		}
	}
	return out
}

func (c *Ctx) compareMatches(f *ssa.Function, cmp *ssa.Function) []*compareMatch {
	var out []*compareMatch
	cmps := c.keyComparators(cmp)
	eachInstr(f, func(b *ssa.BasicBlock, i int, in ssa.Instruction) {
		call, ok := in.(*ssa.Call)
		if !ok || !cmps[call.Call.StaticCallee()] {
			return
		}
		m := &compareMatch{call: call, blocks: map[*ssa.BasicBlock]bool{}, wellEq: true}
		var resEq *ssa.BinOp
		for _, r := range *call.Referrers() {
			ex, ok := r.(*ssa.Extract)
			if !ok {
				continue
			}
			for _, r2 := range *ex.Referrers() {
				bo, isBin := r2.(*ssa.BinOp)
				if _, isDbg := r2.(*ssa.DebugRef); isDbg {
					continue
				}
				if ex.Index == 0 {
					k, _ := func() (*ssa.Const, bool) {
						if !isBin {
							return nil, false
						}
						kk, ok := bo.Y.(*ssa.Const)
						return kk, ok
					}()
					if !isBin || bo.Op != token.EQL || k == nil || k.Value == nil || k.Value.String() != "0" {
						m.wellEq = false
						m.why = "the three-way result is used other than as `== 0`: " + r2.String()
						continue
					}
					resEq = bo
				} else {
					if isBin && bo.Op == token.EQL && isNilConst(bo.Y) {
						m.errTest = true
					}
				}
			}
		}
		if resEq == nil {
			m.wellEq = false
			if m.why == "" {
				m.why = "the result of Compare is never tested with `== 0`"
			}
		} else {
			// blocks dominated by the true successor of `if res == 0`
			for _, r := range *resEq.Referrers() {
				iff, ok := r.(*ssa.If)
				if !ok {
					continue
				}
				t := iff.Block().Succs[0]
				if len(t.Preds) != 1 {
					continue
				}
				// the `if res == 0` must itself be under `err == nil`
				underErr := guardedBy(iff.Block(), func(cond ssa.Value) (bool, bool) {
					bo, ok := cond.(*ssa.BinOp)
					if !ok || bo.Op != token.EQL || !isNilConst(bo.Y) {
						return false, false
					}
					ex, ok := bo.X.(*ssa.Extract)
					return ok && ex.Tuple == ssa.Value(call) && ex.Index == 1, true
				})
				if !underErr {
					m.wellEq = false
					m.why = "`res == 0` is tested without `err == nil` holding"
				}
				for _, x := range f.Blocks {
					if t.Dominates(x) {
						m.blocks[x] = true
					}
				}
			}
		}
		out = append(out, m)
	})
	return out
}

func usesValue(call *ssa.Call, v ssa.Value) bool {
	for _, a := range call.Call.Args {
		if a == v {
			return true
		}
	}
	return false
}

func checkC14(c *Ctx) {
	c.explainf("C14 decides that the bucket map, the key-order list and the key count of a hash are written only by the set/delete/reorder/clone routines and the constructor; that in the set routine the count increment and the order append happen on exactly the paths that add a new pair (guarded by bucket-missing or by no-match-found) and never on the replace path; that in the delete routine the count decrement, the bucket update and the removal from the order list happen only on the path where the key matched; and that set, get and delete all accept a pair exactly when Compare returned no error and 0. Symbol keys are matched by number (C14-SYM) and no hash is given the order list or buckets of another hash (C14-SHARE). It does not decide agreement with an ordered-map model over operation histories.")
	Map := c.mustField("C14-WM", "SexpHash", "Map")
	KeyOrder := c.mustField("C14-WM", "SexpHash", "KeyOrder")
	NumKeys := c.mustField("C14-WM", "SexpHash", "NumKeys")
	set := c.mustFn("C14-SET", "SexpHash.HashSet")
	del := c.mustFn("C14-DEL", "SexpHash.HashDelete")
	get := c.mustFn("C14-EQ", "SexpHash.HashGetDefault")
	cmp := c.mustFn("C14-EQ", "Zlisp.Compare")
	cons := c.mustFn("C14-SET", "Cons")
	if Map == nil || KeyOrder == nil || NumKeys == nil || set == nil || del == nil || get == nil || cmp == nil || cons == nil {
		return
	}

	c.checkSymbolKeysByNumber("C14-SYM")
	c.checkHashStorageNotShared("C14-SHARE")
	// ---- C14-WM
	allowed := map[string]string{
		"SexpHash.HashSet": "set", "SexpHash.HashDelete": "delete", "SetHashKeyOrder": "reorder (decoders)",
		"SexpHash.CloneFrom": "clone", "MakeHash": "constructor",
	}
	// a method of the hash that only the allowed writers call is part of them (a helper split off from HashDelete)
	hashT := c.named("SexpHash")
	for changed := true; changed; {
		changed = false
		for _, g := range c.zygoFuncs() {
			if g.Parent() != nil || hashT == nil || !isMethodOf(g, hashT) || allowed[fnName(g)] != "" {
				continue
			}
			callers := c.callersOf(g)
			if len(callers) == 0 {
				continue
			}
			role := ""
			for caller := range callers {
				r := allowed[fnName(topFn(caller))]
				if r == "" {
					role = ""
					break
				}
				role = r
			}
			if role != "" {
				allowed[fnName(g)] = role
				changed = true
			}
		}
	}
	for _, fld := range []*types.Var{Map, KeyOrder, NumKeys} {
		for _, w := range c.fieldWrites(fld) {
			fnm := fnName(w.fn)
			if why, ok := allowed[fnm]; ok {
				if fnm == "MakeHash" && w.kind == "store" {
					// the constructor may only start the three pieces off empty; the pairs go in through HashSet
					st, _ := w.in.(*ssa.Store)
					empty := false
					if st != nil {
						switch v := st.Val.(type) {
						case *ssa.Const:
							empty = v.Value == nil || v.Value.String() == "0"
						case *ssa.MakeMap, *ssa.MakeSlice:
							empty = true
						case *ssa.Slice:
							_, empty = v.X.(*ssa.Alloc) // []T{} literal
						}
					}
					c.check(empty, "C14-WM", fnm, w.kind+" "+fld.Name()+" (initial value)", w.in.Pos(),
						"the constructor starts "+fld.Name()+" off empty and adds its pairs through HashSet",
						"the constructor writes "+fld.Name()+" with something other than its empty value: the count (or order, or buckets) no longer comes from HashSet, so a constructor call that repeats a key leaves count, order list and buckets in disagreement")
					continue
				}
				if fnm == "SetHashKeyOrder" && fld != KeyOrder {
					c.bad("C14-WM", fnm, w.kind+" "+fld.Name(), w.in.Pos(), "the reorder routine must only touch the order list")
					continue
				}
				c.ok("C14-WM", fnm, w.kind+" "+fld.Name(), w.in.Pos(), why)
				continue
			}
			c.bad("C14-WM", fnm, w.kind+" "+fld.Name(), w.in.Pos(),
				"hash."+fld.Name()+" is modified outside HashSet/HashDelete/SetHashKeyOrder/CloneFrom/MakeHash: map, order list and count can drift apart")
		}
	}

	// ---- C14-EQ on the three routines
	matchOnKey := func(f *ssa.Function, rule string) *compareMatch {
		// key parameter: HashSet(key,val) -> Params[1]; HashDelete(key) -> Params[1]; HashGetDefault(env,key,def) -> Params[2]
		var found *compareMatch
		ms := c.compareMatches(f, cmp)
		for _, m := range ms {
			isKeyCmp := false
			var fromKey func(v ssa.Value, depth int) bool
			fromKey = func(v ssa.Value, depth int) bool {
				if depth > 4 {
					return false
				}
				switch x := v.(type) {
				case *ssa.Parameter:
					// the key is the first parameter of the value type (HashSet(key, val),
					// HashDelete(key), HashGetDefault(env, key, default)), whatever it is called
					for _, p := range x.Parent().Params {
						if nm, ok := p.Type().(*types.Named); ok && nm.Obj().Name() == "Sexp" {
							return p == x
						}
					}
					return false
				case *ssa.Phi: // key may be rewritten (single-element array key)
					for _, e := range x.Edges {
						if fromKey(e, depth+1) {
							return true
						}
					}
				case *ssa.Call: // or normalised by a helper that is handed the key
					for _, a := range x.Call.Args {
						if fromKey(a, depth+1) {
							return true
						}
					}
				}
				return false
			}
			for _, a := range m.call.Call.Args[1:] { // skip receiver
				if fromKey(a, 0) {
					isKeyCmp = true
				}
			}
			if !isKeyCmp {
				continue
			}
			c.check(m.wellEq, "C14-EQ", fnName(f), "Compare(pair.Head, key)", m.call.Pos(),
				"a pair matches exactly when Compare returned no error and 0", "key equality is not `err == nil && res == 0`: "+m.why)
			if found == nil {
				found = m
			}
		}
		if found == nil {
			c.bad(rule, fnName(f), "Compare(pair.Head, key)", f.Pos(), "no comparison of stored keys with the key argument found: key equality no longer goes through Compare")
		}
		return found
	}
	// ---- C14-EQ: keys are never matched by identity of the key objects
	{
		head := c.field("SexpPair", "Head")
		nId := 0
		for _, f := range c.filesFuncs("hashutils.go") {
			eachInstr(f, func(b *ssa.BasicBlock, i int, in ssa.Instruction) {
				bo, ok := in.(*ssa.BinOp)
				if !ok || (bo.Op != token.EQL && bo.Op != token.NEQ) {
					return
				}
				if !types.IsInterface(bo.X.Type()) || !types.IsInterface(bo.Y.Type()) {
					return
				}
				isSentinel := func(v ssa.Value) bool {
					if isNilConst(v) {
						return true
					}
					v = stripIface(v)
					if ld, ok := v.(*ssa.UnOp); ok && ld.Op == token.MUL {
						if _, ok := ld.X.(*ssa.Global); ok {
							return true
						}
					}
					return false
				}
				if isSentinel(bo.X) || isSentinel(bo.Y) {
					return
				}
				isKey := func(v ssa.Value) bool {
					if head != nil {
						if _, ok := loadOfField(v, head); ok {
							return true
						}
					}
					if ld, ok := v.(*ssa.UnOp); ok && ld.Op == token.MUL {
						if ia, ok := ld.X.(*ssa.IndexAddr); ok && derivesFromField(ia.X, KeyOrder, 0) {
							return true
						}
					}
					return false
				}
				if isKey(bo.X) || isKey(bo.Y) {
					nId++
					c.bad("C14-EQ", fnName(f), "keys matched by identity", bo.Pos(),
						"a stored key is compared with `==` on the interface values: two equal keys held in different objects (an update stores a fresh key object in the bucket while the order list keeps the first one) do not match, so the order list and the buckets drift apart")
				}
			})
		}
		if nId == 0 {
			c.ok("C14-EQ", "hashutils.go", "keys matched by identity", token.NoPos, "no `==` between stored key objects in the hash routines: every match goes through Compare")
		}
	}
	mSet := matchOnKey(set, "C14-EQ")
	mDel := matchOnKey(del, "C14-EQ")
	mGet := matchOnKey(get, "C14-EQ")

	isIncr := func(st *ssa.Store, fld *types.Var, op token.Token) bool {
		bo, ok := st.Val.(*ssa.BinOp)
		if !ok || bo.Op != op {
			return false
		}
		if _, ok := loadOfField(bo.X, fld); !ok {
			return false
		}
		k, ok := bo.Y.(*ssa.Const)
		return ok && k.Value != nil && k.Value.String() == "1"
	}
	storesIn := func(b *ssa.BasicBlock, fld *types.Var) []*ssa.Store {
		var out []*ssa.Store
		for _, in := range b.Instrs {
			if st, ok := in.(*ssa.Store); ok {
				if fa, ok := st.Addr.(*ssa.FieldAddr); ok && faField(fa) == fld {
					out = append(out, st)
				}
			}
		}
		return out
	}
	hasCons := func(b *ssa.BasicBlock) bool {
		for _, in := range b.Instrs {
			if call, ok := in.(*ssa.Call); ok && call.Call.StaticCallee() == cons {
				return true
			}
		}
		return false
	}

	// ---- C14-SET
	if mSet != nil {
		nAdd := 0
		for _, b := range set.Blocks {
			nk := storesIn(b, NumKeys)
			ko := storesIn(b, KeyOrder)
			inMatch := mSet.blocks[b]
			if inMatch {
				if len(nk)+len(ko) > 0 {
					c.bad("C14-SET", "SexpHash.HashSet", "replace path", b.Instrs[0].Pos(), "the replace path (key matched) changes the key count or the order list: a key would be listed twice")
				}
				continue
			}
			if len(nk) == 0 && len(ko) == 0 && !hasCons(b) {
				continue
			}
			// an add block
			nAdd++
			pos := b.Instrs[0].Pos()
			if len(nk) > 0 {
				pos = nk[0].Pos()
			}
			okShape := len(nk) == 1 && isIncr(nk[0], NumKeys, token.ADD) && len(ko) == 1 && hasCons(b)
			if len(ko) == 1 {
				call, isCall := ko[0].Val.(*ssa.Call)
				if !isCall {
					okShape = false
				} else if bi, ok := call.Call.Value.(*ssa.Builtin); !ok || bi.Name() != "append" || !derivesFromField(call.Call.Args[0], KeyOrder, 0) {
					okShape = false
				}
			}
			// guard: bucket missing, or found-flag false with true only from match blocks
			guard := guardedBy(b, func(cond ssa.Value) (bool, bool) {
				if ex, ok := cond.(*ssa.Extract); ok && ex.Index == 1 {
					if lk, ok := ex.Tuple.(*ssa.Lookup); ok && lk.CommaOk && derivesFromField(lk.X, Map, 0) {
						return true, false
					}
				}
				if ph, ok := cond.(*ssa.Phi); ok {
					return foundFlagFromMatch(ph, mSet.blocks, map[*ssa.Phi]bool{}), false
				}
				return false, false
			})
			switch {
			case !okShape:
				c.bad("C14-SET", "SexpHash.HashSet", "add path", pos, fmt.Sprintf("a path that adds a pair must do all three: create the pair, append the key to the order list, increment the count by one (count stores %d, order stores %d, pair created %v)", len(nk), len(ko), hasCons(b)))
			case !guard:
				c.bad("C14-SET", "SexpHash.HashSet", "add path", pos, "a new pair is added without being on the bucket-missing branch or the no-match-found branch: an existing key could be added twice")
			default:
				c.ok("C14-SET", "SexpHash.HashSet", "add path", pos, "pair created, key appended, count incremented, under a not-present guard")
			}
		}
		if nAdd == 0 {
			c.bad("C14-SET", "SexpHash.HashSet", "add path", set.Pos(), "HashSet has no path that adds a pair")
		}
		// replace path stores into the bucket
		replaces := false
		for b := range mSet.blocks {
			for _, in := range b.Instrs {
				if st, ok := in.(*ssa.Store); ok {
					if _, ok := st.Addr.(*ssa.IndexAddr); ok {
						replaces = true
					}
				}
			}
		}
		c.check(replaces, "C14-SET", "SexpHash.HashSet", "replace path", set.Pos(), "a matching pair is replaced in its bucket", "the key-matched path does not replace the pair: the latest value would be lost")
	}

	// ---- C14-DEL
	if mDel != nil {
		cnt := map[string]int{}
		for _, b := range del.Blocks {
			inMatch := mDel.blocks[b]
			for _, in := range b.Instrs {
				what := ""
				switch x := in.(type) {
				case *ssa.Store:
					if fa, ok := x.Addr.(*ssa.FieldAddr); ok {
						switch faField(fa) {
						case NumKeys:
							what = "count"
							if !isIncr(x, NumKeys, token.SUB) {
								c.bad("C14-DEL", "SexpHash.HashDelete", "count update", in.Pos(), "the key count is changed other than by -1")
							}
						case KeyOrder:
							what = "order"
						}
					}
				case *ssa.MapUpdate:
					if derivesFromField(x.Map, Map, 0) {
						what = "bucket"
					}
				case *ssa.Call:
					if bi, ok := x.Call.Value.(*ssa.Builtin); ok && bi.Name() == "delete" && derivesFromField(x.Call.Args[0], Map, 0) {
						what = "bucket"
					}
					// the order update made by a helper of the delete routine
					if g := x.Call.StaticCallee(); g != nil && allowed[fnName(g)] == "delete" && g != del {
						for _, w := range c.fieldWrites(KeyOrder) {
							if w.fn == g {
								what = "order"
							}
						}
					}
				}
				if what == "" {
					continue
				}
				cnt[what]++
				c.check(inMatch, "C14-DEL", "SexpHash.HashDelete", what+" update", in.Pos(),
					"changed only on the path where the key matched",
					"the "+what+" is changed on a path where no stored key matched: deleting a missing key (or one that shares a bucket) corrupts the hash")
			}
		}
		for _, what := range []string{"count", "order", "bucket"} {
			if cnt[what] == 0 {
				c.bad("C14-DEL", "SexpHash.HashDelete", what+" update", del.Pos(), "deleting a key never updates the "+what+": the three pieces drift apart (keys still lists the deleted key / len is wrong)")
			}
		}
	}

	// ---- C14-DEL: what stays in the bucket is everything but the matched pair
	{
		// a slice of the bucket: returns (low, high) operands
		isAppendOfBoth := func(v ssa.Value) bool {
			call, ok := v.(*ssa.Call)
			if !ok {
				return false
			}
			bi, ok := call.Call.Value.(*ssa.Builtin)
			if !ok || bi.Name() != "append" || len(call.Call.Args) != 2 {
				return false
			}
			pre, ok1 := call.Call.Args[0].(*ssa.Slice)
			suf, ok2 := call.Call.Args[1].(*ssa.Slice)
			if !ok1 || !ok2 || pre.X != suf.X {
				return false
			}
			// prefix [.. : i], suffix [i+1 : ..] for the same i
			if pre.High == nil || suf.Low == nil {
				return false
			}
			if pre.Low != nil {
				if k, ok := constIntOf(pre.Low); !ok || k != 0 {
					return false
				}
			}
			bo, ok := suf.Low.(*ssa.BinOp)
			if !ok || bo.Op != token.ADD || bo.X != pre.High {
				return false
			}
			k, ok := constIntOf(bo.Y)
			return ok && k == 1
		}
		nRem := 0
		eachInstr(del, func(b *ssa.BasicBlock, i int, in ssa.Instruction) {
			switch x := in.(type) {
			case *ssa.MapUpdate:
				if !derivesFromField(x.Map, Map, 0) {
					return
				}
				nRem++
				c.check(isAppendOfBoth(x.Value), "C14-DEL", "SexpHash.HashDelete", "bucket keeps every other pair", x.Pos(),
					"the bucket written back is bucket[:i] followed by bucket[i+1:]",
					"the bucket written back after a delete is not `bucket[:i] ++ bucket[i+1:]`: other keys that share the bucket are lost or the deleted pair stays")
			case *ssa.Call:
				bi, ok := x.Call.Value.(*ssa.Builtin)
				if !ok || bi.Name() != "delete" || !derivesFromField(x.Call.Args[0], Map, 0) {
					return
				}
				nRem++
				// the whole bucket is dropped only when nothing but the matched pair was in it
				okEmpty := guardedBy(b, func(cond ssa.Value) (bool, bool) {
					bo, ok := cond.(*ssa.BinOp)
					if !ok || (bo.Op != token.EQL && bo.Op != token.NEQ) {
						return false, false
					}
					k, isK := constIntOf(bo.Y)
					lc, isLen := bo.X.(*ssa.Call)
					if !isK || !isLen {
						return false, false
					}
					lb, ok := lc.Call.Value.(*ssa.Builtin)
					if !ok || lb.Name() != "len" {
						return false, false
					}
					arg := lc.Call.Args[0]
					if k == 0 && isAppendOfBoth(arg) {
						return true, bo.Op == token.EQL
					}
					if k == 1 {
						if _, isSlice := arg.(*ssa.Slice); !isSlice { // len(bucket) == 1
							return true, bo.Op == token.EQL
						}
					}
					return false, false
				})
				c.check(okEmpty, "C14-DEL", "SexpHash.HashDelete", "bucket dropped only when it held nothing else", x.Pos(),
					"the bucket is removed from the map only when the remainder (everything but the matched pair) is empty",
					"the bucket is removed from the map on a test that does not cover the pairs before the matched one: deleting the later of two colliding keys drops the earlier one too")
			}
		})
		if nRem < 2 {
			c.undecided("C14-DEL", "SexpHash.HashDelete", "bucket remainder", del.Pos(), "the write-back and the removal of the bucket were not both found")
		}
	}

	// ---- C14-WM: the order list is never handed out
	{
		nLoads := 0
		for _, f := range c.zygoFuncs() {
			eachInstr(f, func(b *ssa.BasicBlock, i int, in ssa.Instruction) {
				ld, ok := in.(*ssa.UnOp)
				if !ok || ld.Op != token.MUL {
					return
				}
				fa, ok := ld.X.(*ssa.FieldAddr)
				if !ok || faField(fa) != KeyOrder {
					return
				}
				nLoads++
				for _, ref := range *ld.Referrers() {
					esc := ""
					switch x := ref.(type) {
					case *ssa.Store:
						if x.Val != ssa.Value(ld) {
							continue
						}
						if fa2, ok := x.Addr.(*ssa.FieldAddr); ok {
							if faField(fa2) == KeyOrder {
								continue // hash-to-hash copy is C14-WM's business (CloneFrom)
							}
							esc = "stored into " + fa2.X.Type().String() + "." + faField(fa2).Name()
						}
					case *ssa.Return:
						esc = "returned"
					case *ssa.MakeInterface:
						esc = "converted to an interface value"
					}
					if esc != "" {
						c.bad("C14-WM", fnName(f), "order list handed out", ref.Pos(),
							"the hash's own order list is "+esc+" without being copied: whoever holds it can write or append to it, changing the order list behind the bucket map and the count")
					}
				}
			})
		}
		c.check(nLoads >= 10, "C14-WM", "package", "order list handed out", token.NoPos,
			fmt.Sprintf("%d reads of the order list examined: it is indexed, ranged over and copied, never handed out", nLoads),
			fmt.Sprintf("only %d reads of the order list found", nLoads))
	}

	// ---- C14-KEY: one reading of a caller's key in every routine; stored keys are looked up as stored
	{
		hashExpr := c.fn("HashExpression")
		hget := c.fn("SexpHash.HashGet")
		rawKey := func(f *ssa.Function, v ssa.Value) bool {
			// the value is the untouched key parameter (or an untouched element of the builtin's argument slice)
			if p, ok := v.(*ssa.Parameter); ok && p.Name() == "key" {
				return true
			}
			if ld, ok := v.(*ssa.UnOp); ok && ld.Op == token.MUL {
				if ia, ok := ld.X.(*ssa.IndexAddr); ok {
					if p, ok := ia.X.(*ssa.Parameter); ok && p.Name() == "args" {
						return true
					}
				}
			}
			return false
		}
		n := 0
		for _, f := range []*ssa.Function{set, del, hget} {
			if f == nil || hashExpr == nil {
				continue
			}
			// what is hashed (directly, or via HashGetDefault for HashGet)
			var used []ssa.Value
			for _, ci := range callsOf(f, hashExpr) {
				used = append(used, ci.Common().Args[1])
			}
			for _, ci := range callsOf(f, get) {
				used = append(used, ci.Common().Args[2])
			}
			for _, v := range used {
				n++
				c.check(!rawKey(f, v), "C14-KEY", fnName(f), "caller's key normalised before it is hashed", f.Pos(),
					"the key that is hashed went through the one-element-array reading (a rewritten variable or the normalising helper)",
					"the caller's key is hashed as given: a one-element array key h[6] is read as the key 6 by the other routines, so this one misses entries the others create (set then delete removes nothing)")
			}
		}
		// callers of HashGetDefault outside the hash code pass a normalised key
		for _, f := range c.zygoFuncs() {
			if c.fileOf(f) == "hashutils.go" || c.fileOf(f) == "jsonmsgp.go" {
				continue
			}
			for _, ci := range callsOf(f, get) {
				n++
				c.check(!rawKey(f, ci.Common().Args[2]), "C14-KEY", fnName(f), "caller's key normalised before hget-with-default", ci.Pos(),
					"the script's key is normalised before the look-up with a default", "hget with a default looks the script's key up as given while plain hget unwraps a one-element array: the two disagree on h[6]")
			}
		}
		// walkers of the order list never re-interpret a stored key
		if hget != nil {
			for _, f := range c.zygoFuncs() {
				for _, ci := range callsOf(f, hget) {
					arg := ci.Common().Args[2]
					fromOrder := false
					for _, leaf := range phiLeaves(arg) {
						if ld, ok := leaf.(*ssa.UnOp); ok && ld.Op == token.MUL {
							if ia, ok := ld.X.(*ssa.IndexAddr); ok && derivesFromField(ia.X, KeyOrder, 0) {
								fromOrder = true
							}
						}
					}
					if fromOrder {
						n++
						c.bad("C14-KEY", fnName(f), "stored key looked up as a caller's key", ci.Pos(),
							"a key taken from the order list is looked up through HashGet, which reads it as a caller's key (unwraps a one-element array, follows dot paths): a stored key [6] or x.y is not found under its own name and the entry cannot be printed, paired or encoded")
					}
				}
			}
		}
		if n < 4 {
			c.undecided("C14-KEY", "hashutils.go", "key readings", token.NoPos, fmt.Sprintf("only %d key uses examined", n))
		}
		// the order entry dropped by a delete belongs to the deleted pair's bucket
		if hashExpr != nil {
			okBucket := false
			delFns := []*ssa.Function{del}
			for _, g := range c.zygoFuncs() {
				if g != del && g.Parent() == nil && len(callsOf(del, g)) > 0 && len(c.callersOf(g)) == 1 {
					delFns = append(delFns, g) // a helper that only the delete routine calls
				}
			}
			for _, df := range delFns {
				eachInstr(df, func(b *ssa.BasicBlock, i int, in ssa.Instruction) {
					call, ok := in.(*ssa.Call)
					if !ok || call.Call.StaticCallee() != hashExpr {
						return
					}
					if ld, ok := call.Call.Args[1].(*ssa.UnOp); ok && ld.Op == token.MUL {
						if ia, ok := ld.X.(*ssa.IndexAddr); ok && derivesFromField(ia.X, KeyOrder, 0) {
							okBucket = true
						}
					}
				})
			}
			c.check(okBucket, "C14-DEL", "SexpHash.HashDelete", "order entry dropped is of the deleted pair's bucket", del.Pos(),
				"the order-list entry is matched on its hash value as well as on Compare",
				"the order-list entry to drop is chosen by Compare alone: keys that compare equal but hash differently (['a' 1] and [97 1]) are different keys, and deleting one removes the other from the order list")
		}
	}

	// ---- C14-GET: the value returned for a hit comes from the matched pair
	if mGet != nil {
		tail := c.field("SexpPair", "Tail")
		n := 0
		for _, r := range returnsOf(get) {
			if len(r.Results) == 0 {
				continue
			}
			if _, ok := loadOfField(r.Results[0], tail); ok {
				n++
				c.check(mGet.blocks[r.Block()], "C14-GET", "SexpHash.HashGetDefault", "return pair.Tail", r.Pos(),
					"a stored value is returned only for the matching key", "a stored value is returned on a path where the key did not match")
			}
		}
		if n == 0 {
			c.bad("C14-GET", "SexpHash.HashGetDefault", "return pair.Tail", get.Pos(), "lookup never returns the stored value of the matching pair")
		}
	}
}

// foundFlagFromMatch: a boolean phi whose `true` inputs all originate in match
// blocks (directly or through further phis) and which has a `false` input.
func foundFlagFromMatch(ph *ssa.Phi, match map[*ssa.BasicBlock]bool, seen map[*ssa.Phi]bool) bool {
	if seen[ph] {
		return true
	}
	seen[ph] = true
	sawFalse := false
	for i, e := range ph.Edges {
		pred := ph.Block().Preds[i]
		switch v := e.(type) {
		case *ssa.Const:
			if v.Value == nil {
				return false
			}
			if v.Value.String() == "true" {
				if !match[pred] {
					return false
				}
			} else {
				sawFalse = true
			}
		case *ssa.Phi:
			if !foundFlagFromMatch(v, match, seen) {
				return false
			}
			sawFalse = true
		default:
			return false
		}
	}
	return sawFalse
}

// checkSymbolKeysByNumber: a symbol is a hash key by what it is, not by what
// it names. Compare follows a Selector operand (a dot-symbol x.y) to the value
// it refers to before comparing; used on two keys it makes different symbols
// with equal referents one key, and a symbol whose referent is unbound does
// not match itself, so (hset h %x.y 1) (hset h %x.y 2) stores two entries
// that hdel cannot remove. If Compare dereferences, the bucket routines must
// match keys through a comparator that decides two symbols itself.
func (c *Ctx) checkSymbolKeysByNumber(rule string) {
	cmp := c.mustFn(rule, "Zlisp.Compare")
	symT := c.named("SexpSymbol")
	if cmp == nil || symT == nil {
		return
	}
	derefs := false
	eachInstr(cmp, func(b *ssa.BasicBlock, i int, in ssa.Instruction) {
		if call, ok := in.(*ssa.Call); ok && call.Call.IsInvoke() && call.Call.Method.Name() == "RHS" {
			derefs = true
		}
	})
	if !derefs {
		c.ok(rule, "Zlisp.Compare", "operands compared as they are", cmp.Pos(), "Compare does not follow selector operands to their referents")
		return
	}
	cmps := c.keyComparators(cmp)
	decidesSymbols := func(g *ssa.Function) bool {
		if g == cmp {
			return false
		}
		asserted := map[*ssa.Parameter]bool{}
		eachInstr(g, func(b *ssa.BasicBlock, i int, in ssa.Instruction) {
			ta, ok := in.(*ssa.TypeAssert)
			if !ok {
				return
			}
			if nm, ok := derefNamed(ta.AssertedType); !ok || nm != symT {
				return
			}
			if p, ok := ta.X.(*ssa.Parameter); ok {
				asserted[p] = true
			}
		})
		return len(asserted) >= 2
	}
	n := 0
	head := c.field("SexpPair", "Head")
	// every routine that compares the stored key of a bucket entry (pair.Head) with another key
	for _, f := range c.zygoFuncs() {
		name := fnName(f)
		eachInstr(f, func(b *ssa.BasicBlock, i int, in ssa.Instruction) {
			call, ok := in.(*ssa.Call)
			if !ok || !cmps[call.Call.StaticCallee()] || head == nil {
				return
			}
			onStoredKey := false
			for _, a := range call.Call.Args {
				if pair, ok := loadOfField(a, head); ok && fromBucket(pair, c.field("SexpHash", "Map"), 0) {
					onStoredKey = true
				}
			}
			if !onStoredKey || cmps[topFn(f)] {
				return
			}
			n++
			c.check(decidesSymbols(call.Call.StaticCallee()), rule, name, "symbol keys matched by number", call.Pos(),
				"stored key and look-up key go through a comparator that decides two symbols by their numbers before it falls back to Compare",
				"a stored key is matched with Compare, which follows a dot-symbol to the value it names: two different symbol keys with equal referents are one key, and a symbol key whose referent is unbound does not match itself, so it is stored twice, not found and not deletable")
		})
	}
	if n < 3 {
		c.undecided(rule, "hashutils.go", "key comparisons", token.NoPos, fmt.Sprintf("only %d key comparisons found in set/delete/get", n))
	}
}

// checkHashStorageNotShared: the order list and the buckets of a hash belong to
// that hash. Both are grown with append and pairs are replaced in place; if a
// second hash is given the same slices (a clone that copies the slice headers)
// the two then write into one backing array: an append by one overwrites the
// entry the other appended, and the order list no longer lists the map's keys.
// (a) no store of one hash's KeyOrder slice into another hash's KeyOrder field;
// (b) no bucket slice taken from a range over a hash's Map stored as it is into
// another map of buckets.
func (c *Ctx) checkHashStorageNotShared(rule string) {
	ko := c.mustField(rule, "SexpHash", "KeyOrder")
	mp := c.mustField(rule, "SexpHash", "Map")
	if ko == nil || mp == nil {
		return
	}
	nA, nB := 0, 0
	for _, f := range c.zygoFuncs() {
		eachInstr(f, func(b *ssa.BasicBlock, i int, in ssa.Instruction) {
			switch x := in.(type) {
			case *ssa.Store:
				fa, ok := x.Addr.(*ssa.FieldAddr)
				if !ok || faField(fa) != ko {
					return
				}
				nA++
				for _, leaf := range phiLeaves(x.Val) {
					if base, ok := loadOfField(leaf, ko); ok && base != fa.X {
						c.bad(rule, fnName(f), "order list of another hash stored as this hash's", x.Pos(),
							"the KeyOrder slice of one hash is stored into another hash without a copy: both hashes append to it, and as soon as the slice has spare capacity the entry one of them appends is overwritten by the other's (after (derefSet pa b) a key set on a disappears from (json a) and another appears twice)")
						return
					}
				}
			case *ssa.MapUpdate:
				// value is the bucket obtained by ranging over some hash's Map
				ex, ok := x.Value.(*ssa.Extract)
				if !ok || ex.Index != 2 {
					return
				}
				nx, ok := ex.Tuple.(*ssa.Next)
				if !ok {
					return
				}
				rg, ok := nx.Iter.(*ssa.Range)
				if !ok {
					return
				}
				if _, fromMap := loadOfField(rg.X, mp); !fromMap {
					return
				}
				nB++
				c.bad(rule, fnName(f), "bucket of another hash stored as it is", x.Pos(),
					"a bucket slice taken from one hash's Map is put into another map of buckets without a copy: HashSet replaces pairs in place (arr[i] = ...), so a write to one hash changes the value the other holds under that key")
			}
		})
	}
	if nA < 3 {
		c.undecided(rule, "package", "order-list stores", token.NoPos, fmt.Sprintf("only %d stores to KeyOrder found", nA))
	} else if c.countStatus(rule, StViolation) == 0 {
		c.ok(rule, "package", "order lists and buckets are not shared", token.NoPos, fmt.Sprintf("%d stores to an order list and every copy of a bucket map examined: none hands one hash's slice to another", nA))
	}
	_ = nB
}

// fromBucket: v (a *SexpPair) was taken out of a bucket of a hash's Map: an element of the slice a
// look-up or a range over the map yields.
func fromBucket(v ssa.Value, mp *types.Var, depth int) bool {
	if depth > 8 || mp == nil {
		return false
	}
	if _, ok := loadOfField(v, mp); ok {
		return true
	}
	switch x := v.(type) {
	case *ssa.UnOp:
		return fromBucket(x.X, mp, depth+1)
	case *ssa.IndexAddr:
		return fromBucket(x.X, mp, depth+1)
	case *ssa.Index:
		return fromBucket(x.X, mp, depth+1)
	case *ssa.Lookup:
		return fromBucket(x.X, mp, depth+1)
	case *ssa.Extract:
		return fromBucket(x.Tuple, mp, depth+1)
	case *ssa.Next:
		return fromBucket(x.Iter, mp, depth+1)
	case *ssa.Range:
		return fromBucket(x.X, mp, depth+1)
	case *ssa.Slice:
		return fromBucket(x.X, mp, depth+1)
	case *ssa.Phi:
		for _, e := range x.Edges {
			if fromBucket(e, mp, depth+1) {
				return true
			}
		}
	}
	return false
}
