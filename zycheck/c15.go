package main

// C15 — macro templates expand by exact substitution.

import (
	"go/constant"
	"fmt"
	"go/ast"
	"go/token"
	"go/types"
	"sort"
	"strconv"
	"strings"

	"golang.org/x/tools/go/ssa"
)

func checkC15(c *Ctx) {
	c.explainf("C15 decides: in every emission sequence of the syntax-quote generators (derived by abstract interpretation of the generator's code) each marker is closed by exactly one squash / vectorize / hashize at the same nesting, a splice explodes only under an open marker, and unquoted expressions are not compiled in tail position; errors of nested generation are propagated (see C05); at both macro expansion sites the macro is applied on the interpreter returned by Duplicate(), and Duplicate allocates fresh data, scope, address and loop stacks while sharing macros, symbol tables and the global scope; the reader sugar ^ ~ ~@ maps to syntaxQuote / unquote / unquote-splicing, the names the generator tests for; every lexer state that has read one rune beyond its own token re-dispatches that rune. The operand reader of the prefix operators drops comments (C15-OPERAND), defmac refuses every head the call generator compiles itself (C15-FORMS), and the prefix runes are sign contexts (C15-SIGN). It does not decide that an expansion equals an independent substitution.")
	c.checkOperandNotComment("C15-OPERAND")
	c.checkMacroNames("C15-FORMS")
	c.checkPrefixSignContext("C15-SIGN")
	// ---- ES-M / ES-T / ES-D on the syntax-quote emitters
	v := c.esVerify()
	n := 0
	for _, f := range v.list {
		// the syntax-quote emitters, and the call generator, where a macro's expansion is compiled in place of the call:
		// it must be compiled with the caller's tail flag and scope count, as the hand-written form would be
		expansionSite := f.fn == "Generator.GenerateCallBySymbol" && (f.rule == "ES-S" || f.rule == "ES-T" || f.rule == "ES-MODEL")
		if !strings.Contains(f.fn, "SyntaxQuote") && !expansionSite {
			continue
		}
		if !expansionSite && f.rule != "ES-M" && f.rule != "ES-T" && f.rule != "ES-D" && f.rule != "ES-MODEL" {
			continue
		}
		n++
		st := StOK
		if !f.ok {
			st = StViolation
			if f.rule == "ES-MODEL" {
				st = StUndecided
			}
		}
		c.addp(f.rule, f.fn, f.construct, f.pos, st, f.detail)
	}
	if n < 6 {
		c.undecided("ES-M", "Generator.GenerateSyntaxQuote", "templates", token.NoPos, "fewer syntax-quote obligations than expected; the emitters moved")
	}
	// marker pairing: each template of the list/array/hash helpers that opens a marker closes it with the matching collector
	want := map[string]string{"Generator.generateSyntaxQuoteList": "SquashInstr", "Generator.generateSyntaxQuoteArray": "VectorizeInstr", "Generator.generateSyntaxQuoteHash": "HashizeInstr"}
	seen := map[string]bool{}
	for _, t := range c.es.templates {
		closer, ok := want[t.fn]
		if !ok || t.what != "return" || len(t.seq) == 0 || !t.seq[0].marker {
			continue
		}
		seen[t.fn] = true
		last := t.seq[len(t.seq)-1]
		c.check(last.kind == closer, "ES-M", t.fn, "outer marker closed by "+strings.TrimSuffix(closer, "Instr"), last.pos,
			"the template opens with a marker and ends with the collector that builds the right container", "the template that opens a marker does not end in "+closer+": "+seqString(t.seq))
	}
	for fn := range want {
		if !seen[fn] {
			c.bad("ES-M", fn, "outer marker template", token.NoPos, "no template of "+fn+" opens a marker: the elements of the quoted container are not collected")
		}
	}

	// ---- C15-REBUILD: a template's containers are rebuilt on every evaluation, never pushed as the template's own object
	if f := c.mustFn("C15-REBUILD", "Generator.GenerateSyntaxQuote"); f != nil {
		pushT := c.named("PushInstr")
		n := 0
		if pushT != nil && len(f.Params) >= 2 {
			eachInstr(f, func(b *ssa.BasicBlock, i int, in ssa.Instruction) {
				// a PushInstr value built from an interface-typed expression
				mi, ok := in.(*ssa.MakeInterface)
				if !ok {
					return
				}
				nm, ok := mi.X.Type().(*types.Named)
				if !ok || nm != pushT {
					return
				}
				// which expression does it push? the store into the composite's only field
				var pushed ssa.Value
				if ld, ok := mi.X.(*ssa.UnOp); ok {
					if al, ok := ld.X.(*ssa.Alloc); ok {
						for _, ref := range *al.Referrers() {
							if fa, ok := ref.(*ssa.FieldAddr); ok {
								for _, r2 := range *fa.Referrers() {
									if st, ok := r2.(*ssa.Store); ok && st.Addr == ssa.Value(fa) {
										pushed = st.Val
									}
								}
							}
						}
					}
				}
				if pushed == nil || !types.IsInterface(pushed.Type()) {
					return
				}
				n++
				// the pushed value is the (sub)template itself: must be on the path where it is none of the containers
				notContainer := func(tname string) bool {
					return excludesType(b, pushed, tname, 0)
				}
				okAtoms := notContainer("*SexpArray") && notContainer("*SexpHash")
				c.check(okAtoms, "C15-REBUILD", "Generator.GenerateSyntaxQuote", "template object pushed only when it is not a container", mi.Pos(),
					"the template itself is pushed only after the tests for array and hash failed: containers are rebuilt element by element",
					"a template (or sub-template) is emitted as one push of the template's own object without excluding arrays and hashes: every evaluation returns the same mutable object, so changing one result changes the template and all later results, which writing the form by hand would not")
			})
		}
		if n == 0 {
			c.undecided("C15-REBUILD", "Generator.GenerateSyntaxQuote", "template object pushed only when it is not a container", f.Pos(), "no push of a template expression found")
		}
	}

	// ---- C15-DUP
	apply := c.mustFn("C15-DUP", "Zlisp.Apply")
	dup := c.mustFn("C15-DUP", "Zlisp.Duplicate")
	if apply != nil && dup != nil {
		for _, name := range []string{"Generator.GenerateCallBySymbol", "Generator.GenerateMacexpand"} {
			f := c.mustFn("C15-DUP", name)
			if f == nil {
				continue
			}
			cs := callsOf(f, apply)
			if len(cs) != 1 {
				c.bad("C15-DUP", name, "Apply on a duplicate", f.Pos(), "expected exactly one macro application at this expansion site")
				continue
			}
			recv := cs[0].Common().Args[0]
			onDup := false
			if call, ok := recv.(*ssa.Call); ok && call.Call.StaticCallee() == dup {
				onDup = true
			}
			c.check(onDup, "C15-DUP", name, "Apply on a duplicate", cs[0].Pos(), "the macro body runs on the interpreter returned by Duplicate()", "the macro is applied on the compiling interpreter itself: expansion disturbs the caller's stacks")
		}
		// Duplicate: fresh stacks, shared tables
		newStack := c.fn("Zlisp.NewStack")
		fresh := map[string]bool{}
		shared := map[string]bool{}
		zl := c.named("Zlisp")
		eachInstr(dup, func(b *ssa.BasicBlock, i int, in ssa.Instruction) {
			st, ok := in.(*ssa.Store)
			if !ok {
				return
			}
			fa, ok := st.Addr.(*ssa.FieldAddr)
			if !ok {
				return
			}
			if _, isNew := fa.X.(*ssa.Alloc); !isNew {
				return
			}
			fld := faField(fa)
			if call, ok := st.Val.(*ssa.Call); ok && call.Call.StaticCallee() == newStack {
				fresh[fld.Name()] = true
			}
			if _, ok := loadOfField(st.Val, fld); ok {
				shared[fld.Name()] = true
			}
		})
		_ = zl
		okFresh := fresh["datastack"] && fresh["linearstack"] && fresh["addrstack"] && fresh["loopstack"]
		okShared := shared["macros"] && shared["symtable"] && shared["revsymtable"] && shared["builtins"]
		c.check(okFresh, "C15-DUP", "Zlisp.Duplicate", "fresh stacks", dup.Pos(), "data, scope, address and loop stacks are newly allocated", "Duplicate shares one of the four VM stacks with its parent: macro expansion runs on the caller's stack")
		c.check(okShared, "C15-DUP", "Zlisp.Duplicate", "shared tables", dup.Pos(), "macros, symbol tables and builtins are shared", "Duplicate does not share macros / symbol tables / builtins: macros defined so far are invisible during expansion")
		// the global scope is pushed
		pushesGlobal := false
		eachInstr(dup, func(b *ssa.BasicBlock, i int, in ssa.Instruction) {
			if ci, ok := in.(ssa.CallInstruction); ok && ci.Common().StaticCallee() != nil && ci.Common().StaticCallee().Name() == "Push" {
				pushesGlobal = true
			}
		})
		c.check(pushesGlobal, "C15-DUP", "Zlisp.Duplicate", "global scope", dup.Pos(), "the parent's global scope is the bottom of the new scope stack", "Duplicate does not install the global scope")
	}

	// ---- symbols made during an expansion: the duplicate interns into the tables it shares with the caller, so
	// the interning rules (C19: numbers tested unused until a free one is found, generated names tested absent,
	// family shares the tables) are part of "expansion leaves the caller's state consistent"
	checkC19(c)

	// ---- C15-SUGAR (on the SSA form: an if-chain and a switch compare the same way)
	if pe := c.mustFn("C15-SUGAR", "Parser.ParseExpression"); pe != nil {
		sugar := map[string]string{"TokenCaret": "syntaxQuote", "TokenTilde": "unquote", "TokenTildeAt": "unquote-splicing", "TokenQuote": "quote"}
		tokVal := map[int64]string{}
		for tok := range sugar {
			if k, ok := c.Zygo.Types.Scope().Lookup(tok).(*types.Const); ok {
				if v, exact := constant.Int64Val(k.Val()); exact {
					tokVal[v] = tok
				}
			}
		}
		found := map[string]string{}
		mk := c.fn("Zlisp.MakeSymbol")
		for _, f := range withClosures(pe) {
			eachInstr(f, func(b *ssa.BasicBlock, i int, in ssa.Instruction) {
				call, ok := in.(*ssa.Call)
				if !ok || mk == nil || call.Call.StaticCallee() != mk || len(call.Call.Args) < 2 {
					return
				}
				k, ok := call.Call.Args[1].(*ssa.Const)
				if !ok || k.Value == nil || k.Value.Kind() != constant.String {
					return
				}
				name := constant.StringVal(k.Value)
				// the token kinds under whose comparison this call runs
				for v, tok := range tokVal {
					v := v
					if guardedBy(b, func(cond ssa.Value) (bool, bool) {
						bo, ok := cond.(*ssa.BinOp)
						if !ok || (bo.Op != token.EQL && bo.Op != token.NEQ) {
							return false, false
						}
						kv, isK := constIntOf(bo.Y)
						if !isK {
							kv, isK = constIntOf(bo.X)
						}
						if !isK || kv != v {
							return false, false
						}
						return true, bo.Op == token.EQL
					}) {
						found[tok] = name
					}
				}
			})
		}
		// the reader and the compiler agree on the names (whatever they are): each sugar token is read as a
		// list headed by a symbol; the two unquote heads are distinct and are the names the template walker
		// tests for; the caret's and the quote's heads are special forms of the call generator
		toks := make([]string, 0, len(sugar))
		for tok := range sugar {
			toks = append(toks, tok)
		}
		sort.Strings(toks)
		for _, tok := range toks {
			c.check(found[tok] != "", "C15-SUGAR", "Parser.ParseExpression", tok, pe.Pos(), "read as ("+found[tok]+" ...)", "the reader does not turn "+tok+" into a list headed by a symbol")
		}
		if g := c.mustFn("C15-SUGAR", "Generator.generateSyntaxQuoteList"); g != nil {
			names := stringsComparedIn(g)
			u, us := found["TokenTilde"], found["TokenTildeAt"]
			c.check(u != "" && us != "" && u != us && names[u] && names[us], "C15-SUGAR", "Generator.generateSyntaxQuoteList", "names tested", g.Pos(),
				"the template walker recognises the heads the reader makes for ~ and ~@ ("+u+", "+us+")",
				"the template walker does not test for the names the reader produces for ~ and ~@ (`"+u+"`, `"+us+"`), or the two are the same name")
		}
		if g := c.mustFn("C15-SUGAR", "Generator.GenerateCallBySymbol"); g != nil {
			names := stringsComparedIn(g)
			q, sq := found["TokenQuote"], found["TokenCaret"]
			c.check(q != "" && sq != "" && names[q] && names[sq], "C15-SUGAR", "Generator.GenerateCallBySymbol", "syntaxQuote arm", g.Pos(),
				"the special forms the quote and the caret read as exist ("+q+", "+sq+")", "the call generator has no special form named as the reader names the quote / the caret (`"+q+"`, `"+sq+"`)")
		}
	}

	// ---- C15-LEX
	if fd := c.funcDecl("Lexer.LexNextRune"); fd != nil {
		lookahead := map[string]bool{"LexerFreshAssignOrColon": true, "LexerBuiltinOperator": true, "LexerFirstFwdSlash": true, "LexerUnquote": true}
		seenSt := map[string]bool{}
		ast.Inspect(fd.Body, func(n ast.Node) bool {
			sw, ok := n.(*ast.SwitchStmt)
			if !ok || exprShort(sw.Tag) != "lexer.state" {
				return true
			}
			for _, cl := range sw.Body.List {
				cc := cl.(*ast.CaseClause)
				for _, e := range cc.List {
					id, ok := e.(*ast.Ident)
					if !ok || !lookahead[id.Name] {
						continue
					}
					seenSt[id.Name] = true
					hasGoto, buffersR := false, false
					for _, st := range cc.Body {
						ast.Inspect(st, func(m ast.Node) bool {
							switch x := m.(type) {
							case *ast.BranchStmt:
								if x.Tok == token.GOTO && x.Label != nil && x.Label.Name == "top" {
									hasGoto = true
								}
							case *ast.CallExpr:
								if sel, ok := x.Fun.(*ast.SelectorExpr); ok && sel.Sel.Name == "WriteRune" && len(x.Args) == 1 && exprShort(x.Args[0]) == "r" {
									buffersR = true
								}
							}
							return true
						})
					}
					c.check(hasGoto && !buffersR, "C15-LEX", "Lexer.LexNextRune", "state "+id.Name, cc.Pos(),
						"the rune read beyond the token is lexed again from the normal state", "the look-ahead state "+id.Name+" writes the extra rune into the atom buffer (or never re-dispatches it): the character after the token is glued onto the next atom")
				}
			}
			return false
		})
		for s := range lookahead {
			if !seenSt[s] {
				c.undecided("C15-LEX", "Lexer.LexNextRune", "state "+s, fd.Pos(), "look-ahead state not found in the state switch")
			}
		}
	}
	_ = types.Typ
}

// stringsComparedIn: the string constants a function compares a value with
// (==, !=, or the arms of a switch, which compile to the same comparisons).
func stringsComparedIn(f *ssa.Function) map[string]bool {
	out := map[string]bool{}
	for _, g := range withClosures(f) {
		eachInstr(g, func(b *ssa.BasicBlock, i int, in ssa.Instruction) {
			bo, ok := in.(*ssa.BinOp)
			if !ok || (bo.Op != token.EQL && bo.Op != token.NEQ) {
				return
			}
			for _, side := range []ssa.Value{bo.X, bo.Y} {
				if k, ok := side.(*ssa.Const); ok && k.Value != nil && k.Value.Kind() == constant.String {
					out[constant.StringVal(k.Value)] = true
				}
			}
		})
	}
	return out
}

// excludesType: on every path into block b, value v is known not to have the
// dynamic type tname: the comma-ok assertion v.(tname) failed, or an assertion
// of v to a different concrete type succeeded.
func excludesType(b *ssa.BasicBlock, v ssa.Value, tname string, depth int) bool {
	if depth > 12 {
		return false
	}
	if len(b.Preds) == 0 {
		return false
	}
	for _, p := range b.Preds {
		okEdge := false
		if cond, t, e := condBranch(p); cond != nil {
			if ex, ok := cond.(*ssa.Extract); ok && ex.Index == 1 {
				if ta, ok := ex.Tuple.(*ssa.TypeAssert); ok && ta.X == v {
					same := typeShort(ta.AssertedType) == tname
					if same && e == b && t != b {
						okEdge = true // the test for tname failed
					}
					if !same && t == b && e != b {
						if _, isIface := ta.AssertedType.Underlying().(*types.Interface); !isIface {
							okEdge = true // v is of another concrete type
						}
					}
				}
			}
		}
		if !okEdge && !excludesType(p, v, tname, depth+1) {
			return false
		}
	}
	return true
}

// checkOperandNotComment: the reader turns ~x into (unquote x). A comment is an
// expression for the parser (it is filtered out later, recursively), so if the
// routine that reads the operand of ~ ~@ ^ % hands a comment back, the reader
// builds (unquote <comment>), which the filter turns into (unquote): the
// template keeps a literal (unquote) and the expression is not substituted.
// The rule: every routine whose result the expression parser wraps in a list
// (the operand readers) tests what ParseExpression gave it for *SexpComment.
func (c *Ctx) checkOperandNotComment(rule string) {
	pe := c.mustFn(rule, "Parser.ParseExpression")
	mk := c.mustFn(rule, "MakeList")
	cmt := c.named("SexpComment")
	if pe == nil || mk == nil || cmt == nil {
		return
	}
	// callees of ParseExpression whose first result is stored into a slice handed to MakeList
	readers := map[*ssa.Function]token.Pos{}
	eachInstr(pe, func(b *ssa.BasicBlock, i int, in ssa.Instruction) {
		call, ok := in.(*ssa.Call)
		if !ok || call.Call.StaticCallee() == nil || call.Referrers() == nil {
			return
		}
		if _, isTuple := call.Type().(*types.Tuple); !isTuple {
			return
		}
		for _, r := range *call.Referrers() {
			ex, ok := r.(*ssa.Extract)
			if !ok || ex.Index != 0 || ex.Referrers() == nil {
				continue
			}
			for _, r2 := range *ex.Referrers() {
				st, ok := r2.(*ssa.Store)
				if !ok || st.Val != ssa.Value(ex) {
					continue
				}
				if ia, ok := st.Addr.(*ssa.IndexAddr); ok {
					// the array literal behind []Sexp{sym, expr}
					if sliceReachesCall(ia.X, mk) {
						readers[call.Call.StaticCallee()] = call.Pos()
					}
				}
			}
		}
	})
	if len(readers) == 0 {
		c.undecided(rule, "Parser.ParseExpression", "operand readers", pe.Pos(), "no call whose result is wrapped by MakeList found in the expression parser")
		return
	}
	for g, pos := range readers {
		// the operand of a prefix operator is at the operator's own depth: a prefix operator opens nothing, and the
		// depth decides whether the end of the available text may be the end of the text (%%a at the end of a text)
		if g != pe && rule == "C13-OPCMT" {
			for _, site := range callsOf(g, pe) {
				args := site.Common().Args
				d := args[len(args)-1]
				_, isParam := d.(*ssa.Parameter)
				c.check(isParam, "C13-OPDEPTH", fnName(g), "operand parsed at the operator's depth", site.Pos(),
					"the nested expression is parsed at the depth the operand reader was given",
					"the operand of a prefix operator is parsed one level deeper than the operator although nothing was opened: for nested prefix operators at top level (%%a, %~a) the inner operand reader believes it is inside a bracket, does not terminate the atom pending in the lexer, and the complete text asks for more input")
			}
		}
		tests := false
		for _, site := range callsOf(g, pe) {
			v, ok := site.(ssa.Value)
			if !ok || v.Referrers() == nil {
				continue
			}
			for _, r := range *v.Referrers() {
				ex, ok := r.(*ssa.Extract)
				if !ok || ex.Index != 0 || ex.Referrers() == nil {
					continue
				}
				for _, r2 := range *ex.Referrers() {
					if ta, ok := r2.(*ssa.TypeAssert); ok {
						if nm, ok := derefNamed(ta.AssertedType); ok && nm == cmt {
							tests = true
						}
					}
				}
			}
		}
		if g == pe {
			tests = false
		}
		c.check(tests, rule, fnName(g), "operand of a reader prefix is not a comment", pos,
			"the operand reader tests what the expression parser returned for a comment before handing it to the prefix operator",
			"the expression wrapped by ~ ~@ ^ % is whatever ParseExpression returns next, a comment included: ^(a ~/* c */b) reads as (a (unquote) b), the template keeps a literal (unquote) and b is not substituted")
	}
}

// sliceReachesCall: the array behind v is sliced and passed to g.
func sliceReachesCall(v ssa.Value, g *ssa.Function) bool {
	if v.Referrers() == nil {
		return false
	}
	for _, r := range *v.Referrers() {
		if sl, ok := r.(*ssa.Slice); ok && sl.Referrers() != nil {
			for _, r2 := range *sl.Referrers() {
				if call, ok := r2.(*ssa.Call); ok && call.Call.StaticCallee() == g {
					return true
				}
			}
		}
	}
	return false
}

// checkMacroNames: the call generator compiles a call whose head is a special
// form itself, before it consults the macro table. A macro of such a name can
// be defined and expanded with macexpand, but a call of it never runs the
// macro. defmac must refuse every name the call generator's switch handles:
// the rule compares the case labels of that switch with the set of names the
// guard in GenerateDefmac tests (a map literal it indexes with the macro's name).
func (c *Ctx) checkMacroNames(rule string) {
	call := c.funcDecl("Generator.GenerateCallBySymbol")
	defm := c.funcDecl("Generator.GenerateDefmac")
	if call == nil || defm == nil {
		c.undecided(rule, "Generator.GenerateDefmac", "anchor", token.NoPos, "generator functions not found")
		return
	}
	// case labels of the switch on the head's name
	forms := map[string]bool{}
	ast.Inspect(call.Body, func(n ast.Node) bool {
		sw, ok := n.(*ast.SwitchStmt)
		if !ok || sw.Tag == nil || exprShort(sw.Tag) != "sym.name" {
			return true
		}
		for _, cl := range sw.Body.List {
			for _, e := range cl.(*ast.CaseClause).List {
				if bl, ok := e.(*ast.BasicLit); ok && bl.Kind == token.STRING {
					if v, err := strconv.Unquote(bl.Value); err == nil {
						forms[v] = true
					}
				}
			}
		}
		return false
	})
	if len(forms) < 20 {
		c.undecided(rule, "Generator.GenerateCallBySymbol", "special forms", call.Pos(), fmt.Sprintf("only %d special-form names found in the call generator's switch (24 confirmed by reading)", len(forms)))
		return
	}
	// package-level string sets indexed inside an `if` of GenerateDefmac that returns an error
	refused := map[string]bool{}
	guardFound := false
	ast.Inspect(defm.Body, func(n ast.Node) bool {
		is, ok := n.(*ast.IfStmt)
		if !ok || !endsInFailure(is.Body.List) {
			return true
		}
		ast.Inspect(is.Cond, func(m ast.Node) bool {
			ix, ok := m.(*ast.IndexExpr)
			if !ok {
				return true
			}
			id, ok := ix.X.(*ast.Ident)
			if !ok {
				return true
			}
			obj, ok := c.Zygo.TypesInfo.Uses[id].(*types.Var)
			if !ok || obj.Parent() != c.Zygo.Types.Scope() {
				return true
			}
			// the variable's initialiser
			for _, f := range c.Zygo.Syntax {
				for _, d := range f.Decls {
					gd, ok := d.(*ast.GenDecl)
					if !ok {
						continue
					}
					for _, sp := range gd.Specs {
						vs, ok := sp.(*ast.ValueSpec)
						if !ok {
							continue
						}
						for i, nm := range vs.Names {
							if c.Zygo.TypesInfo.Defs[nm] != obj || i >= len(vs.Values) {
								continue
							}
							if cl, ok := vs.Values[i].(*ast.CompositeLit); ok {
								guardFound = true
								for _, el := range cl.Elts {
									key := el
									if kv, ok := el.(*ast.KeyValueExpr); ok {
										key = kv.Key
									}
									if bl, ok := key.(*ast.BasicLit); ok && bl.Kind == token.STRING {
										if v, err := strconv.Unquote(bl.Value); err == nil {
											refused[v] = true
										}
									}
								}
							}
						}
					}
				}
			}
			return true
		})
		return true
	})
	if !guardFound {
		c.bad(rule, "Generator.GenerateDefmac", "refuses the names of special forms", defm.Pos(),
			"defmac does not test the macro's name against the set of special forms: (defmac begin [& b] ...) is accepted and shown by macexpand, but (begin 1 2) is still compiled as the special form and never runs the macro")
		return
	}
	var missing []string
	for f := range forms {
		if !refused[f] {
			missing = append(missing, f)
		}
	}
	sort.Strings(missing)
	c.check(len(missing) == 0, rule, "Generator.GenerateDefmac", "refuses the names of special forms", defm.Pos(),
		fmt.Sprintf("all %d heads the call generator compiles itself are refused as macro names", len(forms)),
		"the call generator compiles these heads itself, before it consults the macro table, but defmac accepts them as macro names: "+strings.Join(missing, ", ")+" — such a macro is defined and expanded by macexpand, yet a call of it never runs it")
}
