package main

// C16 — lazy parameters delay, memoise and stay lexical; strict ones do not.

import (
	"fmt"
	"go/constant"
	"go/token"
	"go/types"

	"golang.org/x/tools/go/ssa"
)

// rangeIndexOf: the induction variable (phi) of the loop that contains blk, if
// the loop has the shape go/ssa gives `for i := range xs`: a phi of int type
// in a loop header whose edges are -1/0 and itself+1.
func isRangeIndex(v ssa.Value) bool {
	// go/ssa lowers `for i, x := range slice` to: t = phi [-1, t+1]; i = t + 1
	if bo, ok := v.(*ssa.BinOp); ok && bo.Op == token.ADD {
		if ph, ok := bo.X.(*ssa.Phi); ok {
			for _, e := range ph.Edges {
				if e == ssa.Value(bo) {
					return true
				}
			}
		}
	}
	if ph, ok := v.(*ssa.Phi); ok {
		for _, e := range ph.Edges {
			if bo, ok := e.(*ssa.BinOp); ok && bo.Op == token.ADD && bo.X == ssa.Value(ph) {
				return true
			}
		}
	}
	return false
}

func checkC16(c *Ctx) {
	c.explainf("C16 decides: the three places that marshal arguments for a compiled function (run-time preparation, compile-time generation, apply/map) decide laziness with the same predicate IsLazyCallArg(index), build the wrapper only on its true branch (source wrapper on the source routes, value wrapper on apply/map) and evaluate/push every other position exactly once; Go builtins never receive a wrapper; the laziness flags are written only where formals are declared, from the # sigil; positions in a variadic tail are never lazy; forcing returns the memo when forced and otherwise stores value and forced flag on every success path; the wrapper captures scope stack and current function and forcing installs exactly those inside a capture/restore bracket; substitute cannot reach force. An argument of a compiled function passes through RValue in the caller, as does a forced value (C16-DOT); with named arguments laziness is asked for the parameter the label names (C16-NAMED); every routine that compiles a named function body makes the function known to the generator first and the tail path prepares its arguments for the function being compiled (C16-REG, C16-SELFARGS). It does not decide effect counts or order for concrete programs.")
	c.checkArgsReadAtCall("C16-DOT")
	c.checkNamedLaziness("C16-NAMED")
	c.checkTailArgsForSelf("C16-SELFARGS")
	isLazy := c.mustFn("C16-SITES", "SexpFunction.IsLazyCallArg")
	newSrc := c.mustFn("C16-SITES", "NewSourceLazyArg")
	newVal := c.mustFn("C16-SITES", "NewValueLazyArg")
	if isLazy == nil || newSrc == nil || newVal == nil {
		return
	}
	pushLazyT := c.named("PushLazyArgInstr")
	type site struct {
		fn       string
		wrapper  func(in ssa.Instruction) bool
		wrapName string
		eval     func(in ssa.Instruction) bool
		evalName string
	}
	evalCall := c.fn("Zlisp.EvalCallExpression")
	genGenerate := c.fn("Generator.Generate")
	pushExpr := c.fn("Stack.PushExpr")
	callTo := func(f *ssa.Function) func(ssa.Instruction) bool {
		return func(in ssa.Instruction) bool {
			ci, ok := in.(ssa.CallInstruction)
			return ok && f != nil && ci.Common().StaticCallee() == f
		}
	}
	sites := []site{
		{"Zlisp.PrepareCallExprArgs", callTo(newSrc), "NewSourceLazyArg", callTo(evalCall), "EvalCallExpression"},
		{"Generator.GenerateCallArgsForFunction", func(in ssa.Instruction) bool {
			mi, ok := in.(*ssa.MakeInterface)
			return ok && pushLazyT != nil && types.Identical(mi.X.Type(), pushLazyT)
		}, "PushLazyArgInstr", callTo(genGenerate), "Generate"},
		{"Zlisp.Apply", callTo(newVal), "NewValueLazyArg", callTo(pushExpr), "PushExpr"},
	}
	for _, s := range sites {
		f := c.mustFn("C16-SITES", s.fn)
		if f == nil {
			continue
		}
		calls := callsOf(f, isLazy)
		if len(calls) != 1 {
			c.bad("C16-SITES", s.fn, "laziness predicate", f.Pos(), fmt.Sprintf("expected exactly one IsLazyCallArg test, found %d: the three marshalling sites no longer agree on which arguments are lazy", len(calls)))
			continue
		}
		call := calls[0].(*ssa.Call)
		idxOK := len(call.Call.Args) == 2 && isRangeIndex(call.Call.Args[1])
		if !idxOK && len(call.Call.Args) == 2 {
			// the position mapped to the parameter it is bound to (named arguments): f(..., i)
			if m, ok := call.Call.Args[1].(*ssa.Call); ok && len(m.Call.Args) > 0 && isRangeIndex(m.Call.Args[len(m.Call.Args)-1]) {
				idxOK = true
			}
		}
		c.check(idxOK, "C16-SITES", s.fn, "predicate on the argument position", call.Pos(), "IsLazyCallArg is asked about the position of the argument being marshalled",
			"IsLazyCallArg is not called with the loop's argument index")
		// the branch
		var lazyBlk *ssa.BasicBlock
		for _, r := range nonDebugRefs(call) {
			if iff, ok := r.(*ssa.If); ok {
				lazyBlk = iff.Block().Succs[0]
			}
		}
		if lazyBlk == nil || len(lazyBlk.Preds) != 1 {
			c.bad("C16-SITES", s.fn, "lazy branch", call.Pos(), "the result of IsLazyCallArg does not decide a branch of its own")
			continue
		}
		nWrapLazy, nWrapElse, nEvalLazy, nEvalElse := 0, 0, 0, 0
		for _, b := range f.Blocks {
			inLazy := lazyBlk.Dominates(b)
			for _, in := range b.Instrs {
				if s.wrapper(in) {
					if inLazy {
						nWrapLazy++
					} else {
						nWrapElse++
					}
				}
				if s.eval(in) {
					if inLazy {
						nEvalLazy++
					} else {
						nEvalElse++
					}
				}
			}
		}
		// Apply pushes in both branches (wrapper or value); its "evaluation" is the push of the raw value
		wantEvalLazy := 0
		if s.fn == "Zlisp.Apply" {
			wantEvalLazy = 1
		}
		c.check(nWrapLazy == 1 && nWrapElse == 0, "C16-SITES", s.fn, "wrapper "+s.wrapName, call.Pos(),
			"the wrapper is built exactly on the lazy branch", fmt.Sprintf("wrapper %s built %d times on the lazy branch and %d times elsewhere", s.wrapName, nWrapLazy, nWrapElse))
		c.check(nEvalLazy == wantEvalLazy && nEvalElse == 1, "C16-SITES", s.fn, "strict positions via "+s.evalName, call.Pos(),
			"every non-lazy position is evaluated/pushed exactly once and lazy ones are not evaluated", fmt.Sprintf("%s occurs %d times on the lazy branch and %d times on the strict path", s.evalName, nEvalLazy, nEvalElse))
		// on the run-time source route, everything pushed on the lazy branch is the source wrapper: a value wrapper
		// (already forced) for "literals" hands the callee an unevaluated expression as if it were its value
		if s.fn == "Zlisp.PrepareCallExprArgs" && pushExpr != nil {
			okPush := true
			var at token.Pos
			for _, b := range f.Blocks {
				if !lazyBlk.Dominates(b) {
					continue
				}
				for _, in := range b.Instrs {
					pc, ok := in.(*ssa.Call)
					if !ok || pc.Call.StaticCallee() != pushExpr || len(pc.Call.Args) < 2 {
						continue
					}
					src := false
					for _, leaf := range phiLeaves(pc.Call.Args[1]) {
						v := leaf
						if mi, ok := v.(*ssa.MakeInterface); ok {
							v = mi.X
						}
						if cl, ok := v.(*ssa.Call); ok && cl.Call.StaticCallee() == newSrc {
							src = true
						} else {
							src = false
							break
						}
					}
					if !src {
						okPush, at = false, pc.Pos()
					}
				}
			}
			c.check(okPush, "C16-SITES", s.fn, "lazy positions receive the source wrapper only", orPos(at, call.Pos()),
				"every value pushed on the lazy branch is the result of NewSourceLazyArg",
				"on the lazy branch something other than the source wrapper is pushed (a value wrapper marked as forced, or the raw expression): an argument such as the array literal [a (+ a 1) (bump)] reaches the callee unevaluated and forcing it returns the literal, its elements never read the caller's scope nor run their effects")
		}
		// the lazy branch must not fall through into the strict path: it ends by continuing the loop
		falls := false
		for _, b := range f.Blocks {
			if !lazyBlk.Dominates(b) {
				continue
			}
			for _, sx := range b.Succs {
				if !lazyBlk.Dominates(sx) {
					// leaving the lazy region: must go to the loop header (a block that dominates the predicate call)
					if !sx.Dominates(call.Block()) {
						falls = true
					}
				}
			}
		}
		c.check(!falls, "C16-SITES", s.fn, "lazy branch continues the loop", call.Pos(), "after wrapping, the loop moves to the next argument", "the lazy branch falls through into the strict path: the argument is wrapped and evaluated")
	}
	// user functions never get a wrapper: PrepareCallExprArgs tests !function.user; Apply returns early for user functions
	userF := c.mustField("C16-SITES", "SexpFunction", "user")
	if userF != nil {
		if f := c.fn("Zlisp.PrepareCallExprArgs"); f != nil {
			call := callsOf(f, isLazy)
			okU := false
			if len(call) == 1 {
				okU = guardedBy(call[0].(ssa.Instruction).Block(), func(cond ssa.Value) (bool, bool) {
					_, ok := loadOfField(cond, userF)
					return ok, false
				})
			}
			c.check(okU, "C16-SITES", "Zlisp.PrepareCallExprArgs", "not for Go builtins", f.Pos(), "the laziness test is reached only for compiled functions (!function.user)", "a Go builtin can receive an unevaluated argument wrapper")
		}
		if f := c.fn("Zlisp.Apply"); f != nil {
			call := callsOf(f, isLazy)
			okU := false
			if len(call) == 1 {
				okU = guardedBy(call[0].(ssa.Instruction).Block(), func(cond ssa.Value) (bool, bool) {
					_, ok := loadOfField(cond, userF)
					return ok, false
				})
			}
			c.check(okU, "C16-SITES", "Zlisp.Apply", "not for Go builtins", f.Pos(), "Go builtins are applied directly to the values", "apply can hand a wrapper to a Go builtin")
		}
	}

	// ---- C16-PRED
	lazyFormals := c.mustField("C16-PRED", "SexpFunction", "lazyFormals")
	if lazyFormals != nil {
		for _, w := range c.fieldWrites(lazyFormals) {
			c.check(fnName(w.fn) == "SexpFunction.SetFormalSymbols", "C16-PRED", fnName(w.fn), w.kind+" lazyFormals", w.in.Pos(),
				"laziness flags are set where the formals are declared", "laziness flags are written outside SetFormalSymbols")
		}
		if sfs := c.mustFn("C16-PRED", "SexpFunction.SetFormalSymbols"); sfs != nil {
			ilfs := c.mustFn("C16-PRED", "isLazyFormalSymbol")
			okSrc := false
			eachInstr(sfs, func(b *ssa.BasicBlock, i int, in ssa.Instruction) {
				if st, ok := in.(*ssa.Store); ok {
					if ia, ok := st.Addr.(*ssa.IndexAddr); ok && derivesFromField(ia.X, lazyFormals, 0) {
						if call, ok := st.Val.(*ssa.Call); ok && call.Call.StaticCallee() == ilfs && ilfs != nil {
							okSrc = true
						}
					}
				}
			})
			c.check(okSrc, "C16-PRED", "SexpFunction.SetFormalSymbols", "flag from sigil test", sfs.Pos(), "lazyFormals[i] = isLazyFormalSymbol(formal i)", "the laziness flag of a formal is not the result of isLazyFormalSymbol on that formal")
			if ilfs != nil {
				sigil := c.field("SexpSymbol", "sigil")
				okSig := false
				eachInstr(ilfs, func(b *ssa.BasicBlock, i int, in ssa.Instruction) {
					if bo, ok := in.(*ssa.BinOp); ok && bo.Op == token.EQL {
						if _, ok := loadOfField(bo.X, sigil); ok {
							if k, ok := bo.Y.(*ssa.Const); ok && k.Value != nil && k.Value.ExactString() == `"#"` {
								okSig = true
							}
						}
					}
				})
				c.check(okSig, "C16-PRED", "isLazyFormalSymbol", "# sigil", ilfs.Pos(), "a formal is lazy exactly when its sigil is #", "the lazy-formal test no longer compares the sigil with \"#\"")
			}
		}
		// IsLazyCallArg: variadic tail is never lazy
		varargs := c.field("SexpFunction", "varargs")
		nargs := c.field("SexpFunction", "nargs")
		ilf := c.fn("SexpFunction.IsLazyFormal")
		tailOK, delegOK := false, false
		for _, r := range returnsOf(isLazy) {
			if k, ok := r.Results[0].(*ssa.Const); ok && k.Value != nil && k.Value.String() == "false" {
				// guarded by i >= nargs and varargs
				g1 := guardedBy(r.Block(), func(cond ssa.Value) (bool, bool) {
					bo, ok := cond.(*ssa.BinOp)
					if !ok || bo.Op != token.GEQ || bo.X != ssa.Value(isLazy.Params[1]) {
						return false, false
					}
					_, ok = loadOfField(bo.Y, nargs)
					return ok, true
				})
				g2 := guardedBy(r.Block(), func(cond ssa.Value) (bool, bool) {
					_, ok := loadOfField(cond, varargs)
					return ok, true
				})
				tailOK = g1 && g2
			}
			if call, ok := r.Results[0].(*ssa.Call); ok && call.Call.StaticCallee() == ilf && ilf != nil && call.Call.Args[1] == ssa.Value(isLazy.Params[1]) {
				delegOK = true
			}
		}
		c.check(tailOK && delegOK, "C16-PRED", "SexpFunction.IsLazyCallArg", "variadic tail strict", isLazy.Pos(),
			"false for positions at or beyond nargs of a variadic function, otherwise the formal's flag", "IsLazyCallArg no longer is `false in the variadic tail, else the formal's flag`")
	}

	c.checkRegisteredBeforeBody("C16-REG")
	c.checkGeneratorCtors("ES-CTOR")

	// ---- C16-MEMO
	if force := c.mustFn("C16-MEMO", "SexpLazyArg.Force"); force != nil {
		forced := c.mustField("C16-MEMO", "SexpLazyArg", "Forced")
		value := c.mustField("C16-MEMO", "SexpLazyArg", "Value")
		if forced != nil && value != nil {
			memo := 0
			events := c.lazyMemoEvents(force)
			for _, r := range returnsOf(force) {
				if !nilErrorValue(r.Results[1]) {
					continue
				}
				b := r.Block()
				storesForced, storesValue := false, false
				for _, ev := range events {
					if ev.in.Block() == b {
						storesForced = storesForced || ev.forced
						storesValue = storesValue || ev.storesVal
					}
				}
				if !storesForced && !storesValue {
					// must be the memo return: value loaded from lazy.Value under Forced==true
					_, isVal := loadOfField(r.Results[0], value)
					g := guardedBy(b, func(cond ssa.Value) (bool, bool) {
						_, ok := loadOfField(cond, forced)
						return ok, true
					})
					if isVal && g {
						memo++
						c.ok("C16-MEMO", "SexpLazyArg.Force", "memo return", r.Pos(), "a forced argument returns its stored value without evaluating")
						continue
					}
				}
				c.check(storesForced && storesValue, "C16-MEMO", "SexpLazyArg.Force", "success return", r.Pos(), "value and forced flag are stored before a successful return",
					"a successful force does not record both the value and the forced flag: the argument is evaluated again on the next force")
			}
			if memo != 1 {
				c.bad("C16-MEMO", "SexpLazyArg.Force", "memo return", force.Pos(), "Force has no path that returns the memoised value under the forced flag")
			}
			c.checkForcedOnlyOnSuccess("C16-MEMO")
		}
		// ---- C16-ENV
		stackF := c.field("SexpLazyArg", "Stack")
		curF := c.field("SexpLazyArg", "CurFunc")
		linear := c.field("Zlisp", "linearstack")
		curfunc := c.field("Zlisp", "curfunc")
		parent := c.field("SexpFunction", "parent")
		capF := c.fn("Zlisp.captureControlState")
		captures := map[*types.Var]bool{}
		eachInstr(newSrc, func(b *ssa.BasicBlock, i int, in ssa.Instruction) {
			if st, ok := in.(*ssa.Store); ok {
				if fa, ok := st.Addr.(*ssa.FieldAddr); ok {
					switch faField(fa) {
					case stackF:
						if call, ok := st.Val.(*ssa.Call); ok && call.Call.StaticCallee() != nil && call.Call.StaticCallee().Name() == "Clone" {
							if _, ok := loadOfField(call.Call.Args[0], linear); ok {
								captures[stackF] = true
							}
						}
					case curF:
						if _, ok := loadOfField(st.Val, curfunc); ok {
							captures[curF] = true
						}
					}
				}
			}
		})
		c.check(captures[stackF] && captures[curF], "C16-ENV", "NewSourceLazyArg", "captures scope stack and current function", newSrc.Pos(),
			"the wrapper keeps a clone of the caller's scope stack and the caller's function", "the source wrapper does not capture both the caller's scope stack and current function")
		installsStack, installsParent := false, false
		eachInstr(force, func(b *ssa.BasicBlock, i int, in ssa.Instruction) {
			st, ok := in.(*ssa.Store)
			if !ok {
				return
			}
			fa, ok := st.Addr.(*ssa.FieldAddr)
			if !ok {
				return
			}
			if faField(fa) == linear {
				if call, ok := st.Val.(*ssa.Call); ok && call.Call.StaticCallee() != nil && call.Call.StaticCallee().Name() == "Clone" {
					if _, ok := loadOfField(call.Call.Args[0], stackF); ok {
						// after the capture
						for _, cc := range callsOf(force, capF) {
							if dominatesInstr(cc.(ssa.Instruction), in) {
								installsStack = true
							}
						}
					}
				}
			}
			if faField(fa) == parent {
				if _, ok := loadOfField(st.Val, curF); ok {
					installsParent = true
				}
			}
		})
		c.check(installsStack && installsParent, "C16-ENV", "SexpLazyArg.Force", "installs captured environment", force.Pos(),
			"forcing runs on a clone of the captured scope stack (installed after the control state was captured) with the captured function as parent",
			"forcing does not install the captured scope stack / function: the argument would be evaluated in the callee's environment")
	}

	// ---- C16-SUBST
	if sub := c.mustFn("C16-SUBST", "SubstituteFunction"); sub != nil {
		force := c.fn("SexpLazyArg.Force")
		reach := staticReach(sub)
		dyn := 0
		eachInstr(sub, func(b *ssa.BasicBlock, i int, in ssa.Instruction) {
			if ci, ok := in.(ssa.CallInstruction); ok {
				if ci.Common().StaticCallee() == nil {
					if _, isB := ci.Common().Value.(*ssa.Builtin); !isB {
						dyn++
					}
				}
			}
		})
		c.check(!reach[force] && dyn == 0, "C16-SUBST", "SubstituteFunction", "does not force", sub.Pos(), "recovering the source expression cannot evaluate it", "substitute can reach Force (or makes a dynamic call): recovering the source would evaluate the argument")
	}
}

// checkForcedOnlyOnSuccess: the memo of a lazy argument outlives the evaluation that fills it.
func (c *Ctx) checkForcedOnlyOnSuccess(rule string) {
	force := c.fn("SexpLazyArg.Force")
	forced := c.field("SexpLazyArg", "Forced")
	if force == nil || forced == nil {
		c.undecided(rule, "SexpLazyArg.Force", "marked forced only on success", token.NoPos, "Force / Forced not found")
		return
	}
	for _, ev := range c.lazyMemoEvents(force) {
		if !ev.forced {
			continue
		}
		b := ev.in.Block()
		okOnly := true
		reach := reachableAvoiding(b, func(*ssa.BasicBlock) bool { return false })
		reach[b] = true
		for _, r := range returnsOf(force) {
			if reach[r.Block()] && len(r.Results) == 2 && !nilErrorValue(r.Results[1]) {
				okOnly = false
			}
		}
		c.check(okOnly, rule, "SexpLazyArg.Force", "marked forced only on success", ev.in.Pos(),
			"every return that follows the store of the forced flag carries a nil error",
			"the promise is marked forced on a path that can still return an error: a failed force is memoised as a value, so forcing the same promise again succeeds silently instead of raising the error again or re-evaluating")
	}
}

// checkRegisteredBeforeBody: a function is known to the compiler before its own body is compiled.
// checkTailArgsForSelf: the tail jump re-enters the function being compiled, so its arguments have
// to be prepared for that function's parameters. knownFunctions is keyed by the bare name and is
// overwritten by any later definition of the same name (a nested defn in a lambda that is never
// called is enough); the argument preparation of the tail path must take the function from the
// generator's own record of what it is compiling, not from the by-name table alone.
func (c *Ctx) checkTailArgsForSelf(rule string) {
	call := c.mustFn(rule, "Generator.GenerateCallBySymbol")
	prepArgs := c.mustFn(rule, "Generator.GenerateCallArgsForFunction")
	lookup := c.fn("Generator.LookupKnownFunction")
	if call == nil || prepArgs == nil {
		return
	}
	for _, site := range callsOf(call, prepArgs) {
		args := site.Common().Args
		if len(args) < 2 {
			continue
		}
		byNameOnly := true
		for _, leaf := range phiLeaves(args[1]) {
			if cl, ok := leaf.(*ssa.Call); ok && lookup != nil && cl.Call.StaticCallee() == lookup {
				continue
			}
			byNameOnly = false
		}
		c.check(!byNameOnly, rule, "Generator.GenerateCallBySymbol", "tail-call arguments prepared for the function being compiled", site.Pos(),
			"the function handed to the argument preparation comes from the generator's record of the function it is compiling (the by-name table is only a fallback)",
			"the arguments of the tail self-call are prepared for whatever knownFunctions holds under the callee's name: a nested definition of the same name compiled earlier (even inside a lambda that is never called) decides which arguments are wrapped lazily, while the jump lands in the function being compiled; a strict parameter receives an unevaluated promise, or a lazy one is evaluated")
	}
}

func (c *Ctx) checkRegisteredBeforeBody(rule string) {
	known := c.field("Generator", "knownFunctions")
	fname := c.field("Generator", "funcname")
	if known == nil || fname == nil {
		c.undecided(rule, "Generator", "anchor", token.NoPos, "Generator.knownFunctions / funcname not found")
		return
	}
	selfF := c.field("Generator", "self")
	if selfF != nil && !c.tailArgsFromSelf() {
		selfF = nil // the record exists but the tail path does not read it: only the by-name table counts
	}
	// the routines that compile a named function's body with self-call recognition: they store the
	// function's name into Generator.funcname and then generate the body
	n := 0
	for _, f := range c.zygoFuncs() {
		if f.Parent() != nil {
			continue
		}
		namesSelf := false
		var regs, bodies []ssa.Instruction
		eachInstr(f, func(b *ssa.BasicBlock, i int, in ssa.Instruction) {
			switch x := in.(type) {
			case *ssa.Store:
				// the generator's own record of the function it compiles serves the same purpose as the
				// by-name table when the tail path reads it (C16-SELFARGS decides that it does)
				if fa, ok := x.Addr.(*ssa.FieldAddr); ok && selfF != nil && faField(fa) == selfF {
					if k, isConst := x.Val.(*ssa.Const); !isConst || k.Value != nil {
						regs = append(regs, in)
					}
				}
				if fa, ok := x.Addr.(*ssa.FieldAddr); ok && faField(fa) == fname {
					_, copied := loadOfField(x.Val, fname) // a sub-generator inherits the name: not a new function
					if k, isConst := x.Val.(*ssa.Const); !copied && (!isConst || (k.Value != nil && constant.StringVal(k.Value) != "")) {
						namesSelf = true
					}
				}
			case *ssa.MapUpdate:
				if derivesFromField(x.Map, known, 0) {
					regs = append(regs, in)
				}
			case *ssa.Call:
				if g := x.Call.StaticCallee(); g != nil && (fnName(g) == "Generator.GenerateBegin" || fnName(g) == "Generator.Generate" || fnName(g) == "Generator.GenerateAll") {
					bodies = append(bodies, in)
				}
			}
		})
		if !namesSelf || len(bodies) == 0 {
			continue
		}
		n++
		ok := len(regs) > 0
		for _, bd := range bodies {
			dominated := false
			for _, r := range regs {
				// registration under `if len(name) > 0`: the guard block's branch dominates, the body is after the join
				if dominatesInstr(r, bd) || (blockReaches(r.Block(), bd.Block()) && !blockReaches(bd.Block(), r.Block())) {
					dominated = true
				}
			}
			if !dominated {
				ok = false
			}
		}
		c.check(ok, rule, fnName(f), "registered before its body is compiled", bodies[0].Pos(),
			"the function (with its lazy formals) is known to the generator (its own record, or knownFunctions) when its body is compiled: a self call marshals its arguments for this definition",
			"the routine names the function for self-call recognition and compiles its body, but the function is not known to the generator at that time (neither recorded as the function being compiled nor in knownFunctions; it is registered afterwards or not at all): a self call in the body finds no definition, or a previous one of that name, so arguments for lazy formals are compiled eagerly (or strict ones lazily) and the compile-time and run-time marshalling disagree")
	}
	if n < 2 {
		c.undecided(rule, "package", "routines that compile a named function body", token.NoPos, fmt.Sprintf("only %d found (buildSexpFun and FuncBuilder confirmed by reading)", n))
	}
}

// checkArgsReadAtCall: C16-DOT. A dot-symbol (h.x) or a selector evaluates to
// itself: it names a location, which a Go builtin such as = needs. A compiled
// function binds its parameter to the value; if the location is only read when
// the callee binds or consumes it, the read happens in the callee's scopes and
// after the later arguments' side effects. The rule: (a) the value the run-time
// argument preparation pushes for a compiled function has passed through
// RValue in the preparation itself; (b) the value a forced lazy argument
// memoises has passed through RValue before the caller's scopes are put away.
func (c *Ctx) checkArgsReadAtCall(rule string) {
	prep := c.mustFn(rule, "Zlisp.PrepareCallExprArgs")
	force := c.mustFn(rule, "SexpLazyArg.Force")
	rv := c.mustFn(rule, "Zlisp.RValue")
	eval := c.mustFn(rule, "Zlisp.EvalCallExpression")
	push := c.mustFn(rule, "Stack.PushExpr")
	valF := c.mustField(rule, "SexpLazyArg", "Value")
	userF := c.mustField(rule, "SexpFunction", "user")
	if prep == nil || force == nil || rv == nil || eval == nil || push == nil || valF == nil || userF == nil {
		return
	}
	throughRV := func(v ssa.Value) bool {
		for _, leaf := range phiLeaves(v) {
			if ex, ok := leaf.(*ssa.Extract); ok {
				if call, ok := ex.Tuple.(*ssa.Call); ok && call.Call.StaticCallee() == rv {
					return true
				}
			}
		}
		return false
	}
	// (a)
	okA, posA := false, prep.Pos()
	eachInstr(prep, func(b *ssa.BasicBlock, i int, in ssa.Instruction) {
		call, ok := in.(*ssa.Call)
		if !ok || call.Call.StaticCallee() != push || len(call.Call.Args) < 2 {
			return
		}
		arg := call.Call.Args[1]
		// the strict route: the pushed value comes from EvalCallExpression
		fromEval := false
		var walk func(v ssa.Value, d int)
		seen := map[ssa.Value]bool{}
		walk = func(v ssa.Value, d int) {
			if seen[v] || d > 6 {
				return
			}
			seen[v] = true
			switch x := v.(type) {
			case *ssa.Phi:
				for _, e := range x.Edges {
					walk(e, d+1)
				}
			case *ssa.Extract:
				if cl, ok := x.Tuple.(*ssa.Call); ok {
					if cl.Call.StaticCallee() == eval {
						fromEval = true
					}
					if cl.Call.StaticCallee() == rv && len(cl.Call.Args) >= 2 {
						walk(cl.Call.Args[1], d+1)
					}
				}
			}
		}
		walk(arg, 0)
		if !fromEval {
			return
		}
		posA = call.Pos()
		okA = throughRV(arg)
	})
	c.check(okA, rule, "Zlisp.PrepareCallExprArgs", "argument of a compiled function read at the call", posA,
		"the evaluated argument passes through RValue before it is pushed for a compiled function",
		"an evaluated argument is pushed as it is: a dot-symbol argument (h.x) reaches a compiled function as a bare symbol and is dereferenced when the callee binds its parameter, in the callee's scopes and after the side effects of the later arguments; (pair h.x (begin (hset h x: 50) 3)) gives (50 3), and a caller-local hash is not found")
	// the RValue call must not be made for Go builtins, which take the location itself
	if okA {
		guarded := false
		for _, site := range callsOf(prep, rv) {
			if guardedBy(site.Block(), func(cond ssa.Value) (bool, bool) {
				if _, ok := loadOfField(cond, userF); ok {
					return true, false
				}
				return false, false
			}) {
				guarded = true
			}
		}
		c.check(guarded, rule, "Zlisp.PrepareCallExprArgs", "locations kept for Go builtins", posA,
			"the read is made only when the callee is not a Go builtin", "the read is also made for Go builtins, which need the location itself: (= h.x 3) would receive the old value instead of the place to assign")
	}
	// (c) the tail-call preparation is the third place that hands arguments to a compiled function: they were pushed
	// by compiled code (a dot-symbol pushes itself) and the scopes of the call are removed right after it
	if tprep := c.fn("PrepareCallInstr.execute"); tprep != nil {
		// RValue applied to what was popped off the data stack (directly or in a helper called from here)
		reads := false
		popN := c.fn("Stack.PopExpressions")
		for _, g := range append([]*ssa.Function{tprep}, directCallees(tprep)...) {
			if len(callsOf(g, rv)) > 0 && popN != nil && len(callsOf(g, popN)) > 0 {
				reads = true
			}
		}
		c.check(reads, rule, "PrepareCallInstr.execute", "arguments of the tail call read in the scopes of the call", tprep.Pos(),
			"the tail-call preparation passes the pushed arguments through RValue before the scopes of the iteration are removed",
			"the tail-call preparation leaves a dot-symbol argument as the bare symbol: it is dereferenced when the next iteration binds its parameters, after the scopes of the call have been removed, so (f (- n 1) h.x) with a let-local h fails with 'symbol h not found' although the same call out of tail position works")
	}
	// (b)
	okB, nStore := true, 0
	for _, ev := range c.lazyMemoEvents(force) {
		if !ev.storesVal || ev.val == nil {
			continue
		}
		// records of a computed result (not the nil/empty short cuts)
		if k, isConst := ev.val.(*ssa.Const); isConst && k.Value == nil {
			continue
		}
		sv := ev.val
		if mi, ok := sv.(*ssa.MakeInterface); ok {
			sv = mi.X
		}
		if ld, isLoad := sv.(*ssa.UnOp); isLoad {
			if _, isGlobal := ld.X.(*ssa.Global); isGlobal {
				continue // lazy.Value = SexpNull
			}
		}
		nStore++
		// (the result is a phi of the value before and after the read; the side that skipped the read returns the error)
		if !throughRV(ev.val) {
			okB = false
		}
	}
	c.check(nStore > 0 && okB, rule, "SexpLazyArg.Force", "forced value read in the scopes of the call", force.Pos(),
		"the value memoised by Force has passed through RValue", "Force memoises what the argument expression evaluated to as it is: for a dot-symbol argument that is the symbol itself, which is then dereferenced wherever it is consumed, in the receiver's scopes")
}

// checkNamedLaziness: C16-NAMED. A typed func may be called with named
// arguments (name: value ...); which parameter a value is bound to is then
// decided by its label, after the arguments have been prepared. The run-time
// preparation decides laziness while it walks the raw argument list, so the
// index it asks IsLazyCallArg about must be the parameter's index, obtained
// from a routine that looks at the labels (colonTail) and the declared
// parameter names (inputTypes), not the position in the call.
func (c *Ctx) checkNamedLaziness(rule string) {
	prep := c.mustFn(rule, "Zlisp.PrepareCallExprArgs")
	isLazy := c.mustFn(rule, "SexpFunction.IsLazyCallArg")
	colon := c.mustField(rule, "SexpSymbol", "colonTail")
	inTypes := c.mustField(rule, "SexpFunction", "inputTypes")
	if prep == nil || isLazy == nil || colon == nil || inTypes == nil {
		return
	}
	sites := callsOf(prep, isLazy)
	if len(sites) == 0 {
		c.undecided(rule, "Zlisp.PrepareCallExprArgs", "laziness test", prep.Pos(), "no call of IsLazyCallArg in the run-time argument preparation")
		return
	}
	for _, site := range sites {
		args := site.Common().Args
		idx := args[len(args)-1]
		okIdx := false
		if call, isCall := idx.(*ssa.Call); isCall {
			if g := call.Call.StaticCallee(); g != nil {
				readsColon, readsTypes := false, false
				eachInstr(g, func(b *ssa.BasicBlock, i int, in ssa.Instruction) {
					if fa, ok := in.(*ssa.FieldAddr); ok {
						if faField(fa) == colon {
							readsColon = true
						}
						if faField(fa) == inTypes {
							readsTypes = true
						}
					}
				})
				okIdx = readsColon && readsTypes
			}
		}
		c.check(okIdx, rule, "Zlisp.PrepareCallExprArgs", "laziness decided for the parameter a value is bound to", site.Pos(),
			"the index asked about comes from a routine that pairs labels with declared parameter names",
			"laziness is decided by the position of the expression in the call: in a call with named arguments (f #a: (bump) b: 5) position 1 is the value of the first label, not parameter 1, so the value of a lazy parameter is evaluated before the call and the value of a strict one is wrapped unevaluated (and then fails the type check)")
	}
}

// tailArgsFromSelf: the argument preparation of the tail path takes its function from something other than the by-name table.
func (c *Ctx) tailArgsFromSelf() bool {
	call := c.fn("Generator.GenerateCallBySymbol")
	prepArgs := c.fn("Generator.GenerateCallArgsForFunction")
	lookup := c.fn("Generator.LookupKnownFunction")
	selfF := c.field("Generator", "self")
	if call == nil || prepArgs == nil || selfF == nil {
		return false
	}
	ok := false
	for _, site := range callsOf(call, prepArgs) {
		args := site.Common().Args
		if len(args) < 2 {
			continue
		}
		for _, leaf := range phiLeaves(args[1]) {
			if cl, isCall := leaf.(*ssa.Call); isCall && lookup != nil && cl.Call.StaticCallee() == lookup {
				continue
			}
			if _, fromSelf := loadOfField(leaf, selfF); fromSelf {
				ok = true
			}
		}
	}
	return ok
}

func directCallees(f *ssa.Function) []*ssa.Function {
	seen := map[*ssa.Function]bool{}
	var out []*ssa.Function
	eachInstr(f, func(b *ssa.BasicBlock, i int, in ssa.Instruction) {
		if ci, ok := in.(ssa.CallInstruction); ok {
			if g := ci.Common().StaticCallee(); g != nil && fnPkgPath(g) == zygoPath && !seen[g] {
				seen[g] = true
				out = append(out, g)
			}
		}
	})
	return out
}


// memoEvent: a place in Force (or wherever) where the promise records its result: a direct store
// into lazy.Value / lazy.Forced, or a call of a small method of the promise that does both.
type memoEvent struct {
	in        ssa.Instruction
	val       ssa.Value // the value recorded (nil when only the flag is stored)
	forced    bool      // stores Forced = true
	storesVal bool
}

// memoHelperParam: g is a method of the promise that stores Forced = true and Value = one of its
// parameters, and returns a nil error on every path; it reports the index of that parameter.
func (c *Ctx) memoHelperParam(g *ssa.Function) (int, bool) {
	forced := c.field("SexpLazyArg", "Forced")
	value := c.field("SexpLazyArg", "Value")
	lazyT := c.named("SexpLazyArg")
	if g == nil || forced == nil || value == nil || lazyT == nil || len(g.Blocks) == 0 || !isMethodOf(g, lazyT) || len(g.Blocks) > 3 {
		return 0, false
	}
	idx, setsForced := -1, false
	eachInstr(g, func(b *ssa.BasicBlock, i int, in ssa.Instruction) {
		st, ok := in.(*ssa.Store)
		if !ok {
			return
		}
		fa, ok := st.Addr.(*ssa.FieldAddr)
		if !ok || fa.X != ssa.Value(g.Params[0]) {
			return
		}
		switch faField(fa) {
		case forced:
			if k, ok := st.Val.(*ssa.Const); ok && k.Value != nil && k.Value.String() == "true" {
				setsForced = true
			}
		case value:
			for pi, p := range g.Params {
				if st.Val == ssa.Value(p) {
					idx = pi
				}
			}
		}
	})
	if idx < 0 || !setsForced {
		return 0, false
	}
	if ei := errResultIndex(g.Signature); ei >= 0 {
		for _, r := range returnsOf(g) {
			if !isNilConst(r.Results[ei]) {
				return 0, false
			}
		}
	}
	return idx, true
}

func (c *Ctx) lazyMemoEvents(f *ssa.Function) []memoEvent {
	forced := c.field("SexpLazyArg", "Forced")
	value := c.field("SexpLazyArg", "Value")
	var out []memoEvent
	eachInstr(f, func(b *ssa.BasicBlock, i int, in ssa.Instruction) {
		switch x := in.(type) {
		case *ssa.Store:
			fa, ok := x.Addr.(*ssa.FieldAddr)
			if !ok {
				return
			}
			switch faField(fa) {
			case forced:
				if k, ok := x.Val.(*ssa.Const); ok && k.Value != nil && k.Value.String() == "true" {
					out = append(out, memoEvent{in: in, forced: true})
				}
			case value:
				if value != nil {
					out = append(out, memoEvent{in: in, val: x.Val, storesVal: true})
				}
			}
		case *ssa.Call:
			if pi, ok := c.memoHelperParam(x.Call.StaticCallee()); ok && pi < len(x.Call.Args) {
				out = append(out, memoEvent{in: in, val: x.Call.Args[pi], forced: true, storesVal: true})
			}
		}
	})
	return out
}

// nilErrorValue: v is the nil constant, or the error result of a call whose callee returns a nil error on every path.
func nilErrorValue(v ssa.Value) bool {
	if isNilConst(v) {
		return true
	}
	ex, ok := v.(*ssa.Extract)
	if !ok {
		return false
	}
	call, ok := ex.Tuple.(*ssa.Call)
	if !ok {
		return false
	}
	g := call.Call.StaticCallee()
	if g == nil || len(g.Blocks) == 0 || errResultIndex(g.Signature) != ex.Index {
		return false
	}
	for _, r := range returnsOf(g) {
		if !isNilConst(r.Results[ex.Index]) {
			return false
		}
	}
	return true
}
