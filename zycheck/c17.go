package main

// C17 — declared struct types are enforced on every write.

import (
	"fmt"
	"go/constant"
	"go/token"
	"go/types"

	"golang.org/x/tools/go/ssa"
)

func checkC17(c *Ctx) {
	c.explainf("C17 decides: every write route funnels through HashSet (the bucket map is written only by HashSet / HashDelete / CloneFrom / MakeHash); in HashSet the field type check dominates every mutation and, on an error other than the not-a-symbol sentinel, the routine returns that error before any mutation; in the checker an unknown field name and a type mismatch (apart from the empty-slice exception) reach an error return; MakeHash type-checks the whole record of a declared struct and returns the error; writing through a pointer copies a record only under the type-identity test; re-binding a typed variable stores only under an acceptance test and otherwise ends in an error. The routine that reports the type of an instance and the routine that builds an instance are examined for look-ups of the definition by name in the package-level registry (C17-IDENT). It does not decide that the type comparison is right for every field type, nor redefinition semantics.")
	c.checkDefinitionByName("C17-IDENT")
	c.checkDerivedTypeKeys("C17-DERIVED")
	Map := c.mustField("C17-WM", "SexpHash", "Map")
	KeyOrder := c.field("SexpHash", "KeyOrder")
	NumKeys := c.field("SexpHash", "NumKeys")
	set := c.mustFn("C17-DOM", "SexpHash.HashSet")
	tcf := c.mustFn("C17-DOM", "SexpHash.TypeCheckField")
	if Map == nil || set == nil || tcf == nil {
		return
	}
	// ---- C17-WM
	allowed := map[string]bool{"SexpHash.HashSet": true, "SexpHash.HashDelete": true, "SexpHash.CloneFrom": true, "MakeHash": true}
	for _, w := range c.fieldWrites(Map) {
		c.check(allowed[fnName(w.fn)], "C17-WM", fnName(w.fn), w.kind+" Map", w.in.Pos(), "bucket map written by the set/delete/clone/constructor routines only",
			"the bucket map of a hash is written outside HashSet/HashDelete/CloneFrom/MakeHash: a write route that bypasses the field type check")
	}

	// ---- C17-DOM
	isMutation := func(in ssa.Instruction) bool {
		switch x := in.(type) {
		case *ssa.MapUpdate:
			return derivesFromField(x.Map, Map, 0)
		case *ssa.Store:
			if fa, ok := x.Addr.(*ssa.FieldAddr); ok {
				f := faField(fa)
				return f == Map || f == KeyOrder || f == NumKeys
			}
			if _, ok := x.Addr.(*ssa.IndexAddr); ok {
				// element store into a bucket slice ([]*SexpPair)
				if sl, ok := x.Addr.(*ssa.IndexAddr).X.Type().Underlying().(*types.Slice); ok {
					if pt, ok := sl.Elem().(*types.Pointer); ok {
						if n, ok := pt.Elem().(*types.Named); ok && n.Obj().Name() == "SexpPair" {
							return true
						}
					}
				}
			}
		}
		return false
	}
	calls := callsOf(set, tcf)
	if len(calls) != 1 {
		c.bad("C17-DOM", "SexpHash.HashSet", "call TypeCheckField", set.Pos(), "HashSet does not call the field type check exactly once")
	} else {
		tc := calls[0].(*ssa.Call)
		// the key that is checked is the key that is stored: same value as the one hashed / consed
		{
			checked := tc.Call.Args[1]
			hashExpr := c.fn("HashExpression")
			consF := c.fn("Cons")
			n, same := 0, true
			var where token.Pos
			eachInstr(set, func(b *ssa.BasicBlock, i int, in ssa.Instruction) {
				call, ok := in.(*ssa.Call)
				if !ok {
					return
				}
				var used ssa.Value
				switch call.Call.StaticCallee() {
				case hashExpr:
					if hashExpr != nil && len(call.Call.Args) >= 2 {
						used = call.Call.Args[1]
					}
				case consF:
					if consF != nil && len(call.Call.Args) >= 1 {
						used = call.Call.Args[0]
					}
				}
				if used == nil {
					return
				}
				n++
				if used != checked {
					same = false
					where = call.Pos()
				}
			})
			if n == 0 {
				c.undecided("C17-DOM", "SexpHash.HashSet", "checked key is the stored key", set.Pos(), "the hashing / pairing of the key was not found")
			} else {
				if !where.IsValid() {
					where = tc.Pos()
				}
				c.check(same, "C17-DOM", "SexpHash.HashSet", "checked key is the stored key", where,
					"the value handed to the field type check is the very value that is hashed and stored",
					"the key that is hashed and stored is not the value that was handed to the field type check (it is rewritten in between, e.g. a one-element array unwrapped to its symbol): the check sees a non-symbol key, is skipped, and the write lands on a declared field unchecked")
			}
		}
		nMut := 0
		eachInstr(set, func(b *ssa.BasicBlock, i int, in ssa.Instruction) {
			if !isMutation(in) {
				return
			}
			nMut++
			c.check(dominatesInstr(tc, in), "C17-DOM", "SexpHash.HashSet", "mutation after type check", in.Pos(),
				"the field type check dominates this mutation", "a hash is modified on a path that has not passed the field type check")
		})
		if nMut < 5 {
			c.undecided("C17-DOM", "SexpHash.HashSet", "mutations", set.Pos(), "fewer mutations than confirmed by reading (bucket create, replace, append, order, count)")
		}
		// error branch: returns the error, mutates nothing
		_, tests := errConsumed(tc, map[ssa.Value]bool{})
		okBranch := false
		for _, iff := range tests {
			bo := iff.Cond.(*ssa.BinOp)
			if !isNilConst(bo.Y) && !isNilConst(bo.X) {
				continue
			}
			nonNil := iff.Block().Succs[0]
			if bo.Op == token.EQL {
				nonNil = iff.Block().Succs[1]
			}
			returnsErr, mutates := false, false
			for _, b := range set.Blocks {
				if !nonNil.Dominates(b) {
					continue
				}
				for _, in := range b.Instrs {
					if isMutation(in) {
						mutates = true
					}
					if r, ok := in.(*ssa.Return); ok && len(r.Results) == 1 && r.Results[0] == ssa.Value(tc) {
						returnsErr = true
					}
				}
			}
			if returnsErr && !mutates {
				okBranch = true
			}
		}
		c.check(okBranch, "C17-DOM", "SexpHash.HashSet", "reject before mutating", tc.Pos(),
			"on a type error the routine returns it and the branch contains no mutation: the instance is unchanged",
			"the type-check error is not returned before the hash is modified (the instance changes, or the error is ignored)")
		// the tolerated sentinel is KeyNotSymbol only
		sentinel := c.SZygo.Var("KeyNotSymbol")
		tolerated := 0
		for _, r := range nonDebugRefs(tc) {
			if bo, ok := r.(*ssa.BinOp); ok && (bo.Op == token.NEQ || bo.Op == token.EQL) {
				if u, ok := bo.Y.(*ssa.UnOp); ok && u.X == ssa.Value(sentinel) {
					tolerated++
				} else if !isNilConst(bo.Y) {
					c.bad("C17-DOM", "SexpHash.HashSet", "tolerated error", bo.Pos(), "the type-check error is compared with something other than nil / KeyNotSymbol")
				}
			}
		}
		c.check(tolerated == 1, "C17-DOM", "SexpHash.HashSet", "tolerated error", tc.Pos(), "only the not-a-symbol sentinel is tolerated", "the set of tolerated type-check errors changed")
	}

	// ---- C17-CMP: inside TypeCheckField
	{
		fieldType := c.mustField("C17-CMP", "RecordDefn", "FieldType")
		nMiss, nMismatch := 0, 0
		if fieldType != nil {
			eachInstr(tcf, func(b *ssa.BasicBlock, i int, in ssa.Instruction) {
				iff, ok := in.(*ssa.If)
				if !ok {
					return
				}
				// (1) lookup miss: `declaredTyp, ok := FieldType[k]; if !ok`
				if ex, ok := stripNotV(iff.Cond).(*ssa.Extract); ok && ex.Index == 1 {
					if lk, ok := ex.Tuple.(*ssa.Lookup); ok && derivesFromField(lk.X, fieldType, 0) {
						nMiss++
						miss := b.Succs[1]
						if _, neg := stripNot(iff.Cond); neg {
							miss = b.Succs[0]
						}
						c.check(allReturnsError(tcf, miss), "C17-CMP", "SexpHash.TypeCheckField", "unknown field", iff.Pos(),
							"a field that was not declared ends in an error", "an undeclared field name does not lead to an error return")
					}
				}
				// (2) observed != declared
				if bo, ok := iff.Cond.(*ssa.BinOp); ok && bo.Op == token.NEQ {
					if isRegisteredTypePtr(bo.X.Type()) && isRegisteredTypePtr(bo.Y.Type()) && !isNilConst(bo.X) && !isNilConst(bo.Y) {
						nMismatch++
						// every path from the mismatch branch to a nil-error return must take the
						// true edge of a strings.HasPrefix test (the empty-slice exception)
						okAll := true
						isPrefixIf := func(x *ssa.BasicBlock) bool {
							cond, _, _ := condBranch(x)
							if cond == nil {
								return false
							}
							call, ok := cond.(*ssa.Call)
							if !ok {
								return false
							}
							callee := call.Call.StaticCallee()
							if callee == nil || fnPkgPath(callee) != "strings" || callee.Name() != "HasPrefix" || len(call.Call.Args) != 2 {
								return false
							}
							// the exception is exactly: observed type is the empty slice "[]" and the declared name starts with "[]"
							isEmptySliceName := func(v ssa.Value) bool {
								k, ok := v.(*ssa.Const)
								return ok && k.Value != nil && k.Value.Kind() == constant.String && constant.StringVal(k.Value) == "[]"
							}
							if !isEmptySliceName(call.Call.Args[1]) {
								return false
							}
							return guardedBy(x, func(cond ssa.Value) (bool, bool) {
								bo, ok := cond.(*ssa.BinOp)
								if !ok || (bo.Op != token.EQL && bo.Op != token.NEQ) {
									return false, false
								}
								if !isEmptySliceName(bo.Y) && !isEmptySliceName(bo.X) {
									return false, false
								}
								return true, bo.Op == token.EQL
							})
						}
						seen := map[*ssa.BasicBlock]bool{b.Succs[0]: true}
						work := []*ssa.BasicBlock{b.Succs[0]}
						for len(work) > 0 {
							x := work[len(work)-1]
							work = work[:len(work)-1]
							for _, in := range x.Instrs {
								if r, ok := in.(*ssa.Return); ok && isNilConst(r.Results[0]) {
									okAll = false
								}
							}
							for k, sx := range x.Succs {
								if k == 0 && isPrefixIf(x) {
									continue // the exception edge
								}
								if !seen[sx] {
									seen[sx] = true
									work = append(work, sx)
								}
							}
						}
						c.check(okAll, "C17-CMP", "SexpHash.TypeCheckField", "type mismatch", iff.Pos(),
							"observed != declared ends in an error except for the empty-slice-to-typed-slice exception",
							"a value whose type differs from the declared field type can be accepted without the empty-slice exception")
					}
				}
			})
		}
		if nMiss != 1 || nMismatch != 1 {
			c.undecided("C17-CMP", "SexpHash.TypeCheckField", "shape", tcf.Pos(), "expected one declared-field lookup and one type inequality test")
		}
	}

	// ---- C17-DECL: a struct type is never registered without its definition
	if sb := c.mustFn("C17-DECL", "StructBuilder"); sb != nil {
		defn := c.field("RegisteredType", "UserStructDefn")
		n := 0
		for reg, argIdx := range c.registrationFns() {
			if defn == nil {
				break
			}
			for _, ci := range callsOf(sb, reg) {
				n++
				rt := ci.Common().Args[argIdx]
				has := false
				eachInstr(sb, func(b *ssa.BasicBlock, i int, in ssa.Instruction) {
					st, ok := in.(*ssa.Store)
					if !ok {
						return
					}
					fa, ok := st.Addr.(*ssa.FieldAddr)
					if !ok || faField(fa) != defn || fa.X != rt || isNilConst(st.Val) {
						return
					}
					if dominatesInstr(st, ci.(ssa.Instruction)) {
						has = true
					}
				})
				c.check(has, "C17-DECL", "StructBuilder", "registered with its definition", ci.Pos(),
					"the type put into the registry already carries its field definitions",
					"a struct type is put into the global registry without a definition: if the declaration then fails (a bad field), the placeholder stays, TypeCheckField finds no definition for records of that name and accepts every field and value")
			}
		}
		if n < 2 {
			c.undecided("C17-DECL", "StructBuilder", "registered with its definition", sb.Pos(), "fewer registrations than confirmed by reading (placeholder and final)")
		}
	}

	// ---- C17-CLONE: overwriting a record through a pointer carries the definition its fields are checked against
	if cf := c.mustFn("C17-CLONE", "SexpHash.CloneFrom"); cf != nil && len(cf.Params) >= 2 {
		hashT := c.named("SexpHash")
		// fields of the receiver that TypeCheckField reads
		reads := map[*types.Var]bool{}
		if hashT != nil && len(tcf.Params) > 0 {
			eachInstr(tcf, func(b *ssa.BasicBlock, i int, in ssa.Instruction) {
				if fa, ok := in.(*ssa.FieldAddr); ok && fa.X == ssa.Value(tcf.Params[0]) {
					reads[faField(fa)] = true
				}
			})
		}
		copied := map[*types.Var]bool{}
		eachInstr(cf, func(b *ssa.BasicBlock, i int, in ssa.Instruction) {
			if st, ok := in.(*ssa.Store); ok {
				if fa, ok := st.Addr.(*ssa.FieldAddr); ok && fa.X == ssa.Value(cf.Params[0]) {
					copied[faField(fa)] = true
				}
			}
		})
		n := 0
		for fld := range reads {
			n++
			c.check(copied[fld], "C17-CLONE", "SexpHash.CloneFrom", "copies "+fld.Name(), cf.Pos(),
				"the field the type check consults travels with the record's contents",
				"CloneFrom replaces a record's contents but not "+fld.Name()+", which TypeCheckField consults: after a redeclaration, a record overwritten through a pointer holds the new definition's fields while later writes are checked against the old one (declared fields rejected, stale ones accepted)")
		}
		if n == 0 {
			c.undecided("C17-CLONE", "SexpHash.CloneFrom", "fields read by the type check", cf.Pos(), "TypeCheckField reads no field of its receiver")
		}
	}

	// ---- C17-KEY: a key that cannot name a field is an error for an instance of a declared struct
	{
		symT := c.named("SexpSymbol")
		found := false
		var okVal ssa.Value
		eachInstr(tcf, func(b *ssa.BasicBlock, i int, in ssa.Instruction) {
			if ta, ok := in.(*ssa.TypeAssert); ok && ta.CommaOk && len(tcf.Params) > 1 && ta.X == ssa.Value(tcf.Params[1]) {
				if nm, ok := derefNamed(ta.AssertedType); ok && nm == symT {
					for _, r := range *ta.Referrers() {
						if ex, ok := r.(*ssa.Extract); ok && ex.Index == 1 {
							okVal = ex
						}
					}
				}
			}
		})
		if okVal != nil {
			for _, r := range returnsOf(tcf) {
				call, isCall := r.Results[0].(*ssa.Call)
				if !isCall {
					continue
				}
				g := call.Call.StaticCallee()
				if g == nil || fnPkgPath(g) != "fmt" {
					continue
				}
				if guardedBy(r.Block(), func(cond ssa.Value) (bool, bool) { return cond == okVal, false }) {
					found = true
				}
			}
		}
		c.check(found, "C17-KEY", "SexpHash.TypeCheckField", "non-symbol key rejected for declared structs", tcf.Pos(),
			"on the path where the key is not a symbol there is an error return of its own (besides the tolerated not-a-symbol answer for plain hashes)",
			"every non-symbol key gets the tolerated not-a-symbol answer: (hset rec 5 v) or (hset rec \"Id\" v) adds an entry that is not a declared field to an instance of a declared struct")
	}

	// ---- C17-ELEM: an element written into a slice-typed field has the slice's element type
	if f := c.fn("SexpArraySelector.AssignToSelection"); f != nil {
		typF := c.field("SexpArray", "Typ")
		checks := false
		if typF != nil {
			eachInstr(f, func(b *ssa.BasicBlock, i int, in ssa.Instruction) {
				if fa, ok := in.(*ssa.FieldAddr); ok && faField(fa) == typF {
					checks = true
				}
			})
		}
		c.check(checks, "C17-ELEM", "SexpArraySelector.AssignToSelection", "element store checks the element type", f.Pos(),
			"the value stored through an index selector is compared with the container's element type",
			"index assignment stores the value into the container without consulting the container's element type: an element of a slice-typed field of a declared struct can be overwritten with a value of another type")
	}

	// ---- C17-MAKE
	if mk := c.mustFn("C17-MAKE", "MakeHash"); mk != nil {
		tcr := c.mustFn("C17-MAKE", "RegisteredType.TypeCheckRecord")
		if tcr != nil {
			cs := callsOf(mk, tcr)
			okM := len(cs) == 1
			if okM {
				e, has := errorValueOf(cs[0])
				okM = has && e != nil
				if okM {
					if lost, _ := errLostOnPath(e); lost {
						okM = false
					}
				}
			}
			c.check(okM, "C17-MAKE", "MakeHash", "TypeCheckRecord", mk.Pos(), "construction of a declared struct type-checks the record and returns the error",
				"MakeHash does not (or not on every path) return the record type-check error")
			// TypeCheckRecord checks each key
			inner := callsOf(tcr, tcf)
			okI := len(inner) == 1
			if okI {
				e, has := errorValueOf(inner[0])
				okI = has && e != nil
			}
			c.check(okI, "C17-MAKE", "RegisteredType.TypeCheckRecord", "TypeCheckField per key", tcr.Pos(), "every field of the record is checked and the error returned",
				"the record check does not check each field / drops the error")
		}
		// each HashSet in MakeHash's fill loop returns its error
		for _, ci := range callsOf(mk, set) {
			e, has := errorValueOf(ci)
			okS := has && e != nil
			if okS {
				if lost, _ := errLostOnPath(e); lost {
					okS = false
				}
			}
			c.check(okS, "C17-MAKE", "MakeHash", "HashSet of initial fields", ci.Pos(), "an initial field that fails the check aborts construction", "construction ignores a rejected initial field")
		}
	}

	// ---- C17-DEREF
	if cf := c.mustFn("C17-DEREF", "SexpHash.CloneFrom"); cf != nil {
		n := 0
		for f, calls := range c.callersOf(cf) {
			for _, ci := range calls {
				n++
				in := ci.(ssa.Instruction)
				g := guardedBy(in.Block(), func(cond ssa.Value) (bool, bool) {
					bo, ok := cond.(*ssa.BinOp)
					if !ok || bo.Op != token.EQL {
						return false, false
					}
					return isRegisteredTypePtr(bo.X.Type()) && isRegisteredTypePtr(bo.Y.Type()), true
				})
				c.check(g, "C17-DEREF", fnName(f), "CloneFrom", in.Pos(), "a record is copied over another only when their registered types are identical",
					"a whole record is copied into the pointed-to record without the type-identity test")
			}
		}
		if n == 0 {
			c.undecided("C17-DEREF", "SexpHash.CloneFrom", "callers", cf.Pos(), "no caller of CloneFrom found")
		}
	}

	// ---- C17-BIND
	if bs := c.mustFn("C17-BIND", "Stack.BindSymbol"); bs != nil {
		scopeMap := c.mustField("C17-BIND", "Scope", "Map")
		if scopeMap != nil {
			// the `already` branch: If on Extract#1 of Lookup(scope.Map, sym.number)
			var region *ssa.BasicBlock
			eachInstr(bs, func(b *ssa.BasicBlock, i int, in ssa.Instruction) {
				iff, ok := in.(*ssa.If)
				if !ok {
					return
				}
				if ex, ok := iff.Cond.(*ssa.Extract); ok && ex.Index == 1 {
					if lk, ok := ex.Tuple.(*ssa.Lookup); ok && derivesFromField(lk.X, scopeMap, 0) {
						region = b.Succs[0]
					}
				}
			})
			if region == nil {
				c.undecided("C17-BIND", "Stack.BindSymbol", "already-bound branch", bs.Pos(), "lookup of the existing binding not found")
			} else {
				nStore, nDeny := 0, 0
				for _, b := range bs.Blocks {
					if !region.Dominates(b) {
						continue
					}
					for _, in := range b.Instrs {
						if mu, ok := in.(*ssa.MapUpdate); ok && derivesFromField(mu.Map, scopeMap, 0) {
							nStore++
							// guarded by a further test inside the region
							guarded := false
							for _, p := range bs.Blocks {
								if p == b || !region.Dominates(p) && p != region {
									continue
								}
								if cond, t, _ := condBranch(p); cond != nil && t.Dominates(b) && len(t.Preds) == 1 {
									guarded = true
								}
							}
							c.check(guarded, "C17-BIND", "Stack.BindSymbol", "re-binding store", in.Pos(), "an existing typed binding is replaced only under an acceptance test",
								"an existing binding is replaced unconditionally: the typed re-binding rule is bypassed")
						}
						if r, ok := in.(*ssa.Return); ok && !isNilConst(r.Results[0]) {
							nDeny++
						}
					}
				}
				// deny by default: from the region entry an error return is reachable without passing a store
				reach := reachableAvoiding(region, func(x *ssa.BasicBlock) bool {
					for _, in := range x.Instrs {
						if mu, ok := in.(*ssa.MapUpdate); ok && derivesFromField(mu.Map, scopeMap, 0) {
							return true
						}
					}
					return false
				})
				denyDefault := false
				nilWithoutStore := false
				for rb := range reach {
					for _, in := range rb.Instrs {
						if r, ok := in.(*ssa.Return); ok {
							if isNilConst(r.Results[0]) {
								nilWithoutStore = true
							} else {
								denyDefault = true
							}
						}
					}
				}
				c.check(nStore >= 3 && nDeny >= 1 && denyDefault && !nilWithoutStore, "C17-BIND", "Stack.BindSymbol", "deny by default", bs.Pos(),
					"when no acceptance test passes the re-binding ends in an error; success is reported only after a store",
					"typed re-binding no longer denies by default (or reports success without binding)")
			}
		}
	}
}

func stripNotV(v ssa.Value) ssa.Value {
	x, _ := stripNot(v)
	return x
}

func isRegisteredTypePtr(t types.Type) bool {
	p, ok := t.(*types.Pointer)
	if !ok {
		return false
	}
	n, ok := p.Elem().(*types.Named)
	return ok && n.Obj().Name() == "RegisteredType"
}

// allReturnsError: every return reachable from blk carries a non-nil-constant error (last result).
func allReturnsError(f *ssa.Function, blk *ssa.BasicBlock) bool {
	idx := errResultIndex(f.Signature)
	n := 0
	for b := range reachableAvoiding(blk, func(*ssa.BasicBlock) bool { return false }) {
		for _, in := range b.Instrs {
			if r, ok := in.(*ssa.Return); ok {
				n++
				if isNilConst(r.Results[idx]) {
					return false
				}
			}
		}
	}
	return n > 0
}

// guardedByBetween: like guardedBy, but the guarding `if` must itself be
// reachable from `from` (i.e. lie between from and blk).
func guardedByBetween(blk, from *ssa.BasicBlock, pred func(cond ssa.Value) (bool, bool)) bool {
	between := reachableAvoiding(from, func(*ssa.BasicBlock) bool { return false })
	f := blk.Parent()
	for _, b := range f.Blocks {
		if !between[b] {
			continue
		}
		cond, t, e := condBranch(b)
		if cond == nil {
			continue
		}
		core, neg := stripNot(cond)
		m, outcome := pred(core)
		if !m {
			continue
		}
		if neg {
			outcome = !outcome
		}
		target := t
		if !outcome {
			target = e
		}
		if (target.Dominates(blk) || target == blk) && len(target.Preds) == 1 {
			return true
		}
		// a goto-style jump straight to the return block
		if target == blk {
			return true
		}
	}
	return false
}

// checkDefinitionByName: C17-IDENT. "Instances keep the definition that was in
// force when they were created": the definition an instance was built with is
// held by the instance (GoStructFactory). A routine that answers "what type is
// this instance" or "which definition does this constructor build" by looking
// the type's NAME up in the package-level registry answers with whatever was
// registered last under that name, by any scope or any interpreter of the
// process. The rule looks, in the routine that reports an instance's type and
// in the routine that builds an instance, for a read of the package-level
// registry keyed by the type name.
func (c *Ctx) checkDefinitionByName(rule string) {
	reg := c.SZygo.Var("GoStructRegistry")
	lookup := c.fn("GoStructRegistryType.Lookup")
	if reg == nil {
		c.undecided(rule, "GoStructRegistry", "anchor", token.NoPos, "package-level registry not found")
		return
	}
	for _, name := range []string{"SexpHash.Type", "MakeHash"} {
		f := c.mustFn(rule, name)
		if f == nil {
			continue
		}
		var at token.Pos
		eachInstr(f, func(b *ssa.BasicBlock, i int, in ssa.Instruction) {
			switch x := in.(type) {
			case *ssa.Lookup:
				// GoStructRegistry.Registry[name]
				if derivesFromGlobal(x.X, reg, 0) && !at.IsValid() {
					at = x.Pos()
				}
			case *ssa.Call:
				if lookup != nil && x.Call.StaticCallee() == lookup && len(x.Call.Args) > 0 && derivesFromGlobal(x.Call.Args[0], reg, 0) && !at.IsValid() {
					at = x.Pos()
				}
			}
		})
		c.check(!at.IsValid(), rule, name, "definition taken from the instance, not from the name", orPos(at, f.Pos()),
			"the routine does not consult the package-level registry by type name",
			"the definition is looked up by the type's name in the package-level registry: after a redeclaration (in this interpreter, in a nested scope, or in another interpreter of the process) instances of the old definition pass as the new type, fields declared with the old type reject their own instances, and a constructor builds instances of a definition the interpreter never declared")
	}
}

func derivesFromGlobal(v ssa.Value, g *ssa.Global, depth int) bool {
	if depth > 5 {
		return false
	}
	switch x := v.(type) {
	case *ssa.Global:
		return x == g
	case *ssa.UnOp:
		return derivesFromGlobal(x.X, g, depth+1)
	case *ssa.FieldAddr:
		return derivesFromGlobal(x.X, g, depth+1)
	case *ssa.Field:
		return derivesFromGlobal(x.X, g, depth+1)
	}
	return false
}

// checkDerivedTypeKeys: C17-DERIVED. A field declared ([]Wheel) accepts a slice by comparing registered
// types by identity; slice and pointer types are interned by a name built from their element type. That
// name has to tell element types apart: RegisteredName does (one per registered type), ReflectName does
// not (every script-declared struct is a zygo.RecordDefn, every derived type a reflect.Value). The rule:
// in the routines that intern a derived type, the name looked up and registered is a constant prefix
// followed by the element type's RegisteredName.
func (c *Ctx) checkDerivedTypeKeys(rule string) {
	regName := c.mustField(rule, "RegisteredType", "RegisteredName")
	lookup := c.fn("GoStructRegistryType.Lookup")
	if regName == nil || lookup == nil {
		return
	}
	n := 0
	for _, name := range []string{"GoStructRegistryType.GetOrCreateSliceType", "GoStructRegistryType.GetOrCreatePointerType"} {
		f := c.mustFn(rule, name)
		if f == nil {
			continue
		}
		for _, site := range callsOf(f, lookup) {
			n++
			args := site.Common().Args
			key := args[len(args)-1]
			okKey := false
			if bo, isCat := key.(*ssa.BinOp); isCat && bo.Op == token.ADD {
				if _, isConst := bo.X.(*ssa.Const); isConst {
					if base, ok := loadOfField(bo.Y, regName); ok && len(f.Params) >= 2 && base == ssa.Value(f.Params[1]) {
						okKey = true
					}
				}
			}
			c.check(okKey, rule, name, "derived type interned under the element type's registered name", site.Pos(),
				"the name is a constant prefix followed by the element type's RegisteredName",
				"the derived type is looked up under a name that is not built from the element type's RegisteredName: names such as ReflectName are shared by all script-declared structs (zygo.RecordDefn) and by all derived types, so ([]Wheel) and ([]Seat) become one registered type and a field declared with one accepts the other on every write route")
		}
	}
	if n < 2 {
		c.undecided(rule, "gotypereg.go", "derived type interning", token.NoPos, fmt.Sprintf("only %d look-ups of derived types found (slice and pointer confirmed by reading)", n))
	}
}
