package main

// C18 — package members are private unless capitalised.

import (
	"go/token"
	"go/types"

	"golang.org/x/tools/go/ssa"
)

// uncheckedSinks: sink instructions reachable from `start` along paths that
// neither pass a block containing a barrier call nor take a free edge.
func uncheckedSinks(start *ssa.BasicBlock, startIdx int, barrier func(ssa.Instruction) bool, freeEdge func(b *ssa.BasicBlock, succ int) bool, sink func(ssa.Instruction) bool) []ssa.Instruction {
	var out []ssa.Instruction
	seen := map[*ssa.BasicBlock]bool{}
	var walk func(b *ssa.BasicBlock, from int)
	walk = func(b *ssa.BasicBlock, from int) {
		for i := from; i < len(b.Instrs); i++ {
			in := b.Instrs[i]
			if barrier(in) {
				return
			}
			if sink(in) {
				out = append(out, in)
			}
		}
		for k, s := range b.Succs {
			if freeEdge != nil && freeEdge(b, k) {
				continue
			}
			if !seen[s] {
				seen[s] = true
				walk(s, 0)
			}
		}
	}
	walk(start, startIdx)
	return out
}

func checkC18(c *Ctx) {
	c.explainf("C18 decides: in the package path walker every hop that yields or assigns a value that is not itself a package is preceded, on every path from the symbol lookup, by the privacy test of that hop's name; the walker hands the hash walker the package it came through, and the hash walker, when given a package, applies the same test before every member it yields or assigns; the privacy test is an error exactly when the first rune of the dot-stripped name is not upper case; the unbounded scope walk used on packages is called only from the frozen set of callers. The captured scopes searched for a dot path handed to a builtin are those of the calling compiled function (C18-LEXFN). It does not decide behaviour per program or printing of package values.")
	// a package function that hands a dot path to a builtin must have it resolved among the package's members
	c.checkLexicalFunc("C18-LEXFN")
	walker := c.mustFn("C18-WALK", "Stack.nestedPathGetSet")
	hwalker := c.mustFn("C18-WALK", "SexpHash.nestedPathGetSetIn")
	priv := c.mustFn("C18-CASE", "errIfPrivate")
	lookup := c.mustFn("C18-WM", "Stack.LookupSymbol")
	scopeMap := c.mustField("C18-WALK", "Scope", "Map")
	if walker == nil || priv == nil || lookup == nil || scopeMap == nil {
		return
	}
	stackT := c.named("Stack")
	isPrivCall := func(in ssa.Instruction) bool {
		call, ok := in.(*ssa.Call)
		if !ok || call.Call.StaticCallee() != priv {
			return false
		}
		// the error must be looked at
		e, has := errorValueOf(call)
		if !has || e == nil {
			return false
		}
		cons, tests := errConsumed(e, map[ssa.Value]bool{})
		return cons && len(tests) > 0
	}
	// free edge: the true edge of `x, ok := ret.(*Stack)` / type switch arm *Stack
	isStackEdge := func(b *ssa.BasicBlock, succ int) bool {
		cond, _, _ := condBranch(b)
		if cond == nil || succ != 0 {
			return false
		}
		ex, ok := cond.(*ssa.Extract)
		if !ok || ex.Index != 1 {
			return false
		}
		ta, ok := ex.Tuple.(*ssa.TypeAssert)
		if !ok {
			return false
		}
		pt, ok := ta.AssertedType.(*types.Pointer)
		return ok && stackT != nil && types.Identical(pt.Elem(), stackT)
	}

	// ---- Stack walker
	{
		calls := callsOf(walker, lookup)
		if len(calls) != 1 {
			c.undecided("C18-WALK", "Stack.nestedPathGetSet", "lookup", walker.Pos(), "expected exactly one LookupSymbol call in the package walker")
		} else {
			lk := calls[0].(ssa.Instruction)
			// the look-up that precedes the privacy test must not be the one that writes
			if args := calls[0].Common().Args; len(args) >= 3 {
				c.check(isNilConst(args[2]), "C18-WALK", "Stack.nestedPathGetSet", "look-up before the privacy test does not write", lk.Pos(),
					"the look-up is a pure read (setVal is nil); the member is assigned only after errIfPrivate accepted the name",
					"the look-up that runs before the privacy test is handed the value to assign: a refused assignment to a private member has already overwritten it when the error is returned")
			}
			nSink := 0
			sink := func(in ssa.Instruction) bool {
				switch x := in.(type) {
				case *ssa.MapUpdate:
					return derivesFromFieldOrExtract(x.Map, scopeMap)
				case *ssa.Return:
					return len(x.Results) == 2 && isNilConst(x.Results[1]) && !isNilOrNullValue(x.Results[0])
				case *ssa.Call:
					return hwalker != nil && x.Call.StaticCallee() == hwalker
				}
				return false
			}
			// count sinks overall
			eachInstr(walker, func(b *ssa.BasicBlock, i int, in ssa.Instruction) {
				if sink(in) {
					nSink++
				}
			})
			bad := uncheckedSinks(lk.Block(), instrIndex(lk)+1, isPrivCall, isStackEdge, sink)
			badSet := map[ssa.Instruction]bool{}
			for _, in := range bad {
				badSet[in] = true
			}
			eachInstr(walker, func(b *ssa.BasicBlock, i int, in ssa.Instruction) {
				if !sink(in) {
					return
				}
				what := "yield value"
				switch in.(type) {
				case *ssa.MapUpdate:
					what = "assign member"
				case *ssa.Call:
					what = "descend into hash"
				}
				c.check(!badSet[in], "C18-WALK", "Stack.nestedPathGetSet", what, in.Pos(),
					"every path from the lookup to this point passes the privacy test of the hop's name, or the value is a package",
					"a package member can reach `"+what+"` on a path that does not pass errIfPrivate: lower-case members become accessible from outside")
			})
			if nSink < 4 {
				c.undecided("C18-WALK", "Stack.nestedPathGetSet", "sinks", walker.Pos(), "fewer yield/assign points than confirmed by reading")
			}
			// the hash walker gets the package
			if hwalker != nil {
				for _, ci := range callsOf(walker, hwalker) {
					args := ci.Common().Args
					pkgArg := args[len(args)-1]
					c.check(!isNilConst(pkgArg), "C18-WALK", "Stack.nestedPathGetSet", "package handed to hash walker", ci.Pos(),
						"the hash walker is told which package it was reached through", "the hash walker is entered from a package path without the package: hash members are not privacy-checked")
				}
			}
		}
	}

	// ---- hash walker under a package
	if hwalker != nil {
		hget := c.fn("SexpHash.HashGet")
		hset := c.fn("SexpHash.HashSet")
		pkgParam := hwalker.Params[len(hwalker.Params)-1]
		// start points: true edges of `pkg != nil`
		n := 0
		for _, b := range hwalker.Blocks {
			cond, t, e := condBranch(b)
			if cond == nil {
				continue
			}
			bo, ok := cond.(*ssa.BinOp)
			if !ok || bo.X != ssa.Value(pkgParam) || !isNilConst(bo.Y) {
				continue
			}
			start := t
			if bo.Op == token.EQL {
				start = e
			}
			n++
			sink := func(in ssa.Instruction) bool {
				switch x := in.(type) {
				case *ssa.Return:
					return len(x.Results) == 2 && !isNilOrNullValue(x.Results[0]) && isNilConst(x.Results[1])
				case *ssa.Call:
					return x.Call.StaticCallee() == hset && hset != nil
				}
				return false
			}
			bad := uncheckedSinks(start, 0, isPrivCall, isStackEdge, sink)
			// only sinks before the next lookup count: stop at the next HashGet (next hop)
			_ = hget
			c.check(len(bad) == 0, "C18-WALK", "SexpHash.nestedPathGetSetIn", "member under package", b.Instrs[len(b.Instrs)-1].Pos(),
				"when reached through a package, the hop's name passes the privacy test before a member is yielded or assigned",
				"with a package given, a hash member can be yielded or assigned without passing errIfPrivate")
		}
		if n < 2 {
			c.bad("C18-WALK", "SexpHash.nestedPathGetSetIn", "member under package", hwalker.Pos(), "the hash walker does not test for the package it was reached through on both the assign and the yield path")
		}
	} else {
		c.bad("C18-WALK", "SexpHash.nestedPathGetSetIn", "member under package", walker.Pos(), "no package-aware hash walker: hash members reached through a package are not privacy-checked")
	}

	// ---- C18-HOP: the name that passes the privacy test is the name of the member that is assigned: both are
	// taken from the same element of the path. A test hoisted to the first element of the path checks the first hop
	// below the hash; an assignment two levels down ({p.H.N.d = 53}) then writes a private key unchecked.
	if hwalker != nil {
		hset := c.fn("SexpHash.HashSet")
		mk := c.fn("Zlisp.MakeSymbol")
		pathIdx := func(v ssa.Value) ssa.Value {
			for d := 0; d < 6 && v != nil; d++ {
				switch x := v.(type) {
				case *ssa.Slice:
					v = x.X
				case *ssa.UnOp:
					if ia, ok := x.X.(*ssa.IndexAddr); ok {
						return ia.Index
					}
					return nil
				case *ssa.Call:
					// MakeSymbol(path[i][1:])
					if mk != nil && x.Call.StaticCallee() == mk && len(x.Call.Args) >= 2 {
						v = x.Call.Args[1]
					} else {
						return nil
					}
				case *ssa.MakeInterface:
					v = x.X
				default:
					return nil
				}
			}
			return nil
		}
		nSet := 0
		if hset != nil {
			for _, site := range callsOf(hwalker, hset) {
				args := site.Common().Args
				if len(args) < 2 {
					continue
				}
				keyIdx := pathIdx(args[1])
				if keyIdx == nil {
					continue
				}
				nSet++
				same := false
				eachInstr(hwalker, func(b *ssa.BasicBlock, i int, in ssa.Instruction) {
					// the test sits under `pkg != nil`, so it precedes the assignment without dominating it
					sb := site.(ssa.Instruction).Block()
					if !isPrivCall(in) {
						return
					}
					if b != sb {
						// reached in the same iteration: without going through the loop's header again
						header := map[*ssa.BasicBlock]bool{}
						loop := loopOf(sb)
						if loop == nil {
							loop = loopOf(b) // the assignment leaves the loop (it returns); the test may still sit inside it
						}
						if loop != nil {
							for lb := range loop {
								for _, p := range lb.Preds {
									if !loop[p] {
										header[lb] = true
									}
								}
							}
						}
						if !reachableAvoiding(b, func(x *ssa.BasicBlock) bool { return header[x] && x != b })[sb] {
							return
						}
					}
					call := in.(*ssa.Call)
					if len(call.Call.Args) >= 1 && pathIdx(call.Call.Args[0]) == keyIdx {
						same = true
					}
				})
				c.check(same, "C18-HOP", "SexpHash.nestedPathGetSetIn", "privacy test on the hop that is assigned", site.Pos(),
					"the path element handed to errIfPrivate is the one whose name is assigned",
					"the member assigned is named by one element of the path and the privacy test that precedes it looks at another (or at none): an assignment two or more levels into a hash of a package writes a lower-case key that the test never saw")
			}
		}
		if nSet == 0 {
			c.undecided("C18-HOP", "SexpHash.nestedPathGetSetIn", "assignment", hwalker.Pos(), "no HashSet keyed by a path element found in the hash walker")
		}
	}

	// ---- C18-CASE
	{
		var isUpper *ssa.Call
		eachInstr(priv, func(b *ssa.BasicBlock, i int, in ssa.Instruction) {
			if call, ok := in.(*ssa.Call); ok {
				if g := call.Call.StaticCallee(); g != nil && fnPkgPath(g) == "unicode" && g.Name() == "IsUpper" {
					isUpper = call
				}
			}
		})
		okCase := false
		why := "no unicode.IsUpper test"
		if isUpper != nil {
			why = "the IsUpper result does not decide error / no error"
			for _, r := range nonDebugRefs(isUpper) {
				iff, ok := r.(*ssa.If)
				if !ok {
					continue
				}
				upper, lower := iff.Block().Succs[0], iff.Block().Succs[1]
				okCase = allReturnsNilErr(priv, upper) && allReturnsError(priv, lower)
			}
			// first rune of the dot-stripped name
			arg := isUpper.Call.Args[0]
			firstOfStripped := false
			if u, ok := arg.(*ssa.UnOp); ok {
				if ia, ok := u.X.(*ssa.IndexAddr); ok {
					if k, ok := constIntOf(ia.Index); ok && k == 0 {
						firstOfStripped = true
					}
				}
			}
			if ix, ok := arg.(*ssa.Index); ok {
				if k, ok := constIntOf(ix.Index); ok && k == 0 {
					firstOfStripped = true
				}
			}
			strip := c.fn("stripAnyDotPrefix")
			if strip == nil || len(callsOf(priv, strip)) == 0 {
				firstOfStripped = false
			}
			if !firstOfStripped {
				okCase = false
				why = "IsUpper is not applied to the first rune of the dot-stripped name"
			}
		}
		c.check(okCase, "C18-CASE", "errIfPrivate", "upper-case test", priv.Pos(), "error exactly when the first rune of the dot-stripped name is not upper case", "privacy test changed: "+why)
	}

	// the package-aware hash walker never hands the rest of the path to the package-less wrapper
	if hwalker != nil {
		wrapper := c.fn("SexpHash.nestedPathGetSet")
		if wrapper != nil {
			cs := callsOf(hwalker, wrapper)
			pos := hwalker.Pos()
			if len(cs) > 0 {
				pos = cs[0].Pos()
			}
			c.check(len(cs) == 0, "C18-WALK", "SexpHash.nestedPathGetSetIn", "descent into nested hashes keeps the package", pos,
				"nested hashes are walked by the same package-aware routine (no call to the wrapper that passes no package)",
				"while walking hashes under a package, the rest of the path is handed to SexpHash.nestedPathGetSet, which passes no package: only the first hash level below a package is privacy-checked, members of hashes nested deeper are readable and assignable from outside")
		}
	}

	// ---- C18-WM: callers of the unbounded walk
	allowed := map[string]string{
		"Stack.nestedPathGetSet":           "package path walker (privacy-checked above)",
		"Closing.LookupSymbol":             "captured scopes of a closure: code defined inside the package keeps full access",
		"Zlisp.FindObject":                 "host API lookup by name on the interpreter's own scope stack",
		"SexpFunction.ClosingLookupSymbol": "captured scopes of a function",
	}
	for f, calls := range c.callersOf(lookup) {
		for _, ci := range calls {
			why, ok := allowed[fnName(f)]
			c.check(ok, "C18-WM", fnName(f), "calls Stack.LookupSymbol", ci.Pos(), why,
				"a new caller of the unbounded scope walk: it can read package scopes without the privacy test")
		}
	}
}

func derivesFromFieldOrExtract(v ssa.Value, fld *types.Var) bool {
	return derivesFromField(v, fld, 0)
}

// isNilOrNullValue: the returned Sexp is the nil constant or the SexpNull global.
func isNilOrNullValue(v ssa.Value) bool {
	if isNilConst(v) {
		return true
	}
	if mi, ok := v.(*ssa.MakeInterface); ok {
		v = mi.X
	}
	if u, ok := v.(*ssa.UnOp); ok {
		if g, ok := u.X.(*ssa.Global); ok && g.Name() == "SexpNull" {
			return true
		}
	}
	return false
}

func allReturnsNilErr(f *ssa.Function, blk *ssa.BasicBlock) bool {
	idx := errResultIndex(f.Signature)
	n := 0
	for b := range reachableAvoiding(blk, func(*ssa.BasicBlock) bool { return false }) {
		for _, in := range b.Instrs {
			if r, ok := in.(*ssa.Return); ok {
				n++
				if !isNilConst(r.Results[idx]) {
					return false
				}
			}
		}
	}
	return n > 0
}
