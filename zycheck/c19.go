package main

// C19 — symbols are interned consistently across interpreters sharing a table.
// Rules: C19-WM (who writes symtable / revsymtable / nextsymbol / SexpSymbol.number),
// C19-PAIR (both tables updated together with swapped key/value),
// C19-UNIQ (the number handed out was tested unused), C19-HIT (a known name
// yields its recorded number), C19-GEN (generated name tested absent),
// C19-FAM (Clone/Duplicate share the tables by reference), C19-EQ (comparison
// and hashing of symbols use the number only).

import (
	"fmt"
	"go/token"
	"go/types"

	"golang.org/x/tools/go/ssa"
)

// throughAlloc: if v is a load of field F of a local allocation, return the
// value of the unique store to that field of that allocation in the function.
func throughAlloc(v ssa.Value) ssa.Value {
	u, ok := v.(*ssa.UnOp)
	if !ok || u.Op != token.MUL {
		return v
	}
	fa, ok := u.X.(*ssa.FieldAddr)
	if !ok {
		return v
	}
	al, ok := fa.X.(*ssa.Alloc)
	if !ok {
		return v
	}
	var found ssa.Value
	n := 0
	eachInstr(al.Parent(), func(b *ssa.BasicBlock, i int, in ssa.Instruction) {
		if st, ok := in.(*ssa.Store); ok {
			if fa2, ok := st.Addr.(*ssa.FieldAddr); ok && fa2.X == al && fa2.Field == fa.Field {
				found = st.Val
				n++
			}
		}
	})
	if n == 1 {
		return found
	}
	return v
}

func checkC19(c *Ctx) {
	c.explainf("C19 decides the structural half of interning: the two symbol tables and the counter are written only by the interning routine and the constructors; both tables are updated together with swapped key and value; the number given to a new name was tested unused in the reverse table with no change of the counter in between; a known name yields its recorded number; a generated name is tested absent from the name table before it is interned; clones and duplicates share both tables by reference; symbol comparison and hashing read the number only. Symbol keys of hashes are matched by number (C19-KEY); Compare is examined for dereferencing symbol operands (C19-DEREF). It does not decide agreement with a model over creation histories.")
	if c.Prop == "C19" {
		// symbols as data: keys and operands of ==. Not part of what a macro expansion relies on (C15 runs the interning rules only).
		c.checkSymbolKeysByNumber("C19-KEY")
		c.checkSymbolsComparedAsSymbols("C19-DEREF")
	}
	symtable := c.mustField("C19-WM", "Zlisp", "symtable")
	revsymtable := c.mustField("C19-WM", "Zlisp", "revsymtable")
	nextsymbol := c.mustField("C19-WM", "Zlisp", "nextsymbol")
	number := c.mustField("C19-WM", "SexpSymbol", "number")
	mk := c.mustFn("C19-WM", "Zlisp.MakeSymbol")
	gen := c.mustFn("C19-GEN", "Zlisp.GenSymbol")
	if symtable == nil || revsymtable == nil || nextsymbol == nil || number == nil || mk == nil {
		return
	}
	zl := c.named("Zlisp")
	isCtor := func(f *ssa.Function) bool { // allocates a Zlisp
		found := false
		eachInstr(f, func(b *ssa.BasicBlock, i int, in ssa.Instruction) {
			if a, ok := in.(*ssa.Alloc); ok {
				if pt, ok := a.Type().(*types.Pointer); ok && types.Identical(pt.Elem(), zl) {
					found = true
				}
			}
		})
		return found
	}

	// ---- C19-WM
	for _, fld := range []*types.Var{symtable, revsymtable, nextsymbol} {
		for _, w := range c.fieldWrites(fld) {
			fnm := fnName(w.fn)
			switch {
			case w.fn == mk && (w.kind == "mapupdate" || (fld == nextsymbol && w.kind == "store")):
				c.ok("C19-WM", fnm, w.kind+" "+fld.Name(), w.in.Pos(), "written by the interning routine")
			case w.kind == "store" && isCtor(w.fn):
				// constructor: fresh map / constant, or copy of the same field of another interpreter
				st := w.in.(*ssa.Store)
				_, isAllocBase := st.Addr.(*ssa.FieldAddr).X.(*ssa.Alloc)
				_, isCopy := loadOfField(st.Val, fld)
				_, isMake := st.Val.(*ssa.MakeMap)
				_, isConst := st.Val.(*ssa.Const)
				c.check(isAllocBase && (isCopy || isMake || isConst), "C19-WM", fnm, "store "+fld.Name(), w.in.Pos(),
					"constructor initialises the field of the interpreter it allocates",
					"constructor stores an unexpected value into "+fld.Name())
			case fld == nextsymbol && w.fn == gen && w.kind == "store":
				// allowed only as an increment that skips a taken generated name (see C19-GEN)
				st := w.in.(*ssa.Store)
				incr := false
				if bo, ok := st.Val.(*ssa.BinOp); ok && bo.Op == token.ADD {
					if _, ok := loadOfField(bo.X, nextsymbol); ok {
						if k, ok := bo.Y.(*ssa.Const); ok && k.Value != nil && k.Value.String() == "1" {
							incr = true
						}
					}
				}
				c.check(incr, "C19-WM", fnm, "store nextsymbol", w.in.Pos(), "counter advanced by one while searching for a free generated name",
					"GenSymbol writes the symbol counter other than by +1")
			default:
				c.bad("C19-WM", fnm, w.kind+" "+fld.Name(), w.in.Pos(),
					fld.Name()+" is modified outside MakeSymbol and the constructors: interning can be bypassed or corrupted")
			}
		}
	}
	// SexpSymbol.number stores
	for _, w := range c.fieldWrites(number) {
		if w.kind != "store" {
			continue
		}
		st := w.in.(*ssa.Store)
		fnm := fnName(w.fn)
		if w.fn != mk {
			// copying a symbol's number into a copy of the same symbol is harmless
			if _, isCopy := loadOfField(st.Val, number); isCopy {
				c.ok("C19-WM", fnm, "store SexpSymbol.number", w.in.Pos(), "copies the number of an existing symbol")
				continue
			}
			c.bad("C19-WM", fnm, "store SexpSymbol.number", w.in.Pos(), "a symbol number is assigned outside MakeSymbol: equal names could get different numbers or different names equal numbers")
			continue
		}
		// inside MakeSymbol: either the recorded number of a hit, or the tested counter
		v := st.Val
		if ex, ok := v.(*ssa.Extract); ok && ex.Index == 0 {
			if lk, ok := ex.Tuple.(*ssa.Lookup); ok && lk.CommaOk && derivesFromField(lk.X, symtable, 0) && lk.Index == ssa.Value(mk.Params[1]) {
				// the store must be under ok==true
				okGuard := guardedBy(w.in.Block(), func(cond ssa.Value) (bool, bool) {
					e, isEx := cond.(*ssa.Extract)
					return isEx && e.Index == 1 && e.Tuple == ex.Tuple, true
				})
				c.check(okGuard, "C19-HIT", fnm, "number of known name", w.in.Pos(), "a known name yields the number recorded in symtable, under the found branch",
					"the recorded number is used without being on the found branch of the lookup")
				continue
			}
		}
		if _, ok := loadOfField(v, nextsymbol); ok {
			c.ok("C19-WM", fnm, "store SexpSymbol.number", w.in.Pos(), "new symbol takes the counter value (tested by C19-UNIQ)")
			continue
		}
		c.bad("C19-HIT", fnm, "store SexpSymbol.number", w.in.Pos(), "symbol number in MakeSymbol comes from neither the table lookup of the name nor the counter: "+v.String())
	}
	hits := 0
	for _, o := range c.obs {
		if o.Rule == "C19-HIT" {
			hits++
		}
	}
	if hits == 0 {
		c.bad("C19-HIT", "Zlisp.MakeSymbol", "number of known name", mk.Pos(), "MakeSymbol has no path that returns the recorded number of a known name")
	}

	// ---- C19-PAIR and C19-UNIQ
	var ups, rups []*ssa.MapUpdate
	eachInstr(mk, func(b *ssa.BasicBlock, i int, in ssa.Instruction) {
		if mu, ok := in.(*ssa.MapUpdate); ok {
			if derivesFromField(mu.Map, symtable, 0) {
				ups = append(ups, mu)
			}
			if derivesFromField(mu.Map, revsymtable, 0) {
				rups = append(rups, mu)
			}
		}
	})
	if len(ups) == 0 || len(rups) == 0 {
		c.bad("C19-PAIR", "Zlisp.MakeSymbol", "table updates", mk.Pos(), "MakeSymbol does not update both symbol tables")
	}
	for _, mu := range ups {
		var partner *ssa.MapUpdate
		for _, r := range rups {
			if r.Block() == mu.Block() {
				partner = r
			}
		}
		if partner == nil {
			c.bad("C19-PAIR", "Zlisp.MakeSymbol", "symtable update", mu.Pos(), "symtable is updated on a path that does not update revsymtable")
			continue
		}
		swapped := throughAlloc(mu.Key) == throughAlloc(partner.Value) && sameNumber(throughAlloc(mu.Value), throughAlloc(partner.Key), nextsymbol)
		c.check(swapped && mu.Key == ssa.Value(mk.Params[1]), "C19-PAIR", "Zlisp.MakeSymbol", "symtable update", mu.Pos(),
			"symtable[name]=n and revsymtable[n]=name in the same block, name is the parameter",
			"the two table updates do not record the same (name, number) pair")

		// UNIQ: value is the counter, tested unused, counter unchanged in between
		val := throughAlloc(mu.Value)
		if _, ok := loadOfField(val, nextsymbol); !ok {
			c.bad("C19-UNIQ", "Zlisp.MakeSymbol", "new number", mu.Pos(), "the number recorded for a new name is not the counter: "+val.String())
			continue
		}
		// find guard: If on Extract#1 of Lookup(revsymtable, load nextsymbol)
		var guardBlk, freeSucc, usedSucc *ssa.BasicBlock
		for _, b := range mk.Blocks {
			cond, t, e := condBranch(b)
			if cond == nil {
				continue
			}
			core, neg := stripNot(cond)
			ex, ok := core.(*ssa.Extract)
			if !ok || ex.Index != 1 {
				continue
			}
			lk, ok := ex.Tuple.(*ssa.Lookup)
			if !ok || !lk.CommaOk || !derivesFromField(lk.X, revsymtable, 0) {
				continue
			}
			if _, ok := loadOfField(lk.Index, nextsymbol); !ok {
				continue
			}
			guardBlk = b
			freeSucc, usedSucc = e, t // used==false / used==true
			if neg {
				freeSucc, usedSucc = t, e
			}
		}
		if guardBlk == nil {
			c.bad("C19-UNIQ", "Zlisp.MakeSymbol", "new number", mu.Pos(), "the counter value is handed out without testing that revsymtable has no entry for it (a clone may have used it)")
			continue
		}
		region := reachableAvoiding(freeSucc, func(b *ssa.BasicBlock) bool { return b == guardBlk })
		okRegion := freeSucc.Dominates(mu.Block()) || freeSucc == mu.Block()
		detail := ""
		// the hand-out must not be reachable from the `used` side without coming back through the test
		if usedSucc != nil {
			viaUsed := reachableAvoiding(usedSucc, func(b *ssa.BasicBlock) bool { return b == guardBlk })
			if viaUsed[mu.Block()] || usedSucc == mu.Block() {
				okRegion = false
				detail = "when the number is in use the code moves on and hands out the next number without testing it (the test must be repeated until a free number is found: a sibling may have taken several)"
			}
		}
		for b := range region {
			if b != mu.Block() && !blockReaches(b, mu.Block()) {
				continue
			}
			for i, in := range b.Instrs {
				if st, ok := in.(*ssa.Store); ok {
					if fa, ok := st.Addr.(*ssa.FieldAddr); ok && faField(fa) == nextsymbol {
						if b == mu.Block() && i > instrIndex(mu) {
							continue
						}
						okRegion = false
						detail = "counter modified at " + c.pos(in.Pos()) + " between the test and the use"
					}
				}
			}
		}
		c.check(okRegion, "C19-UNIQ", "Zlisp.MakeSymbol", "new number", mu.Pos(),
			"number tested unused in revsymtable; counter unchanged between test and use", "the unused-number test does not protect the use: "+detail)
	}

	// ---- C19-GEN
	if gen != nil {
		n := 0
		for _, ci := range callsOf(gen, mk) {
			n++
			arg := ci.Common().Args[1]
			call := ci.(ssa.Instruction)
			okAbs := guardedBy(call.Block(), func(cond ssa.Value) (bool, bool) {
				ex, ok := cond.(*ssa.Extract)
				if !ok || ex.Index != 1 {
					return false, false
				}
				lk, ok := ex.Tuple.(*ssa.Lookup)
				if !ok || !lk.CommaOk || !derivesFromField(lk.X, symtable, 0) {
					return false, false
				}
				return lk.Index == arg, false // want: not found
			})
			c.check(okAbs, "C19-GEN", "Zlisp.GenSymbol", "call MakeSymbol", call.Pos(),
				"the generated name is looked up in symtable and interned only on the not-found branch",
				"the generated name is interned without testing that no symbol of that name exists: (gensym) can return an existing symbol, and a duplicate and its parent generate the same name")
		}
		if n == 0 {
			c.undecided("C19-GEN", "Zlisp.GenSymbol", "call MakeSymbol", gen.Pos(), "GenSymbol no longer calls MakeSymbol; cannot establish freshness")
		}
	}

	// ---- C19-FAM
	for _, name := range []string{"Zlisp.Clone", "Zlisp.Duplicate"} {
		f := c.mustFn("C19-FAM", name)
		if f == nil {
			continue
		}
		for _, fld := range []*types.Var{symtable, revsymtable} {
			shared := false
			var pos token.Pos = f.Pos()
			eachInstr(f, func(b *ssa.BasicBlock, i int, in ssa.Instruction) {
				if st, ok := in.(*ssa.Store); ok {
					if fa, ok := st.Addr.(*ssa.FieldAddr); ok && faField(fa) == fld {
						pos = in.Pos()
						if base, ok := loadOfField(st.Val, fld); ok {
							if p, isParam := base.(*ssa.Parameter); isParam && p == f.Params[0] {
								shared = true
							}
						}
					}
				}
			})
			c.check(shared, "C19-FAM", name, "share "+fld.Name(), pos, "the new interpreter uses the receiver's table by reference",
				"the new interpreter does not share "+fld.Name()+" with its parent: the same name would be interned twice")
		}
	}

	// ---- C19-EQ
	if f := c.mustFn("C19-EQ", "Zlisp.compareSymbol"); f != nil {
		nameF := c.field("SexpSymbol", "name")
		usesNum, usesName := 0, 0
		eachInstr(f, func(b *ssa.BasicBlock, i int, in ssa.Instruction) {
			if fa, ok := in.(*ssa.FieldAddr); ok {
				if faField(fa) == number {
					usesNum++
				}
				if faField(fa) == nameF {
					// reading the name for an error message is fine; flag only if it feeds a comparison
					for _, r := range *fa.Referrers() {
						if u, ok := r.(*ssa.UnOp); ok {
							for _, r2 := range *u.Referrers() {
								if bo, ok := r2.(*ssa.BinOp); ok && (bo.Op == token.EQL || bo.Op == token.NEQ || bo.Op == token.LSS || bo.Op == token.GTR) {
									usesName++
								}
							}
						}
					}
				}
			}
		})
		c.check(usesNum >= 2 && usesName == 0, "C19-EQ", "Zlisp.compareSymbol", "symbol×symbol", f.Pos(),
			"two symbols are compared by number", fmt.Sprintf("symbol comparison reads number %d times and compares names %d times", usesNum, usesName))
	}
	if f := c.mustFn("C19-EQ", "hashHelper"); f != nil {
		// the *SexpSymbol arm returns e.number
		found := false
		for _, r := range returnsOf(f) {
			if len(r.Results) > 0 {
				if _, ok := loadOfField(r.Results[0], number); ok {
					found = true
				}
			}
		}
		// result may flow through a phi / named result; fall back to any load of number in the function
		if !found {
			eachInstr(f, func(b *ssa.BasicBlock, i int, in ssa.Instruction) {
				if fa, ok := in.(*ssa.FieldAddr); ok && faField(fa) == number {
					found = true
				}
			})
		}
		c.check(found, "C19-EQ", "hashHelper", "hash of symbol", f.Pos(), "a symbol hashes to its number", "the hash code of a symbol is not its number")
	}
}

// sameNumber: a and b denote the counter value at the same moment (both loads
// of nextsymbol, or the identical SSA value).
func sameNumber(a, b ssa.Value, next *types.Var) bool {
	if a == b {
		return true
	}
	_, okA := loadOfField(a, next)
	_, okB := loadOfField(b, next)
	return okA && okB
}

// checkSymbolsComparedAsSymbols: C19-DEREF. Two symbols are equal exactly when
// they have the same name (number). Compare first replaces every Selector
// operand by what it selects; *SexpSymbol is a Selector (a dot-symbol x.y
// selects the value at that path), so when both operands are symbols the
// comparison is made on the referents: different names compare equal, and a
// name whose referent is unbound cannot be compared with itself. The rule:
// in Compare, a dereference of an operand is not reached when that operand is
// a symbol and the other one is too (a test for *SexpSymbol guards it).
func (c *Ctx) checkSymbolsComparedAsSymbols(rule string) {
	cmp := c.mustFn(rule, "Zlisp.Compare")
	symT := c.named("SexpSymbol")
	if cmp == nil || symT == nil {
		return
	}
	n := 0
	eachInstr(cmp, func(b *ssa.BasicBlock, i int, in ssa.Instruction) {
		call, ok := in.(*ssa.Call)
		if !ok || !call.Call.IsInvoke() || call.Call.Method.Name() != "RHS" {
			return
		}
		n++
		guarded := guardedBy(b, func(cond ssa.Value) (bool, bool) {
			ex, ok := cond.(*ssa.Extract)
			if !ok || ex.Index != 1 {
				return false, false
			}
			ta, ok := ex.Tuple.(*ssa.TypeAssert)
			if !ok {
				return false, false
			}
			if nm, ok := derefNamed(ta.AssertedType); !ok || nm != symT {
				return false, false
			}
			return true, false
		})
		c.check(guarded, rule, "Zlisp.Compare", "symbol operands are not dereferenced", call.Pos(),
			"the operand is followed to its referent only when it is not a symbol",
			"Compare follows a symbol operand (a dot-symbol) to the value it names before comparing: (== (quote x.y) (quote x.z)) is true when the two fields hold equal values, and (== (quote p.q) (quote p.q)) is an error when p is unbound; symbols with different names compare equal, the same name does not compare equal to itself")
	})
	if n == 0 {
		c.ok(rule, "Zlisp.Compare", "symbol operands are not dereferenced", cmp.Pos(), "Compare does not dereference selector operands")
	}
}
