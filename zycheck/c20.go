package main

// C20 — evaluation is deterministic.  MR: every `range` over a Go map in the
// interpreter package (and the command) is classified: order-independent by
// construction, or reported unless tabled.

import (
	"fmt"
	"go/ast"
	"go/constant"
	"go/token"
	"go/types"
	"sort"
	"strings"

	"golang.org/x/tools/go/packages"
	"golang.org/x/tools/go/ssa"
)

type mapRange struct {
	pkg  *packages.Package
	fn   string
	rs   *ast.RangeStmt
	decl *ast.FuncDecl
}

func (c *Ctx) mapRanges() []mapRange {
	var out []mapRange
	for _, p := range []*packages.Package{c.Zygo, c.Cmd} {
		for _, file := range p.Syntax {
			for _, d := range file.Decls {
				fd, ok := d.(*ast.FuncDecl)
				if !ok || fd.Body == nil {
					continue
				}
				ast.Inspect(fd.Body, func(n ast.Node) bool {
					rs, ok := n.(*ast.RangeStmt)
					if !ok {
						return true
					}
					t := p.TypesInfo.TypeOf(rs.X)
					if t == nil {
						return true
					}
					if _, isMap := t.Underlying().(*types.Map); isMap {
						name := declName(fd)
						if p != c.Zygo {
							name = p.PkgPath + "." + name
						}
						out = append(out, mapRange{p, name, rs, fd})
					}
					return true
				})
			}
		}
	}
	return out
}

// orderSensitive computes the set of functions that (transitively, over the
// RTA graph of the whole package) advance the symbol counter, write a
// package-level variable, or print.
type osInfo struct {
	why map[*ssa.Function]string
}

func (c *Ctx) orderSensitive() *osInfo {
	r := newRTA(c.Prog, nil, nil)
	for _, f := range c.zygoFuncs() {
		if f.Parent() == nil {
			r.addRoot(f)
		}
	}
	if m := c.SCmd.Func("main"); m != nil {
		r.addRoot(m)
	}
	r.run()
	nextsymbol := c.field("Zlisp", "nextsymbol")
	info := &osInfo{why: map[*ssa.Function]string{}}
	// direct sinks
	for f := range r.reach {
		pk := fnPkgPath(f)
		if pk == "fmt" && (strings.HasPrefix(f.Name(), "Print") || strings.HasPrefix(f.Name(), "Fprint")) {
			info.why[f] = "prints"
			continue
		}
		if pk != zygoPath && pk != cmdPath {
			continue
		}
		eachInstr(f, func(b *ssa.BasicBlock, i int, in ssa.Instruction) {
			if st, ok := in.(*ssa.Store); ok {
				if fa, ok := st.Addr.(*ssa.FieldAddr); ok && nextsymbol != nil && faField(fa) == nextsymbol {
					if _, isAlloc := fa.X.(*ssa.Alloc); !isAlloc {
						info.why[f] = "advances the symbol counter"
					}
				}
				if g, ok := st.Addr.(*ssa.Global); ok && f.Name() != "init" {
					info.why[f] = "writes package variable " + g.Name()
				}
				if fa, ok := st.Addr.(*ssa.FieldAddr); ok {
					if g, ok := fa.X.(*ssa.Global); ok && f.Name() != "init" {
						info.why[f] = "writes package variable " + g.Name() + "." + faField(fa).Name()
					}
				}
			}
			if mu, ok := in.(*ssa.MapUpdate); ok {
				if u, ok := mu.Map.(*ssa.UnOp); ok {
					if fa, ok := u.X.(*ssa.FieldAddr); ok {
						if g, ok := fa.X.(*ssa.Global); ok && f.Name() != "init" {
							_ = g // keyed writes into a registry map are order-independent by themselves
						}
					}
				}
			}
		})
	}
	// propagate backwards over call edges (only through non-std callers, and std callees that are sinks)
	changed := true
	for changed {
		changed = false
		for f := range r.reach {
			if _, done := info.why[f]; done {
				continue
			}
			pk := fnPkgPath(f)
			if pk != zygoPath && pk != cmdPath {
				continue
			}
			for _, e := range r.edges[f] {
				if e.kind == "addr" {
					continue
				}
				if w, ok := info.why[e.callee]; ok {
					cpk := fnPkgPath(e.callee)
					if cpk != zygoPath && cpk != cmdPath && cpk != "fmt" {
						continue
					}
					if len(w) > 90 {
						w = w[:90]
					}
					info.why[f] = "calls " + fnName(e.callee) + " (" + w + ")"
					changed = true
					break
				}
			}
		}
	}
	return info
}

type mrVerdict struct {
	reasons []string
}

func (v *mrVerdict) add(format string, a ...interface{}) {
	v.reasons = append(v.reasons, fmt.Sprintf(format, a...))
}

func checkC20(c *Ctx) {
	c.explainf("C20 decides: every `range` over a Go map in the interpreter package and the command is order-independent by construction — its body only writes map elements, deletes, counts, sets idempotent flags, appends to a slice that is sorted before any other use, and calls nothing that advances the symbol counter, writes a package variable or prints — or it is reported (leaving the loop on the first match, panicking or returning from inside it, concatenating, or calling an order-sensitive function). Package-level variables written on script-reachable paths are enumerated and frozen. No text returned to the script is formatted with %p, with %v / %#v of a script value or of a type with nested pointers, or from runtime.Stack (C20-ADDR). It does not decide time, randomness or the explicit pointer-printing functions (excluded by the property).")
	c.checkNoAddressesInText("C20-ADDR")
	osi := c.orderSensitive()
	ranges := c.mapRanges()
	// script-reachable functions: full interpreter + standard setup + command
	reachR := newRTA(c.Prog, nil, nil)
	for _, name := range append([]string{"NewZlisp", "NewZlispSandbox", "Zlisp.StandardSetup", "Zlisp.ImportDemoData", "RegisterDemoStructs", "ReplMain", "Repl", "runScript"}, scriptEntry...) {
		reachR.addRoot(c.fn(name))
	}
	if m := c.SCmd.Func("main"); m != nil {
		reachR.addRoot(m)
	}
	reachR.run()
	for _, mr := range ranges {
		if mr.pkg == c.Zygo {
			if f := c.fn(mr.fn); f != nil {
				if _, ok := reachR.reach[f]; !ok {
					c.ok("C20-MR", mr.fn, "range "+types.ExprString(mr.rs.X), mr.rs.Pos(), "enclosing function is not reachable from the interpreter's entry points, builtins or the command (diagnostic helper)")
					continue
				}
			}
		}
		v := &mrVerdict{}
		c.classifyBody(mr, mr.rs.Body, v, osi, true)
		construct := "range " + types.ExprString(mr.rs.X)
		if len(v.reasons) == 0 {
			c.ok("C20-MR", mr.fn, construct, mr.rs.Pos(), "body is order-independent by construction")
		} else {
			sort.Strings(v.reasons)
			// a table row exempts only the categories of order-dependence it names: [allow: calls,panic,...]
			cats := map[string]bool{}
			for _, r := range v.reasons {
				cats[reasonCategory(r)] = true
			}
			o := c.bad("C20-MR", mr.fn, construct, mr.rs.Pos(), "iteration order of a Go map can show: "+strings.Join(uniq(v.reasons), "; "))
			if o.Status == StExempt {
				allowed := allowedCategories(o.Reason)
				var extra []string
				for cat := range cats {
					if !allowed[cat] {
						extra = append(extra, cat)
					}
				}
				sort.Strings(extra)
				if len(extra) > 0 {
					o.Status = StViolation
					o.Detail = "the table row for this loop allows " + fmt.Sprint(keys(allowed)) + " but the loop now also shows order through: " + strings.Join(extra, ",") + " — " + o.Detail
				}
			}
		}
	}
	c.note("map_ranges", len(ranges))

	// ---- C20-SORT: the comparators that impose an order on map-derived data compare the keys themselves
	{
		n := 0
		for _, f := range c.zygoFuncs() {
			if f.Name() != "Less" || f.Signature.Recv() == nil || len(f.Params) != 3 {
				continue
			}
			// the result is a single ordered comparison of two values
			for _, r := range returnsOf(f) {
				bo, ok := r.Results[0].(*ssa.BinOp)
				if !ok || (bo.Op != token.LSS && bo.Op != token.GTR && bo.Op != token.LEQ && bo.Op != token.GEQ) {
					continue
				}
				n++
				raw := func(v ssa.Value) bool {
					// a field or element read, possibly converted; not the result of a call
					for depth := 0; depth < 6; depth++ {
						switch x := v.(type) {
						case *ssa.Call:
							if _, isB := x.Call.Value.(*ssa.Builtin); isB {
								return true // len(...)
							}
							return false
						case *ssa.Convert:
							v = x.X
						case *ssa.UnOp:
							return true
						case *ssa.Field, *ssa.Extract, *ssa.Parameter, *ssa.Const, *ssa.Index, *ssa.Lookup:
							return true
						case *ssa.BinOp:
							return true
						default:
							return true
						}
					}
					return true
				}
				c.check(raw(bo.X) && raw(bo.Y), "C20-SORT", fnName(f), "compares the keys themselves", bo.Pos(),
					"the order is decided by the stored keys, which are distinct: the sort result does not depend on the order the data came in",
					"the comparator orders by a function of the keys (e.g. their lower-cased form), under which distinct keys can tie: sort.Sort is not stable, so tied keys keep whatever order the Go map walk gave them and the result differs from run to run")
			}
		}
		if n == 0 {
			c.undecided("C20-SORT", "package", "comparators", token.NoPos, "no Less method returning an ordered comparison found")
		}
	}

	// ---- C20-GLOB: package-level variables written on script-reachable paths
	globs := map[string]token.Pos{}
	for f := range reachR.reach {
		pk := fnPkgPath(f)
		if pk != zygoPath || f.Name() == "init" || strings.HasPrefix(f.Name(), "init#") {
			continue
		}
		eachInstr(f, func(b *ssa.BasicBlock, i int, in ssa.Instruction) {
			var g *ssa.Global
			switch x := in.(type) {
			case *ssa.Store:
				switch a := x.Addr.(type) {
				case *ssa.Global:
					g = a
				case *ssa.FieldAddr:
					g, _ = a.X.(*ssa.Global)
				case *ssa.IndexAddr:
					if u, ok := a.X.(*ssa.UnOp); ok {
						g, _ = u.X.(*ssa.Global)
					}
				}
			case *ssa.MapUpdate:
				if u, ok := x.Map.(*ssa.UnOp); ok {
					switch a := u.X.(type) {
					case *ssa.Global:
						g = a
					case *ssa.FieldAddr:
						g, _ = a.X.(*ssa.Global)
					}
				}
			case ssa.CallInstruction:
				// the address of a package-level variable of a scalar or pointer kind handed to a call
				// (sync/atomic, a setter): the callee can write it
				for ai, a := range x.Common().Args {
					ga, ok := a.(*ssa.Global)
					if !ok {
						if fa, ok2 := a.(*ssa.FieldAddr); ok2 {
							ga, ok = fa.X.(*ssa.Global)
						}
					}
					if !ok || ga == nil || ga.Pkg == nil || ga.Pkg.Pkg.Path() != zygoPath {
						continue
					}
					callee := x.Common().StaticCallee()
					if callee != nil && fnPkgPath(callee) == "sync/atomic" && strings.HasPrefix(callee.Name(), "Load") {
						continue
					}
					if callee != nil && fnPkgPath(callee) == zygoPath && ai < len(callee.Params) && paramOnlyRead(callee.Params[ai]) {
						continue // the callee only reads through the pointer
					}
					if pt, ok := ga.Type().(*types.Pointer); ok {
						switch pt.Elem().Underlying().(type) {
						case *types.Basic, *types.Pointer:
							g = ga
						}
					}
				}
			}
			if g != nil && g.Pkg.Pkg.Path() == zygoPath {
				if _, ok := globs[g.Name()]; !ok {
					globs[g.Name()] = in.Pos()
				}
			}
		})
	}
	var gnames []string
	for n := range globs {
		gnames = append(gnames, n)
	}
	sort.Strings(gnames)
	for _, n := range gnames {
		// every process-global written at run time needs a table row saying why runs stay equal
		c.bad("C20-GLOB", "package", "var "+n, globs[n], "package-level variable "+n+" is written on a path reachable from scripts: state shared between interpreters of one process can make a fresh interpreter behave differently")
	}
	c.note("script_written_globals", gnames)
}

// enclosing finds the statement list that directly contains stmt.
func enclosingList(root ast.Node, stmt ast.Stmt) []ast.Stmt {
	var found []ast.Stmt
	ast.Inspect(root, func(n ast.Node) bool {
		var list []ast.Stmt
		switch x := n.(type) {
		case *ast.BlockStmt:
			list = x.List
		case *ast.CaseClause:
			list = x.Body
		case *ast.CommClause:
			list = x.Body
		}
		for _, s := range list {
			if s == stmt {
				found = list
			}
		}
		return found == nil
	})
	return found
}

func mentions(n ast.Node, obj types.Object, info *types.Info) bool {
	m := false
	ast.Inspect(n, func(x ast.Node) bool {
		if id, ok := x.(*ast.Ident); ok && (info.Uses[id] == obj || info.Defs[id] == obj) {
			m = true
		}
		return !m
	})
	return m
}

// sortedBeforeUse: after the range statement, the first statement that
// mentions obj is a sort of it.
func sortedBeforeUse(mr mapRange, obj types.Object) bool {
	list := enclosingList(mr.decl.Body, mr.rs)
	after := false
	for _, s := range list {
		if s == ast.Stmt(mr.rs) {
			after = true
			continue
		}
		if !after || !mentions(s, obj, mr.pkg.TypesInfo) {
			continue
		}
		es, ok := s.(*ast.ExprStmt)
		if !ok {
			return false
		}
		call, ok := es.X.(*ast.CallExpr)
		if !ok {
			return false
		}
		sel, ok := call.Fun.(*ast.SelectorExpr)
		if !ok {
			return false
		}
		if id, ok := sel.X.(*ast.Ident); !ok || id.Name != "sort" {
			return false
		}
		switch sel.Sel.Name {
		case "Sort", "Stable", "Strings", "Ints", "Slice", "SliceStable":
			return len(call.Args) > 0 && mentions(call.Args[0], obj, mr.pkg.TypesInfo)
		}
		return false
	}
	return false
}

func (c *Ctx) classifyBody(mr mapRange, body ast.Node, v *mrVerdict, osi *osInfo, top bool) {
	info := mr.pkg.TypesInfo
	declaredInside := func(obj types.Object) bool {
		return obj != nil && obj.Pos() >= mr.rs.Body.Pos() && obj.Pos() <= mr.rs.Body.End()
	}
	loopDepth := 0
	var walk func(n ast.Node)
	checkCalls := func(n ast.Node) {
		ast.Inspect(n, func(x ast.Node) bool {
			if _, ok := x.(*ast.FuncLit); ok {
				return false
			}
			call, ok := x.(*ast.CallExpr)
			if !ok {
				return true
			}
			for _, f := range c.calleesOfAST(mr.pkg, call) {
				if w, ok := osi.why[f]; ok {
					v.add("calls %s, which %s", fnName(f), w)
				}
			}
			return true
		})
	}
	walk = func(n ast.Node) {
		switch s := n.(type) {
		case nil:
		case *ast.BlockStmt:
			for _, x := range s.List {
				walk(x)
			}
		case *ast.ExprStmt:
			if call, ok := s.X.(*ast.CallExpr); ok {
				if id, ok := call.Fun.(*ast.Ident); ok && id.Name == "panic" {
					v.add("panics from inside the loop (which offending entry is reported depends on the order)")
				}
			}
			checkCalls(s)
		case *ast.AssignStmt:
			checkCalls(s)
			for i, lhs := range s.Lhs {
				switch l := lhs.(type) {
				case *ast.Ident:
					if l.Name == "_" {
						continue
					}
					obj := info.Defs[l]
					if obj == nil {
						obj = info.Uses[l]
					}
					if s.Tok == token.DEFINE || declaredInside(obj) {
						continue
					}
					// outer variable
					if s.Tok == token.ADD_ASSIGN || s.Tok == token.SUB_ASSIGN {
						if b, ok := obj.Type().Underlying().(*types.Basic); ok && b.Info()&types.IsInteger != 0 {
							continue
						}
						v.add("accumulates into %s with a non-commutative or non-integer operation", l.Name)
						continue
					}
					if i < len(s.Rhs) {
						if call, ok := s.Rhs[i].(*ast.CallExpr); ok {
							if id, ok := call.Fun.(*ast.Ident); ok && id.Name == "append" && len(call.Args) > 0 && mentions(call.Args[0], obj, info) {
								if sortedBeforeUse(mr, obj) {
									continue
								}
								v.add("appends to %s, which is not sorted before it is used", l.Name)
								continue
							}
						}
						if tv, ok := info.Types[s.Rhs[i]]; ok && tv.Value != nil {
							continue // idempotent constant flag
						}
					}
					v.add("assigns the outer variable %s (last writer wins)", l.Name)
				case *ast.IndexExpr:
					if t := info.TypeOf(l.X); t != nil {
						if _, isMap := t.Underlying().(*types.Map); isMap {
							continue
						}
					}
					v.add("writes a slice/array element at a position that may depend on the order")
				case *ast.SelectorExpr, *ast.StarExpr:
					// field of an outer object
					root := l
					_ = root
					if id := rootIdent(lhs); id != nil && declaredInside(info.Uses[id]) {
						continue
					}
					if i < len(s.Rhs) {
						if tv, ok := info.Types[s.Rhs[i]]; ok && tv.Value != nil {
							continue
						}
					}
					v.add("assigns %s (last writer wins)", types.ExprString(lhs))
				}
			}
		case *ast.IncDecStmt:
			// integer counter
		case *ast.DeclStmt:
			checkCalls(s)
		case *ast.IfStmt:
			walk(s.Init)
			checkCalls(s.Cond)
			walk(s.Body)
			walk(s.Else)
		case *ast.SwitchStmt:
			walk(s.Init)
			if s.Tag != nil {
				checkCalls(s.Tag)
			}
			for _, cc := range s.Body.List {
				for _, x := range cc.(*ast.CaseClause).Body {
					walk(x)
				}
			}
		case *ast.TypeSwitchStmt:
			walk(s.Init)
			for _, cc := range s.Body.List {
				for _, x := range cc.(*ast.CaseClause).Body {
					walk(x)
				}
			}
		case *ast.ForStmt:
			loopDepth++
			walk(s.Init)
			walk(s.Body)
			walk(s.Post)
			loopDepth--
		case *ast.RangeStmt:
			loopDepth++
			checkCalls(s.X)
			walk(s.Body)
			loopDepth--
		case *ast.BranchStmt:
			if s.Tok == token.BREAK && loopDepth == 0 {
				v.add("leaves the loop at the first matching entry (break)")
			}
			if s.Tok == token.GOTO || (s.Label != nil && s.Tok == token.BREAK) {
				v.add("leaves the loop by a labelled jump")
			}
		case *ast.ReturnStmt:
			allConst := len(s.Results) > 0
			for _, r := range s.Results {
				tv, ok := info.Types[r]
				if !ok || (tv.Value == nil && !tv.IsNil()) {
					allConst = false
				}
			}
			if allConst {
				break // existential / universal predicate: the constant answer does not depend on which entry triggered it
			}
			v.add("returns from inside the loop at the first matching entry")
			checkCalls(s)
		case *ast.LabeledStmt:
			walk(s.Stmt)
		case *ast.EmptyStmt:
		default:
			v.add("contains a statement the classifier does not model (%T)", n)
		}
	}
	walk(body)
}

func rootIdent(e ast.Expr) *ast.Ident {
	for {
		switch x := e.(type) {
		case *ast.Ident:
			return x
		case *ast.SelectorExpr:
			e = x.X
		case *ast.StarExpr:
			e = x.X
		case *ast.IndexExpr:
			e = x.X
		case *ast.ParenExpr:
			e = x.X
		default:
			return nil
		}
	}
}

// calleesOfAST resolves the possible callees of an AST call expression:
// static function or method; for interface methods, every zygo method of that
// name; for function values, nothing (they are handled by the reasons above
// only when the value is a known function).
func (c *Ctx) calleesOfAST(p *packages.Package, call *ast.CallExpr) []*ssa.Function {
	var obj types.Object
	switch f := call.Fun.(type) {
	case *ast.Ident:
		obj = p.TypesInfo.Uses[f]
	case *ast.SelectorExpr:
		if sel, ok := p.TypesInfo.Selections[f]; ok {
			obj = sel.Obj()
			if fn, ok := obj.(*types.Func); ok {
				if recv := fn.Type().(*types.Signature).Recv(); recv != nil && types.IsInterface(recv.Type()) {
					// interface method: all implementations in zygo
					var out []*ssa.Function
					for _, g := range c.zygoFuncs() {
						if g.Name() == fn.Name() && g.Signature.Recv() != nil && g.Parent() == nil {
							out = append(out, g)
						}
					}
					return out
				}
			}
		} else {
			obj = p.TypesInfo.Uses[f.Sel]
		}
	}
	fn, ok := obj.(*types.Func)
	if !ok {
		return nil
	}
	if g := c.Prog.FuncValue(fn); g != nil {
		return []*ssa.Function{g}
	}
	return nil
}

func reasonCategory(r string) string {
	switch {
	case strings.HasPrefix(r, "calls "):
		return "calls"
	case strings.HasPrefix(r, "panics"):
		return "panic"
	case strings.HasPrefix(r, "returns"):
		return "return"
	case strings.HasPrefix(r, "leaves"):
		return "break"
	case strings.HasPrefix(r, "appends"):
		return "append"
	case strings.HasPrefix(r, "assigns"), strings.HasPrefix(r, "writes"):
		return "assign"
	case strings.HasPrefix(r, "accumulates"):
		return "accumulate"
	}
	return "other"
}

func allowedCategories(reason string) map[string]bool {
	out := map[string]bool{}
	i := strings.Index(reason, "[allow:")
	if i < 0 {
		return out
	}
	j := strings.Index(reason[i:], "]")
	if j < 0 {
		return out
	}
	for _, cat := range strings.Split(reason[i+7:i+j], ",") {
		out[strings.TrimSpace(cat)] = true
	}
	return out
}

// paramOnlyRead: the pointer parameter is only loaded from and compared, never stored through or passed on.
func paramOnlyRead(p *ssa.Parameter) bool {
	return paramOnlyReadN(p, 0)
}

func paramOnlyReadN(p *ssa.Parameter, depth int) bool {
	refs := p.Referrers()
	if refs == nil {
		return true
	}
	for _, r := range *refs {
		switch x := r.(type) {
		case *ssa.UnOp:
			if x.Op != token.MUL {
				return false
			}
		case *ssa.BinOp:
			if x.Op != token.EQL && x.Op != token.NEQ {
				return false
			}
		case *ssa.DebugRef:
		case ssa.CallInstruction:
			// handed on unchanged to a function of this package that only reads through it
			g := x.Common().StaticCallee()
			if g == nil || fnPkgPath(g) != zygoPath || len(g.Blocks) == 0 || depth >= 3 || x.Common().Value == ssa.Value(p) {
				return false
			}
			args := x.Common().Args
			if len(args) != len(g.Params) {
				return false
			}
			for ai, a := range args {
				if a == ssa.Value(p) && !paramOnlyReadN(g.Params[ai], depth+1) {
					return false
				}
			}
		default:
			return false
		}
	}
	return true
}

// checkNoAddressesInText: C20-ADDR. Heap addresses differ from run to run. A
// text that reaches the script -- the message of an error a builtin or the VM
// returns, or a string value -- must not contain one. The rule examines every
// fmt formatting call with a constant format in functions reachable from the
// script entry points whose result flows into an error or a string that is
// returned: the verb %p always prints an address; %v, %+v and %#v print the
// addresses of pointers nested inside the value (and of maps, channels and
// functions), which is decided from the static type of the argument. An
// argument of the language's value interface (Sexp) holds pointers to records
// with nested pointers. Diagnostic dumps written to the terminal are not
// texts of the program's result and are not examined.
func (c *Ctx) checkNoAddressesInText(rule string) {
	sexpT := c.named("Sexp")
	reach := newRTA(c.Prog, nil, nil)
	for _, name := range append([]string{"NewZlisp", "NewZlispSandbox", "Zlisp.StandardSetup", "Zlisp.ImportDemoData", "RegisterDemoStructs"}, scriptEntry...) {
		reach.addRoot(c.fn(name))
	}
	reach.run()
	var mayAddr func(t types.Type, depth int, top bool) bool
	mayAddr = func(t types.Type, depth int, top bool) bool {
		if depth > 4 {
			return false
		}
		switch u := t.Underlying().(type) {
		case *types.Pointer:
			if top {
				// &T{...}: the address of the top-level pointer itself is not printed, nested ones are
				return mayAddr(u.Elem(), depth+1, false)
			}
			return true
		case *types.Map, *types.Chan, *types.Signature:
			if _, isMap := u.(*types.Map); isMap {
				m := u.(*types.Map)
				return mayAddr(m.Key(), depth+1, false) || mayAddr(m.Elem(), depth+1, false)
			}
			return true
		case *types.Slice:
			return mayAddr(u.Elem(), depth+1, false)
		case *types.Array:
			return mayAddr(u.Elem(), depth+1, false)
		case *types.Struct:
			for i := 0; i < u.NumFields(); i++ {
				if mayAddr(u.Field(i).Type(), depth+1, false) {
					return true
				}
			}
			return false
		case *types.Interface:
			if isErrorType(t) {
				return false // printed through Error()
			}
			if sexpT != nil && types.Identical(t, sexpT) {
				return true
			}
			// interface{}: a Go value handed in from outside the language (a recovered panic value, the result
			// of a conversion to Go); what it holds is not decided here
			return false
		}
		return false
	}
	n, nBad := 0, 0
	for _, f := range c.zygoFuncs() {
		if _, ok := reach.reach[topFn(f)]; !ok {
			continue
		}
		eachInstr(f, func(b *ssa.BasicBlock, i int, in ssa.Instruction) {
			call, ok := in.(*ssa.Call)
			if !ok {
				return
			}
			g := call.Call.StaticCallee()
			if g == nil || fnPkgPath(g) != "fmt" || (g.Name() != "Errorf" && g.Name() != "Sprintf") || len(call.Call.Args) < 1 {
				return
			}
			k, ok := call.Call.Args[0].(*ssa.Const)
			if !ok || k.Value == nil || k.Value.Kind() != constant.String {
				return
			}
			// the text must go somewhere the script can see: returned, stored in an error or a value
			if !textEscapes(call) {
				return
			}
			format := constant.StringVal(k.Value)
			verbs := fmtVerbs(format)
			args := variadicArgs(call)
			n++
			for vi, vb := range verbs {
				if vb == "%p" {
					nBad++
					c.bad(rule, fnName(f), "address printed into a returned text: "+shortStr(format, 40), call.Pos(), "the verb %p writes a heap address into a text that is returned to the script (an error message or a string value): the same program gives a different text in every run")
					return
				}
				if vi < len(args) && (vb == "%v" || vb == "%s") && stackTraceText(args[vi], f) {
					nBad++
					c.bad(rule, fnName(f), "goroutine stack trace written into a returned text: "+shortStr(format, 40), call.Pos(),
						"the text of runtime.Stack is formatted into a text that is returned to the script: a Go stack trace lists argument words and frame addresses, so the same failing program gives a different error text in every run")
					return
				}
				if vb != "%v" && vb != "%+v" && vb != "%#v" {
					continue
				}
				if vi >= len(args) {
					continue
				}
				at := args[vi]
				for d := 0; d < 4; d++ {
					if mi, ok := at.(*ssa.MakeInterface); ok {
						at = mi.X
					} else if ci, ok := at.(*ssa.ChangeInterface); ok {
						at = ci.X
					} else {
						break
					}
				}
				if mayAddr(at.Type(), 0, true) {
					nBad++
					c.bad(rule, fnName(f), "value dumped with "+vb+" into a returned text: "+shortStr(format, 40), call.Pos(),
						"a value of type "+typeShort(at.Type())+" is formatted with "+vb+" into a text that is returned to the script: Go prints the addresses of the pointers, maps and functions nested in it, so the same program gives a different error text or value in every run")
					return
				}
			}
		})
	}
	if nBad == 0 {
		c.check(n >= 50, rule, "package", "formatted texts examined", token.NoPos, fmt.Sprintf("%d formatting calls whose text is returned were examined: none prints an address", n), fmt.Sprintf("only %d formatting calls examined", n))
	}
}

func fmtVerbs(format string) []string {
	var out []string
	rs := []rune(format)
	for i := 0; i < len(rs); i++ {
		if rs[i] != '%' {
			continue
		}
		j := i + 1
		flags := ""
		for j < len(rs) && strings.ContainsRune("+-# 0123456789.*", rs[j]) {
			if rs[j] == '+' || rs[j] == '#' {
				flags += string(rs[j])
			}
			j++
		}
		if j >= len(rs) {
			break
		}
		if rs[j] == '%' {
			i = j
			continue
		}
		out = append(out, "%"+flags+string(rs[j]))
		i = j
	}
	return out
}

// variadicArgs: the values stored into the variadic slice of a fmt call.
func variadicArgs(call *ssa.Call) []ssa.Value {
	if len(call.Call.Args) < 2 {
		return nil
	}
	sl, ok := call.Call.Args[len(call.Call.Args)-1].(*ssa.Slice)
	if !ok {
		return nil
	}
	al, ok := sl.X.(*ssa.Alloc)
	if !ok {
		return nil
	}
	byIdx := map[int64]ssa.Value{}
	max := int64(-1)
	for _, r := range *al.Referrers() {
		ia, ok := r.(*ssa.IndexAddr)
		if !ok {
			continue
		}
		idx, ok := constIntOf(ia.Index)
		if !ok {
			continue
		}
		for _, r2 := range *ia.Referrers() {
			if st, ok := r2.(*ssa.Store); ok {
				byIdx[idx] = st.Val
				if idx > max {
					max = idx
				}
			}
		}
	}
	out := make([]ssa.Value, max+1)
	for i := range out {
		out[i] = byIdx[int64(i)]
		if out[i] == nil {
			return nil
		}
	}
	return out
}

// textEscapes: the string or error produced by the call is returned, stored, or passed on (not only printed to the terminal).
func textEscapes(call *ssa.Call) bool {
	seen := map[ssa.Value]bool{}
	var walk func(v ssa.Value, d int) bool
	walk = func(v ssa.Value, d int) bool {
		if seen[v] || d > 6 || v.Referrers() == nil {
			return false
		}
		seen[v] = true
		for _, r := range *v.Referrers() {
			switch x := r.(type) {
			case *ssa.Return, *ssa.Store, *ssa.Panic, *ssa.MapUpdate:
				return true
			case *ssa.MakeInterface:
				if walk(x, d+1) {
					return true
				}
			case *ssa.ChangeInterface:
				if walk(x, d+1) {
					return true
				}
			case *ssa.Phi:
				if walk(x, d+1) {
					return true
				}
			case *ssa.BinOp:
				if x.Op == token.ADD && walk(x, d+1) {
					return true
				}
			case *ssa.Slice, *ssa.IndexAddr:
				// into the variadic argument array of another formatting call
				if vv, ok := x.(ssa.Value); ok && walk(vv, d+1) {
					return true
				}
			case *ssa.Call:
				g := x.Call.StaticCallee()
				if g != nil && fnPkgPath(g) == "fmt" && (strings.HasPrefix(g.Name(), "Print") || strings.HasPrefix(g.Name(), "Fprint")) {
					continue // written to the terminal
				}
				return true
			}
		}
		return false
	}
	return walk(call, 0)
}

// stackTraceText: v is string(b) for a byte slice b, and the function (or its closures) fills a byte slice with runtime.Stack / debug.Stack.
func stackTraceText(v ssa.Value, f *ssa.Function) bool {
	for d := 0; d < 4; d++ {
		if mi, ok := v.(*ssa.MakeInterface); ok {
			v = mi.X
		} else {
			break
		}
	}
	cv, ok := v.(*ssa.Convert)
	if !ok {
		return false
	}
	if sl, ok := cv.X.Type().Underlying().(*types.Slice); !ok || !types.Identical(sl.Elem(), types.Typ[types.Byte]) {
		return false
	}
	takes := false
	var all []*ssa.Function
	var collect func(g *ssa.Function)
	collect = func(g *ssa.Function) {
		all = append(all, g)
		for _, a := range g.AnonFuncs {
			collect(a)
		}
	}
	collect(topFn(f))
	for _, g := range all {
		eachInstr(g, func(b *ssa.BasicBlock, i int, in ssa.Instruction) {
			if call, ok := in.(*ssa.Call); ok {
				if h := call.Call.StaticCallee(); h != nil && ((fnPkgPath(h) == "runtime" && h.Name() == "Stack") || (fnPkgPath(h) == "runtime/debug" && h.Name() == "Stack")) {
					takes = true
				}
			}
		})
	}
	return takes
}
