package main

// core.go: loader (LD), obligation ledger / tables / known findings / evidence
// writer (OB).  See DESIGN.md §2.1, §2.4.

import (
	"unicode"
	"strconv"
	"bufio"
	"encoding/json"
	"fmt"
	"go/ast"
	"go/token"
	"go/types"
	"os"
	"path/filepath"
	"sort"
	"strings"
	"time"

	"golang.org/x/tools/go/packages"
	"golang.org/x/tools/go/ssa"
	"golang.org/x/tools/go/ssa/ssautil"
)

const zygoPath = "github.com/glycerine/zygomys/v9/zygo"
const cmdPath = "github.com/glycerine/zygomys/v9/cmd/zygo"

// Status of an obligation.
type Status string

const (
	StOK        Status = "ok"        // discharged by the rule's own static argument
	StExempt    Status = "exempt"    // discharged by a table row (one keyed construct, with reason)
	StViolation Status = "violation" // the rule's condition is false at this construct
	StUndecided Status = "undecided" // the analysis cannot decide (unresolved anchor, unmodelled code, count below min)
)

type Ob struct {
	Rule      string   `json:"rule"`
	Fn        string   `json:"function"`
	Construct string   `json:"construct"`
	Key       string   `json:"key"`
	Pos       string   `json:"pos"`
	Status    Status   `json:"status"`
	Detail    string   `json:"detail,omitempty"`
	Path      []string `json:"path,omitempty"`
	Reason    string   `json:"table_reason,omitempty"`
	Known     string   `json:"known_finding,omitempty"`
	Trivial   bool     `json:"-"`
	tok       token.Pos
}

type TableRow struct {
	Rule, Fn, Construct, Verdict, Reason string
	Anchor                               string // optional machine-checked facts the exemption relies on (anchors.go)
	used                                 bool
}

type KnownFinding struct {
	Property string `json:"property"`
	Rule     string `json:"rule"`
	Key      string `json:"key"`
	What     string `json:"what"`
	Input    string `json:"input,omitempty"`
	Observed string `json:"observed,omitempty"`
	Expected string `json:"expected,omitempty"`
}

type FixedEntry struct {
	Property string `json:"property"`
	Commit   string `json:"commit"`
	What     string `json:"what"`
}

type KnownFile struct {
	Findings []KnownFinding `json:"findings"`
	Fixed    []FixedEntry   `json:"fixed"`
}

// Ctx is what every rule sees.
type Ctx struct {
	Prop   string
	Tier   string
	Seed   int64
	Repo   string
	Verif  string
	Out    string
	Dump   bool
	GOOS   string
	GOARCH string

	Fset  *token.FileSet
	Pkgs  []*packages.Package
	All   map[string]*packages.Package
	Zygo  *packages.Package
	Cmd   *packages.Package
	Prog  *ssa.Program
	SZygo *ssa.Package
	SCmd  *ssa.Package

	obs             []*Ob
	keyCount        map[string]int
	posTok          token.Pos
	fnByName        map[string]*ssa.Function
	peekOK          int
	peekWhy         string
	anchorsVerified int
	table           map[string]*TableRow
	mins            map[string]int
	known           KnownFile
	notes           map[string]interface{}
	assume          []string
	explain         []string
	t0              time.Time
	nPkgs           int
	nFuncs          int
	zfuncs          []*ssa.Function
	es              *ES
	esv             *esVerdicts
}

func die(format string, a ...interface{}) {
	fmt.Printf("CHECK-ERROR "+format+"\n", a...)
	os.Exit(2)
}

// ---------------------------------------------------------------- loading

func (c *Ctx) load(needSSA bool) {
	env := append(os.Environ(), "GOWORK=off")
	if c.GOOS != "" {
		env = append(env, "GOOS="+c.GOOS, "GOARCH="+c.GOARCH, "CGO_ENABLED=0")
	}
	cfg := &packages.Config{
		Mode:       packages.LoadAllSyntax,
		Dir:        c.Repo,
		BuildFlags: []string{"-tags=verif"},
		Env:        env,
		Tests:      false,
	}
	pkgs, err := packages.Load(cfg, "./zygo", "./cmd/zygo")
	if err != nil {
		die("packages.Load: %v", err)
	}
	c.Pkgs = pkgs
	c.All = map[string]*packages.Package{}
	nerr := 0
	packages.Visit(pkgs, nil, func(p *packages.Package) {
		c.All[p.PkgPath] = p
		c.nPkgs++
		for _, e := range p.Errors {
			if nerr < 10 {
				fmt.Printf("CHECK-ERROR load %s: %v\n", p.PkgPath, e)
			}
			nerr++
		}
	})
	if nerr > 0 {
		die("%d load/type errors in %s (the tree does not build; nothing decided)", nerr, c.Repo)
	}
	c.Zygo = c.All[zygoPath]
	c.Cmd = c.All[cmdPath]
	if c.Zygo == nil || c.Cmd == nil || c.nPkgs < 50 {
		die("package count %d / zygo or cmd package not loaded", c.nPkgs)
	}
	c.Fset = c.Zygo.Fset
	if needSSA {
		prog, _ := ssautil.AllPackages(pkgs, ssa.InstantiateGenerics)
		prog.Build()
		c.Prog = prog
		c.SZygo = prog.Package(c.Zygo.Types)
		c.SCmd = prog.Package(c.Cmd.Types)
		if c.SZygo == nil || c.SCmd == nil {
			die("ssa packages missing")
		}
		for range ssautil.AllFunctions(prog) {
			c.nFuncs++
		}
	}
}

// ---------------------------------------------------------------- anchors

// fn resolves "Name" (package function) or "Type.Method" in the zygo package.
// Returns nil if it does not exist; callers report an undecided obligation.
func (c *Ctx) fn(name string) *ssa.Function {
	if i := strings.Index(name, "."); i >= 0 {
		tn, mn := name[:i], name[i+1:]
		obj := c.Zygo.Types.Scope().Lookup(tn)
		if obj == nil {
			return nil
		}
		T := obj.Type()
		for _, t := range []types.Type{T, types.NewPointer(T)} {
			ms := c.Prog.MethodSets.MethodSet(t)
			if sel := ms.Lookup(c.Zygo.Types, mn); sel != nil {
				f := c.Prog.MethodValue(sel)
				if f != nil && f.Synthetic == "" {
					return f
				}
				if f != nil && t == T {
					continue
				}
				if f != nil {
					return f
				}
			}
		}
		return nil
	}
	return c.SZygo.Func(name)
}

// mustFn resolves an anchor or records an undecided obligation for rule.
func (c *Ctx) mustFn(rule, name string) *ssa.Function {
	f := c.fn(name)
	if f == nil {
		c.add(rule, name, "anchor", token.NoPos, StUndecided, "anchor function "+name+" no longer exists; the structural argument of "+rule+" cannot be made")
	}
	return f
}

func (c *Ctx) named(name string) *types.Named {
	obj := c.Zygo.Types.Scope().Lookup(name)
	if obj == nil {
		return nil
	}
	n, _ := obj.Type().(*types.Named)
	return n
}

func (c *Ctx) field(typ, field string) *types.Var {
	n := c.named(typ)
	if n == nil {
		return nil
	}
	st, ok := n.Underlying().(*types.Struct)
	if !ok {
		return nil
	}
	for i := 0; i < st.NumFields(); i++ {
		if st.Field(i).Name() == field {
			return st.Field(i)
		}
	}
	return nil
}

func (c *Ctx) mustField(rule, typ, field string) *types.Var {
	v := c.field(typ, field)
	if v == nil {
		c.add(rule, typ+"."+field, "anchor", token.NoPos, StUndecided, "anchor field "+typ+"."+field+" no longer exists")
	}
	return v
}

// funcDecl returns the AST declaration of a zygo function/method "T.M" or "F".
func (c *Ctx) funcDecl(name string) *ast.FuncDecl {
	return c.funcDeclIn(c.Zygo, name)
}

func (c *Ctx) funcDeclIn(p *packages.Package, name string) *ast.FuncDecl {
	tn, mn := "", name
	if i := strings.Index(name, "."); i >= 0 {
		tn, mn = name[:i], name[i+1:]
	}
	for _, f := range p.Syntax {
		for _, d := range f.Decls {
			fd, ok := d.(*ast.FuncDecl)
			if !ok || fd.Name.Name != mn {
				continue
			}
			if tn == "" && fd.Recv == nil {
				return fd
			}
			if tn != "" && fd.Recv != nil && len(fd.Recv.List) == 1 {
				if recvTypeName(fd.Recv.List[0].Type) == tn {
					return fd
				}
			}
		}
	}
	return nil
}

func recvTypeName(e ast.Expr) string {
	switch t := e.(type) {
	case *ast.StarExpr:
		return recvTypeName(t.X)
	case *ast.Ident:
		return t.Name
	case *ast.IndexExpr:
		return recvTypeName(t.X)
	}
	return ""
}

// declName gives "T.M" / "F" for an AST declaration.
func declName(fd *ast.FuncDecl) string {
	if fd.Recv != nil && len(fd.Recv.List) == 1 {
		return recvTypeName(fd.Recv.List[0].Type) + "." + fd.Name.Name
	}
	return fd.Name.Name
}

// fnName gives a stable short name for an ssa function: "T.M", "F", "F$1".
func fnName(f *ssa.Function) string {
	if f == nil {
		return "<nil>"
	}
	if f.Parent() != nil {
		return fnName(f.Parent()) + "$" + strings.TrimPrefix(f.Name(), f.Parent().Name()+"$")
	}
	if recv := f.Signature.Recv(); recv != nil {
		t := recv.Type()
		if p, ok := t.(*types.Pointer); ok {
			t = p.Elem()
		}
		if n, ok := t.(*types.Named); ok {
			pk := ""
			if n.Obj().Pkg() != nil && n.Obj().Pkg().Path() != zygoPath {
				pk = n.Obj().Pkg().Path() + "."
			}
			return pk + n.Obj().Name() + "." + f.Name()
		}
		return t.String() + "." + f.Name()
	}
	if f.Pkg != nil && f.Pkg.Pkg.Path() != zygoPath {
		return f.Pkg.Pkg.Path() + "." + f.Name()
	}
	return f.Name()
}

func (c *Ctx) pos(p token.Pos) string {
	if !p.IsValid() {
		return ""
	}
	ps := c.Fset.Position(p)
	fn := ps.Filename
	if rel, err := filepath.Rel(c.Repo, fn); err == nil && !strings.HasPrefix(rel, "..") {
		fn = rel
	}
	return fmt.Sprintf("%s:%d", fn, ps.Line)
}

// topFn returns the outermost enclosing function.
func topFn(f *ssa.Function) *ssa.Function {
	for f.Parent() != nil {
		f = f.Parent()
	}
	return f
}

// ---------------------------------------------------------------- ledger

func (c *Ctx) add(rule, fn, construct string, pos token.Pos, st Status, detail string) *Ob {
	c.posTok = pos
	o := c.addp(rule, fn, construct, c.pos(pos), st, detail)
	c.posTok = token.NoPos
	return o
}

func (c *Ctx) addp(rule, fn, construct, pos string, st Status, detail string) *Ob {
	base := rule + "|" + fn + "|" + construct
	c.keyCount[base]++
	key := base
	if n := c.keyCount[base]; n > 1 {
		key = fmt.Sprintf("%s#%d", base, n)
	}
	o := &Ob{Rule: rule, Fn: fn, Construct: construct, Key: key, Pos: pos, Status: st, Detail: detail, tok: c.posTok}
	if st == StViolation || st == StUndecided {
		if row, ok := c.table[key]; ok && row.Verdict == "exempt" {
			row.used = true
			if os.Getenv("ZY_ANCHOR_PROBE") != "" && row.Anchor == "" && c.Prog != nil {
				for _, a := range []string{"lenguard", "peek", "madewith", "sortmethod", "nonempty", "aftercall:SexpArraySelector.RHS"} {
					probe := *row
					probe.Anchor = a
					if ok, why := c.anchorHolds(&probe, o, c.posTok); ok {
						fmt.Printf("ANCHOR-PROBE\t%s\t%s\n", key, a)
					} else if os.Getenv("ZY_ANCHOR_PROBE") == "why" {
						fmt.Printf("ANCHOR-NO\t%s\t%s\t%s\n", key, a, why)
					}
				}
			}
			if holds, why := c.anchorHolds(row, o, c.posTok); holds {
				o.Status = StExempt
				o.Reason = row.Reason
				if row.Anchor != "" {
					o.Reason += " [anchor verified: " + row.Anchor + "]"
					c.anchorsVerified++
				}
			} else {
				o.Detail += " — the table row that exempts this construct relies on `" + row.Anchor + "`, which no longer holds: " + why
			}
		}
	} else if row, ok := c.table[key]; ok {
		row.used = true
	}
	c.obs = append(c.obs, o)
	return o
}

func (c *Ctx) ok(rule, fn, construct string, pos token.Pos, detail string) *Ob {
	return c.add(rule, fn, construct, pos, StOK, detail)
}
func (c *Ctx) bad(rule, fn, construct string, pos token.Pos, detail string) *Ob {
	return c.add(rule, fn, construct, pos, StViolation, detail)
}
func (c *Ctx) undecided(rule, fn, construct string, pos token.Pos, detail string) *Ob {
	return c.add(rule, fn, construct, pos, StUndecided, detail)
}

// check records ok or violation depending on cond.
func (c *Ctx) check(cond bool, rule, fn, construct string, pos token.Pos, okDetail, badDetail string) *Ob {
	if cond {
		return c.ok(rule, fn, construct, pos, okDetail)
	}
	return c.bad(rule, fn, construct, pos, badDetail)
}

func (c *Ctx) assumef(format string, a ...interface{}) {
	c.assume = append(c.assume, fmt.Sprintf(format, a...))
}
func (c *Ctx) explainf(format string, a ...interface{}) {
	c.explain = append(c.explain, fmt.Sprintf(format, a...))
}
func (c *Ctx) note(k string, v interface{}) { c.notes[k] = v }

func (c *Ctx) loadTables() {
	c.table = map[string]*TableRow{}
	c.mins = map[string]int{}
	path := filepath.Join(c.Verif, "zycheck", "tables", c.Prop+".tsv")
	f, err := os.Open(path)
	if err != nil {
		return
	}
	defer f.Close()
	sc := bufio.NewScanner(f)
	sc.Buffer(make([]byte, 1<<20), 1<<20)
	ln := 0
	for sc.Scan() {
		ln++
		line := sc.Text()
		if strings.HasPrefix(line, "#min ") {
			var r string
			var n int
			if _, err := fmt.Sscanf(line, "#min %s %d", &r, &n); err != nil {
				die("%s:%d: bad #min line", path, ln)
			}
			c.mins[r] = n
			continue
		}
		if strings.TrimSpace(line) == "" || strings.HasPrefix(line, "#") {
			continue
		}
		parts := strings.Split(line, "\t")
		if len(parts) < 5 {
			die("%s:%d: want rule<TAB>function<TAB>construct<TAB>verdict<TAB>reason", path, ln)
		}
		row := &TableRow{Rule: parts[0], Fn: parts[1], Construct: parts[2], Verdict: parts[3], Reason: parts[4]}
		if len(parts) > 5 {
			row.Anchor = strings.TrimSpace(parts[5])
		}
		if row.Verdict != "exempt" && row.Verdict != "ok" {
			die("%s:%d: verdict must be ok|exempt", path, ln)
		}
		if strings.TrimSpace(row.Reason) == "" {
			die("%s:%d: a table row needs a reason", path, ln)
		}
		c.table[row.Rule+"|"+row.Fn+"|"+row.Construct] = row
	}
}

func (c *Ctx) loadKnown() {
	b, err := os.ReadFile(filepath.Join(c.Verif, "known_findings.json"))
	if err != nil {
		return
	}
	if err := json.Unmarshal(b, &c.known); err != nil {
		die("known_findings.json: %v", err)
	}
}

// finish applies minimum instance counts, matches known findings, writes the
// evidence and replay files, prints the verdict lines and returns the exit code.
// rematchMoved: table rows and recorded findings are keyed by function and
// construct. When code is moved to another function (a helper is extracted, a
// function is split or renamed) the construct is the same construct, under a
// new key. An open obligation that has no row of its own is matched with a row
// (or a recorded finding) of the same rule and the same construct text that
// nothing used in this run -- its old key no longer exists in the program --
// provided the row's machine-checked anchor, if it has one, holds at the new
// place. Each row is used once; the match is noted in the evidence.
// canonicalConstruct: the text of an expression with the names of its variables blanked: identifiers
// that are not selected (not preceded by a dot) and not called. Field and method names, literals and
// operators stay. `stack.elements[stack_start+i]` and `s.elements[start+k]` are the same construct.
func canonicalConstruct(s string) string {
	var out strings.Builder
	rs := []rune(s)
	isIdentStart := func(r rune) bool { return r == '_' || unicode.IsLetter(r) }
	isIdent := func(r rune) bool { return r == '_' || unicode.IsLetter(r) || unicode.IsDigit(r) }
	for i := 0; i < len(rs); {
		if !isIdentStart(rs[i]) {
			out.WriteRune(rs[i])
			i++
			continue
		}
		j := i
		for j < len(rs) && isIdent(rs[j]) {
			j++
		}
		word := string(rs[i:j])
		selected := i > 0 && rs[i-1] == '.'
		called := j < len(rs) && rs[j] == '('
		keep := selected || called
		switch word {
		case "slice", "index", "len", "cap", "nil", "true", "false", "assert", "panic", "panicOn", "result", "of", "invoke":
			keep = true
		}
		if keep {
			out.WriteString(word)
		} else {
			out.WriteString("_")
		}
		i = j
	}
	return out.String()
}

// namesGone: a rename of a variable removes the old name from the function. The variable names that
// the row's construct has and the new construct has not must not occur as identifiers anywhere in the
// function any more; if one still does, the expression now uses ANOTHER variable (a[i] became a[j]),
// which is a different construct, not a renamed one.
func (c *Ctx) namesGone(fn, oldC, newC string) bool {
	words := func(s string) map[string]bool {
		out := map[string]bool{}
		rs := []rune(s)
		for i := 0; i < len(rs); {
			if !(rs[i] == '_' || unicode.IsLetter(rs[i])) {
				i++
				continue
			}
			j := i
			for j < len(rs) && (rs[j] == '_' || unicode.IsLetter(rs[j]) || unicode.IsDigit(rs[j])) {
				j++
			}
			if !(i > 0 && rs[i-1] == '.') && !(j < len(rs) && rs[j] == '(') {
				out[string(rs[i:j])] = true
			}
			i = j
		}
		return out
	}
	top := fn
	if i := strings.Index(top, "$"); i > 0 {
		top = top[:i]
	}
	fd := c.funcDecl(top)
	if fd == nil || fd.Body == nil {
		return false
	}
	present := map[string]bool{}
	ast.Inspect(fd, func(n ast.Node) bool {
		if id, ok := n.(*ast.Ident); ok {
			present[id.Name] = true
		}
		return true
	})
	nw := words(newC)
	for w := range words(oldC) {
		if !nw[w] && present[w] {
			return false
		}
	}
	return true
}

func (c *Ctx) rematchMoved() {
	strip := func(k string) string {
		if i := strings.LastIndex(k, "#"); i > 0 {
			if _, err := strconv.Atoi(k[i+1:]); err == nil {
				k = k[:i]
			}
		}
		// "recursion on the elements of X through <the routine it goes through>": the route is named
		// after functions, which move and are renamed; the construct is the recursion on X
		if i := strings.Index(k, " through "); i > 0 {
			k = k[:i]
		}
		return k
	}
	liveKeys := map[string]bool{}
	for _, o := range c.obs {
		liveKeys[o.Key] = true
	}
	var freeRows []string
	for k, row := range c.table {
		if !row.used && row.Verdict == "exempt" && !liveKeys[k] {
			freeRows = append(freeRows, k)
		}
	}
	sort.Strings(freeRows)
	usedKnown := map[string]bool{}
	for _, o := range c.obs {
		usedKnown[o.Key] = true
	}
	var moved []string
	for _, o := range c.obs {
		if o.Status != StViolation && o.Status != StUndecided {
			continue
		}
		if _, has := c.table[o.Key]; has {
			continue // it has a row of its own (whose anchor failed)
		}
		isKnown := false
		for i := range c.known.Findings {
			if c.known.Findings[i].Property == c.Prop && c.known.Findings[i].Key == o.Key {
				isKnown = true
			}
		}
		if isKnown {
			continue
		}
		want := o.Rule + "|" + strip(o.Construct)
		matched := false
		for i, k := range freeRows {
			if k == "" {
				continue
			}
			row := c.table[k]
			sameText := row.Rule+"|"+strip(row.Construct) == want
			// or: the same function, and the same expression up to the names of its variables (a local was renamed)
			renamed := row.Rule == o.Rule && row.Fn == o.Fn && canonicalConstruct(strip(row.Construct)) == canonicalConstruct(strip(o.Construct)) &&
				c.namesGone(o.Fn, strip(row.Construct), strip(o.Construct))
			if !sameText && !renamed {
				continue
			}
			if holds, _ := c.anchorHolds(row, o, o.tok); !holds {
				continue
			}
			row.used = true
			freeRows[i] = ""
			o.Status = StExempt
			o.Reason = row.Reason + " [row written for " + row.Fn + "; the construct is now in " + o.Fn + "]"
			moved = append(moved, k+" -> "+o.Key)
			matched = true
			break
		}
		if matched {
			continue
		}
		// a recorded finding whose function no longer carries it
		for i := range c.known.Findings {
			kf := &c.known.Findings[i]
			if kf.Property != c.Prop || usedKnown[kf.Key] {
				continue
			}
			parts := strings.SplitN(kf.Key, "|", 3)
			if len(parts) != 3 || parts[0]+"|"+strip(parts[2]) != want {
				continue
			}
			usedKnown[kf.Key] = true
			moved = append(moved, kf.Key+" -> "+o.Key)
			o.Key = kf.Key // reported as the recorded finding it is
			break
		}
	}
	if len(moved) > 0 {
		c.note("rows_matched_after_a_move", moved)
	}
}

func (c *Ctx) finish() int {
	// instance minima: a rule that matches too little passes vacuously forever.
	count := map[string]int{}
	for _, o := range c.obs {
		count[o.Rule]++
	}
	minRules := []string{}
	for r := range c.mins {
		minRules = append(minRules, r)
	}
	sort.Strings(minRules)
	for _, r := range minRules {
		if count[r] < c.mins[r] {
			c.addp(r, "*", "min_instances", "", StUndecided,
				fmt.Sprintf("rule matched %d instances, fewer than the %d confirmed by reading; the code it was anchored in has moved", count[r], c.mins[r]))
		}
	}
	c.rematchMoved()
	// stale table rows are reported in the thorough tier only as a note
	stale := []string{}
	for k, row := range c.table {
		if !row.used {
			stale = append(stale, k)
		}
	}
	sort.Strings(stale)

	known := map[string]*KnownFinding{}
	for i := range c.known.Findings {
		k := &c.known.Findings[i]
		if k.Property == c.Prop {
			known[k.Key] = k
		}
	}
	var viol, knownHits []*Ob
	nOK, nExempt := 0, 0
	for _, o := range c.obs {
		switch o.Status {
		case StOK:
			nOK++
		case StExempt:
			nExempt++
		default:
			if k, ok := known[o.Key]; ok {
				o.Known = k.What
				knownHits = append(knownHits, o)
			} else {
				viol = append(viol, o)
			}
		}
	}
	if c.Dump {
		for _, o := range c.obs {
			fmt.Printf("OB %-9s %s  @%s  %s\n", o.Status, o.Key, o.Pos, shortStr(o.Detail, 120))
		}
	}
	for _, o := range knownHits {
		fmt.Printf("KNOWN-FINDING: property=%s %s [%s at %s]\n", c.Prop, o.Known, o.Key, o.Pos)
	}

	vdir := filepath.Join(c.Out, "violations")
	os.MkdirAll(vdir, 0o755)
	// remove replay files of earlier runs of this property
	if old, _ := filepath.Glob(filepath.Join(vdir, c.Prop+"-*.json")); old != nil {
		for _, f := range old {
			os.Remove(f)
		}
	}
	for i, o := range viol {
		path := filepath.Join(vdir, fmt.Sprintf("%s-%d.json", c.Prop, i+1))
		rep := map[string]interface{}{
			"property": c.Prop, "rule": o.Rule, "kind": string(o.Status), "key": o.Key,
			"function": o.Fn, "construct": o.Construct, "pos": o.Pos, "path": o.Path, "explanation": o.Detail,
			"replay": fmt.Sprintf("./check %s %s   # re-evaluates every obligation; this one is keyed %q", c.Prop, c.Tier, o.Key),
		}
		b, _ := json.MarshalIndent(rep, "", " ")
		os.WriteFile(path, b, 0o644)
		fmt.Printf("%s %s %s at %s: %s\n", strings.ToUpper(string(o.Status)), o.Rule, o.Key, o.Pos, o.Detail)
		for _, p := range o.Path {
			fmt.Printf("    %s\n", p)
		}
		fmt.Printf("VIOLATION property=%s replay=%s\n", c.Prop, path)
	}

	// evidence
	perRule := map[string]map[string]int{}
	for _, o := range c.obs {
		m := perRule[o.Rule]
		if m == nil {
			m = map[string]int{}
			perRule[o.Rule] = m
		}
		m[string(o.Status)]++
	}
	distinct := map[string]bool{}
	for _, o := range c.obs {
		if !o.Trivial {
			distinct[o.Key] = true
		}
	}
	samples := []interface{}{}
	seenRule := map[string]int{}
	for _, o := range c.obs {
		if seenRule[o.Rule] < 3 {
			seenRule[o.Rule]++
			samples = append(samples, map[string]string{"rule": o.Rule, "key": o.Key, "pos": o.Pos, "status": string(o.Status), "detail": o.Detail})
		}
	}
	wall := time.Since(c.t0).Seconds()
	cov := map[string]interface{}{
		"explanation":            strings.Join(c.explain, " "),
		"obligations":            len(c.obs),
		"discharged":             nOK + nExempt + len(knownHits),
		"discharged_by_rule":     nOK,
		"discharged_by_table":    nExempt,
		"known_findings_hit":     len(knownHits),
		"evaluations":            len(c.obs),
		"distinct_nontrivial":    len(distinct),
		"rule":                   "one obligation per rule instance, keyed rule|function|construct (never a line number); non-trivial = not an anchor-existence check",
		"samples":                samples,
		"per_rule":               perRule,
		"packages_loaded":        c.nPkgs,
		"ssa_functions":          c.nFuncs,
		"config":                 fmt.Sprintf("%s/%s", orDefault(c.GOOS, "host-os"), orDefault(c.GOARCH, "host-arch")),
		"checker_cmd":            fmt.Sprintf("./check %s %s", c.Prop, c.Tier),
		"trusted_base":           []string{"go/types, go/ssa, go/packages (x/tools v0.29.0)", "Go language semantics of the inspected constructs", "tables in zycheck/tables/" + c.Prop + ".tsv (each row: one keyed construct + reason)"},
		"stale_table_rows":       stale,
		"table_anchors_verified": c.anchorsVerified,
	}
	for k, v := range c.notes {
		cov[k] = v
	}
	ev := map[string]interface{}{
		"property_id": c.Prop, "tier": c.Tier, "seed": c.Seed, "level": "other",
		"coverage": cov, "assumptions": c.assume, "wall_s": wall, "violations": len(viol),
	}
	if c.assume == nil {
		ev["assumptions"] = []string{}
	}
	b, _ := json.MarshalIndent(ev, "", " ")
	os.MkdirAll(c.Out, 0o755)
	if err := os.WriteFile(filepath.Join(c.Out, c.Prop+".json"), b, 0o644); err != nil {
		die("write evidence: %v", err)
	}
	fmt.Printf("%s %s: %d obligations (%d by rule, %d by table, %d known findings, %d open) in %.1fs\n",
		c.Prop, c.Tier, len(c.obs), nOK, nExempt, len(knownHits), len(viol), wall)
	if len(viol) > 0 {
		return 1
	}
	return 0
}

func orDefault(s, d string) string {
	if s == "" {
		return d
	}
	return s
}

// countStatus: number of obligations of the rule with the given status so far.
func (c *Ctx) countStatus(rule string, st Status) int {
	n := 0
	for _, o := range c.obs {
		if o.Rule == rule && o.Status == st {
			n++
		}
	}
	return n
}
