package main

// es.go: ES — emission-sequence abstract interpreter for the code generator.
//
// The generator is Go code that builds []Instruction values.  ES interprets the
// syntax tree of every emitter function over a small abstract domain
// (sequences of atoms, linear forms for lengths/offsets, the Tail flag, the
// scopes counter) and hands the resulting templates to the verifier (esv.go).
// Anything it cannot model becomes an `undecided` obligation: it never guesses.

import (
	"strconv"
	"fmt"
	"go/ast"
	"go/constant"
	"go/token"
	"go/types"
	"sort"
	"strings"
)

// ---------------------------------------------------------------- linear forms

type lin struct {
	c     int
	terms map[string]int
}

func linConst(c int) *lin  { return &lin{c: c, terms: map[string]int{}} }
func linSym(s string) *lin { return &lin{terms: map[string]int{s: 1}} }
func (a *lin) clone() *lin {
	b := linConst(a.c)
	for k, v := range a.terms {
		b.terms[k] = v
	}
	return b
}
func (a *lin) add(b *lin) *lin {
	r := a.clone()
	r.c += b.c
	for k, v := range b.terms {
		r.terms[k] += v
		if r.terms[k] == 0 {
			delete(r.terms, k)
		}
	}
	return r
}
func (a *lin) neg() *lin {
	r := linConst(-a.c)
	for k, v := range a.terms {
		r.terms[k] = -v
	}
	return r
}
func (a *lin) sub(b *lin) *lin { return a.add(b.neg()) }
func (a *lin) scale(k int) *lin {
	r := linConst(a.c * k)
	for s, v := range a.terms {
		if v*k != 0 {
			r.terms[s] = v * k
		}
	}
	return r
}
func (a *lin) eq(b *lin) bool {
	d := a.sub(b)
	return d.c == 0 && len(d.terms) == 0
}
func (a *lin) isConst() bool { return len(a.terms) == 0 }
func (a *lin) String() string {
	var ks []string
	for k := range a.terms {
		ks = append(ks, k)
	}
	sort.Strings(ks)
	var parts []string
	for _, k := range ks {
		v := a.terms[k]
		switch v {
		case 1:
			parts = append(parts, k)
		case -1:
			parts = append(parts, "-"+k)
		default:
			parts = append(parts, fmt.Sprintf("%d*%s", v, k))
		}
	}
	if a.c != 0 || len(parts) == 0 {
		parts = append(parts, fmt.Sprint(a.c))
	}
	return strings.Join(parts, "+")
}

// ---------------------------------------------------------------- atoms

type tailVal int

const (
	tailF tailVal = iota // definitely false
	tailT                // possibly true
)

func (t tailVal) String() string {
	if t == tailT {
		return "T?"
	}
	return "F"
}

type scopeVal struct {
	rel bool // entry value + k   (otherwise: absolute k)
	k   int
}

func (s scopeVal) String() string {
	if s.rel {
		return fmt.Sprintf("σ+%d", s.k)
	}
	return fmt.Sprintf("abs %d", s.k)
}

type atom struct {
	kind   string // instruction type name | "Seg" | "Rep"
	pos    token.Pos
	off    *lin // Jump/Branch/Goto offset (nil when not an offset instruction or unknown)
	marker bool // PushInstr{SexpMarker}
	isErr  bool // ReturnInstr with a non-nil error
	n      *lin // operand count for Call/Dispatch/PrepareCall
	// Seg
	id       string
	callee   string
	tail     tailVal
	scopes   scopeVal
	funcSelf bool // the Seg is the acc of a loop
	nvals    *lin // values a Seg leaves (default 1)
	tailEnd  bool // an acc blob whose last element was generated with Tail possibly true
	// Rep
	alts     [][]*atom
	count    string
	countLin *lin
	// break/continue
	scopesToPop *lin
	origin      string // which generator variable emitted it (diagnostics)
}

func (a *atom) String() string {
	switch a.kind {
	case "Seg":
		nv := ""
		if a.nvals != nil && !(a.nvals.isConst() && a.nvals.c == 1) {
			nv = " n=" + a.nvals.String()
		}
		return fmt.Sprintf("S<%s %s %s%s>", a.callee, a.tail, a.scopes, nv)
	case "Rep":
		var alts []string
		for _, alt := range a.alts {
			alts = append(alts, seqString(alt))
		}
		return "{" + strings.Join(alts, " | ") + "}×" + a.count
	}
	s := strings.TrimSuffix(a.kind, "Instr")
	if a.off != nil {
		s += "(" + a.off.String() + ")"
	}
	if a.marker {
		s += "(Marker)"
	}
	if a.isErr {
		s += "(err)"
	}
	if a.n != nil {
		s += "[" + a.n.String() + "]"
	}
	if a.scopesToPop != nil {
		s += "{pop " + a.scopesToPop.String() + "}"
	}
	return s
}

func seqString(seq []*atom) string {
	var parts []string
	for _, a := range seq {
		parts = append(parts, a.String())
	}
	if len(parts) == 0 {
		return "ε"
	}
	return strings.Join(parts, " ")
}

// atomLen: the number of instructions an atom stands for.
func atomLen(a *atom) *lin {
	switch a.kind {
	case "Seg":
		return linSym("L" + a.id)
	case "Rep":
		// all alternatives are required to have the same length form by the verifier; use the first
		l := seqLen(a.alts[0])
		if l.isConst() {
			return linSym(a.count).scale(l.c)
		}
		return linSym("R" + a.id) // symbolic: body length not constant
	}
	return linConst(1)
}

func seqLen(seq []*atom) *lin {
	l := linConst(0)
	for _, a := range seq {
		l = l.add(atomLen(a))
	}
	return l
}

// ---------------------------------------------------------------- interpreter state

type genState struct {
	name   string
	seq    []*atom
	tail   tailVal
	scopes scopeVal
}

type esValue struct {
	gen   int     // index into state.gens, -1 if not a generator
	seq   []*atom // sequence value
	isSeq bool
	num   *lin
	tail  *tailVal
	instr *atom
	cbool *bool
}

type loopEvent struct {
	field string
	val   *lin
	pos   token.Pos
}

type esState struct {
	gens     []*genState
	env      map[types.Object]*esValue
	done     bool // returned successfully
	dropped  bool // error path
	events   []loopEvent
	brk      int // loop control: 1 = unlabeled break, 2 = continue / labeled break
	segCount *int
	startLen map[types.Object]int
	decided  map[string]bool
}

func (s *esState) clone() *esState {
	n := &esState{env: map[types.Object]*esValue{}, done: s.done, dropped: s.dropped, brk: s.brk, segCount: s.segCount}
	for _, g := range s.gens {
		cp := *g
		cp.seq = append([]*atom(nil), g.seq...)
		n.gens = append(n.gens, &cp)
	}
	for k, v := range s.env {
		cp := *v
		if v.isSeq {
			cp.seq = append([]*atom(nil), v.seq...)
		}
		n.env[k] = &cp
	}
	n.events = append([]loopEvent(nil), s.events...)
	n.decided = map[string]bool{}
	for k, v := range s.decided {
		n.decided[k] = v
	}
	return n
}

// esResult is what the interpreter hands to the verifier for one function.
type esTemplate struct {
	fn    string
	what  string // "return" | "loop var <name>" | "subgen <name>"
	seq   []*atom
	pos   token.Pos
	state *esState
	entry []*atom // for function templates: nothing; for loop vars: the acc atom
}

type esProblem struct {
	fn     string
	pos    token.Pos
	what   string
	detail string
}

type ES struct {
	derivedEmitters map[string]bool
	c           *Ctx
	info        *types.Info
	instrT      *types.Interface
	genT        *types.Named
	templates   []*esTemplate
	problems    []esProblem
	curFn       string
	segN        int
	emitters    map[string]bool
	closures    map[types.Object]*ast.FuncLit
	entryTail   map[string]tailVal
	mayTailJump func(a *atom) bool
	equalLens   map[string]string
}

func (es *ES) problem(pos token.Pos, what, detail string) {
	es.problems = append(es.problems, esProblem{es.curFn, pos, what, detail})
}

func newES(c *Ctx) *ES {
	es := &ES{c: c, info: c.Zygo.TypesInfo, emitters: map[string]bool{}, closures: map[types.Object]*ast.FuncLit{}}
	if n := c.named("Instruction"); n != nil {
		es.instrT, _ = n.Underlying().(*types.Interface)
	}
	es.genT = c.named("Generator")
	return es
}

func (es *ES) isGenType(t types.Type) bool {
	if p, ok := t.(*types.Pointer); ok {
		t = p.Elem()
	}
	return es.genT != nil && types.Identical(t, es.genT)
}

func (es *ES) isSeqType(t types.Type) bool {
	if t == nil {
		return false
	}
	if sl, ok := t.Underlying().(*types.Slice); ok {
		if n, ok := sl.Elem().(*types.Named); ok && n.Obj().Name() == "Instruction" {
			return true
		}
	}
	return false
}

func (es *ES) isInstrType(t types.Type) bool {
	if t == nil || es.instrT == nil {
		return false
	}
	if n, ok := t.(*types.Named); ok && n.Obj().Name() == "Instruction" {
		return true
	}
	return false
}

// ---------------------------------------------------------------- running a function

// runFunc interprets fd. recv is the receiver/generator variable object (nil
// for plain functions that create their own generator).
// lockstepSlices finds pairs of local slices that are each appended exactly
// once in the body of the same loop: their lengths are equal afterwards.
func (es *ES) lockstepSlices(fd *ast.FuncDecl) map[string]string {
	out := map[string]string{}
	ast.Inspect(fd.Body, func(n ast.Node) bool {
		var body *ast.BlockStmt
		switch x := n.(type) {
		case *ast.ForStmt:
			body = x.Body
		case *ast.RangeStmt:
			body = x.Body
		default:
			return true
		}
		counts := map[string]int{}
		ast.Inspect(body, func(m ast.Node) bool {
			as, ok := m.(*ast.AssignStmt)
			if !ok || len(as.Lhs) != 1 || len(as.Rhs) != 1 {
				return true
			}
			id, ok := as.Lhs[0].(*ast.Ident)
			if !ok {
				return true
			}
			call, ok := as.Rhs[0].(*ast.CallExpr)
			if !ok || len(call.Args) != 2 || call.Ellipsis.IsValid() {
				return true
			}
			if f, ok := call.Fun.(*ast.Ident); ok && f.Name == "append" {
				if a0, ok := call.Args[0].(*ast.Ident); ok && a0.Name == id.Name {
					counts[id.Name]++
				}
			}
			return true
		})
		var names []string
		for k, v := range counts {
			if v == 1 {
				names = append(names, k)
			}
		}
		sort.Strings(names)
		for i := 1; i < len(names); i++ {
			out["#len("+names[i]+")"] = "#len(" + names[0] + ")"
		}
		return true
	})
	return out
}

func (es *ES) runFunc(fd *ast.FuncDecl, entryTail tailVal) {
	es.curFn = declName(fd)
	es.equalLens = es.lockstepSlices(fd)
	st := &esState{env: map[types.Object]*esValue{}}
	if fd.Recv != nil && len(fd.Recv.List) == 1 && len(fd.Recv.List[0].Names) == 1 {
		obj := es.info.Defs[fd.Recv.List[0].Names[0]]
		if obj != nil && es.isGenType(obj.Type()) {
			st.gens = append(st.gens, &genState{name: obj.Name(), tail: entryTail, scopes: scopeVal{rel: true}})
			st.env[obj] = &esValue{gen: 0}
		}
	}
	outs := es.execBlock(fd.Body.List, st)
	n := 0
	for _, o := range outs {
		if o.dropped {
			continue
		}
		n++
		// the template of the function is what its own generator (gens[0]) received
		if len(o.gens) > 0 {
			es.templates = append(es.templates, &esTemplate{fn: es.curFn, what: "return", seq: o.gens[0].seq, pos: fd.Pos(), state: o})
		}
	}
	if n == 0 {
		es.problem(fd.Pos(), "no success path", "the interpreter found no path on which the function returns without error")
	}
}

// ---------------------------------------------------------------- statements

func (es *ES) execBlock(stmts []ast.Stmt, st *esState) []*esState {
	states := []*esState{st}
	for _, s := range stmts {
		var next []*esState
		for _, cur := range states {
			if cur.done || cur.dropped || cur.brk != 0 {
				next = append(next, cur)
				continue
			}
			next = append(next, es.execStmt(s, cur)...)
		}
		var kept []*esState
		for _, x := range next {
			if !x.dropped {
				kept = append(kept, x)
			}
		}
		if len(kept) == 0 && len(next) > 0 {
			kept = next[:1] // keep one dropped state so callers see the path ended in an error
		}
		states = kept
		if len(states) > 64 {
			es.problem(s.Pos(), "path explosion", "more than 64 paths")
			return states[:64]
		}
	}
	return states
}

func (es *ES) touches(n ast.Node, st *esState) bool {
	t := false
	ast.Inspect(n, func(x ast.Node) bool {
		if t {
			return false
		}
		switch y := x.(type) {
		case *ast.Ident:
			if obj := es.info.Uses[y]; obj != nil {
				if _, ok := st.env[obj]; ok {
					t = true
				}
				if _, ok := es.closures[obj]; ok {
					t = true
				}
				if es.isGenType(obj.Type()) || es.isSeqType(obj.Type()) || es.isInstrType(obj.Type()) {
					t = true
				}
			}
			if obj := es.info.Defs[y]; obj != nil {
				if es.isGenType(obj.Type()) || es.isSeqType(obj.Type()) || es.isInstrType(obj.Type()) {
					t = true
				}
			}
		case *ast.CallExpr:
			if id, ok := y.Fun.(*ast.Ident); ok && (id.Name == "NewGenerator") {
				t = true
			}
		case *ast.FuncLit:
			// closures are interpreted only when called; a literal that mentions tracked state is noted
		}
		return true
	})
	return t
}

func isNilIdent(e ast.Expr) bool {
	id, ok := e.(*ast.Ident)
	return ok && id.Name == "nil"
}

// isErrCheck: `if err != nil` (possibly with init) whose body ends in a return.
func (es *ES) isErrCheck(s *ast.IfStmt) bool {
	be, ok := s.Cond.(*ast.BinaryExpr)
	if !ok || be.Op != token.NEQ || !isNilIdent(be.Y) {
		return false
	}
	t := es.info.TypeOf(be.X)
	if t == nil || !isErrorType(t) {
		return false
	}
	if len(s.Body.List) == 0 {
		return false
	}
	_, isRet := s.Body.List[len(s.Body.List)-1].(*ast.ReturnStmt)
	return isRet && s.Else == nil
}

func (es *ES) execStmt(s ast.Stmt, st *esState) []*esState {
	switch x := s.(type) {
	case *ast.BlockStmt:
		return es.execBlock(x.List, st)
	case *ast.EmptyStmt:
		return []*esState{st}
	case *ast.LabeledStmt:
		return es.execStmt(x.Stmt, st)
	case *ast.DeferStmt:
		if sel, ok := x.Call.Fun.(*ast.SelectorExpr); ok && es.genOf(sel.X, st) != nil {
			es.problem(x.Pos(), "deferred generator call", exprShort(x.Call))
		}
		return []*esState{st}
	case *ast.DeclStmt:
		if gd, ok := x.Decl.(*ast.GenDecl); ok {
			for _, sp := range gd.Specs {
				vs, ok := sp.(*ast.ValueSpec)
				if !ok {
					continue
				}
				for i, name := range vs.Names {
					obj := es.info.Defs[name]
					if obj == nil {
						continue
					}
					if i < len(vs.Values) {
						es.assign(obj, name.Pos(), vs.Values[i], st)
					} else if es.isSeqType(obj.Type()) {
						st.env[obj] = &esValue{gen: -1, isSeq: true}
					}
				}
			}
		}
		return []*esState{st}
	case *ast.ExprStmt:
		if call, ok := x.X.(*ast.CallExpr); ok {
			if id, ok := call.Fun.(*ast.Ident); ok && id.Name == "panic" {
				st.dropped = true
				return []*esState{st}
			}
			es.execCall(call, st, nil)
		}
		return []*esState{st}
	case *ast.IncDecStmt:
		if sel, ok := x.X.(*ast.SelectorExpr); ok {
			if g := es.genOf(sel.X, st); g != nil && sel.Sel.Name == "scopes" {
				if x.Tok == token.INC {
					g.scopes.k++
				} else {
					g.scopes.k--
				}
				return []*esState{st}
			}
		}
		if id, ok := x.X.(*ast.Ident); ok {
			if v, ok := st.env[es.info.Uses[id]]; ok && v.num != nil {
				d := 1
				if x.Tok == token.DEC {
					d = -1
				}
				v.num = v.num.add(linConst(d))
			}
		}
		return []*esState{st}
	case *ast.AssignStmt:
		return es.execAssign(x, st)
	case *ast.ReturnStmt:
		return es.execReturn(x, st)
	case *ast.IfStmt:
		return es.execIf(x, st)
	case *ast.SwitchStmt:
		return es.execSwitch(x.Init, x.Body, st, x)
	case *ast.TypeSwitchStmt:
		return es.execSwitch(x.Init, x.Body, st, x)
	case *ast.ForStmt:
		return es.execLoop(x, x.Body, "", st)
	case *ast.RangeStmt:
		return es.execLoop(x, x.Body, exprShort(x.X), st)
	case *ast.BranchStmt:
		switch x.Tok {
		case token.BREAK:
			if x.Label != nil {
				st.brk = 2
			} else {
				st.brk = 1
			}
		case token.CONTINUE:
			st.brk = 2
		case token.GOTO:
			if es.touches(x, st) {
				es.problem(x.Pos(), "goto", "not modelled")
			}
		}
		return []*esState{st}
	case *ast.GoStmt, *ast.SelectStmt, *ast.SendStmt:
		if es.touches(s, st) {
			es.problem(s.Pos(), "unmodelled statement", fmt.Sprintf("%T", s))
		}
		return []*esState{st}
	}
	if es.touches(s, st) {
		es.problem(s.Pos(), "unmodelled statement", fmt.Sprintf("%T", s))
	}
	return []*esState{st}
}

func (es *ES) execIf(x *ast.IfStmt, st *esState) []*esState {
	if x.Init != nil {
		// `if err := X.Generate(e); err != nil {return err}`
		outs := es.execStmt(x.Init, st)
		if len(outs) != 1 {
			es.problem(x.Pos(), "if-init forks", "")
		}
		st = outs[0]
	}
	if es.isErrCheck(x) {
		return []*esState{st} // error path dropped
	}
	// conditions on the tail flag / tracked booleans
	if known, val := es.evalCond(x.Cond, st); known {
		if val {
			return es.execBlock(x.Body.List, st)
		}
		if x.Else != nil {
			return es.execStmt(x.Else, st)
		}
		return []*esState{st}
	}
	condText := exprShort(x.Cond)
	if v, ok := st.decided[condText]; ok {
		if v {
			return es.execBlock(x.Body.List, st)
		}
		if x.Else != nil {
			return es.execStmt(x.Else, st)
		}
		return []*esState{st}
	}
	bodyTouches := es.touches(x.Body, st) || es.hasReturn(x.Body)
	elseTouches := x.Else != nil && (es.touches(x.Else, st) || es.hasReturn(x.Else))
	if !bodyTouches && !elseTouches {
		return []*esState{st}
	}
	thenSt := st.clone()
	thenSt.decided[condText] = true
	outs := es.execBlock(x.Body.List, thenSt)
	elseSt := st
	if elseSt.decided == nil {
		elseSt.decided = map[string]bool{}
	}
	elseSt.decided[condText] = false
	if x.Else != nil {
		outs = append(outs, es.execStmt(x.Else, elseSt)...)
	} else {
		outs = append(outs, elseSt)
	}
	return outs
}

func (es *ES) hasReturn(n ast.Node) bool {
	found := false
	ast.Inspect(n, func(x ast.Node) bool {
		if _, ok := x.(*ast.FuncLit); ok {
			return false
		}
		if _, ok := x.(*ast.ReturnStmt); ok {
			found = true
		}
		return !found
	})
	return found
}

// evalCond: decide conditions that depend only on tracked tail booleans.
func (es *ES) evalCond(e ast.Expr, st *esState) (known bool, val bool) {
	switch x := e.(type) {
	case *ast.ParenExpr:
		return es.evalCond(x.X, st)
	case *ast.Ident:
		if v, ok := st.env[es.info.Uses[x]]; ok && v.tail != nil {
			if *v.tail == tailF {
				return true, false
			}
		}
		if v, ok := st.env[es.info.Uses[x]]; ok && v.cbool != nil {
			return true, *v.cbool
		}
		if x.Name == "true" {
			return true, true
		}
		if x.Name == "false" {
			return true, false
		}
	case *ast.SelectorExpr:
		if g := es.genOf(x.X, st); g != nil && x.Sel.Name == "Tail" && g.tail == tailF {
			return true, false
		}
	case *ast.BinaryExpr:
		if x.Op == token.LAND {
			k1, v1 := es.evalCond(x.X, st)
			k2, v2 := es.evalCond(x.Y, st)
			if (k1 && !v1) || (k2 && !v2) {
				return true, false
			}
			if k1 && k2 {
				return true, v1 && v2
			}
		}
		if x.Op == token.LOR {
			k1, v1 := es.evalCond(x.X, st)
			k2, v2 := es.evalCond(x.Y, st)
			if (k1 && v1) || (k2 && v2) {
				return true, true
			}
			if k1 && k2 {
				return true, v1 || v2
			}
		}
		if x.Op == token.GTR || x.Op == token.LSS {
			a, b := es.evalInt(x.X, st), es.evalInt(x.Y, st)
			if a != nil && b != nil {
				d := a.sub(b)
				if x.Op == token.LSS {
					d = d.neg()
				}
				// d > 0 ?  a sum of segment lengths with positive coefficients: true unless the forms were empty;
				// ES assumes non-empty forms here (an empty form emits nothing and needs no pop).
				onlyL, pos := len(d.terms) > 0, true
				for k2, v2 := range d.terms {
					if !strings.HasPrefix(k2, "L") {
						onlyL = false
					}
					if v2 < 0 {
						pos = false
					}
				}
				if onlyL && pos && d.c >= 0 {
					return true, true
				}
				if d.isConst() {
					return true, d.c > 0
				}
			}
		}
	case *ast.UnaryExpr:
		if x.Op == token.NOT {
			k, v := es.evalCond(x.X, st)
			if k {
				return true, !v
			}
		}
	}
	return false, false
}

func (es *ES) execSwitch(init ast.Stmt, body *ast.BlockStmt, st *esState, whole ast.Stmt) []*esState {
	if init != nil {
		outs := es.execStmt(init, st)
		st = outs[0]
	}
	touches := false
	for _, cl := range body.List {
		if es.touches(cl, st) || es.hasReturn(cl) {
			touches = true
		}
	}
	if !touches {
		return []*esState{st}
	}
	var outs []*esState
	hasDefault := false
	skipAdded := false
	for _, cl := range body.List {
		cc := cl.(*ast.CaseClause)
		if cc.List == nil {
			hasDefault = true
		}
		if !es.touches(cc, st) && !es.hasReturn(cc) && !hasPanic(cc) {
			// clauses that neither emit nor leave the function are all the same path
			if !skipAdded {
				skipAdded = true
				outs = append(outs, st.clone())
			}
			continue
		}
		// a clause that only returns an error is an error path
		br := st.clone()
		// `switch tag { case "lit": ... }` decides tag=="lit" on that path, like the if-form
		if sw, ok := whole.(*ast.SwitchStmt); ok && sw.Tag != nil && len(cc.List) == 1 {
			if br.decided == nil {
				br.decided = map[string]bool{}
			}
			br.decided[exprShort(sw.Tag)+"=="+exprShort(cc.List[0])] = true
		}
		// bind the type-switch variable if any: not tracked
		res := es.execBlock(cc.Body, br)
		for _, r := range res {
			if r.brk == 1 {
				r.brk = 0 // an unlabeled break leaves the switch only
			}
			outs = append(outs, r)
		}
	}
	if !hasDefault {
		outs = append(outs, st) // no clause taken
	}
	return outs
}

func (es *ES) execReturn(x *ast.ReturnStmt, st *esState) []*esState {
	if len(x.Results) == 0 {
		st.done = true
		return []*esState{st}
	}
	last := x.Results[len(x.Results)-1]
	t := es.info.TypeOf(last)
	if len(x.Results) == 1 {
		if call, ok := last.(*ast.CallExpr); ok {
			// return X.GenerateY(...): delegation
			if es.execCall(call, st, nil) {
				st.done = true
				return []*esState{st}
			}
		}
	}
	if isNilIdent(last) || (t != nil && !isErrorType(t) && !strings.Contains(t.String(), "error")) {
		st.done = true
		return []*esState{st}
	}
	if tt, ok := t.(*types.Tuple); ok && tt.Len() > 0 {
		// return f() where f returns (..., error): treat as delegation only if it emits
		if call, ok := last.(*ast.CallExpr); ok && es.execCall(call, st, nil) {
			st.done = true
			return []*esState{st}
		}
	}
	st.dropped = true
	return []*esState{st}
}

// ---------------------------------------------------------------- expressions

func (es *ES) genOf(e ast.Expr, st *esState) *genState {
	if p, ok := e.(*ast.ParenExpr); ok {
		return es.genOf(p.X, st)
	}
	id, ok := e.(*ast.Ident)
	if !ok {
		return nil
	}
	v, ok := st.env[es.info.Uses[id]]
	if !ok || v.gen < 0 || v.gen >= len(st.gens) {
		return nil
	}
	return st.gens[v.gen]
}

func (es *ES) evalSeq(e ast.Expr, st *esState) ([]*atom, bool) {
	switch x := e.(type) {
	case *ast.ParenExpr:
		return es.evalSeq(x.X, st)
	case *ast.Ident:
		if v, ok := st.env[es.info.Uses[x]]; ok && v.isSeq {
			return v.seq, true
		}
	case *ast.SelectorExpr:
		if g := es.genOf(x.X, st); g != nil && x.Sel.Name == "instructions" {
			return append([]*atom(nil), g.seq...), true
		}
	case *ast.CallExpr:
		if id, ok := x.Fun.(*ast.Ident); ok && id.Name == "append" && len(x.Args) == 2 && x.Ellipsis.IsValid() {
			a, ok1 := es.evalSeq(x.Args[0], st)
			b, ok2 := es.evalSeq(x.Args[1], st)
			if ok1 && ok2 {
				return append(append([]*atom(nil), a...), b...), true
			}
		}
		if id, ok := x.Fun.(*ast.Ident); ok && id.Name == "make" && len(x.Args) >= 1 && es.isSeqType(es.info.TypeOf(x)) {
			return nil, true
		}
		// conversion ZlispFunction(seq)
		if len(x.Args) == 1 {
			if tv, ok := es.info.Types[x.Fun]; ok && tv.IsType() {
				return es.evalSeq(x.Args[0], st)
			}
		}
	}
	return nil, false
}

func (es *ES) evalInt(e ast.Expr, st *esState) *lin {
	if tv, ok := es.info.Types[e]; ok && tv.Value != nil && tv.Value.Kind() == constant.Int {
		v, _ := constant.Int64Val(tv.Value)
		return linConst(int(v))
	}
	switch x := e.(type) {
	case *ast.ParenExpr:
		return es.evalInt(x.X, st)
	case *ast.Ident:
		if v, ok := st.env[es.info.Uses[x]]; ok && v.num != nil {
			return v.num
		}
		// an untracked int variable: symbolic by name (e.g. n := len(args))
		if obj := es.info.Uses[x]; obj != nil {
			if b, ok := obj.Type().Underlying().(*types.Basic); ok && b.Info()&types.IsInteger != 0 {
				return linSym("#" + x.Name)
			}
		}
	case *ast.CallExpr:
		if id, ok := x.Fun.(*ast.Ident); ok && id.Name == "len" && len(x.Args) == 1 {
			if seq, ok := es.evalSeq(x.Args[0], st); ok {
				return seqLen(seq)
			}
			name := "#len(" + exprShort(x.Args[0]) + ")"
			if c2, ok := es.equalLens[name]; ok {
				name = c2
			}
			return linSym(name)
		}
	case *ast.BinaryExpr:
		a, b := es.evalInt(x.X, st), es.evalInt(x.Y, st)
		if a == nil || b == nil {
			return nil
		}
		switch x.Op {
		case token.ADD:
			return a.add(b)
		case token.SUB:
			return a.sub(b)
		case token.MUL:
			if a.isConst() {
				return b.scale(a.c)
			}
			if b.isConst() {
				return a.scale(b.c)
			}
		}
	case *ast.SelectorExpr:
		if g := es.genOf(x.X, st); g != nil && x.Sel.Name == "scopes" {
			if g.scopes.rel {
				return linSym("σ").add(linConst(g.scopes.k))
			}
			return linConst(g.scopes.k)
		}
		return linSym("#" + exprShort(x))
	}
	return nil
}

// evalInstr builds the atom for an instruction-valued expression.
func (es *ES) evalInstr(e ast.Expr, st *esState) *atom {
	switch x := e.(type) {
	case *ast.ParenExpr:
		return es.evalInstr(x.X, st)
	case *ast.Ident:
		if v, ok := st.env[es.info.Uses[x]]; ok && v.instr != nil {
			cp := *v.instr
			return &cp
		}
	case *ast.UnaryExpr:
		if x.Op == token.AND {
			return es.evalInstr(x.X, st)
		}
	case *ast.CallExpr:
		// conversion T(0)
		if tv, ok := es.info.Types[x.Fun]; ok && tv.IsType() {
			if n, ok := tv.Type.(*types.Named); ok {
				return &atom{kind: n.Obj().Name(), pos: x.Pos()}
			}
		}
	case *ast.CompositeLit:
		t := es.info.TypeOf(x)
		n, ok := t.(*types.Named)
		if !ok {
			return nil
		}
		a := &atom{kind: n.Obj().Name(), pos: x.Pos()}
		field := func(name string, idx int) ast.Expr {
			for i, el := range x.Elts {
				if kv, ok := el.(*ast.KeyValueExpr); ok {
					if k, ok := kv.Key.(*ast.Ident); ok && k.Name == name {
						return kv.Value
					}
				} else if i == idx {
					return el
				}
			}
			return nil
		}
		switch a.kind {
		case "BranchInstr":
			if v := field("location", 1); v != nil {
				a.off = es.evalInt(v, st)
			}
			if a.off == nil {
				es.problem(x.Pos(), "branch offset not understood", exprShort(x))
				a.off = linSym("?")
			}
		case "JumpInstr":
			if v := field("addpc", 0); v != nil {
				a.off = es.evalInt(v, st)
			}
			if a.off == nil {
				es.problem(x.Pos(), "jump offset not understood", exprShort(x))
				a.off = linSym("?")
			}
		case "GotoInstr":
			if v := field("location", 0); v != nil {
				a.off = es.evalInt(v, st)
			}
		case "PushInstr":
			if v := field("expr", 0); v != nil {
				if id, ok := v.(*ast.Ident); ok && id.Name == "SexpMarker" {
					a.marker = true
				}
			}
		case "ReturnInstr":
			if v := field("err", 0); v != nil && !isNilIdent(v) {
				a.isErr = true
			}
		case "CallInstr":
			if v := field("nargs", 1); v != nil {
				a.n = es.evalInt(v, st)
			}
		case "DispatchInstr":
			if v := field("nargs", 0); v != nil {
				a.n = es.evalInt(v, st)
			}
		case "PrepareCallInstr":
			if v := field("nargs", 1); v != nil {
				a.n = es.evalInt(v, st)
			}
			if v := field("skip", 2); v != nil {
				a.off = es.evalInt(v, st)
			}
		case "BreakInstr", "ContinueInstr":
			if v := field("scopesToPop", 1); v != nil {
				a.scopesToPop = es.evalInt(v, st)
			}
		}
		return a
	}
	return nil
}

func (es *ES) evalTail(e ast.Expr, st *esState) (tailVal, bool) {
	switch x := e.(type) {
	case *ast.Ident:
		if x.Name == "true" {
			return tailT, true
		}
		if x.Name == "false" {
			return tailF, true
		}
		if v, ok := st.env[es.info.Uses[x]]; ok && v.tail != nil {
			return *v.tail, true
		}
	case *ast.SelectorExpr:
		if g := es.genOf(x.X, st); g != nil && x.Sel.Name == "Tail" {
			return g.tail, true
		}
	}
	return tailT, false
}

// ---------------------------------------------------------------- assignments

func (es *ES) assign(obj types.Object, pos token.Pos, rhs ast.Expr, st *esState) {
	if obj == nil {
		return
	}
	if lit, ok := rhs.(*ast.FuncLit); ok {
		es.closures[obj] = lit
		return
	}
	t := obj.Type()
	switch {
	case es.isGenType(t):
		if call, ok := rhs.(*ast.CallExpr); ok {
			name := ""
			switch f := call.Fun.(type) {
			case *ast.Ident:
				name = f.Name
			case *ast.SelectorExpr:
				name = f.Sel.Name
			}
			if name == "NewGenerator" || name == "NewSubGenerator" {
				st.gens = append(st.gens, &genState{name: obj.Name(), tail: tailF, scopes: scopeVal{rel: false, k: 0}})
				st.env[obj] = &esValue{gen: len(st.gens) - 1}
				return
			}
			// a helper of the generator that makes a sub-generator and sets its fields
			if sel, isSel := call.Fun.(*ast.SelectorExpr); isSel {
				if parent := es.genOf(sel.X, st); parent != nil {
					if tl, fromRecv, kc, isCtor := es.ctorHelper(name); isCtor {
						ng := &genState{name: obj.Name(), tail: tl, scopes: scopeVal{rel: false, k: 0}}
						if fromRecv {
							ng.scopes = parent.scopes
						} else if kc != nil {
							ng.scopes = scopeVal{rel: false, k: int(*kc)}
						}
						st.gens = append(st.gens, ng)
						st.env[obj] = &esValue{gen: len(st.gens) - 1}
						return
					}
				}
			}
		}
		es.problem(pos, "generator assigned from an unmodelled expression", exprShort(rhs))
	case es.isSeqType(t):
		if seq, ok := es.evalSeq(rhs, st); ok {
			st.env[obj] = &esValue{gen: -1, isSeq: true, seq: seq}
			return
		}
		es.problem(pos, "instruction sequence assigned from an unmodelled expression", exprShort(rhs))
	case es.isInstrType(t):
		if a := es.evalInstr(rhs, st); a != nil {
			st.env[obj] = &esValue{gen: -1, instr: a}
			return
		}
		es.problem(pos, "instruction variable assigned from an unmodelled expression", exprShort(rhs))
	default:
		if b, ok := t.Underlying().(*types.Basic); ok {
			if b.Info()&types.IsInteger != 0 {
				if v := es.evalInt(rhs, st); v != nil {
					st.env[obj] = &esValue{gen: -1, num: v}
				} else {
					delete(st.env, obj)
				}
				return
			}
			if b.Info()&types.IsBoolean != 0 {
				if id, isId := rhs.(*ast.Ident); isId && (id.Name == "true" || id.Name == "false") {
					bv := id.Name == "true"
					st.env[obj] = &esValue{gen: -1, cbool: &bv}
					return
				}
				if tv, ok := es.evalTail(rhs, st); ok {
					if sel, isSel := rhs.(*ast.SelectorExpr); isSel && sel.Sel.Name == "Tail" {
						st.env[obj] = &esValue{gen: -1, tail: &tv}
						return
					}
					if id, isId := rhs.(*ast.Ident); isId {
						if v, ok := st.env[es.info.Uses[id]]; ok && v.tail != nil {
							st.env[obj] = &esValue{gen: -1, tail: &tv}
							return
						}
					}
				}
			}
		}
		// results of calls that may emit (err := X.Generate(e))
		if call, ok := rhs.(*ast.CallExpr); ok {
			es.execCall(call, st, nil)
		}
	}
}

func (es *ES) execAssign(x *ast.AssignStmt, st *esState) []*esState {
	for _, l := range x.Lhs {
		if id, ok := l.(*ast.Ident); ok && id.Name != "_" && id.Name != "err" {
			for k := range st.decided {
				if strings.Contains(k, id.Name) {
					delete(st.decided, k)
				}
			}
		}
	}
	// op-assign on tracked ints
	if x.Tok != token.ASSIGN && x.Tok != token.DEFINE {
		if len(x.Lhs) == 1 {
			if id, ok := x.Lhs[0].(*ast.Ident); ok {
				if v, ok := st.env[es.info.Uses[id]]; ok && v.num != nil {
					r := es.evalInt(x.Rhs[0], st)
					if r != nil && x.Tok == token.ADD_ASSIGN {
						v.num = v.num.add(r)
					} else if r != nil && x.Tok == token.SUB_ASSIGN {
						v.num = v.num.sub(r)
					} else {
						v.num = nil
					}
				}
			}
		}
		return []*esState{st}
	}
	// scalars lose their tracked value unless the right-hand side is modelled again below
	for _, l := range x.Lhs {
		if id, ok := l.(*ast.Ident); ok {
			obj := es.info.Uses[id]
			if obj == nil {
				obj = es.info.Defs[id]
			}
			if v, ok := st.env[obj]; ok && (v.num != nil || v.tail != nil || v.cbool != nil) {
				delete(st.env, obj)
			}
		}
	}
	// multi-value from one call: a, err := f(...)
	if len(x.Rhs) == 1 && len(x.Lhs) > 1 {
		if call, ok := x.Rhs[0].(*ast.CallExpr); ok {
			es.execCall(call, st, nil)
		}
		return []*esState{st}
	}
	for i, lhs := range x.Lhs {
		if i >= len(x.Rhs) {
			break
		}
		rhs := x.Rhs[i]
		switch l := lhs.(type) {
		case *ast.Ident:
			if l.Name == "_" {
				if call, ok := rhs.(*ast.CallExpr); ok {
					es.execCall(call, st, nil)
				}
				continue
			}
			obj := es.info.Defs[l]
			if obj == nil {
				obj = es.info.Uses[l]
			}
			es.assign(obj, l.Pos(), rhs, st)
		case *ast.SelectorExpr:
			if g := es.genOf(l.X, st); g != nil {
				switch l.Sel.Name {
				case "Tail":
					if tv, ok := es.evalTail(rhs, st); ok {
						g.tail = tv
					} else {
						g.tail = tailT
						es.problem(l.Pos(), "Tail assigned from an unmodelled expression", exprShort(rhs))
					}
				case "scopes":
					if sel, ok := rhs.(*ast.SelectorExpr); ok && sel.Sel.Name == "scopes" {
						if g2 := es.genOf(sel.X, st); g2 != nil {
							g.scopes = g2.scopes
							continue
						}
					}
					if v := es.evalInt(rhs, st); v != nil && v.isConst() {
						g.scopes = scopeVal{rel: false, k: v.c}
						continue
					}
					es.problem(l.Pos(), "scopes assigned from an unmodelled expression", exprShort(rhs))
				case "instructions":
					if seq, ok := es.evalSeq(rhs, st); ok {
						g.seq = seq
					} else {
						es.problem(l.Pos(), "instructions assigned from an unmodelled expression", exprShort(rhs))
					}
				case "funcname", "knownFunctions", "env", "self":
				default:
					es.problem(l.Pos(), "generator field assignment not modelled", l.Sel.Name)
				}
				continue
			}
			// loop.breakOffset = ... etc.
			switch l.Sel.Name {
			case "breakOffset", "continueOffset", "loopStart":
				if v := es.evalInt(rhs, st); v != nil {
					st.events = append(st.events, loopEvent{l.Sel.Name, v, l.Pos()})
				} else {
					es.problem(l.Pos(), "loop offset not understood", exprShort(rhs))
				}
			default:
				if call, ok := rhs.(*ast.CallExpr); ok {
					es.execCall(call, st, nil)
				}
			}
		default:
			if call, ok := rhs.(*ast.CallExpr); ok {
				es.execCall(call, st, nil)
			}
		}
	}
	return []*esState{st}
}

// ---------------------------------------------------------------- calls

// emitterMethod: does the *Generator method emit instructions (directly or not)?
func (es *ES) emitterMethod(name string) bool {
	if strings.HasPrefix(name, "Generate") || strings.HasPrefix(name, "generate") {
		return true
	}
	// whatever it is called: a method of the generator that emits into its receiver, directly or through
	// another such method (derived once from the method bodies)
	if es.derivedEmitters == nil {
		es.derivedEmitters = map[string]bool{}
		bodies := map[string]*ast.FuncDecl{}
		for _, f := range es.c.Zygo.Syntax {
			for _, d := range f.Decls {
				if fd, ok := d.(*ast.FuncDecl); ok && fd.Body != nil && fd.Recv != nil && recvTypeName(fd.Recv.List[0].Type) == "Generator" {
					bodies[fd.Name.Name] = fd
				}
			}
		}
		for changed := true; changed; {
			changed = false
			for n, fd := range bodies {
				if es.derivedEmitters[n] {
					continue
				}
				switch n {
				case "AddInstruction", "AddInstructions", "Reset", "NewSubGenerator", "LookupKnownFunction", "GetLHS":
					continue
				}
				recv := ""
				if len(fd.Recv.List[0].Names) > 0 {
					recv = fd.Recv.List[0].Names[0].Name
				}
				emits := false
				ast.Inspect(fd.Body, func(x ast.Node) bool {
					call, ok := x.(*ast.CallExpr)
					if !ok {
						return true
					}
					sel, ok := call.Fun.(*ast.SelectorExpr)
					if !ok {
						return true
					}
					id, ok := sel.X.(*ast.Ident)
					if !ok || id.Name != recv {
						return true
					}
					m := sel.Sel.Name
					if m == "AddInstruction" || m == "AddInstructions" || strings.HasPrefix(m, "Generate") || strings.HasPrefix(m, "generate") || es.derivedEmitters[m] {
						emits = true
					}
					return true
				})
				if emits {
					es.derivedEmitters[n] = true
					changed = true
				}
			}
		}
	}
	return es.derivedEmitters[name]
}

// recursiveHelper: fn ("Generator.name") is a method of the generator that is not named like a form
// generator (Generate... / generate...), emits, and calls itself.
func (es *ES) recursiveHelper(fn string) bool {
	if !strings.HasPrefix(fn, "Generator.") {
		return false
	}
	name := strings.TrimPrefix(fn, "Generator.")
	if strings.HasPrefix(name, "Generate") || strings.HasPrefix(name, "generate") || !es.emitterMethod(name) {
		return false
	}
	fd := es.c.funcDecl(fn)
	if fd == nil || fd.Body == nil || fd.Recv == nil || len(fd.Recv.List[0].Names) == 0 {
		return false
	}
	recv := fd.Recv.List[0].Names[0].Name
	rec := false
	ast.Inspect(fd.Body, func(x ast.Node) bool {
		if call, ok := x.(*ast.CallExpr); ok {
			if sel, ok := call.Fun.(*ast.SelectorExpr); ok && sel.Sel.Name == name {
				if id, ok := sel.X.(*ast.Ident); ok && id.Name == recv {
					rec = true
				}
			}
		}
		return true
	})
	return rec
}

// ctorHelper: a method of the generator that makes a sub-generator, sets some of its fields from
// constants or from the receiver, and returns it. Reports the tail flag and whether the scope counter is
// taken over from the receiver.
func (es *ES) ctorHelper(name string) (tail tailVal, scopesFromRecv bool, scopesConst *int64, ok bool) {
	fd := es.c.funcDecl("Generator." + name)
	if fd == nil || fd.Body == nil || fd.Recv == nil || len(fd.Recv.List[0].Names) == 0 {
		return tailF, false, nil, false
	}
	recv := fd.Recv.List[0].Names[0].Name
	v := ""
	tail = tailF
	for _, stmt := range fd.Body.List {
		switch x := stmt.(type) {
		case *ast.AssignStmt:
			if len(x.Lhs) != 1 || len(x.Rhs) != 1 {
				return tailF, false, nil, false
			}
			if id, isId := x.Lhs[0].(*ast.Ident); isId && v == "" {
				call, isCall := x.Rhs[0].(*ast.CallExpr)
				if !isCall {
					return tailF, false, nil, false
				}
				fn := ""
				switch f := call.Fun.(type) {
				case *ast.Ident:
					fn = f.Name
				case *ast.SelectorExpr:
					fn = f.Sel.Name
				}
				if fn != "NewSubGenerator" && fn != "NewGenerator" {
					return tailF, false, nil, false
				}
				v = id.Name
				continue
			}
			sel, isSel := x.Lhs[0].(*ast.SelectorExpr)
			if !isSel {
				return tailF, false, nil, false
			}
			if id, isId := sel.X.(*ast.Ident); !isId || id.Name != v || v == "" {
				return tailF, false, nil, false
			}
			switch sel.Sel.Name {
			case "Tail":
				id, isId := x.Rhs[0].(*ast.Ident)
				if !isId || (id.Name != "true" && id.Name != "false") {
					return tailF, false, nil, false
				}
				if id.Name == "true" {
					tail = tailT
				}
			case "scopes":
				if rs, isSel := x.Rhs[0].(*ast.SelectorExpr); isSel && rs.Sel.Name == "scopes" {
					if id, isId := rs.X.(*ast.Ident); isId && id.Name == recv {
						scopesFromRecv = true
						continue
					}
				}
				if lit, isLit := x.Rhs[0].(*ast.BasicLit); isLit {
					if k, err := strconv.ParseInt(lit.Value, 10, 64); err == nil {
						scopesConst = &k
						continue
					}
				}
				return tailF, false, nil, false
			case "funcname", "knownFunctions", "env", "self":
			default:
				return tailF, false, nil, false
			}
		case *ast.ReturnStmt:
			if len(x.Results) != 1 {
				return tailF, false, nil, false
			}
			if id, isId := x.Results[0].(*ast.Ident); !isId || id.Name != v {
				return tailF, false, nil, false
			}
		default:
			return tailF, false, nil, false
		}
	}
	return tail, scopesFromRecv, scopesConst, v != ""
}

// execCall interprets a call. Returns true when the call emitted into a generator.
func (es *ES) execCall(call *ast.CallExpr, st *esState, _ *ast.Ident) bool {
	sel, ok := call.Fun.(*ast.SelectorExpr)
	if ok {
		if g := es.genOf(sel.X, st); g != nil {
			switch sel.Sel.Name {
			case "AddInstruction":
				a := es.evalInstr(call.Args[0], st)
				if a == nil {
					es.problem(call.Pos(), "instruction not understood", exprShort(call.Args[0]))
					a = &atom{kind: "?", pos: call.Pos()}
				}
				a.origin = g.name
				g.seq = append(g.seq, a)
				return true
			case "AddInstructions":
				seq, ok := es.evalSeq(call.Args[0], st)
				if !ok {
					es.problem(call.Pos(), "sequence not understood", exprShort(call.Args[0]))
					return true
				}
				g.seq = append(g.seq, seq...)
				return true
			case "Reset":
				g.seq = nil
				g.tail = tailF
				g.scopes = scopeVal{rel: false, k: 0}
				return true
			case "NewSubGenerator", "LookupKnownFunction", "GetLHS":
				return false
			}
			if es.emitterMethod(sel.Sel.Name) {
				es.segN++
				a := &atom{kind: "Seg", pos: call.Pos(), id: fmt.Sprint(es.segN), callee: sel.Sel.Name, tail: g.tail, scopes: g.scopes, origin: g.name, nvals: linConst(1)}
				// sequences that leave several values
				switch sel.Sel.Name {
				case "GenerateAll":
					a.nvals = linSym("#len(" + exprShort(call.Args[0]) + ")")
				case "GenerateCallArgsForFunction":
					a.nvals = linSym("#len(" + exprShort(call.Args[1]) + ")")
				}
				if len(call.Args) > 0 {
					a.callee += "(" + shortStr(exprShort(call.Args[0]), 24) + ")"
				}
				g.seq = append(g.seq, a)
				return true
			}
			es.problem(call.Pos(), "generator method not modelled", sel.Sel.Name)
			return false
		}
	}
	// local closure call: interpret the literal's body inline
	if id, ok := call.Fun.(*ast.Ident); ok {
		if obj := es.info.Uses[id]; obj != nil {
			if lit := es.closures[obj]; lit != nil {
				emits := false
				ast.Inspect(lit.Body, func(n ast.Node) bool {
					if c2, ok := n.(*ast.CallExpr); ok {
						if s2, ok := c2.Fun.(*ast.SelectorExpr); ok && es.genOf(s2.X, st) != nil && (es.emitterMethod(s2.Sel.Name) || strings.HasPrefix(s2.Sel.Name, "AddInstruction")) {
							emits = true
						}
					}
					return true
				})
				if emits && len(st.gens) > 0 {
					g := st.gens[0]
					es.segN++
					g.seq = append(g.seq, &atom{kind: "Seg", pos: call.Pos(), id: fmt.Sprint(es.segN), callee: "closure:" + id.Name, tail: g.tail, scopes: g.scopes, origin: g.name, nvals: linConst(1)})
					return true
				}
			}
		}
	}
	// a generator passed to some other function
	for _, arg := range call.Args {
		if g := es.genOf(arg, st); g != nil {
			es.problem(call.Pos(), "generator passed to a function", exprShort(call.Fun))
		}
	}
	return false
}

// ---------------------------------------------------------------- loops

func (es *ES) execLoop(loop ast.Stmt, body *ast.BlockStmt, ranged string, st *esState) []*esState {
	if !es.touches(body, st) {
		return []*esState{st}
	}
	// loop-carried sequence variables: assigned in the body, defined outside
	carried := map[types.Object]bool{}
	ast.Inspect(body, func(n ast.Node) bool {
		as, ok := n.(*ast.AssignStmt)
		if !ok {
			return true
		}
		for _, l := range as.Lhs {
			if id, ok := l.(*ast.Ident); ok {
				if obj := es.info.Uses[id]; obj != nil && es.isSeqType(obj.Type()) {
					if v, ok := st.env[obj]; ok && v.isSeq {
						carried[obj] = true
					}
				}
			}
		}
		return true
	})
	count := ranged
	var countLin *lin
	if count != "" {
		count = "#len(" + count + ")"
		if c2, ok := es.equalLens[count]; ok {
			count = c2
		}
		countLin = linSym(count)
	} else {
		count = "iter@" + fmt.Sprint(es.c.Fset.Position(loop.Pos()).Line)
		if fs, ok := loop.(*ast.ForStmt); ok {
			if cl := es.loopCount(fs, st); cl != nil {
				countLin = cl
				count = cl.String()
			}
		}
		if countLin == nil {
			countLin = linSym(count)
		}
	}
	// snapshot generator sequence lengths: what the body appends is the repeated part
	work := st.clone()
	base := make([]int, len(work.gens))
	for i, g := range work.gens {
		base[i] = len(g.seq)
	}
	accAtoms := map[types.Object]*atom{}
	for obj := range carried {
		es.segN++
		prev := work.env[obj].seq
		acc := &atom{kind: "Seg", pos: loop.Pos(), id: fmt.Sprint(es.segN), callee: "acc:" + obj.Name(), tail: tailF, scopes: scopeVal{rel: true}, funcSelf: true, nvals: linConst(1)}
		// does the accumulated blob end in a tail-tagged segment?
		if len(prev) > 0 {
			lastA := prev[len(prev)-1]
			if lastA.kind == "Seg" && (lastA.tail == tailT || lastA.tailEnd) {
				acc.tailEnd = true
			}
		}
		// the pre-loop value must itself be a value-producing template
		es.templates = append(es.templates, &esTemplate{fn: es.curFn, what: "initial value of " + obj.Name(), seq: prev, pos: loop.Pos(), state: st})
		accAtoms[obj] = acc
		work.env[obj] = &esValue{gen: -1, isSeq: true, seq: []*atom{acc}}
	}
	// range variables of int type are symbolic
	outs := es.execBlock(body.List, work)
	var live []*esState
	for _, o := range outs {
		if o.dropped {
			continue
		}
		if o.done {
			// a success return from inside a loop body: keep as a finished path
			live = append(live, o)
			continue
		}
		o.brk = 0
		live = append(live, o)
	}
	if len(live) == 0 {
		es.problem(loop.Pos(), "loop body has no success path", fmt.Sprintf("%d outcomes, first dropped=%v done=%v brk=%v", len(outs), len(outs) > 0 && outs[0].dropped, len(outs) > 0 && outs[0].done, func() int {
			if len(outs) > 0 {
				return outs[0].brk
			}
			return -1
		}()))
		return []*esState{st}
	}
	// build the post-loop state from the pre-loop state
	post := st
	// per generator: alternatives of what one iteration appended
	appendOnly := make([]bool, len(st.gens))
	for gi := range st.gens {
		appendOnly[gi] = true
		for _, o := range live {
			if o.done || gi >= len(o.gens) {
				continue
			}
			if len(o.gens[gi].seq) < base[gi] {
				appendOnly[gi] = false
				continue
			}
			for k := 0; k < base[gi]; k++ {
				if o.gens[gi].seq[k] != st.gens[gi].seq[k] {
					appendOnly[gi] = false
				}
			}
		}
	}
	for gi := range st.gens {
		if !appendOnly[gi] {
			continue // a generator that is reset inside the loop carries nothing across iterations by itself
		}
		var alts [][]*atom
		for _, o := range live {
			if o.done {
				continue
			}
			if gi < len(o.gens) && len(o.gens[gi].seq) >= base[gi] {
				alts = append(alts, o.gens[gi].seq[base[gi]:])
			}
		}
		nonEmpty := false
		for _, a := range alts {
			if len(a) > 0 {
				nonEmpty = true
			}
		}
		if nonEmpty {
			es.segN++
			post.gens[gi].seq = append(post.gens[gi].seq, &atom{kind: "Rep", pos: loop.Pos(), id: fmt.Sprint(es.segN), alts: alts, count: count, countLin: countLin})
		}
		// tail / scopes must be loop invariant (for generators the body only appends to)
		for _, o := range live {
			if o.done || gi >= len(o.gens) || !appendOnly[gi] {
				continue
			}
			if o.gens[gi].tail != st.gens[gi].tail || o.gens[gi].scopes != st.gens[gi].scopes {
				es.problem(loop.Pos(), "loop changes Tail/scopes of "+st.gens[gi].name, fmt.Sprintf("before %s/%s after %s/%s", st.gens[gi].tail, st.gens[gi].scopes, o.gens[gi].tail, o.gens[gi].scopes))
			}
		}
	}
	// generators created inside the loop body persist (they may be read after the loop)
	for _, o := range live {
		if o.done {
			continue
		}
		for gi := len(post.gens); gi < len(o.gens); gi++ {
			post.gens = append(post.gens, o.gens[gi])
		}
		for obj, v := range o.env {
			if _, ok := post.env[obj]; !ok {
				post.env[obj] = v
			}
			if v.gen >= 0 && v.gen < len(o.gens) {
				if pv, ok := post.env[obj]; ok && pv.gen == v.gen && v.gen < len(post.gens) && v.gen >= len(st.gens) {
					post.gens[v.gen] = o.gens[v.gen]
				}
			}
		}
		break
	}
	// carried variables: verify the step, then continue with an opaque blob
	for obj, acc := range accAtoms {
		for _, o := range live {
			if o.done {
				continue
			}
			nv := o.env[obj]
			if nv == nil || !nv.isSeq {
				continue
			}
			es.templates = append(es.templates, &esTemplate{fn: es.curFn, what: "loop step of " + obj.Name(), seq: nv.seq, pos: loop.Pos(), state: o, entry: []*atom{acc}})
			// the blob must stay the suffix
			if len(nv.seq) == 0 || nv.seq[len(nv.seq)-1] != acc {
				es.problem(loop.Pos(), "accumulated sequence "+obj.Name()+" is not kept as the suffix", seqString(nv.seq))
			}
		}
		es.segN++
		blob := &atom{kind: "Seg", pos: loop.Pos(), id: fmt.Sprint(es.segN), callee: "acc:" + obj.Name(), tail: tailF, scopes: scopeVal{rel: true}, funcSelf: true, nvals: linConst(1), tailEnd: acc.tailEnd}
		post.env[obj] = &esValue{gen: -1, isSeq: true, seq: []*atom{blob}}
	}
	res := []*esState{post}
	for _, o := range live {
		if o.done {
			res = append(res, o)
		}
	}
	return res
}

// loopCount recognises `for i := 0; i < N; i++` and `for i := N-1; i >= 0; i--`.
func (es *ES) loopCount(fs *ast.ForStmt, st *esState) *lin {
	init, ok := fs.Init.(*ast.AssignStmt)
	if !ok || len(init.Lhs) != 1 || len(init.Rhs) != 1 {
		return nil
	}
	cond, ok := fs.Cond.(*ast.BinaryExpr)
	if !ok {
		return nil
	}
	post, ok := fs.Post.(*ast.IncDecStmt)
	if !ok {
		return nil
	}
	start := es.evalInt(init.Rhs[0], st)
	if start == nil {
		return nil
	}
	if post.Tok == token.INC && cond.Op == token.LSS && start.isConst() && start.c == 0 {
		return es.evalInt(cond.Y, st)
	}
	if post.Tok == token.DEC && cond.Op == token.GEQ {
		if z := es.evalInt(cond.Y, st); z != nil && z.isConst() && z.c == 0 {
			return start.add(linConst(1))
		}
	}
	return nil
}

func hasPanic(n ast.Node) bool {
	found := false
	ast.Inspect(n, func(x ast.Node) bool {
		if call, ok := x.(*ast.CallExpr); ok {
			if id, ok := call.Fun.(*ast.Ident); ok && id.Name == "panic" {
				found = true
			}
		}
		return !found
	})
	return found
}
