package main

// esv.go: runs ES over the emitter functions and verifies the templates.

import (
	"fmt"
	"go/ast"
	"go/token"
	"go/types"
	"sort"
	"strings"

	"golang.org/x/tools/go/ssa"
)

// esEmitters: every function that builds instruction sequences.
var esPlainEmitters = []string{"buildSexpFun", "FuncBuilder", "Zlisp.EvalCallExpression", "Zlisp.LoadExpressions", "SexpLazyArg.Force", "EvalFunction", "Zlisp.SourceExpressions"}

func (c *Ctx) runES() *ES {
	if c.es != nil {
		return c.es
	}
	es := newES(c)
	// all methods of *Generator
	var decls []*ast.FuncDecl
	for _, f := range c.Zygo.Syntax {
		for _, d := range f.Decls {
			fd, ok := d.(*ast.FuncDecl)
			if !ok || fd.Body == nil {
				continue
			}
			if fd.Recv != nil && recvTypeName(fd.Recv.List[0].Type) == "Generator" {
				decls = append(decls, fd)
			}
		}
	}
	for _, n := range esPlainEmitters {
		if fd := c.funcDecl(n); fd != nil {
			decls = append(decls, fd)
		} else {
			es.curFn = n
			es.problem(0, "emitter not found", n)
		}
	}
	sort.Slice(decls, func(i, j int) bool { return declName(decls[i]) < declName(decls[j]) })
	for _, fd := range decls {
		es.emitters[declName(fd)] = true
	}
	// the tail flag with which each generator method can be entered: least fixpoint over the call sites
	entry := map[string]tailVal{}
	for iter := 0; iter < 8; iter++ {
		es.templates = nil
		es.problems = nil
		es.segN = 0
		for _, fd := range decls {
			name := declName(fd)
			switch name {
			case "Generator.AddInstruction", "Generator.AddInstructions", "Generator.Reset", "Generator.NewSubGenerator", "Generator.LookupKnownFunction", "Generator.GetLHS":
				continue
			}
			es.runFunc(fd, entry[name])
		}
		changed := false
		var visit func(seq []*atom)
		visit = func(seq []*atom) {
			for _, a := range seq {
				if a.kind == "Rep" {
					for _, alt := range a.alts {
						visit(alt)
					}
				}
				if a.kind != "Seg" || a.funcSelf || a.tail != tailT {
					continue
				}
				callee := a.callee
				if i := strings.Index(callee, "("); i >= 0 {
					callee = callee[:i]
				}
				name := "Generator." + callee
				if es.emitters[name] && entry[name] != tailT {
					entry[name] = tailT
					changed = true
				}
			}
		}
		for _, t := range es.templates {
			visit(t.seq)
		}
		if !changed {
			break
		}
	}
	es.entryTail = entry
	// which generator methods can emit the tail jump when entered with the flag set
	jumps := map[string]bool{}
	for changed := true; changed; {
		changed = false
		for _, t := range es.templates {
			if jumps[t.fn] || t.what != "return" {
				continue
			}
			hit := false
			var visit func(seq []*atom)
			visit = func(seq []*atom) {
				for _, a := range seq {
					switch a.kind {
					case "GotoInstr":
						hit = true
					case "Rep":
						for _, alt := range a.alts {
							visit(alt)
						}
					case "Seg":
						if (a.tail == tailT || a.tailEnd) && es.segMayJump(a, jumps) {
							hit = true
						}
					}
				}
			}
			visit(t.seq)
			if hit {
				jumps[t.fn] = true
				changed = true
			}
		}
	}
	es.mayTailJump = func(a *atom) bool { return es.segMayJump(a, jumps) }
	c.es = es
	return es
}

func (es *ES) segMayJump(a *atom, jumps map[string]bool) bool {
	if a.funcSelf {
		return a.tailEnd
	}
	callee := a.callee
	if i := strings.Index(callee, "("); i >= 0 {
		callee = callee[:i]
	}
	if strings.HasPrefix(callee, "closure:") {
		return true
	}
	return jumps["Generator."+callee]
}

// esVerify runs all template checks once and caches the verdicts.
func (c *Ctx) esVerify() *esVerdicts {
	if c.esv != nil {
		return c.esv
	}
	es := c.runES()
	v := &esVerdicts{}
	for _, p := range es.problems {
		v.add(c, false, "ES-MODEL", p.fn, p.what+": "+shortStr(p.detail, 60), &atom{pos: p.pos}, "", "the emission-sequence interpreter cannot model this code ("+p.what+": "+p.detail+"); the templates of this function are undecided")
	}
	for _, t := range es.templates {
		c.verifyJumps(t, v)
		c.verifyTail(t, v)
		c.verifyScopes(t, v)
		c.verifyDepth(t, v)
	}
	c.esv = v
	return v
}

// esReport copies the verdicts of the given rules into the ledger under a property-specific rule prefix.
func (c *Ctx) esReport(rules ...string) int {
	v := c.esVerify()
	want := map[string]bool{}
	for _, r := range rules {
		want[r] = true
	}
	n := 0
	for _, f := range v.list {
		if !want[f.rule] {
			continue
		}
		n++
		st := StOK
		if !f.ok {
			st = StViolation
			if f.rule == "ES-MODEL" {
				st = StUndecided
			}
		}
		c.addp(f.rule, f.fn, f.construct, f.pos, st, f.detail)
	}
	return n
}

func checkES(c *Ctx) {
	es := c.runES()
	seen := map[string]bool{}
	for _, t := range es.templates {
		line := fmt.Sprintf("%-40s %-28s %s", t.fn, t.what, seqString(t.seq))
		if t.what == "return" && len(t.state.events) > 0 {
			var ev []string
			for _, e := range t.state.events {
				ev = append(ev, e.field+"="+e.val.String())
			}
			line += "   [" + strings.Join(ev, ", ") + "]"
		}
		if !seen[line] {
			seen[line] = true
			fmt.Println("TPL", line)
		}
	}
	for _, p := range es.problems {
		fmt.Printf("PROBLEM %s at %s: %s: %s\n", p.fn, c.pos(p.pos), p.what, p.detail)
	}
	c.ok("ES", "all", "templates", 0, fmt.Sprintf("%d templates, %d problems", len(es.templates), len(es.problems)))
	for name, tv := range es.entryTail {
		if tv == tailT {
			fmt.Println("ENTRY-TAIL", name)
		}
	}
	c.esReport("ES-J", "ES-T", "ES-S", "ES-D", "ES-M", "ES-MODEL")
}

// ---------------------------------------------------------------- verifier

type esFinding struct {
	rule      string
	fn        string
	construct string
	pos       string
	posv      int
	detail    string
	ok        bool
}

type esVerdicts struct {
	list []esFinding
	seen map[string]bool
}

func (v *esVerdicts) add(c *Ctx, ok bool, rule, fn, construct string, a *atom, okDetail, badDetail string) {
	if v.seen == nil {
		v.seen = map[string]bool{}
	}
	pos := ""
	if a != nil {
		pos = c.pos(a.pos)
	}
	key := rule + "|" + fn + "|" + construct
	f := esFinding{rule: rule, fn: fn, construct: construct, pos: pos, ok: ok}
	if ok {
		f.detail = okDetail
	} else {
		f.detail = badDetail
		key += "|bad"
	}
	if v.seen[key] {
		return
	}
	v.seen[key] = true
	v.list = append(v.list, f)
}

// positions of the atoms of seq (prefix sums); pos[len(seq)] = END.
func positions(seq []*atom) []*lin {
	pos := make([]*lin, len(seq)+1)
	cur := linConst(0)
	for i, a := range seq {
		pos[i] = cur
		cur = cur.add(atomLen(a))
	}
	pos[len(seq)] = cur
	return pos
}

func boundaryIndex(pos []*lin, target *lin) int {
	for j, p := range pos {
		if p.eq(target) {
			return j
		}
	}
	return -1
}

func isTerminator(a *atom) bool {
	switch a.kind {
	case "GotoInstr", "BreakInstr", "ContinueInstr", "ReturnInstr":
		return true
	}
	return false
}

// atomDesc: a stable description of an atom inside its function, for obligation keys.
func atomDesc(a *atom) string {
	switch a.kind {
	case "Seg":
		return a.callee
	case "Rep":
		return "repeat×" + a.count
	}
	return strings.TrimSuffix(a.kind, "Instr")
}

// ---- ES-J
func (c *Ctx) verifyJumps(t *esTemplate, v *esVerdicts) {
	var walk func(seq []*atom, where string)
	walk = func(seq []*atom, where string) {
		pos := positions(seq)
		for i, a := range seq {
			if a.kind == "Rep" {
				for _, alt := range a.alts {
					walk(alt, where+" in repeat×"+a.count)
				}
			}
			if a.kind != "JumpInstr" && a.kind != "BranchInstr" {
				continue
			}
			if a.off == nil {
				continue
			}
			target := pos[i].add(a.off)
			j := boundaryIndex(pos, target)
			construct := atomDesc(a) + " offset " + esStable(a.off, seq)
			v.add(c, j >= 0, "ES-J", t.fn, construct+where, a,
				fmt.Sprintf("lands on the boundary before atom %d of %d", j, len(seq)),
				fmt.Sprintf("the relative %s at atom %d with offset %s lands at %s, which is not a boundary between the pieces of this sequence [%s]: control would continue in the middle of a sub-form or beyond the end", strings.TrimSuffix(a.kind, "Instr"), i, a.off, target, seqString(seq)))
		}
	}
	walk(t.seq, "")
	// loop offsets (for): break → ClearStackmark, continue → the boundary the back-jump targets
	if t.what == "return" {
		pos := positions(t.seq)
		loopStart := -1
		clear := -1
		backTarget := -1
		for i, a := range t.seq {
			switch a.kind {
			case "LoopStartInstr":
				loopStart = i
			case "ClearStackmarkInstr":
				clear = i
			case "JumpInstr":
				if a.off != nil && a.off.c < 0 {
					backTarget = boundaryIndex(pos, pos[i].add(a.off))
				}
			}
		}
		// the loop test's exit branch must land behind the back-jump, at or before the cleanup
		if loopStart >= 0 && clear >= 0 {
			backIdx := -1
			for i, a := range t.seq {
				if a.kind == "JumpInstr" && a.off != nil && a.off.c < 0 {
					backIdx = i
				}
			}
			for i, a := range t.seq {
				if a.kind != "BranchInstr" || a.off == nil || i > backIdx {
					continue
				}
				j := boundaryIndex(pos, pos[i].add(a.off))
				if j < 0 {
					continue
				}
				v.add(c, j > backIdx && j <= clear, "ES-J", t.fn, "loop exit branch", a,
					"the loop test leaves the loop behind the back-jump, in front of the cleanup",
					fmt.Sprintf("the loop test's exit branch lands at atom %d, but the back-jump is atom %d and the cleanup atom %d: leaving the loop re-enters it (or skips the cleanup)", j, backIdx, clear))
			}
		}
		for _, e := range t.state.events {
			if loopStart < 0 {
				continue
			}
			target := pos[loopStart].add(e.val)
			j := boundaryIndex(pos, target)
			switch e.field {
			case "breakOffset":
				v.add(c, j >= 0 && j == clear, "ES-J", t.fn, "loop.breakOffset", t.seq[loopStart],
					"break lands on the stack-mark cleanup at the bottom of the loop",
					fmt.Sprintf("loop.breakOffset = %s lands at atom %d, not on the ClearStackmark cleanup (atom %d): break skips or repeats part of the loop epilogue", e.val, j, clear))
			case "continueOffset":
				v.add(c, j >= 0 && j == backTarget, "ES-J", t.fn, "loop.continueOffset", t.seq[loopStart],
					"continue lands where the end of the body jumps back to (the increment)",
					fmt.Sprintf("loop.continueOffset = %s lands at atom %d, but the end of the body jumps back to atom %d", e.val, j, backTarget))
			}
		}
	}
}

// esStable renders an offset with segment ids replaced by the callee they stand for (stable across runs).
func esStable(l *lin, seq []*atom) string {
	names := map[string]string{}
	var collect func(seq []*atom)
	collect = func(seq []*atom) {
		for _, a := range seq {
			if a.kind == "Seg" {
				names["L"+a.id] = "len(" + a.callee + ")"
			}
			if a.kind == "Rep" {
				for _, alt := range a.alts {
					collect(alt)
				}
			}
		}
	}
	collect(seq)
	var ks []string
	for k := range l.terms {
		ks = append(ks, k)
	}
	sort.Strings(ks)
	var parts []string
	for _, k := range ks {
		n := k
		if s, ok := names[k]; ok {
			n = s
		} else if strings.HasPrefix(k, "L") {
			n = "len(?)"
		}
		co := l.terms[k]
		if co == 1 {
			parts = append(parts, n)
		} else {
			parts = append(parts, fmt.Sprintf("%d*%s", co, n))
		}
	}
	sort.Strings(parts)
	parts = append(parts, fmt.Sprint(l.c))
	return strings.Join(parts, "+")
}

// ---- ES-T
func (c *Ctx) verifyTail(t *esTemplate, v *esVerdicts) {
	pos := positions(t.seq)
	mayJump := c.es.mayTailJump
	end := len(t.seq)
	transparentAfter := func(i int) (bool, *atom) {
		for k := i + 1; k < end; k++ {
			a := t.seq[k]
			switch a.kind {
			case "RemoveScopeInstr":
				continue
			case "ReturnInstr":
				if !a.isErr {
					continue
				}
			case "JumpInstr":
				if a.off != nil && pos[k].add(a.off).eq(pos[end]) {
					return true, nil // jumps over the rest to the end
				}
			case "Seg":
				if a.funcSelf {
					// the accumulated blob follows only in loop-step templates, where a jump must skip it (handled above)
				}
			}
			return false, a
		}
		return true, nil
	}
	prevDesc := "start"
	var inRep func(seq []*atom, rep *atom)
	inRep = func(seq []*atom, rep *atom) {
		for _, a := range seq {
			if a.kind == "Seg" && a.tail == tailT && mayJump(a) {
				v.add(c, false, "ES-T", t.fn, atomDesc(a)+" in repeat×"+rep.count+" after "+prevDesc, a, "",
					"a sub-form is compiled with the tail flag possibly set inside a repeated part (every element but the last is followed by more code): a self-call there is compiled as a jump although it is not in tail position")
			}
			if a.kind == "Rep" {
				for _, alt := range a.alts {
					inRep(alt, a)
				}
			}
		}
	}
	for i, a := range t.seq {
		if i > 0 {
			prevDesc = atomDesc(t.seq[i-1])
		}
		if a.kind == "Rep" {
			for _, alt := range a.alts {
				inRep(alt, a)
			}
			continue
		}
		if a.kind != "Seg" || !(a.tail == tailT || a.tailEnd) || !mayJump(a) {
			continue
		}
		ok, offender := transparentAfter(i)
		od := ""
		if offender != nil {
			od = atomDesc(offender)
		}
		v.add(c, ok, "ES-T", t.fn, atomDesc(a), a,
			"a sub-form compiled with the tail flag possibly set is followed only by scope removal, return, or a jump to the end",
			fmt.Sprintf("%s is compiled with the tail flag possibly set but is followed by %s in [%s]: a self-call in that sub-form becomes a jump to the function start and the code after it never runs", atomDesc(a), od, seqString(t.seq)))
	}
}

// ---- ES-S
func (c *Ctx) verifyScopes(t *esTemplate, v *esVerdicts) {
	if len(t.state.gens) == 0 {
		return
	}
	var base scopeVal
	// the template's own generator started as: receiver → rel 0; own generator → abs 0
	base = scopeVal{rel: true}
	if !strings.HasPrefix(t.fn, "Generator.") {
		base = scopeVal{rel: false}
	}
	open := 0
	var walk func(seq []*atom, inRep string) int
	walk = func(seq []*atom, inRep string) int {
		start := open
		for _, a := range seq {
			switch a.kind {
			case "AddScopeInstr":
				open++
			case "AddFuncScopeInstr":
				// the function scope is not counted in gen.scopes
			case "RemoveScopeInstr", "PopScopeTransferToDataStackInstr":
				open--
			case "Seg":
				if a.funcSelf {
					continue
				}
				want := scopeVal{rel: base.rel, k: base.k + open}
				if t.fn == "buildSexpFun" || t.fn == "FuncBuilder" {
					want = scopeVal{rel: false, k: open - 0}
				}
				good := a.scopes == want
				v.add(c, good, "ES-S", t.fn, "scopes at "+atomDesc(a)+inRep, a,
					fmt.Sprintf("the generator's scope count (%s) equals the scopes opened so far", a.scopes),
					fmt.Sprintf("%s is generated with scope count %s but %d scope(s) are open at that point (expected %s): break, continue and tail calls inside it unwind the wrong number of scopes", atomDesc(a), a.scopes, open, want))
			case "BreakInstr", "ContinueInstr":
				if a.scopesToPop != nil && !(a.scopesToPop.isConst() && a.scopesToPop.c == 0) {
					want := linSym("σ").sub(linSym("#loop.scopeDepth")).add(linConst(open - 1))
					v.add(c, a.scopesToPop.eq(want), "ES-S", t.fn, "scopesToPop of "+atomDesc(a), a,
						"scopes to pop = current scope count − (loop's scope depth + 1)",
						fmt.Sprintf("%s pops %s scopes, expected %s", atomDesc(a), a.scopesToPop, want))
				}
			case "Rep":
				before := open
				for _, alt := range a.alts {
					open = before
					walk(alt, inRep+" in repeat×"+a.count)
					if open != before {
						// a repeated part that changes the scope depth: only the tail-call unwind may do that
						isUnwind := len(alt) == 1 && alt[0].kind == "RemoveScopeInstr"
						if !isUnwind {
							v.add(c, false, "ES-S", t.fn, "repeat×"+a.count+" changes scope depth", a, "", fmt.Sprintf("one iteration of a repeated part changes the number of open scopes by %d", open-before))
						}
					}
				}
				open = before
			}
		}
		return open - start
	}
	walk(t.seq, "")
	if t.what == "return" && len(t.seq) > 0 && !isTerminator(t.seq[len(t.seq)-1]) {
		fin := t.state.gens[0].scopes
		v.add(c, fin == base, "ES-S", t.fn, "scope counter restored at end", t.seq[len(t.seq)-1],
			"the generator's scope counter is back at its entry value when the form is done",
			fmt.Sprintf("the generator's scope counter ends at %s instead of its entry value %s: every later break, continue or tail call in the same function unwinds the wrong number of scopes", fin, base))
		v.add(c, open == 0, "ES-S", t.fn, "scopes balanced at end", t.seq[len(t.seq)-1],
			"every scope opened by the form is closed again",
			fmt.Sprintf("the form ends with %d scope(s) still open in [%s]", open, seqString(t.seq)))
	}
}

// ---- ES-D / ES-M: data-stack depth and marker nesting
type dframe struct {
	kind  string // base | marker | stackmark
	depth *lin
	fuzzy bool // Explode happened: exact depth unknown (only legal above a marker)
}

type dstate struct {
	frames []dframe
}

func (s dstate) clone() dstate {
	n := dstate{}
	for _, f := range s.frames {
		n.frames = append(n.frames, dframe{f.kind, f.depth.clone(), f.fuzzy})
	}
	return n
}

func (s dstate) equal(o dstate) bool {
	if len(s.frames) != len(o.frames) {
		return false
	}
	for i := range s.frames {
		if s.frames[i].kind != o.frames[i].kind || (!s.frames[i].fuzzy && !o.frames[i].fuzzy && !s.frames[i].depth.eq(o.frames[i].depth)) {
			return false
		}
	}
	return true
}

func (s dstate) String() string {
	var parts []string
	for _, f := range s.frames {
		d := f.depth.String()
		if f.fuzzy {
			d = "?"
		}
		parts = append(parts, f.kind+":"+d)
	}
	return strings.Join(parts, " / ")
}

// simulate runs seq from state s0; returns the state at END (or nil if every path ends in a terminator).
func (c *Ctx) simulate(t *esTemplate, seq []*atom, s0 dstate, v *esVerdicts, where string, relative bool) *dstate {
	pos := positions(seq)
	n := len(seq)
	states := make([]*dstate, n+1)
	work := []int{0}
	st0 := s0.clone()
	states[0] = &st0
	bad := func(a *atom, what, detail string) {
		rule := "ES-D"
		if strings.Contains(what, "marker") || strings.Contains(what, "stack mark") {
			rule = "ES-M"
		}
		v.add(c, false, rule, t.fn, what+where, a, "", detail+" in ["+seqString(seq)+"]")
	}
	flow := func(to int, s dstate, a *atom) {
		if to < 0 || to > n {
			return
		}
		if states[to] == nil {
			cp := s.clone()
			states[to] = &cp
			work = append(work, to)
			return
		}
		if !states[to].equal(s) {
			bad(a, "stack depth differs at a join", fmt.Sprintf("two paths reach the same point with different operand stacks (%s vs %s)", states[to], s))
		}
	}
	for len(work) > 0 {
		i := work[len(work)-1]
		work = work[:len(work)-1]
		if i >= n {
			continue
		}
		a := seq[i]
		s := states[i].clone()
		top := &s.frames[len(s.frames)-1]
		add := func(d int) { top.depth = top.depth.add(linConst(d)) }
		need := func(k int, what string) {
			// popping below the frame's base (only checkable when the depth is a known constant)
			if !relative && len(s.frames) == 1 && !top.fuzzy && top.depth.isConst() && top.depth.c < k {
				bad(a, what+" pops below", fmt.Sprintf("%s needs %d operand(s) but only %s are on the stack above the %s", atomDesc(a), k, top.depth, top.kind))
			}
		}
		next := i + 1
		switch a.kind {
		case "Seg":
			nv := a.nvals
			if nv == nil {
				nv = linConst(1)
			}
			// GenerateBegin of a slice known to be empty on this path emits nothing (its own `size == 0` exit)
			if strings.HasPrefix(a.callee, "GenerateBegin(") && strings.HasSuffix(a.callee, ")") && t.state != nil {
				arg := strings.TrimSuffix(strings.TrimPrefix(a.callee, "GenerateBegin("), ")")
				if t.state.decided["len("+arg+")==0"] {
					nv = linConst(0)
				}
			}
			top.depth = top.depth.add(nv)
		case "Rep":
			var net *lin
			// separator idiom: `if i > 0 { Pop }` in front of each element but the first
			if len(a.alts) == 2 {
				x, y := a.alts[0], a.alts[1]
				if len(y)+1 == len(x) {
					x, y = y, x
				}
				if len(y) == len(x)+1 && y[0].kind == "PopInstr" {
					same := true
					for k := range x {
						if atomDesc(x[k]) != atomDesc(y[k+1]) {
							same = false
						}
					}
					if same {
						sub := s.clone()
						sub.frames[len(sub.frames)-1].depth = linConst(0)
						sub.frames[len(sub.frames)-1].fuzzy = false
						if end := c.simulate(t, x, sub, v, where+" in repeat×"+a.count, true); end != nil && len(end.frames) == len(s.frames) {
							nx := end.frames[len(end.frames)-1].depth
							if nx.isConst() {
								cl := a.countLin
								if cl == nil {
									cl = linSym(a.count)
								}
								// count*nx - (count-1)
								top.depth = top.depth.add(cl.scale(nx.c)).sub(cl).add(linConst(1))
								if next >= 0 {
									flow(next, s, a)
								}
								continue
							}
						}
					}
				}
			}
			for _, alt := range a.alts {
				// repeated parts run above whatever is there: same frames, depth measured from 0
				sub := s.clone()
				sub.frames[len(sub.frames)-1].depth = linConst(0)
				wasFuzzy := sub.frames[len(sub.frames)-1].fuzzy
				sub.frames[len(sub.frames)-1].fuzzy = false
				end := c.simulate(t, alt, sub, v, where+" in repeat×"+a.count, true)
				if end == nil {
					continue
				}
				if len(end.frames) != len(s.frames) {
					bad(a, "marker left open by repeat×"+a.count, "one iteration leaves a marker / stack mark open (or closes one it did not open)")
					continue
				}
				ef := end.frames[len(end.frames)-1]
				if ef.fuzzy || wasFuzzy {
					top.fuzzy = true
					net = nil
					continue
				}
				if net == nil {
					net = ef.depth
				} else if !net.eq(ef.depth) {
					bad(a, "alternatives of repeat×"+a.count+" disagree", fmt.Sprintf("one iteration nets %s on one path and %s on another", net, ef.depth))
				}
			}
			if net != nil {
				if net.isConst() {
					cl := a.countLin
					if cl == nil {
						cl = linSym(a.count)
					}
					top.depth = top.depth.add(cl.scale(net.c))
				} else {
					top.fuzzy = true
				}
			}
		case "PushInstr":
			if a.marker {
				s.frames = append(s.frames, dframe{kind: "marker", depth: linConst(0)})
			} else {
				add(1)
			}
		case "PushLazyArgInstr", "EnvToStackInstr", "CreateClosureInstr", "CallExprInstr", "PopScopeTransferToDataStackInstr":
			add(1)
		case "DupInstr":
			need(1, "Dup")
			add(1)
		case "PopInstr":
			if top.kind == "stackmark" && top.depth.isConst() && top.depth.c == 0 && !top.fuzzy {
				// pops the mark itself (package epilogue)
				s.frames = s.frames[:len(s.frames)-1]
			} else {
				need(1, "Pop")
				add(-1)
			}
		case "PopStackPutEnvInstr", "UpdateInstr", "BindlistInstr":
			need(1, atomDesc(a))
			add(-1)
		case "AssignInstr":
			need(2, "Assign")
			add(-1) // pops target and value, pushes the assigned value (checked against Execute by IX)
		case "BranchInstr":
			need(1, "Branch")
			add(-1)
			if a.off != nil {
				if j := boundaryIndex(pos, pos[i].add(a.off)); j >= 0 {
					flow(j, s, a)
				}
			}
		case "JumpInstr":
			next = -1
			if a.off != nil {
				if j := boundaryIndex(pos, pos[i].add(a.off)); j >= 0 {
					flow(j, s, a)
				}
			}
		case "GotoInstr", "BreakInstr", "ContinueInstr":
			next = -1
		case "ReturnInstr":
			next = -1
			if !a.isErr && t.what == "return" && (t.fn == "buildSexpFun" || t.fn == "FuncBuilder") {
				okd := len(s.frames) == 1 && !top.fuzzy
				one := false
				if okd {
					d := top.depth
					one = d.isConst() && d.c == 1
				}
				v.add(c, okd && one, "ES-D", t.fn, "function returns one value", a,
					"at Return exactly one value is above the caller's operands",
					fmt.Sprintf("a compiled function reaches Return with operand depth %s (expected 1)", s))
			}
		case "CallInstr":
			if a.n != nil {
				top.depth = top.depth.sub(a.n).add(linConst(1))
			} else {
				top.fuzzy = true
			}
		case "DispatchInstr":
			if a.n != nil {
				top.depth = top.depth.sub(a.n)
			} else {
				top.fuzzy = true
			}
		case "PrepareCallInstr":
			// packs the variadic tail; followed by Goto
		case "ExplodeInstr":
			if top.kind != "marker" {
				bad(a, "Explode outside a marker", "Explode spreads a list onto the operand stack; without an enclosing marker the number of operands is unknown to everything that follows")
			}
			top.fuzzy = true
		case "SquashInstr", "VectorizeInstr", "HashizeInstr":
			if top.kind != "marker" {
				bad(a, atomDesc(a)+" without marker", fmt.Sprintf("%s collects operands down to a marker, but the innermost open frame is %s", atomDesc(a), top.kind))
			} else {
				s.frames = s.frames[:len(s.frames)-1]
				p := &s.frames[len(s.frames)-1]
				p.depth = p.depth.add(linConst(1))
			}
		case "PushStackmarkInstr":
			s.frames = append(s.frames, dframe{kind: "stackmark", depth: linConst(0)})
		case "PopUntilStackmarkInstr":
			if top.kind != "stackmark" {
				bad(a, "PopUntilStackmark without stack mark", fmt.Sprintf("the innermost open frame is %s", top.kind))
			} else {
				top.depth = linConst(0)
				top.fuzzy = false
			}
		case "ClearStackmarkInstr":
			if top.kind != "stackmark" {
				bad(a, "ClearStackmark without stack mark", fmt.Sprintf("the innermost open frame is %s", top.kind))
			} else {
				s.frames = s.frames[:len(s.frames)-1]
			}
		case "LabelInstr", "LoopStartInstr", "DebugInstr", "AddScopeInstr", "AddFuncScopeInstr", "RemoveScopeInstr":
		case "?":
		default:
			bad(a, "instruction "+a.kind+" has no effect row", "the emission-sequence verifier has no operand-stack effect for this instruction kind")
		}
		if next >= 0 {
			flow(next, s, a)
		}
	}
	return states[n]
}

func (c *Ctx) verifyDepth(t *esTemplate, v *esVerdicts) {
	s0 := dstate{frames: []dframe{{kind: "base", depth: linConst(0)}}}
	if t.what == "return" && (t.fn == "buildSexpFun" || t.fn == "FuncBuilder") {
		s0.frames[0].depth = linSym("#len(argsyms)")
	}
	end := c.simulate(t, t.seq, s0, v, "", t.fn == "Zlisp.LoadExpressions")
	if end == nil {
		return // every path leaves through a terminator
	}
	var last *atom
	if len(t.seq) > 0 {
		last = t.seq[len(t.seq)-1]
	}
	if len(end.frames) != 1 {
		v.add(c, false, "ES-M", t.fn, "marker or stack mark left open at end", last, "", fmt.Sprintf("the form ends with an open marker / stack mark: %s in [%s]", end, seqString(t.seq)))
		return
	}
	d := end.frames[0].depth
	if end.frames[0].fuzzy {
		v.add(c, false, "ES-D", t.fn, "operand count unknown at end", last, "", "an Explode outside a marker makes the number of values the form leaves unknown")
		return
	}
	if len(t.seq) == 0 {
		return // the empty form (no expressions): nothing emitted, nothing left
	}
	want := linConst(1)
	what := "leaves exactly one value"
	if c.es != nil && c.es.recursiveHelper(t.fn) {
		// a recursive helper of a form generator (what used to be, or could be, a local recursive closure:
		// the walker over the file names of an include): it is not a form, and how many values one call of it
		// leaves depends on the shape of its argument; its callers' forms are judged, as with a closure
		return
	}
	switch {
	case t.fn == "Generator.GenerateAll" || t.fn == "Generator.GenerateCallArgsForFunction":
		// n values by contract (the callers account for them: Call[n] / PrepareCall[n])
		if len(t.seq) == 1 && t.seq[0].kind == "Rep" && t.seq[0].countLin != nil {
			want = t.seq[0].countLin
		}
		what = "leaves one value per element"
	case t.fn == "Zlisp.LoadExpressions" && t.seq[0].kind == "PopInstr":
		want = linConst(0) // the resume pop removes the previous result first
		what = "resume pop + one value"
	case t.fn == "buildSexpFun" || t.fn == "FuncBuilder":
		return // checked at Return
	}
	shape := ""
	if len(t.seq) > 0 {
		shape = " starting " + atomDesc(t.seq[0])
	}
	v.add(c, d.eq(want), "ES-D", t.fn, what+" ("+t.what+shape+")", last,
		"net operand-stack effect "+d.String(),
		fmt.Sprintf("the compiled form nets %s operand(s) instead of %s: [%s]", d, want, seqString(t.seq)))
}

func checkIXdebug(c *Ctx) {
	c.checkIX("IX-DATA", "IX-PC")
}

func init() {
	register("USR", true, func(c *Ctx) { c.checkBuiltinsNeutral("C04-USR") })
}

// checkGeneratorCtors: ES-CTOR. The abstract interpreter does not execute the
// generator's constructors and Reset; it assumes what their bodies establish:
// a new (sub)generator starts with Tail == false and scopes == 0, a
// sub-generator shares its parent's knownFunctions, and Reset empties the
// instruction buffer and clears Tail and scopes without touching anything
// else. Those assumptions are checked here against the bodies.
func (c *Ctx) checkGeneratorCtors(rule string) {
	genT := c.named("Generator")
	if genT == nil {
		c.undecided(rule, "Generator", "type", token.NoPos, "Generator not found")
		return
	}
	tailF, scopesF, knownF, instrF := c.field("Generator", "Tail"), c.field("Generator", "scopes"), c.field("Generator", "knownFunctions"), c.field("Generator", "instructions")
	if tailF == nil || scopesF == nil || knownF == nil || instrF == nil {
		c.undecided(rule, "Generator", "fields", token.NoPos, "Tail / scopes / knownFunctions / instructions not found")
		return
	}
	storesTo := func(f *ssa.Function, fld *types.Var) []*ssa.Store {
		var out []*ssa.Store
		eachInstr(f, func(b *ssa.BasicBlock, i int, in ssa.Instruction) {
			if st, ok := in.(*ssa.Store); ok {
				if fa, ok := st.Addr.(*ssa.FieldAddr); ok && faField(fa) == fld {
					out = append(out, st)
				}
			}
		})
		return out
	}
	isZero := func(v ssa.Value) bool {
		k, ok := v.(*ssa.Const)
		if !ok {
			return false
		}
		return k.Value == nil || k.Value.String() == "false" || k.Value.String() == "0"
	}
	wholeStructStore := func(f *ssa.Function) token.Pos {
		pos := token.NoPos
		eachInstr(f, func(b *ssa.BasicBlock, i int, in ssa.Instruction) {
			if st, ok := in.(*ssa.Store); ok {
				if nm, ok := st.Val.Type().(*types.Named); ok && nm == genT {
					pos = st.Pos()
				}
			}
		})
		return pos
	}
	for _, name := range []string{"NewGenerator", "Generator.NewSubGenerator"} {
		f := c.mustFn(rule, name)
		if f == nil {
			continue
		}
		okStart := true
		for _, fld := range []*types.Var{tailF, scopesF} {
			for _, st := range storesTo(f, fld) {
				if !isZero(st.Val) {
					okStart = false
				}
			}
		}
		c.check(okStart && !wholeStructStore(f).IsValid(), rule, name, "starts outside tail position with no scope counted", f.Pos(),
			"the new generator's Tail and scopes are left at (or set to) false and 0: callers that need the parent's values copy them explicitly, and the arms of and/or that must not be in tail position rely on the default",
			"the constructor gives the new generator a tail flag or scope count other than false / 0 (copied from its parent): code compiled by callers that rely on the fresh defaults, such as the non-last arms of and/or, is compiled in tail position or with the wrong number of scopes to unwind")
	}
	if f := c.fn("Generator.NewSubGenerator"); f != nil {
		shares := false
		for _, st := range storesTo(f, knownF) {
			if base, ok := loadOfField(st.Val, knownF); ok && len(f.Params) > 0 && base == ssa.Value(f.Params[0]) {
				shares = true
			}
		}
		c.check(shares, rule, "Generator.NewSubGenerator", "shares the parent's known functions", f.Pos(),
			"the sub-generator's knownFunctions is the parent's map", "a sub-generator does not share its parent's knownFunctions: a self call compiled inside cond / and / or does not know the function being compiled, so its lazy formals are compiled strict")
		// if the generator records the function whose body it compiles (the tail self-call prepares its arguments for
		// that function), a sub-generator compiles part of the same body and must carry the same record
		if selfF := c.field("Generator", "self"); selfF != nil {
			inherits := false
			for _, st := range storesTo(f, selfF) {
				if base, ok := loadOfField(st.Val, selfF); ok && len(f.Params) > 0 && base == ssa.Value(f.Params[0]) {
					inherits = true
				}
			}
			c.check(inherits, rule, "Generator.NewSubGenerator", "carries the function being compiled", f.Pos(),
				"the sub-generator records the same function as its parent", "a sub-generator does not inherit the record of the function being compiled: a tail self-call inside cond / and / or / for falls back on the by-name table and prepares its arguments for whatever of that name was compiled last")
		}
	}
	if f := c.mustFn(rule, "Generator.Reset"); f != nil {
		okReset := !wholeStructStore(f).IsValid()
		clears := map[*types.Var]bool{}
		eachInstr(f, func(b *ssa.BasicBlock, i int, in ssa.Instruction) {
			st, ok := in.(*ssa.Store)
			if !ok {
				return
			}
			fa, ok := st.Addr.(*ssa.FieldAddr)
			if !ok {
				return
			}
			fld := faField(fa)
			switch fld {
			case tailF, scopesF:
				if isZero(st.Val) {
					clears[fld] = true
				} else {
					okReset = false
				}
			case instrF:
				clears[fld] = true
			default:
				okReset = false // touches something the interpreter assumes it keeps (funcname, knownFunctions, env)
			}
		})
		c.check(okReset && clears[tailF] && clears[scopesF] && clears[instrF], rule, "Generator.Reset", "clears the buffer, the tail flag and the scope count, nothing else", f.Pos(),
			"Reset empties instructions, sets Tail = false and scopes = 0 and leaves funcname and knownFunctions alone",
			"Reset does something other than emptying the buffer and clearing Tail and scopes (it keeps one of them, or replaces the generator wholesale and with it funcname / the shared knownFunctions): the pieces of a cond are then compiled with a stale tail flag, a wrong scope count or without knowing the function being compiled")
	}
}
