package main

// eu.go: EU — error-use analysis.  For every call (in a scope of caller
// functions) to a zygo function that returns an error, classify what happens
// to the error value.

import (
	"go/token"
	"go/types"
	"path/filepath"

	"golang.org/x/tools/go/ssa"
)

type errUse struct {
	fn     *ssa.Function
	call   ssa.CallInstruction
	callee string
	kind   string // dropped | unused | ok | nopropagate
	detail string
}

func (c *Ctx) fileOf(f *ssa.Function) string {
	p := f.Pos()
	for !p.IsValid() && f.Parent() != nil {
		f = f.Parent()
		p = f.Pos()
	}
	if !p.IsValid() {
		return ""
	}
	return filepath.Base(c.Fset.Position(p).Filename)
}

// errorValueOf returns the SSA value holding the error result of call, or nil
// when the result is discarded. ok=false when the callee has no error result.
func errorValueOf(ci ssa.CallInstruction) (val ssa.Value, hasErr bool) {
	sig := ci.Common().Signature()
	idx := errResultIndex(sig)
	if idx < 0 {
		return nil, false
	}
	v := ci.Value()
	if v == nil {
		return nil, true // go/defer
	}
	if sig.Results().Len() == 1 {
		if v.Referrers() == nil || len(nonDebugRefs(v)) == 0 {
			return nil, true
		}
		return v, true
	}
	for _, r := range *v.Referrers() {
		if ex, ok := r.(*ssa.Extract); ok && ex.Index == idx {
			if len(nonDebugRefs(ex)) == 0 {
				return nil, true
			}
			return ex, true
		}
	}
	return nil, true
}

func nonDebugRefs(v ssa.Value) []ssa.Instruction {
	var out []ssa.Instruction
	if v.Referrers() == nil {
		return out
	}
	for _, r := range *v.Referrers() {
		if _, ok := r.(*ssa.DebugRef); ok {
			continue
		}
		out = append(out, r)
	}
	return out
}

// errConsumed: the error value e reaches a consumer (return, nil test, call
// argument, store, panic, interface conversion feeding one of those).
func errConsumed(e ssa.Value, seen map[ssa.Value]bool) (consumed bool, tests []*ssa.If) {
	if seen[e] {
		return false, nil
	}
	seen[e] = true
	for _, r := range nonDebugRefs(e) {
		switch x := r.(type) {
		case *ssa.Return, *ssa.Store, *ssa.Panic, *ssa.MapUpdate, *ssa.Send:
			consumed = true
		case ssa.CallInstruction:
			consumed = true
		case *ssa.BinOp:
			if x.Op == token.EQL || x.Op == token.NEQ {
				consumed = true
				for _, r2 := range nonDebugRefs(x) {
					if iff, ok := r2.(*ssa.If); ok && (isNilConst(x.X) || isNilConst(x.Y)) {
						tests = append(tests, iff)
					}
				}
			}
		case *ssa.Phi:
			c2, t2 := errConsumed(x, seen)
			consumed = consumed || c2
			tests = append(tests, t2...)
		case *ssa.MakeInterface, *ssa.ChangeInterface, *ssa.TypeAssert, *ssa.MakeClosure:
			consumed = true
		case *ssa.Extract:
			c2, t2 := errConsumed(x, seen)
			consumed = consumed || c2
			tests = append(tests, t2...)
		default:
			consumed = true
		}
	}
	return
}

// errorUses analyses every call in f (and closures) to a callee accepted by
// calleeOK that returns an error.
func (c *Ctx) errorUses(f *ssa.Function, calleeOK func(cc *ssa.CallCommon) (string, bool)) []errUse {
	var out []errUse
	for _, g := range withClosures(f) {
		eachInstr(g, func(b *ssa.BasicBlock, i int, in ssa.Instruction) {
			ci, ok := in.(ssa.CallInstruction)
			if !ok {
				return
			}
			name, ok := calleeOK(ci.Common())
			if !ok {
				return
			}
			e, hasErr := errorValueOf(ci)
			if !hasErr {
				return
			}
			if _, isDefer := in.(*ssa.Defer); isDefer {
				return
			}
			if e == nil {
				out = append(out, errUse{g, ci, name, "dropped", "the error result is discarded (call used as a statement, or assigned to _ or to a variable that is overwritten before it is read)"})
				return
			}
			consumed, tests := errConsumed(e, map[ssa.Value]bool{})
			if !consumed {
				out = append(out, errUse{g, ci, name, "unused", "the error value is never tested, returned or passed on"})
				return
			}
			// path rule: no path from the call to a success exit on which the
			// error value is neither consumed nor merged into a value that is
			if lost, where := errLostOnPath(e); lost {
				out = append(out, errUse{g, ci, name, "lostonpath", "there is a path to a success return (" + c.pos(where) + ") on which this error is never looked at: it is overwritten or abandoned before any test"})
				return
			}
			// loop rule: an error produced inside a loop must not be carried round the loop: if every nil-test
			// of it sends the non-nil case on to the next iteration, the next call overwrites it and only the
			// last iteration's error can reach the caller
			if loop := loopOf(b); loop != nil && len(tests) > 0 {
				staysInLoop := true
				for _, iff := range tests {
					bo := iff.Cond.(*ssa.BinOp)
					nonNil := iff.Block().Succs[0]
					if bo.Op == token.EQL {
						nonNil = iff.Block().Succs[1]
					}
					if !loop[iff.Block()] {
						staysInLoop = false // tested after the loop: handled by the path rule
						continue
					}
					// does the non-nil side come back to this call without leaving the function?
					if !(nonNil == b || blockReaches(nonNil, b)) || !loop[nonNil] {
						staysInLoop = false
					}
					// a further test on the non-nil side may single out one expected error (a sentinel that is
					// handled by going round again) and return every other one: the failure is not swallowed
					if idx := errResultIndex(g.Signature); idx >= 0 && staysInLoop {
						// ... on a path that does not go round the loop again (through its header)
						header := map[*ssa.BasicBlock]bool{}
						for lb := range loop {
							for _, p := range lb.Preds {
								if !loop[p] {
									header[lb] = true
								}
							}
						}
						away := reachableAvoiding(nonNil, func(x *ssa.BasicBlock) bool { return x == b || header[x] })
						for _, r := range returnsOf(g) {
							if !away[r.Block()] || idx >= len(r.Results) {
								continue
							}
							for _, leaf := range phiLeaves(r.Results[idx]) {
								if leaf == e {
									staysInLoop = false
								}
							}
						}
					}
				}
				// and the value is what the function finally returns
				returned := false
				if idx := errResultIndex(g.Signature); idx >= 0 {
					for _, r := range returnsOf(g) {
						if loop[r.Block()] || idx >= len(r.Results) {
							continue
						}
						// a return under `e == nil` hands back a nil error, not the failure
						underNil := guardedBy(r.Block(), func(cond ssa.Value) (bool, bool) {
							bo, ok := cond.(*ssa.BinOp)
							if !ok || (bo.Op != token.EQL && bo.Op != token.NEQ) || !isNilConst(bo.Y) || bo.X != e {
								return false, false
							}
							return true, bo.Op == token.EQL
						})
						if underNil {
							continue
						}
						for _, leaf := range phiLeaves(r.Results[idx]) {
							if leaf == e {
								returned = true
							}
						}
					}
				}
				if staysInLoop && returned {
					out = append(out, errUse{g, ci, name, "overwritteninloop", "inside a loop the error is tested but the failing case goes on to the next iteration, where the next call overwrites it: only the last iteration's error is returned, earlier failures are silently swallowed while the loop keeps running its side effects"})
					return
				}
			}
			// propagation: on the non-nil branch, returns carry a non-nil error
			if idx := errResultIndex(g.Signature); idx >= 0 {
				for _, iff := range tests {
					bo := iff.Cond.(*ssa.BinOp)
					nonNil := iff.Block().Succs[0]
					if bo.Op == token.EQL {
						nonNil = iff.Block().Succs[1]
					}
					if len(nonNil.Preds) != 1 {
						continue
					}
					for _, r := range returnsOf(g) {
						if nonNil.Dominates(r.Block()) && idx < len(r.Results) && isNilConst(r.Results[idx]) && !blockTestsOtherErr(r.Block(), nonNil) {
							out = append(out, errUse{g, ci, name, "nopropagate", "on the branch where the error is non-nil the function returns a nil error at " + c.pos(r.Pos())})
							return
						}
					}
				}
			}
			out = append(out, errUse{g, ci, name, "ok", ""})
		})
	}
	return out
}

// blockTestsOtherErr: between the non-nil branch head and the return block
// another condition intervenes (the error was compared with a sentinel and
// deliberately tolerated); in that case the nil return is not on the plain
// "err != nil" path and is not reported by the simple rule.
func blockTestsOtherErr(ret, head *ssa.BasicBlock) bool {
	return ret != head
}

func zygoCallee(cc *ssa.CallCommon) (string, bool) {
	if cc.IsInvoke() {
		if cc.Method.Pkg() != nil && cc.Method.Pkg().Path() == zygoPath {
			recv := cc.Value.Type().String()
			if n, ok := cc.Value.Type().(*types.Named); ok {
				recv = n.Obj().Name()
			}
			return recv + "." + cc.Method.Name(), true
		}
		return "", false
	}
	if f := cc.StaticCallee(); f != nil {
		if fnPkgPath(f) == zygoPath {
			return fnName(f), true
		}
		return "", false
	}
	// dynamic call of a function value: local closures and fields of func type declared in zygo
	if _, isBuiltin := cc.Value.(*ssa.Builtin); isBuiltin {
		return "", false
	}
	return "dynamic " + shortStr(cc.Value.Name(), 30), true
}

// errLostOnPath: is there a CFG path from the definition of e to a success
// exit (a return whose error operand is the nil constant, or any return of a
// function without an error result) along which e is not used by any
// instruction, counting a phi as a use only along the edge that carries e?
func errLostOnPath(e ssa.Value) (bool, token.Pos) {
	def, ok := e.(ssa.Instruction)
	if !ok {
		return false, token.NoPos
	}
	f := def.Parent()
	idx := errResultIndex(f.Signature)
	directUse := map[*ssa.BasicBlock]int{} // block -> smallest index of a non-phi use
	phiEdge := map[[2]*ssa.BasicBlock]bool{}
	for _, r := range nonDebugRefs(e) {
		if ph, ok := r.(*ssa.Phi); ok {
			for i, edge := range ph.Edges {
				if edge == e {
					phiEdge[[2]*ssa.BasicBlock{ph.Block().Preds[i], ph.Block()}] = true
				}
			}
			continue
		}
		b := r.Block()
		i := instrIndex(r)
		if old, ok := directUse[b]; !ok || i < old {
			directUse[b] = i
		}
	}
	// DFS from the definition
	type state struct {
		b     *ssa.BasicBlock
		start int
	}
	seen := map[*ssa.BasicBlock]bool{}
	var lostAt token.Pos
	var walk func(b *ssa.BasicBlock, start int) bool
	walk = func(b *ssa.BasicBlock, start int) bool {
		if u, ok := directUse[b]; ok && u >= start {
			return false
		}
		if len(b.Succs) == 0 {
			// exit block
			if len(b.Instrs) > 0 {
				if r, ok := b.Instrs[len(b.Instrs)-1].(*ssa.Return); ok {
					if idx < 0 || (idx < len(r.Results) && isNilConst(r.Results[idx])) {
						lostAt = r.Pos()
						return true
					}
				}
			}
			return false // panic or error return
		}
		for _, s := range b.Succs {
			if phiEdge[[2]*ssa.BasicBlock{b, s}] {
				continue
			}
			if seen[s] {
				continue
			}
			seen[s] = true
			if walk(s, 0) {
				return true
			}
		}
		return false
	}
	db := def.Block()
	if walk(db, instrIndex(def)+1) {
		return true, lostAt
	}
	return false, token.NoPos
}
