package main

// helpers.go: CF / WM primitives over go/ssa shared by the rules.

import (
	"go/token"
	"go/types"
	"sort"
	"strings"

	"golang.org/x/tools/go/ssa"
	"golang.org/x/tools/go/ssa/ssautil"
)

// zygoFuncs returns every function (incl. closures) of the zygo package,
// sorted by name for deterministic reports.
func (c *Ctx) zygoFuncs() []*ssa.Function {
	if c.zfuncs != nil {
		return c.zfuncs
	}
	var out []*ssa.Function
	for f := range ssautil.AllFunctions(c.Prog) {
		if fnPkgPath(f) == zygoPath && f.Synthetic == "" {
			out = append(out, f)
		}
	}
	sort.Slice(out, func(i, j int) bool {
		if fnName(out[i]) != fnName(out[j]) {
			return fnName(out[i]) < fnName(out[j])
		}
		return out[i].Pos() < out[j].Pos()
	})
	c.zfuncs = out
	return out
}

func eachInstr(f *ssa.Function, fn func(b *ssa.BasicBlock, i int, in ssa.Instruction)) {
	for _, b := range f.Blocks {
		for i, in := range b.Instrs {
			fn(b, i, in)
		}
	}
}

// withClosures returns f and all functions nested in it.
func withClosures(f *ssa.Function) []*ssa.Function {
	out := []*ssa.Function{f}
	for _, a := range f.AnonFuncs {
		out = append(out, withClosures(a)...)
	}
	return out
}

func structOfPtr(t types.Type) *types.Struct {
	if p, ok := t.Underlying().(*types.Pointer); ok {
		if s, ok := p.Elem().Underlying().(*types.Struct); ok {
			return s
		}
	}
	return nil
}

// faField returns the struct field addressed by a FieldAddr.
func faField(fa *ssa.FieldAddr) *types.Var {
	if s := structOfPtr(fa.X.Type()); s != nil {
		return s.Field(fa.Field)
	}
	return nil
}

func fField(fl *ssa.Field) *types.Var {
	if s, ok := fl.X.Type().Underlying().(*types.Struct); ok {
		return s.Field(fl.Field)
	}
	return nil
}

// loadOfField: v is a load (*p.f) or value-field read of fld; returns the base.
func loadOfField(v ssa.Value, fld *types.Var) (ssa.Value, bool) {
	switch x := v.(type) {
	case *ssa.UnOp:
		if x.Op == token.MUL {
			if fa, ok := x.X.(*ssa.FieldAddr); ok && faField(fa) == fld {
				return fa.X, true
			}
		}
	case *ssa.Field:
		if fField(x) == fld {
			return x.X, true
		}
	}
	return nil, false
}

// derivesFromField: v is a load of fld, possibly through slicing / phi / change of type.
func derivesFromField(v ssa.Value, fld *types.Var, depth int) bool {
	if depth > 6 {
		return false
	}
	if _, ok := loadOfField(v, fld); ok {
		return true
	}
	switch x := v.(type) {
	case *ssa.Slice:
		return derivesFromField(x.X, fld, depth+1)
	case *ssa.ChangeType:
		return derivesFromField(x.X, fld, depth+1)
	case *ssa.Phi:
		for _, e := range x.Edges {
			if derivesFromField(e, fld, depth+1) {
				return true
			}
		}
	}
	return false
}

type writeSite struct {
	fn   *ssa.Function
	in   ssa.Instruction
	kind string // store | mapupdate | elemstore | delete | append-store
}

// fieldWrites enumerates, over the zygo package, every instruction that
// changes field fld of any value: a store to the field, a map update or
// delete on the map held in the field, a store to an element of the
// slice/array held in the field.
func (c *Ctx) fieldWrites(fld *types.Var) []writeSite {
	var out []writeSite
	for _, f := range c.zygoFuncs() {
		eachInstr(f, func(b *ssa.BasicBlock, i int, in ssa.Instruction) {
			switch x := in.(type) {
			case *ssa.Store:
				if fa, ok := x.Addr.(*ssa.FieldAddr); ok && faField(fa) == fld {
					out = append(out, writeSite{f, in, "store"})
				}
				if ia, ok := x.Addr.(*ssa.IndexAddr); ok {
					if derivesFromField(ia.X, fld, 0) {
						out = append(out, writeSite{f, in, "elemstore"})
					}
					if fa, ok := ia.X.(*ssa.FieldAddr); ok && faField(fa) == fld { // array field
						out = append(out, writeSite{f, in, "elemstore"})
					}
				}
			case *ssa.MapUpdate:
				if derivesFromField(x.Map, fld, 0) {
					out = append(out, writeSite{f, in, "mapupdate"})
				}
			case *ssa.Call:
				if bi, ok := x.Call.Value.(*ssa.Builtin); ok && bi.Name() == "delete" && len(x.Call.Args) > 0 {
					if derivesFromField(x.Call.Args[0], fld, 0) {
						out = append(out, writeSite{f, in, "delete"})
					}
				}
			}
		})
	}
	return out
}

// callsOf lists call instructions in f (not its closures) whose static callee is g.
func callsOf(f *ssa.Function, g *ssa.Function) []ssa.CallInstruction {
	var out []ssa.CallInstruction
	eachInstr(f, func(b *ssa.BasicBlock, i int, in ssa.Instruction) {
		if ci, ok := in.(ssa.CallInstruction); ok && ci.Common().StaticCallee() == g {
			out = append(out, ci)
		}
	})
	return out
}

// callers lists (function, call) pairs over the zygo package (and cmd) calling g statically.
func (c *Ctx) callersOf(g *ssa.Function) map[*ssa.Function][]ssa.CallInstruction {
	out := map[*ssa.Function][]ssa.CallInstruction{}
	for _, f := range c.zygoFuncs() {
		if cs := callsOf(f, g); len(cs) > 0 {
			out[f] = cs
		}
	}
	return out
}

func instrIndex(in ssa.Instruction) int {
	for i, x := range in.Block().Instrs {
		if x == in {
			return i
		}
	}
	return -1
}

// dominatesInstr: a executes before b on every path to b.
func dominatesInstr(a, b ssa.Instruction) bool {
	if a.Block() == b.Block() {
		return instrIndex(a) < instrIndex(b)
	}
	return a.Block().Dominates(b.Block())
}

// blockReaches: is there a CFG path from block a to block b (a==b counts only via a cycle unless same).
func blockReaches(a, b *ssa.BasicBlock) bool {
	seen := map[*ssa.BasicBlock]bool{}
	stack := []*ssa.BasicBlock{a}
	for len(stack) > 0 {
		x := stack[len(stack)-1]
		stack = stack[:len(stack)-1]
		for _, s := range x.Succs {
			if s == b {
				return true
			}
			if !seen[s] {
				seen[s] = true
				stack = append(stack, s)
			}
		}
	}
	return false
}

// reachableAvoiding: blocks reachable from `from` (exclusive start semantics:
// from itself is included) without entering any block for which stop is true.
func reachableAvoiding(from *ssa.BasicBlock, stop func(*ssa.BasicBlock) bool) map[*ssa.BasicBlock]bool {
	seen := map[*ssa.BasicBlock]bool{}
	var stack []*ssa.BasicBlock
	if !stop(from) {
		seen[from] = true
		stack = append(stack, from)
	}
	for len(stack) > 0 {
		x := stack[len(stack)-1]
		stack = stack[:len(stack)-1]
		for _, s := range x.Succs {
			if !seen[s] && !stop(s) {
				seen[s] = true
				stack = append(stack, s)
			}
		}
	}
	return seen
}

// returnedValue: result i of a return, looking through the spill that a
// function with a defer gets (results are stored to locals, the deferred calls
// run, the locals are loaded and returned).
func returnedValue(r *ssa.Return, i int) ssa.Value {
	if i >= len(r.Results) {
		return nil
	}
	v := r.Results[i]
	u, ok := v.(*ssa.UnOp)
	if !ok || u.Op != token.MUL {
		return v
	}
	al, ok := u.X.(*ssa.Alloc)
	if !ok {
		return v
	}
	blk := r.Block()
	for j := len(blk.Instrs) - 1; j >= 0; j-- {
		if st, ok := blk.Instrs[j].(*ssa.Store); ok && st.Addr == ssa.Value(al) {
			return st.Val
		}
	}
	return v
}

// returnsOf lists the Return instructions of f.
func returnsOf(f *ssa.Function) []*ssa.Return {
	var out []*ssa.Return
	eachInstr(f, func(b *ssa.BasicBlock, i int, in ssa.Instruction) {
		if r, ok := in.(*ssa.Return); ok {
			out = append(out, r)
		}
	})
	return out
}

func isNilConst(v ssa.Value) bool {
	k, ok := v.(*ssa.Const)
	return ok && k.Value == nil
}

func isErrorType(t types.Type) bool {
	n, ok := t.(*types.Named)
	return ok && n.Obj().Pkg() == nil && n.Obj().Name() == "error"
}

// errResultIndex returns the index of the (last) error result of sig, or -1.
func errResultIndex(sig *types.Signature) int {
	r := sig.Results()
	for i := r.Len() - 1; i >= 0; i-- {
		if isErrorType(r.At(i).Type()) {
			return i
		}
	}
	return -1
}

// condBranch: if block b ends in `if cond`, returns (cond, trueSucc, falseSucc).
func condBranch(b *ssa.BasicBlock) (ssa.Value, *ssa.BasicBlock, *ssa.BasicBlock) {
	if len(b.Instrs) == 0 {
		return nil, nil, nil
	}
	if iff, ok := b.Instrs[len(b.Instrs)-1].(*ssa.If); ok {
		return iff.Cond, b.Succs[0], b.Succs[1]
	}
	return nil, nil, nil
}

// stripNot removes leading boolean negations, reporting whether the count was odd.
func stripNot(v ssa.Value) (ssa.Value, bool) {
	neg := false
	for {
		u, ok := v.(*ssa.UnOp)
		if !ok || u.Op != token.NOT {
			return v, neg
		}
		neg = !neg
		v = u.X
	}
}

// guardedBy: block blk is dominated by the successor of an `if` whose
// condition satisfies pred; want says which outcome (true/false branch) must
// dominate blk.
func guardedBy(blk *ssa.BasicBlock, pred func(cond ssa.Value) (matches bool, outcome bool)) bool {
	f := blk.Parent()
	for _, b := range f.Blocks {
		cond, t, e := condBranch(b)
		if cond == nil {
			continue
		}
		core, neg := stripNot(cond)
		m, outcome := pred(core)
		if !m {
			continue
		}
		if neg {
			outcome = !outcome
		}
		target := t
		other := e
		if !outcome {
			target, other = e, t
		}
		// target must dominate blk and not be reachable from the other side without passing b
		if target != other && target.Dominates(blk) && len(target.Preds) == 1 {
			return true
		}
	}
	return false
}

func shortStr(s string, n int) string {
	s = strings.Join(strings.Fields(s), " ")
	if len(s) > n {
		return s[:n] + "…"
	}
	return s
}

// calleeName gives a printable name for a call's target.
func calleeName(cc *ssa.CallCommon) string {
	if cc.IsInvoke() {
		return "invoke " + cc.Method.Name()
	}
	if f := cc.StaticCallee(); f != nil {
		return fnName(f)
	}
	if b, ok := cc.Value.(*ssa.Builtin); ok {
		return b.Name()
	}
	return "dynamic(" + cc.Value.Type().String() + ")"
}

// addrIsRead: the address value v (a FieldAddr or something derived from it)
// is used for anything other than being stored through.
func addrIsRead(v ssa.Value, depth int) bool {
	refs := v.Referrers()
	if refs == nil || depth > 4 {
		return true
	}
	for _, r := range *refs {
		switch x := r.(type) {
		case *ssa.Store:
			if x.Addr == v {
				continue
			}
			return true // the address itself is stored somewhere
		case *ssa.IndexAddr:
			if x.X == v && addrIsRead(x, depth+1) {
				return true
			}
		case *ssa.FieldAddr:
			if x.X == v && addrIsRead(x, depth+1) {
				return true
			}
		case *ssa.DebugRef:
			continue
		default:
			return true
		}
	}
	return false
}

type readSite struct {
	fn *ssa.Function
	in ssa.Instruction
}

// fieldReads enumerates reads of fld over the zygo package, skipping the
// functions in `except`.
func (c *Ctx) fieldReads(fld *types.Var, except map[*ssa.Function]bool) []readSite {
	var out []readSite
	for _, f := range c.zygoFuncs() {
		if except[f] {
			continue
		}
		eachInstr(f, func(b *ssa.BasicBlock, i int, in ssa.Instruction) {
			switch x := in.(type) {
			case *ssa.FieldAddr:
				if faField(x) == fld && addrIsRead(x, 0) {
					out = append(out, readSite{f, in})
				}
			case *ssa.Field:
				if fField(x) == fld {
					out = append(out, readSite{f, in})
				}
			}
		})
	}
	return out
}

// methodCallsOnField lists calls in f whose receiver (first argument or invoke
// value) is a load of field fld; returns callee names.
func methodCallsOnField(f *ssa.Function, fld *types.Var) []ssa.CallInstruction {
	var out []ssa.CallInstruction
	eachInstr(f, func(b *ssa.BasicBlock, i int, in ssa.Instruction) {
		ci, ok := in.(ssa.CallInstruction)
		if !ok {
			return
		}
		cc := ci.Common()
		var recv ssa.Value
		if cc.IsInvoke() {
			recv = cc.Value
		} else if cc.StaticCallee() != nil && cc.StaticCallee().Signature.Recv() != nil && len(cc.Args) > 0 {
			recv = cc.Args[0]
		}
		if recv == nil {
			return
		}
		if _, ok := loadOfField(recv, fld); ok {
			out = append(out, ci)
		}
	})
	return out
}

func isMethodOf(f *ssa.Function, named *types.Named) bool {
	for f.Parent() != nil {
		f = f.Parent()
	}
	recv := f.Signature.Recv()
	if recv == nil {
		return false
	}
	t := recv.Type()
	if p, ok := t.(*types.Pointer); ok {
		t = p.Elem()
	}
	return types.Identical(t, named)
}

// structFields lists the fields of a named struct type.
func structFields(n *types.Named) []*types.Var {
	st, ok := n.Underlying().(*types.Struct)
	if !ok {
		return nil
	}
	var out []*types.Var
	for i := 0; i < st.NumFields(); i++ {
		out = append(out, st.Field(i))
	}
	return out
}

// constIntOf returns the constant integer value of v if it is one.
func constIntOf(v ssa.Value) (int64, bool) {
	k, ok := v.(*ssa.Const)
	if !ok || k.Value == nil {
		return 0, false
	}
	if k.Value.Kind() != 3 { // constant.Int
		return 0, false
	}
	return k.Int64(), true
}

// staticReach: functions reachable from f through static calls only (within the zygo package).
func staticReach(f *ssa.Function) map[*ssa.Function]bool {
	seen := map[*ssa.Function]bool{f: true}
	work := []*ssa.Function{f}
	for len(work) > 0 {
		x := work[len(work)-1]
		work = work[:len(work)-1]
		for _, g := range withClosures(x) {
			eachInstr(g, func(b *ssa.BasicBlock, i int, in ssa.Instruction) {
				if ci, ok := in.(ssa.CallInstruction); ok {
					if callee := ci.Common().StaticCallee(); callee != nil && fnPkgPath(callee) == zygoPath && !seen[callee] {
						seen[callee] = true
						work = append(work, callee)
					}
				}
			})
		}
	}
	return seen
}
