package main

// ix.go: IX — instruction effect extractor.  For every type implementing
// Instruction, the data-stack delta and the number of program-counter writes
// on the success paths of Execute are computed from go/ssa and compared with
// the effect table that the emission-sequence verifier (esv.go) assumes.

import (
	"fmt"
	"go/token"
	"go/types"
	"sort"
	"strings"

	"golang.org/x/tools/go/ssa"
)

type ixEffect struct {
	kind      string
	fn        *ssa.Function
	deltas    map[int]bool // set of data-stack deltas over success paths
	unknown   bool         // a path has an effect that is not a constant (loop, PopExpressions(n), delegation)
	pcWrites  map[int]bool // number of direct stores to env.pc over success paths
	delegates bool         // calls a routine that sets pc itself
	why       string
}

// ixTable: the effects assumed by the verifier. fixed kinds only.
var ixTable = map[string]int{
	"PushInstr": 1, "PushLazyArgInstr": 1, "EnvToStackInstr": 1, "DupInstr": 1, "CreateClosureInstr": 1,
	"PopInstr": -1, "PopStackPutEnvInstr": -1, "UpdateInstr": -1, "BindlistInstr": -1, "AssignInstr": -1, "BranchInstr": -1,
	"JumpInstr": 0, "GotoInstr": 0, "LabelInstr": 0, "LoopStartInstr": 0, "DebugInstr": 0,
	"AddScopeInstr": 0, "AddFuncScopeInstr": 0, "RemoveScopeInstr": 0, "ReturnInstr": 0, "BreakInstr": 0, "ContinueInstr": 0,
	"PopScopeTransferToDataStackInstr": 1, "PushStackmarkInstr": 1,
}

// kinds whose effect depends on run-time data; each with the structural fact checked instead
var ixDynamic = map[string]string{
	"SquashInstr": "pops to the marker, pushes one list", "VectorizeInstr": "pops to the marker, pushes one array", "HashizeInstr": "pops to the marker, pushes one hash",
	"ExplodeInstr": "pops one list, pushes its elements", "PopUntilStackmarkInstr": "pops to the stack mark, keeps the mark", "ClearStackmarkInstr": "pops to the stack mark and the mark",
	"CallExprInstr": "evaluates callee and arguments, one result", "CallInstr": "pops n arguments, one result", "DispatchInstr": "pops n+1, one result", "PrepareCallInstr": "packs a variadic tail",
}

func (c *Ctx) instructionKinds() []*types.Named {
	instr := c.named("Instruction")
	if instr == nil {
		return nil
	}
	it := instr.Underlying().(*types.Interface)
	var out []*types.Named
	sc := c.Zygo.Types.Scope()
	for _, n := range sc.Names() {
		tn, ok := sc.Lookup(n).(*types.TypeName)
		if !ok {
			continue
		}
		named, ok := tn.Type().(*types.Named)
		if !ok || types.IsInterface(named) {
			continue
		}
		if types.Implements(named, it) || types.Implements(types.NewPointer(named), it) {
			out = append(out, named)
		}
	}
	sort.Slice(out, func(i, j int) bool { return out[i].Obj().Name() < out[j].Obj().Name() })
	return out
}

func (c *Ctx) extractEffect(kind string) *ixEffect {
	f := c.fn(kind + ".Execute")
	e := &ixEffect{kind: kind, fn: f, deltas: map[int]bool{}, pcWrites: map[int]bool{}}
	if f == nil || len(f.Blocks) == 0 {
		e.unknown = true
		e.why = "Execute not found"
		return e
	}
	datastack := c.field("Zlisp", "datastack")
	pc := c.field("Zlisp", "pc")
	pcSetters := map[string]bool{"JumpInstr.Execute": true, "Zlisp.CallFunction": true, "Zlisp.CallUserFunction": true, "Zlisp.ReturnFromFunction": true, "Zlisp.CallResolved": true, "GotoInstr.Execute": true}
	type blockEff struct {
		delta   int
		unknown bool
		pcw     int
		deleg   bool
	}
	eff := map[*ssa.BasicBlock]blockEff{}
	for _, b := range f.Blocks {
		var be blockEff
		for _, in := range b.Instrs {
			switch x := in.(type) {
			case *ssa.Store:
				if fa, ok := x.Addr.(*ssa.FieldAddr); ok && faField(fa) == pc {
					be.pcw++
				}
			case ssa.CallInstruction:
				cc := x.Common()
				callee := cc.StaticCallee()
				if callee == nil {
					if cc.IsInvoke() && cc.Method.Name() == "Execute" {
						be.deleg = true
						be.unknown = true
					}
					continue
				}
				name := fnName(callee)
				if pcSetters[name] {
					be.deleg = true
				}
				if len(cc.Args) > 0 {
					if _, ok := loadOfField(cc.Args[0], datastack); ok {
						switch callee.Name() {
						case "PushExpr", "Push":
							be.delta++
						case "PopExpr", "Pop":
							be.delta--
						case "PopExpressions":
							if k, ok := constIntOf(cc.Args[1]); ok {
								be.delta -= int(k)
							} else {
								be.unknown = true
							}
						case "GetExpr", "GetExpressions", "Size", "IsEmpty", "Get", "Top", "GetTop":
						default:
							be.unknown = true
						}
						continue
					}
				}
				// calls that take env and may touch the data stack: the call machinery
				switch name {
				case "Zlisp.CallFunction", "Zlisp.CallUserFunction", "Zlisp.CallResolved", "Zlisp.wrangleOptargs", "baseConstruct", "Zlisp.EvalCallExpression", "Zlisp.PrepareCallExprArgs":
					be.unknown = true
				}
				if strings.HasSuffix(name, ".execute") {
					be.unknown = true
				}
			}
		}
		eff[b] = be
	}
	// cycles that touch the data stack make the effect data dependent
	idx := errResultIndex(f.Signature)
	onPath := map[*ssa.BasicBlock]bool{}
	var pathStack []*ssa.BasicBlock
	var walk func(b *ssa.BasicBlock, delta, pcw int, unknown, deleg bool, depth int)
	paths := 0
	walk = func(b *ssa.BasicBlock, delta, pcw int, unknown, deleg bool, depth int) {
		if paths > 4000 {
			e.unknown = true
			return
		}
		if onPath[b] {
			// a loop: data dependent only if the cycle itself touches the operand stack
			touch := false
			inCycle := false
			for _, pb := range pathStack {
				if pb == b {
					inCycle = true
				}
				if inCycle {
					if be := eff[pb]; be.delta != 0 || be.unknown {
						touch = true
					}
				}
			}
			if touch {
				e.unknown = true
			}
			return
		}
		onPath[b] = true
		pathStack = append(pathStack, b)
		defer func() { onPath[b] = false; pathStack = pathStack[:len(pathStack)-1] }()
		be := eff[b]
		delta += be.delta
		pcw += be.pcw
		unknown = unknown || be.unknown
		deleg = deleg || be.deleg
		if len(b.Succs) == 0 {
			paths++
			if len(b.Instrs) > 0 {
				if r, ok := b.Instrs[len(b.Instrs)-1].(*ssa.Return); ok {
					if isErrorReturn(r, idx) {
						return
					}
					if unknown {
						e.unknown = true
					} else {
						e.deltas[delta] = true
					}
					if deleg {
						e.delegates = true
					} else {
						e.pcWrites[pcw] = true
					}
				}
			}
			return
		}
		for _, s := range b.Succs {
			walk(s, delta, pcw, unknown, deleg, depth+1)
		}
	}
	walk(f.Blocks[0], 0, 0, false, false, 0)
	return e
}

// isErrorReturn: the return certainly carries a non-nil error.
func isErrorReturn(r *ssa.Return, idx int) bool {
	if idx < 0 || idx >= len(r.Results) {
		return false
	}
	v := r.Results[idx]
	if isNilConst(v) {
		return false
	}
	switch x := v.(type) {
	case *ssa.Call:
		if g := x.Call.StaticCallee(); g != nil {
			pk := fnPkgPath(g)
			if (pk == "fmt" && g.Name() == "Errorf") || (pk == "errors" && g.Name() == "New") {
				return true
			}
		}
	case *ssa.UnOp:
		if _, ok := x.X.(*ssa.Global); ok {
			return true
		}
	case *ssa.MakeInterface:
		return true
	}
	return errKnownNonNil(r, v)
}

// checkIX records, under the given rule name, agreement of every instruction's
// Execute with the table (data) and the single-pc-write discipline (pc).
func (c *Ctx) checkIX(ruleData, rulePC string) {
	kinds := c.instructionKinds()
	if len(kinds) < 30 {
		c.undecided(ruleData, "Instruction", "implementations", token.NoPos, fmt.Sprintf("only %d instruction kinds found", len(kinds)))
	}
	for _, k := range kinds {
		name := k.Obj().Name()
		e := c.extractEffect(name)
		pos := token.NoPos
		if e.fn != nil {
			pos = e.fn.Pos()
		}
		want, fixed := ixTable[name]
		_, dynamic := ixDynamic[name]
		if ruleData != "" {
			switch {
			case fixed:
				var ds []int
				for d := range e.deltas {
					ds = append(ds, d)
				}
				sort.Ints(ds)
				tolerated := name == "PopInstr" // pops, tolerating an empty stack
				good := !e.unknown && len(ds) == 1 && ds[0] == want
				if tolerated {
					good = !e.unknown && len(ds) >= 1 && ds[0] == want
				}
				c.check(good, ruleData, name+".Execute", "operand effect", pos,
					fmt.Sprintf("every success path changes the operand stack by %+d, as the emission verifier assumes", want),
					fmt.Sprintf("the verifier assumes %s changes the operand stack by %+d on success, but Execute has success paths with effects %v (data-dependent=%v): compiled forms are no longer operand-balanced", name, want, ds, e.unknown))
			case dynamic:
				c.ok(ruleData, name+".Execute", "operand effect", pos, "data-dependent by design: "+ixDynamic[name]).Trivial = true
			default:
				c.bad(ruleData, name+".Execute", "operand effect", pos, "instruction kind "+name+" has no row in the effect table used by the emission-sequence verifier")
			}
		}
		if rulePC != "" {
			var ws []int
			for w := range e.pcWrites {
				ws = append(ws, w)
			}
			sort.Ints(ws)
			good := (len(ws) == 1 && ws[0] == 1) || (len(ws) == 0 && e.delegates)
			if e.delegates && len(ws) == 1 && ws[0] == 1 {
				good = true
			}
			if name == "ReturnInstr" {
				// either returns its stored error (pc irrelevant: Run restores) or leaves through ReturnFromFunction
				good = e.delegates
			} else if name == "BranchInstr" {
				// ReturnInstr leaves through ReturnFromFunction; BranchInstr either jumps (delegation) or steps
				good = e.delegates && (len(ws) == 0 || (len(ws) == 1 && ws[0] == 1))
			}
			c.check(good, rulePC, name+".Execute", "program counter", pos,
				"every success path sets or advances pc exactly once (directly or through the call machinery)",
				fmt.Sprintf("%s.Execute has success paths with %v direct pc writes (delegates=%v): an instruction that does not advance pc exactly once repeats or skips code", name, ws, e.delegates))
		}
	}
}

// ---------------------------------------------------------------- C04-USR: builtins are operand-stack neutral

var vmReentry = map[string]bool{"Zlisp.Run": true, "Zlisp.Apply": true, "EvalFunction": true, "Zlisp.EvalExpressions": true, "Zlisp.EvalString": true,
	"Zlisp.CallFunction": true, "Zlisp.CallUserFunction": true, "Zlisp.CallResolved": true, "Zlisp.EvalCallExpression": true, "SexpLazyArg.Force": true,
	"Zlisp.LoadExpressions": true, "Zlisp.LoadString": true, "Zlisp.LoadStream": true}

type stackSummary struct {
	deltas  map[int]bool
	unknown bool
	touches bool
}

// stackEffectOf summarises the effect of f on the data stack of the
// interpreter it receives, over its success paths; static callees are
// summarised recursively up to depth.
func (c *Ctx) stackEffectOf(f *ssa.Function, depth int, memo map[*ssa.Function]*stackSummary) *stackSummary {
	if s, ok := memo[f]; ok {
		return s
	}
	sum := &stackSummary{deltas: map[int]bool{}}
	memo[f] = sum // recursion guard: a recursive cycle counts as neutral unless it touches
	if len(f.Blocks) == 0 {
		sum.deltas[0] = true
		return sum
	}
	datastack := c.field("Zlisp", "datastack")
	type be struct {
		delta   int
		unknown bool
		touch   bool
	}
	eff := map[*ssa.BasicBlock]be{}
	for _, b := range f.Blocks {
		var x be
		for _, in := range b.Instrs {
			ci, ok := in.(ssa.CallInstruction)
			if !ok {
				continue
			}
			if _, isDefer := in.(*ssa.Defer); isDefer {
				continue
			}
			cc := ci.Common()
			callee := cc.StaticCallee()
			if callee == nil {
				continue
			}
			if len(cc.Args) > 0 {
				if _, ok := loadOfField(cc.Args[0], datastack); ok {
					x.touch = true
					switch callee.Name() {
					case "PushExpr", "Push":
						x.delta++
					case "PopExpr", "Pop":
						x.delta--
					case "PopExpressions":
						if k, ok := constIntOf(cc.Args[1]); ok {
							x.delta -= int(k)
						} else {
							x.unknown = true
						}
					case "PushExpressions", "TruncateToSize":
						x.unknown = true
					default:
						x.touch = x.touch && false || x.touch
					}
					continue
				}
			}
			name := fnName(callee)
			if vmReentry[name] || fnPkgPath(callee) != zygoPath {
				continue
			}
			if strings.HasSuffix(name, "Instr.Execute") {
				kind := strings.TrimSuffix(name, ".Execute")
				if d, ok := ixTable[kind]; ok {
					x.delta += d
					x.touch = x.touch || d != 0
					continue
				}
			}
			if depth > 0 {
				cs := c.stackEffectOf(callee, depth-1, memo)
				if cs.touches {
					x.touch = true
					if cs.unknown || len(cs.deltas) != 1 {
						x.unknown = true
					} else {
						for d := range cs.deltas {
							x.delta += d
						}
					}
				}
			}
		}
		eff[b] = x
		if x.touch {
			sum.touches = true
		}
	}
	if !sum.touches {
		sum.deltas[0] = true
		return sum
	}
	idx := errResultIndex(f.Signature)
	onPath := map[*ssa.BasicBlock]bool{}
	var stack []*ssa.BasicBlock
	paths := 0
	var walk func(b *ssa.BasicBlock, delta int, unknown bool)
	walk = func(b *ssa.BasicBlock, delta int, unknown bool) {
		if paths > 5000 {
			sum.unknown = true
			return
		}
		if onPath[b] {
			in := false
			for _, pb := range stack {
				if pb == b {
					in = true
				}
				if in && (eff[pb].delta != 0 || eff[pb].unknown) {
					sum.unknown = true
				}
			}
			return
		}
		onPath[b] = true
		stack = append(stack, b)
		defer func() { onPath[b] = false; stack = stack[:len(stack)-1] }()
		delta += eff[b].delta
		unknown = unknown || eff[b].unknown
		if len(b.Succs) == 0 {
			paths++
			if r, ok := b.Instrs[len(b.Instrs)-1].(*ssa.Return); ok && !isErrorReturn(r, idx) {
				if unknown {
					sum.unknown = true
				} else {
					sum.deltas[delta] = true
				}
			}
			return
		}
		for _, s := range b.Succs {
			walk(s, delta, unknown)
		}
	}
	walk(f.Blocks[0], 0, false)
	return sum
}

func (c *Ctx) checkBuiltinsNeutral(rule string) {
	uf := c.named("ZlispUserFunction")
	if uf == nil {
		return
	}
	ufSig := uf.Underlying().(*types.Signature)
	memo := map[*ssa.Function]*stackSummary{}
	n, nTouch := 0, 0
	for _, f := range c.zygoFuncs() {
		sig := f.Signature
		if sig.Recv() != nil || !types.Identical(types.NewSignatureType(nil, nil, nil, sig.Params(), sig.Results(), false), ufSig) {
			continue
		}
		n++
		if vmReentry[fnName(f)] {
			continue
		}
		s := c.stackEffectOf(f, 6, memo)
		if !s.touches {
			continue
		}
		nTouch++
		var ds []int
		for d := range s.deltas {
			ds = append(ds, d)
		}
		sort.Ints(ds)
		good := !s.unknown && len(ds) == 1 && ds[0] == 0
		c.check(good, rule, fnName(f), "operand-stack neutral", f.Pos(),
			"pushes and pops of the interpreter's data stack cancel on every success path (the result is pushed by the call machinery only)",
			fmt.Sprintf("a builtin changes the interpreter's data stack itself: success-path effects %v, data-dependent=%v; the call machinery pushes the result on top of that, so operands are left behind (or eaten) per call", ds, s.unknown))
	}
	c.ok(rule, "*", "builtins examined", token.NoPos, fmt.Sprintf("%d builtin-shaped functions, %d of them touch the data stack", n, nTouch)).Trivial = true
	if n < 100 {
		c.undecided(rule, "*", "builtin count", token.NoPos, fmt.Sprintf("only %d builtin-shaped functions found", n))
	}
}
